"""The one translated piece (DESIGN 4.6): literals the property texts depend on are read out
of /repo's sources on every run and written to coq/theories/Generated/SrcConstants.v."""
import os, re

REPO = "/repo"


class TranslateError(Exception):
    pass


def _need(m, what):
    if not m:
        raise TranslateError("literal not found where expected: " + what)
    return m


def coq_str(s):
    return "[" + "; ".join(str(b) for b in s.encode()) + "]"


def codec_consts():
    src = open(os.path.join(REPO, "fastrace/src/collector/id.rs")).read()
    enc = _need(re.search(r"fn encode_w3c_traceparent\(&self\) -> String \{\s*format!\(\s*\"([^\"]*)\"", src), "encode format string")
    fm = _need(re.fullmatch(r"([^-{}]*)-\{:0(\d+)x\}-\{:0(\d+)x\}-\{:0(\d+)x\}", enc.group(1)), "encode format shape: " + enc.group(1))
    dec = _need(re.search(r"\(Some\(\"([^\"]*)\"\), Some\(trace_id\), Some\(span_id\), Some\(sampled\), None\)", src), "decode pattern")
    t = _need(re.search(r"let trace_id = u(\d+)::from_str_radix\(trace_id, (\d+)\)", src), "trace radix")
    s = _need(re.search(r"let span_id = u(\d+)::from_str_radix\(span_id, (\d+)\)", src), "span radix")
    f = _need(re.search(r"let sampled = u(\d+)::from_str_radix\(sampled, (\d+)\)\.ok\(\)\? & (\d+) == (\d+)", src), "flags radix/mask")
    if f.group(3) != f.group(4):
        raise TranslateError("flag test is not `& m == m`")
    disp = re.findall(r"write!\(f, \"\{:0(\d+)x\}\", self\.0\)", src)
    ser = re.findall(r"serializer\.serialize_str\(&format!\(\"\{:0(\d+)x\}\", self\.0\)\)", src)
    if len(disp) != 2 or len(ser) != 2:
        raise TranslateError("Display/serde format strings: found %r %r" % (disp, ser))
    return ("{| cc_version_enc := %s; cc_version_dec := %s;\n"
            "     cc_w_trace := %s; cc_w_span := %s; cc_w_flags := %s;\n"
            "     cc_radix_trace := %s; cc_radix_span := %s; cc_radix_flags := %s;\n"
            "     cc_bits_trace := %s; cc_bits_span := %s; cc_bits_flags := %s;\n"
            "     cc_flag_mask := %s;\n"
            "     cc_w_display_trace := %s; cc_w_display_span := %s;\n"
            "     cc_w_serde_trace := %s; cc_w_serde_span := %s |}") % (
        coq_str(fm.group(1)), coq_str(dec.group(1)), fm.group(2), fm.group(3), fm.group(4),
        t.group(2), s.group(2), f.group(2), t.group(1), s.group(1), f.group(1), f.group(3),
        disp[0], disp[1], ser[0], ser[1])


def jaeger_consts():
    src = open(os.path.join(REPO, "fastrace-jaeger/src/lib.rs")).read()
    m = _need(re.search(r"const MAX_UDP_PACKAGE_SIZE: usize = ([0-9_]+);", src), "MAX_UDP_PACKAGE_SIZE")
    divs = re.findall(r"/ ([0-9_]+)\) as i64", src)
    if len(divs) != 3:
        raise TranslateError("expected three `/ N) as i64` time conversions, found %r" % (divs,))
    cmp_ = _need(re.search(r"if bytes\.len\(\) (>=|>) MAX_UDP_PACKAGE_SIZE", src), "size comparison")
    one = _need(re.search(r"if batch_size <= (\d+) \{", src), "batch_size <= 1")
    half = _need(re.search(r"spans_per_batch /= (\d+);", src), "halving")
    return dict(max_udp=int(m.group(1).replace("_", "")), divs=[int(d.replace("_", "")) for d in divs],
                ge=(cmp_.group(1) == ">="), one=int(one.group(1)), half=int(half.group(1)))


_BITS = {"usize": 64, "u64": 64, "u32": 32, "u16": 16, "u8": 8, "u128": 128}


def _bits(ty, what):
    if ty not in _BITS:
        raise TranslateError("unexpected integer type %r for %s" % (ty, what))
    return _BITS[ty]


def _nontest(src):
    """the part of a source file in front of its #[cfg(test)] module"""
    i = src.find("#[cfg(test)]\nmod tests")
    return src if i < 0 else src[:i]


def epoch_consts():
    """widths of the scope stamp ("span line epoch") wherever it is stored, and the number of
    integer casts applied to it (64-bit target)"""
    stack = _nontest(open(os.path.join(REPO, "fastrace/src/local/local_span_stack.rs")).read())
    line = _nontest(open(os.path.join(REPO, "fastrace/src/local/local_span_line.rs")).read())
    counter = _need(re.search(r"next_span_line_epoch: (\w+),", stack), "LocalSpanStack.next_span_line_epoch")
    lhandle = _need(re.search(r"pub struct SpanLineHandle \{\s*(?:pub(?:\(crate\))? )?span_line_epoch: (\w+),", stack), "SpanLineHandle.span_line_epoch")
    stamp = _need(re.search(r"pub struct SpanLine \{[^}]*?\bepoch: (\w+),", line, re.S), "SpanLine.epoch")
    handle = _need(re.search(r"pub struct LocalSpanHandle \{[^}]*?span_line_epoch: (\w+),", line, re.S), "LocalSpanHandle.span_line_epoch")
    casts = len(re.findall(r"epoch(?:\(\))? as \w+", stack)) + len(re.findall(r"epoch(?:\(\))? as \w+", line))
    return {"counter": _bits(counter.group(1), "counter"), "line_handle": _bits(lhandle.group(1), "SpanLineHandle"),
            "stamp": _bits(stamp.group(1), "SpanLine.epoch"), "handle": _bits(handle.group(1), "LocalSpanHandle"),
            "casts": casts}


def generate(path):
    parts = ["(* GENERATED from /repo by lib/srcconsts.py on every run -- do not edit *)",
             "From Coq Require Import List NArith.", "From FT Require Import Model.Codec.",
             "Import ListNotations.", "Open Scope N_scope.", ""]
    errors = []
    try:
        parts.append("Definition src_codec_consts : codec_consts :=\n  %s." % codec_consts())
    except (TranslateError, OSError) as e:
        errors.append(str(e))
    try:
        j = jaeger_consts()
        parts.append("Definition src_max_udp : N := %d." % j["max_udp"])
        parts.append("Definition src_jaeger_divs : list N := [%s]." % "; ".join(map(str, j["divs"])))
        parts.append("Definition src_size_cmp_ge : bool := %s." % ("true" if j["ge"] else "false"))
        parts.append("Definition src_single_le : N := %d." % j["one"])
        parts.append("Definition src_halving : N := %d." % j["half"])
    except (TranslateError, OSError) as e:
        errors.append(str(e))
    try:
        e = epoch_consts()
        parts.append("Definition src_epoch_bits_counter : N := %d." % e["counter"])
        parts.append("Definition src_epoch_bits_stamp : N := %d." % e["stamp"])
        parts.append("Definition src_epoch_bits_handle : N := %d." % e["handle"])
        parts.append("Definition src_epoch_bits_line_handle : N := %d." % e["line_handle"])
        parts.append("Definition src_epoch_casts : N := %d." % e["casts"])
    except (TranslateError, OSError) as e:
        errors.append(str(e))
    text = "\n".join(parts) + "\n"
    old = open(path).read() if os.path.exists(path) else None
    if old != text:
        os.makedirs(os.path.dirname(path), exist_ok=True)
        with open(path, "w") as f:
            f.write(text)
    return errors


if __name__ == "__main__":
    import sys
    errs = generate(sys.argv[1])
    for e in errs:
        print("TRANSLATE-ERROR", e)
    sys.exit(1 if errs else 0)
