"""Which theorem files and which correspondence streams decide which property."""
import streams as S

SYS_TRUST = ["harness/core orchestrator (threads parked at the fastrace_verif yield points), generators, canonicalisation",
             "the fastrace_verif hooks add scheduling points and observers only",
             "modelled, not verified: rtrb ring as an atomic FIFO with is_abandoned, fastant clock as a logical clock, "
             "parking_lot mutexes as mutual exclusion, HashMap order (reports compared as sorted lists)"]

def sysprop(coq, profiles, quick_n, thorough_n, rule, assumptions=None, release_too=True, extra=None):
    streams = [S.sys_stream_for("sys", profiles, quick_n, thorough_n)] + (extra or [])
    if release_too:
        streams.append(S.sys_stream_for("sysrel", profiles[:2], max(2, quick_n // 3), thorough_n // 2, release=True, shards_per_profile=4))
    return {"coq": coq, "streams": streams, "replay_sub": "sys", "rule": rule,
            "trusted_base": SYS_TRUST, "assumptions": assumptions or []}

GEN_RULE = ("histories generated online from one PRNG state per history: weighted grammar over the span API "
            "(roots sampled/unsampled with boundary ids, children with 0-3 parents incl. no-op, local scopes, local "
            "collectors, properties/events by every route with closures that re-enter, cancel, adapters, thread "
            "spawn/exit) interleaved with single ring pushes and collector micro-steps (begin/pop/check/process); "
            "profile-specific capacities; a reporter may be installed again at any idle point; two profiles are also run against a "
            "--release build of the harness and the library (debug assertions and overflow checks off); a history is non-trivial "
            "if it has >= 6 actions; distinct by action text")

PROPS = {
    "C12": {
        "coq": ["C12", "C12_consts"],
        "streams": [S.codec_stream],
        "replay_sub": "codec",
        "rule": "contexts with boundary ids (0, max, top bit), valid encodings, 1-2 edit mutants over an "
                "alphabet with '-', '+', upper/lower hex, non-hex, multi-byte UTF-8, structured fields of "
                "wrong width/overflow/leading zeros, 3/5 fields, wrong versions, random strings; a case is "
                "non-trivial if its input is longer than 3 bytes; distinct by input text",
        "assumptions": ["std's integer parsing/formatting is re-modelled (Model/Codec.v), not verified",
                        "absence of panics is checked by catch_unwind on every generated input, not proved"],
    },
    "C01": sysprop(["C01"], ["default", "exit", "local"], 250, 4000, GEN_RULE + "; plus live scenarios with the real background "
                   "thread (20 ms interval) and the real flush(): 1-3 worker threads, hand-off of spans, exit right after finishing; "
                   "delivery without any further call within 10 s, or by the return of flush(); with a report interval of an hour, two overlapping flush() calls (the first inside a slow report()): each must return only after the spans its thread finished before are delivered",
                   extra=[S.verdict_stream_for("live", "core", "live", 12, 300, shards=4), S.verdict_stream_for("cflush", "core", "cflush", 3, 60, shards=4), S.verdict_stream_for("aged", "core", "aged", 30, 1200, shards=4)]),
    "C07": sysprop(["C07"], ["mixed", "overload", "adapters", "local", "exit"], 200, 3000, GEN_RULE + "; plus tracing calls issued "
                   "from a thread-local destructor registered before / after fastrace's own thread-locals", release_too=True,
                   extra=[S.verdict_stream_for("teardown", "core", "teardown", 40, 1000, shards=4)]),
    "C02": sysprop(["C02"], ["mixed", "default", "local", "adapters"], 250, 4000, GEN_RULE + "; plus user code that panics inside a tracing call (property closures of every entry point, span / event names whose conversion panics, a panic unwinding through a scope), caught by the caller: the trace still arrives whole, later spans hang under the right parents, the local context is restored, nothing of the panicking closure is recorded",
                   extra=[S.verdict_stream_for("unwind", "core", "unwind", 40, 1500, shards=4)]),
    "C05": sysprop(["C05"], ["mixed", "default", "cancelable", "local"], 250, 4000, GEN_RULE),
    "C06": sysprop(["C06"], ["default", "cancelable", "mixed", "local"], 250, 4000, GEN_RULE + "; plus user code that panics inside a tracing call (property closures of every entry point, span / event names whose conversion panics, a panic unwinding through a scope), caught by the caller: the trace still arrives whole, later spans hang under the right parents, the local context is restored, nothing of the panicking closure is recorded",
                   extra=[S.verdict_stream_for("unwind", "core", "unwind", 40, 1500, shards=4), S.verdict_stream_for("live", "core", "live", 12, 120, shards=2)]),
    "C11": sysprop(["C11"], ["mixed", "local", "adapters"], 250, 4000, GEN_RULE + "; plus user code that panics inside a tracing call (property closures of every entry point, span / event names whose conversion panics, a panic unwinding through a scope), caught by the caller: the trace still arrives whole, later spans hang under the right parents, the local context is restored, nothing of the panicking closure is recorded",
                   extra=[S.verdict_stream_for("unwind", "core", "unwind", 40, 1500, shards=4)]),
    "C13": sysprop(["C13"], ["adapters", "cancelable", "mixed"], 250, 4000, GEN_RULE + "; plus adapters dropped before completion whose "
                   "wrapped future / stream owns spans of the trace (released before the adapter's span, also with a collector cycle in between)",
                   extra=[S.verdict_stream_for("adrop", "core", "adrop", 40, 1000, shards=4)]),
    "C14": sysprop(["C14"], ["adapters", "cancelable", "mixed"], 250, 4000, GEN_RULE + "; plus stream adapters dropped before completion "
                   "whose wrapped stream owns spans of the trace",
                   extra=[S.verdict_stream_for("adrop", "core", "adrop", 40, 1000, shards=4)]),
    "C16": sysprop(["C16"], ["mixed", "local", "default"], 250, 4000, GEN_RULE + "; plus random programs over the whole public API "
                   "against fastrace built WITHOUT the enable feature (no reporter call, no thread, no context, no closure invoked)",
                   extra=[S.verdict_stream_for("disabled", "disabled", "run", 60, 2000, flags="", shards=4, binary="vdisabled")]),
    "C17": sysprop(["C17"], ["mixed", "collect", "local", "default"], 250, 4000, GEN_RULE + "; the collect profile favours local collectors, "
                   "collection with open local spans, pushing one set under several parents and to_span_records; plus local spans and a "
                   "collected set that last more than a second (durations against the wall-clock bracket, pushed copy and to_span_records)",
                   extra=[S.verdict_stream_for("longspan", "core", "longspan", 1, 6, shards=4)]),
    "C15": {"coq": ["C15"], "streams": [S.twins_stream, S.unescape_stream], "replay_sub": "sys",
            "rule": "catalogue of 13 function shapes (sync with early return / ? / panic / generic with lifetime / &mut self method; "
                    "async fn with in_span and with enter_on_poll; hand-written Box::pin forms with and without leading statements; "
                    "async-trait method) x attribute combinations (default path name, short_name, name, properties with {{ }} escapes "
                    "and {arg} placeholders) x generated arguments (negative / zero / parseable / empty / multi-byte strings, 0-2 "
                    "Pending polls); every entry exists as identical plain and #[trace] text; a case is one (shape, arguments) pair",
            "trusted_base": ["harness/core twins.rs: the plain and traced items are the same source text; the expected decomposition "
                             "of the generated code into API calls is written by hand per bracket shape"],
            "assumptions": ["the theorem is about the shape of the generated body, not about syn/quote or Rust's ownership rules",
                            "the order in which unused by-value arguments are dropped is not claimed"]},
    "C18": sysprop(["C18"], ["mixed", "local", "collect", "adapters"], 150, 3000,
                   GEN_RULE + "; C18 compares times: order of all time points of a report against the model's logical clock, "
                   "durations against the wall-clock bracket of the calls that started/finished the span (lower bound 3us + 2%, upper bound 20us + 2% slack), "
                   "begin times against the wall-clock window of the creating call (50 ms slack)",
                   extra=[S.verdict_stream_for("longspan", "core", "longspan", 1, 6, shards=4)]),
    "C19": {"coq": ["C19"], "streams": [S.jaeger_stream, S.reporters_stream_for("datadog", 12, 200), S.reporters_stream_for("otel", 12, 200)], "replay_sub": "jaeger",
            "rule": "record batches: random records (boundary ids incl. top bit set, 0, max; random u64 times; UTF-8 names/keys/values "
                    "with multi-byte, NUL and quote characters; 0-3 events with properties), byte-by-byte sweeps of one span across "
                    "the datagram limit, mid-size spans whose sum straddles it, oversize spans at random positions, 0-400 small spans, "
                    "13-17 element lists (long list header); non-trivial = at least one record; distinct by input text",
            "trusted_base": ["harness/reporters (generator, loopback UDP capture with end marker)",
                             "thrift_codec and the OS socket are trusted to the extent the byte comparison exercises them"],
            "assumptions": ["Datadog: the HTTP body is captured by a loopback listener, decoded by the Gallina msgpack reader, compared field by "
                            "field with convert (meta as a set: HashMap order) and re-encoded byte for byte; OpenTelemetry: the SpanData handed "
                            "to an in-process exporter is compared field by field; record times are realistic (this century) for these two",
                            "rmp-serde, reqwest, opentelemetry_sdk are trusted to the extent the comparison exercises them"]},
    "C20": {"coq": ["C20", "C20_consts"], "streams": [S.jaeger_stream], "replay_sub": "jaeger",
            "rule": "same batches as C19; the comparison is on datagram boundaries (count and lengths); the oracle accepts any "
                    "segmentation into datagrams < 8000 bytes that keeps every span fitting alone exactly once in order",
            "trusted_base": ["harness/reporters (generator, loopback UDP capture with end marker)"],
            "assumptions": ["sizes are those of the modelled Thrift encoding, compared byte for byte with the real one in C19"]},
    "C03": sysprop(["C03"], ["cancelable", "adapters", "exit"], 250, 4000, GEN_RULE + "; plus aged scenarios: two threads with 1-41 earlier traces and a collector that has run 0-2100 cycles over their empty rings, then a trace with its root on one thread and a child (local span, event) finished on the other: every span exactly once, by the first cycle after it finished, cancelable in one report call, nothing retained",
                   extra=[S.verdict_stream_for("aged", "core", "aged", 30, 1200, shards=4), S.verdict_stream_for("unwind", "core", "unwind", 40, 1500, shards=4)]),
    "C04": sysprop(["C04"], ["cancelable", "default", "overload"], 250, 4000, GEN_RULE),
    "C08": sysprop(["C08"], ["mixed", "exit", "cancelable", "default"], 250, 4000, GEN_RULE + "; plus aged scenarios: two threads with 1-41 earlier traces and a collector that has run 0-2100 cycles over their empty rings, then a trace with its root on one thread and a child (local span, event) finished on the other: every span exactly once, by the first cycle after it finished, cancelable in one report call, nothing retained",
                   extra=[S.verdict_stream_for("aged", "core", "aged", 30, 1200, shards=4), S.verdict_stream_for("unwind", "core", "unwind", 40, 1500, shards=4)]),
    "C09": sysprop(["C09"], ["overload", "mixed"], 250, 4000, GEN_RULE),
    "C10": sysprop(["C10", "C10_consts"], ["local", "overload", "adapters"], 250, 4000, GEN_RULE),
}
