"""Which theorem files and which correspondence streams decide which property."""
import streams as S

PROPS = {
    "C12": {
        "coq": ["C12", "C12_consts"],
        "streams": [S.codec_stream],
        "replay_sub": "codec",
        "rule": "contexts with boundary ids (0, max, top bit), valid encodings, 1-2 edit mutants over an "
                "alphabet with '-', '+', upper/lower hex, non-hex, multi-byte UTF-8, structured fields of "
                "wrong width/overflow/leading zeros, 3/5 fields, wrong versions, random strings; a case is "
                "non-trivial if its input is longer than 3 bytes; distinct by input text",
        "assumptions": ["std's integer parsing/formatting is re-modelled (Model/Codec.v), not verified",
                        "absence of panics is checked by catch_unwind on every generated input, not proved"],
    },
}
