"""Per-property texts of MANIFEST.json (what is claimed, at which level, what is assumed)."""

TECH = ("Rocq (Coq 8.16.1) theorems over a hand-written executable Gallina model + differential "
        "correspondence (extracted model vs the real crates driven step by step through cfg(fastrace_verif) "
        "yield points) + Gallina oracle")

NOTE_SYS = ("Trusted: Coq 8.16.1 kernel (+vm_compute for examples), extraction (ExtrOcamlBasic only), ocaml drivers, "
            "the Rust orchestrator and generators, the fastrace_verif hooks (scheduling points/observers only). "
            "Modelled, not verified: rtrb ring as atomic FIFO, fastant clock as a logical clock, parking_lot mutexes, "
            "HashMap order. Axioms: none (Print Assumptions checked on every run). The theorems are about the model; "
            "the tie to /repo is the correspondence run (bounded sample of histories), so a code change is detected "
            "only if the generated histories distinguish it.")

TEXTS = {
 "C03": ("Kernel-checked theorems about the model of GlobalCollector::handle_commands, for every collector state "
         "and every batch: in cancelable mode every reported record belongs to a collect id whose CommitCollect is in "
         "that very batch (hold), an inactive trace that is not restarted is never reported again (nothing afterwards), "
         "a committed trace is removed. 'Delivered whole' is shown by correspondence only (the unconditional statement "
         "is false across threads: known finding K1). Model tied to the code by orchestrated histories with collector "
         "micro-steps placed between single ring pushes.", "DESIGN.md 6/C03"),
 "C04": ("Kernel-checked theorems for every collector state and batch: a batch containing DropCollect(c) reports "
         "nothing of c whatever else it contains, c is inactive afterwards and stays silent; in the default "
         "configuration DropCollect changes nothing (process is literally independent of it). FIFO of drop before "
         "commit on one thread comes from the C09 channel theorem. Tied to the code by orchestrated histories.",
         "DESIGN.md 6/C04"),
 "C08": ("Kernel-checked theorems: a committed (or, cancelable, dropped) trace is absent from the retained map after "
         "the batch, the map grows only by started traces, nothing stays buffered across a cycle in the default "
         "configuration, a receiver is given up only on a pop that found the ring empty. collector_stats (hook) is "
         "compared with the model after every cycle of every explored history.", "DESIGN.md 6/C08"),
 "C09": ("Kernel-checked theorems over the channel model for every capacity, message sequence and interleaving of "
         "producer pushes with consumer pops: the forced messages in popped++ring++overflow++to-send are invariant "
         "(none dropped, reordered or duplicated while the thread lives), everything seen is a thinning that removes "
         "unforced messages only, a send takes at most |overflow|+1 ring operations, the ring never exceeds its "
         "capacity. Tied to the code by orchestrated histories with ring capacity 1-6 and collector pops between "
         "single pushes.", "DESIGN.md 6/C09"),
 "C10": ("Kernel-checked theorem by induction over all well-nested programs of the thread-local layer (scopes, "
         "local collectors, local spans with properties, events/properties anywhere, any depth, refused openings): "
         "the program returns normally in both profiles and the local context (token, innermost open span, epoch, "
         "sampling flag per scope) afterwards equals the context before, provided the id prefix is non-zero (K3 "
         "boundary). Tied to the code by orchestrated single-thread and adapter histories comparing contexts, parents "
         "and attachment targets. !Send of guards is a compile-time fact, not a theorem.", "DESIGN.md 6/C10"),
 "C12": ("Kernel-checked theorems over all 2^128 x 2^64 x 2 contexts and all byte strings (round trip, 55-byte shape, exact characterisation of the accepted language, rejection clauses, Display/FromStr/serde) about a Gallina model of id.rs; the model is tied to the code on every run by running the real codec functions and the extracted model on the same generated strings/contexts and comparing every result, and by re-checking an obligation over the literals translated from id.rs. No panic is checked by catch_unwind on the generated inputs only (partial).", "DESIGN.md 6/C12"),
}
