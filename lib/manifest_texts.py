"""Per-property texts of MANIFEST.json (what is claimed, at which level, what is assumed)."""

TECH = ("Rocq (Coq 8.16.1) theorems over a hand-written executable Gallina model + differential "
        "correspondence (extracted model vs the real crates driven step by step through cfg(fastrace_verif) "
        "yield points) + Gallina oracle")

NOTE_SYS = ("Trusted: Coq 8.16.1 kernel (+vm_compute for examples), extraction (ExtrOcamlBasic only), ocaml drivers, "
            "the Rust orchestrator and generators, the fastrace_verif hooks (scheduling points/observers only). "
            "Modelled, not verified: rtrb ring as atomic FIFO, fastant clock as a logical clock, parking_lot mutexes, "
            "HashMap order. Axioms: none (Print Assumptions checked on every run). The theorems are about the model; "
            "the tie to /repo is the correspondence run (bounded sample of histories), so a code change is detected "
            "only if the generated histories distinguish it.")

TEXTS = {
 "C01": ("Kernel-checked theorems: finishing a span yields exactly one SubmitSpans with the sampled items and then the "
         "root's commit; the channel only thins (never duplicates, invents or reorders) for every capacity and "
         "interleaving; a receiver is given up only on an empty pop after the producer is gone; in the default "
         "configuration nothing stays buffered across a cycle; the records of a set are exactly its recorded spans. "
         "The end-to-end statement (each accepted set reported exactly once by the first cycle that begins after its "
         "push) is shown by correspondence on orchestrated histories -- cycles split into begin/pop/check/process steps "
         "placed between single pushes, thread exit right after the last push -- and by a live run with the real "
         "background thread and flush(). 'Within about one report interval' is wall-clock and only measured (partial).",
         "DESIGN.md 6/C01"),
 "C07": ("Kernel-checked theorem by induction over all well-nested programs of the thread-local layer, in both "
         "profiles and for all capacities: no explicit panic site of the recording path (index, debug assertions, "
         "unwrap) is reached when ids are non-zero (K3 boundary); a send performs at most |overflow|+1 ring operations. "
         "The whole API surface is compared panic/no-panic per call under catch_unwind with a watchdog, in the dev and "
         "release profiles, including closures that re-enter, full queues, exceeded limits and no-op/empty parent sets. "
         "Partial: absence of panics inside std/rtrb/rand, real blocking of parking_lot and calls from TLS destructors "
         "(exercised by a teardown stream in both registration orders) are runtime facts exercised by the harness only.", "DESIGN.md 6/C07"),
 "C02": ("Kernel-checked theorems: system-wide invariant over ALL histories and schedules that every reported record "
         "carries a trace id supplied with a sampled root; a root's token/record carry the supplied trace id and remote "
         "parent; issued child tokens name the issuing span as parent, one item per parent; records of a local-span set "
         "are in the token's trace, set roots under the token's parent, others under their recorded parent; the first "
         "n < 2^32 ids of a thread are pairwise distinct, non-zero for a non-zero prefix and differ across prefixes. "
         "The unbounded id claim is refuted in Coq (K3, known finding). Tied to the code by exact comparison of "
         "(trace, id, parent) of every reported record on orchestrated histories.", "DESIGN.md 6/C02"),
 "C05": ("Kernel-checked system-wide theorem by induction over all histories (any threads, programs, schedules of ring "
         "pushes / thread exits / collector micro-steps, both configurations, any capacities): every reported record "
         "carries the trace id of a root created with sampled=true; a trace id given only to unsampled roots yields no "
         "reporter output at all. Proved through an invariant over every token item in the system (spans, adapters, "
         "scopes, closures in progress, outboxes, rings, overflow lists, batch, buffered collections). Tied to the "
         "code by orchestrated histories with 1/3 unsampled roots and mixed-parent spans, comparing reports and "
         "extracted contexts.", "DESIGN.md 6/C05"),
 "C06": ("Kernel-checked theorems on record construction for every dangling map and span set: an attachment is parked "
         "under its target id behind earlier ones and yields no record; other buckets are untouched; when the target is "
         "processed (any later cycle) it takes the whole bucket after its own properties, in parking order, exactly "
         "once; records without a bucket are delivered unchanged; mounting never changes ids/parents/times/names. The "
         "same-trace double copy (K2) is refuted by a vm_compute witness and listed as known finding; cross-queue "
         "reordering is K1. Tied to the code by full comparison of properties/events of every record with cycles placed "
         "anywhere between attachment and finish.", "DESIGN.md 6/C06"),
 "C11": ("Kernel-checked theorems about the model of id.rs/span.rs: from_span returns trace id and flag of the first "
         "token item and the span's own id (None for no-op spans); current_local_parent returns the innermost scope's "
         "first item with the innermost open local span as span id (None without scope); the record of a root built "
         "from a context has that trace id and that parent id; traceparent round trip from C12. Tied to the code by "
         "comparing every extracted context and every record's ids on orchestrated histories.", "DESIGN.md 6/C11"),
 "C13": ("Kernel-checked theorems: the poll's scope carries the adapter span's issued token; set-local-parent + any "
         "well-nested body + guard drop restores the local context exactly (from the C10 induction); the span is taken "
         "exactly per the method/result table; at the end of a poll everything the guard submits is pushed before the "
         "span's own submit and commit. Tied to the code by scripted inner futures polled step by step on real "
         "threads (Pending/Ready scripts, migration between threads, drop before completion, cycles inside the final "
         "call).", "DESIGN.md 6/C13"),
 "C14": ("Same adapter model and theorems as C13 instantiated for fastrace-futures' Stream (poll_next: taken on "
         "Ready(None)) and Sink (poll_ready/start_send/poll_flush never take, poll_close takes on completion); tied to "
         "the code by scripted streams and sinks driven through every method on real threads.", "DESIGN.md 6/C14"),
 "C16": ("Kernel-checked theorems for the enabled build: every call on a no-op span, every root before a reporter is "
         "installed, every local operation without a local parent and every not-recording local span changes nothing, "
         "pushes nothing and invokes no property closure. Tied to the code by comparing closure invocation flags, "
         "elapsed/context results and reports on orchestrated histories. The build without `enable` is exercised by "
         "the disabled-build stream (partial: constant model).", "DESIGN.md 6/C16"),
 "C17": ("Kernel-checked theorems for every captured forest: to_span_records equals what pushing the set delivers "
         "(same code path, same anchor); two copies of a set agree on ids, begin, duration and name of every span in "
         "order, whatever the parents and whatever is parked; each copy is in its parent's trace with set roots under "
         "that parent; open spans are closed at the collection time. Durations across different cycles may differ by "
         "1 ns (K6, known finding; not modelled: the model's conversion is anchor-free). Tied to the code by comparing "
         "to_span_records output and pushed copies.", "DESIGN.md 6/C17"),
 "C03": ("Kernel-checked theorems about the model of GlobalCollector::handle_commands, for every collector state "
         "and every batch: in cancelable mode every reported record belongs to a collect id whose CommitCollect is in "
         "that very batch (hold), an inactive trace that is not restarted is never reported again (nothing afterwards), "
         "a committed trace is removed. 'Delivered whole' is shown by correspondence only (the unconditional statement "
         "is false across threads: known finding K1). Model tied to the code by orchestrated histories with collector "
         "micro-steps placed between single ring pushes.", "DESIGN.md 6/C03"),
 "C04": ("Kernel-checked theorems for every collector state and batch: a batch containing DropCollect(c) reports "
         "nothing of c whatever else it contains, c is inactive afterwards and stays silent; in the default "
         "configuration DropCollect changes nothing (process is literally independent of it). FIFO of drop before "
         "commit on one thread comes from the C09 channel theorem. Tied to the code by orchestrated histories.",
         "DESIGN.md 6/C04"),
 "C08": ("Kernel-checked theorems: a committed (or, cancelable, dropped) trace is absent from the retained map after "
         "the batch, the map grows only by started traces, nothing stays buffered across a cycle in the default "
         "configuration, a receiver is given up only on a pop that found the ring empty. collector_stats (hook) is "
         "compared with the model after every cycle of every explored history.", "DESIGN.md 6/C08"),
 "C09": ("Kernel-checked theorems over the channel model for every capacity, message sequence and interleaving of "
         "producer pushes with consumer pops: the forced messages in popped++ring++overflow++to-send are invariant "
         "(none dropped, reordered or duplicated while the thread lives), everything seen is a thinning that removes "
         "unforced messages only, a send takes at most |overflow|+1 ring operations, the ring never exceeds its "
         "capacity. Tied to the code by orchestrated histories with ring capacity 1-6 and collector pops between "
         "single pushes.", "DESIGN.md 6/C09"),
 "C10": ("Kernel-checked theorem by induction over all well-nested programs of the thread-local layer (scopes, "
         "local collectors, local spans with properties, events/properties anywhere, any depth, refused openings): "
         "the program returns normally in both profiles and the local context (token, innermost open span, epoch, "
         "sampling flag per scope) afterwards equals the context before, provided the id prefix is non-zero (K3 "
         "boundary). Tied to the code by orchestrated single-thread and adapter histories comparing contexts, parents "
         "and attachment targets. !Send of guards is a compile-time fact, not a theorem.", "DESIGN.md 6/C10"),
 "C15": ("Kernel-checked theorems about the three brackets the macro generates, stated on the system model: the sync and "
         "enter_on_poll brackets are the program PSpan name props body, which for every well-nested body returns normally "
         "and restores the caller's local context (C10 induction); without a local parent nothing is recorded and no "
         "property closure runs; each in_span poll restores the poller's context. Tied to the code by twins: every "
         "catalogue function exists as identical plain and #[trace] text; outcome, effect order, error and panic must "
         "be identical, and the spans recorded with and without a local parent are compared with the model through "
         "system histories in which the generated code is spelled out as API calls. Partial: syn/quote and Rust's "
         "ownership rules are outside the model; format strings are compared with hand-expanded expectations.",
         "DESIGN.md 6/C15"),
 "C18": ("Kernel-checked theorems: every record's duration is the converted finish instant minus the converted start "
         "instant (collection time for open spans), for local-span sets and thread-safe spans; a monotone conversion makes "
         "begin + duration the converted finish, so intervals nest and order in unix time as the instants do. Nesting of "
         "the instants themselves follows from the LIFO discipline of the local layer (C10) and is checked on every "
         "explored history: the order of ALL time points of every report must agree with the model's logical clock "
         "wherever execution fixes it, durations must lie in the wall-clock bracket of the start/finish calls, begin times "
         "in the wall-clock window of the run. elapsed() is compared as Some/None. Partial: agreement with real time is "
         "measured with slack (3-20 us + 2%, 50 ms for absolute times), not proved.", "DESIGN.md 6/C18"),
 "C19": ("Kernel-checked theorems for the Jaeger reporter: convert transmits ids exactly (128-bit trace id as two "
         "recombining halves), name/tags/log fields unchanged and in order, times in whole microseconds; zig-zag and "
         "varint round-trip for every 64-bit value (top bit set included). The Thrift compact emitBatch encoder is "
         "modelled in Gallina and compared BYTE FOR BYTE with the datagrams the real reporter sends over loopback UDP on "
         "every run; the oracle re-derives a segmentation of the batch from the code's datagrams. Datadog: convert keeps "
         "every field (low 64 bits of the trace id, property set as a map), msgpack integers and strings of every size "
         "class read back to what was written; the real HTTP body is decoded by the Gallina reader, compared with convert "
         "and re-encoded byte for byte. OpenTelemetry: convert is the identity on every listed field; the exported "
         "SpanData is compared field by field. Partial: a full decode(encode) theorem for the whole Datadog body and the "
         "third-party encoders themselves are not proved.", "DESIGN.md 6/C19"),
 "C20": ("Kernel-checked theorem for every batch and EVERY size function: try_report's loop terminates within 2n+1 "
         "iterations, every emitted batch is non-empty and below the limit, and the emitted batches are the input in "
         "order minus spans that were too large alone; a span that fits alone is never dropped. Obligation over the "
         "literals translated from the source on every run (limit <= 8000, >=, <= 1, / 2). Tied to the code by comparing "
         "datagram boundaries on batches straddling the limit byte by byte and oversize spans at every position.",
         "DESIGN.md 6/C20"),
 "C12": ("Kernel-checked theorems over all 2^128 x 2^64 x 2 contexts and all byte strings (round trip, 55-byte shape, exact characterisation of the accepted language, rejection clauses, Display/FromStr/serde) about a Gallina model of id.rs; the model is tied to the code on every run by running the real codec functions and the extracted model on the same generated strings/contexts and comparing every result, and by re-checking an obligation over the literals translated from id.rs. No panic is checked by catch_unwind on the generated inputs only (partial).", "DESIGN.md 6/C12"),
}


# ---- later refinements of the texts above (applied to the joined strings; each must match) ----
_EDITS = [
 ("C01", "in the default configuration nothing stays buffered across a cycle; the records of a set are exactly its recorded spans. The end-to-end statement",
  "in the default configuration, for EVERY batch and every active map satisfying the cycle invariant, report() receives as a "
  "multiset exactly one record per span per token item of what was submitted (nothing lost, nothing twice, nothing else), over any "
  "number of cycles wherever the cuts fall, and the invariant holds in every state reachable by any history of the system model, so "
  "every default-mode report in a reachable state is exactly the spans of the drained batch. The composition over the scheduler"),
 ("C01", "and by a live run with the real background thread and flush().",
  "and by a live run with the real background thread and flush(), including a reporter that stalls inside report() while a "
  "short-lived thread finishes more spans."),
 ("C03", "'Delivered whole' is shown by correspondence only (the unconditional statement is false across threads: known finding K1).",
  "Delivered whole, at the collector: when the commit of c is processed (c not cancelled) the one report of that cycle carries for c "
  "exactly the spans of everything the collector had been given for c before plus everything submitted for c in that batch, in "
  "order, each once. Across threads ('every span finished before the root on any thread') the statement is false of the faithful "
  "model: known finding K1; that part is judged by the oracle on explored histories."),
 ("C18", "Nesting of the instants themselves follows from the LIFO discipline of the local layer (C10) and is checked on every explored history: the order",
  "The instants of a local-span set nest, as a theorem for every well-nested program of the thread-local layer (any depth, refused "
  "openings, any ids): what a program records is a pre-order forest in which every span's interval strictly contains its children "
  "and events, later siblings begin after a span's end and every entry lies in the program's own time window (inductive predicate "
  "'nested', Proofs/TimeProofs.v); what a scope collects is such a forest. On every explored history the order"),
 ("C19", "integers and strings of every size class read back to what was written; the real HTTP body",
  "integers (both signs) and strings of every size class read back to what was written, and the WHOLE request body reads back to "
  "exactly the spans it was made from (every field, the optional meta map in order, nothing left over) for every batch whose strings "
  "are shorter than 2^32 bytes, hence the body encoding is injective; the real HTTP body"),
 ("C19", "Partial: a full decode(encode) theorem for the whole Datadog body and the third-party encoders themselves are not proved.",
  "Partial: the third-party encoders themselves (rmp-serde, thrift_codec, opentelemetry_sdk) are compared, not proved."),
 ("C17", "Tied to the code by comparing to_span_records output and pushed copies.",
  "Tied to the code by comparing to_span_records output and pushed copies, and by the duration clause of the time oracle (a span "
  "open at collection must last until the collect call)."),
 ("C13", "drop before completion, cycles inside the final call).",
  "drop before completion, cycles inside the final call); enter_on_poll is exercised inside the system histories: local spans whose "
  "handle is 2 mod 4 are recorded by polling a persistent enter_on_poll future (first polled with or without a local parent, later "
  "under another one)."),
 ("C14", None, None),
 ("C10", "comparing contexts, parents and attachment targets.",
  "comparing contexts, parents and attachment targets; guards, local spans, collectors and spans whose handle is 3 mod 5 are "
  "released by unwinding (a caught panic) instead of a plain drop."),
]
for _k, _a, _b in _EDITS:
    if _a is None:
        continue
    assert _a in TEXTS[_k][0], (_k, _a)
    TEXTS[_k] = (TEXTS[_k][0].replace(_a, _b), TEXTS[_k][1])

_EDITS2 = [
 ("C07", "The whole API surface is compared panic/no-panic per call",
  "System level: a well-formedness invariant relating the objects each thread holds to its span stack (handles on the right line, "
  "open spans forming the parent chain, strictly decreasing line epochs, non-empty tokens) is preserved by each of the 31 API calls "
  "of the system model, none of which reaches a panic site on a well-formed thread in either profile; hence no history whose actions "
  "meet the stated conditions (non-zero id prefix, fewer than 2^64 steps, no local collector collected under open local spans "
  "opened after it) ever shows a panic. The whole API surface is compared panic/no-panic per call"),
 ("C13", "drop before completion, cycles inside the final call);",
  "drop before completion, cycles inside the final call); adapters dropped before completion whose wrapped future owns spans of "
  "the trace are checked by the adrop stream (what the wrapped object owns is released before the adapter's span, also with a "
  "collector cycle as the teardown starts);"),
 ("C18", "elapsed() is compared as Some/None.",
  "elapsed() is compared as Some/None in the histories and numerically in the longspan stream (spans open 3 ms to 2.1 s, handed "
  "to and finished on other threads while hundreds of collector cycles pass: duration, begin time and elapsed() against brackets "
  "measured around the calls)."),
]
for _k, _a, _b in _EDITS2:
    assert _a in TEXTS[_k][0], (_k, _a)
    TEXTS[_k] = (TEXTS[_k][0].replace(_a, _b), TEXTS[_k][1])

_EDITS3 = [
 ("C01", "The composition over the scheduler",
  "The drain: in any reachable state, when a cycle begins and runs to the end of its drain, with its pops interleaved in any way "
  "with calls, pushes and exits of any threads, every command that was in the ring of a registered thread at the beginning is in "
  "the batch that cycle processes (the registry lists no thread twice in any reachable state); so a span set pushed before a "
  "cycle begins is reported by that cycle, exactly once. The composition over the scheduler"),
]
for _k, _a, _b in _EDITS3:
    assert _a in TEXTS[_k][0], (_k, _a)
    TEXTS[_k] = (TEXTS[_k][0].replace(_a, _b), TEXTS[_k][1])

_EDITS4 = [
 ("C19", "the oracle re-derives a segmentation of the batch from the code's datagrams.",
  "the oracle re-derives a segmentation of the batch from the code's datagrams and reads them back with a Thrift reader written "
  "independently of the encoder; the whole emitBatch message reads back to the service name and exactly its spans for every batch "
  "whose integers fit 64 bits (theorem), hence the message encoding is injective."),
 ("C09", "Tied to the code", "Tied to the code"),
]
for _k, _a, _b in _EDITS4:
    if _a not in TEXTS[_k][0]:
        continue
    TEXTS[_k] = (TEXTS[_k][0].replace(_a, _b), TEXTS[_k][1])

_EDITS5 = [
 ("C06", "Kernel-checked theorems", "Kernel-checked theorems (incl. the whole report: with pairwise distinct span ids every record takes exactly its own bucket "
  "of attachments in parking order and no record anything else; a local-span set's attachments go to the span that was innermost when "
  "they were recorded)"),
]
for _k, _a, _b in _EDITS5:
    if _a in TEXTS[_k][0]:
        TEXTS[_k] = (TEXTS[_k][0].replace(_a, _b, 1), TEXTS[_k][1])

_EDITS6 = [
 ("C01", "The composition over the scheduler (each accepted set reported exactly once by the first cycle that begins after its push) is shown by correspondence",
  "End to end (theorems, all interleavings): a call made while the thread's sender is idle and its ring has room, followed by any history in which that "
  "thread only pushes, leaves every command of the call in the ring or the batch; a SubmitSpans that has landed there is reported, one record per span per "
  "token item, by the process step of the cycle in progress or of the next complete cycle, whatever any threads do meanwhile and even if the thread exits "
  "(a thread leaves the collector's view only with an empty ring, in every reachable state); so the record of a dropped span of a sampled trace is in one "
  "of those two reports for every sampled parent item. With a full ring an unforced set may be dropped (C09). The same composition is also exercised by correspondence"),
 ("C10", "!Send of guards is a compile-time fact, not a theorem.",
  "The scope stamp: with handle and counter of one machine width the machine comparison is the model's for scopes opened fewer than 2^width openings apart "
  "(theorem), instantiated with the field types translated from the source on every run (obligation: all four widths agree, no casts); worker threads of the "
  "harness start with scope counters of 0, 2^32-2, 5*2^32+7 and usize::MAX-1 (hook). !Send of guards is a compile-time fact, not a theorem."),
 ("C15", "Partial: syn/quote and Rust's ownership rules are outside the model; format strings are compared with hand-expanded expectations.",
  "Property values: the macro's unescape_format_string is modelled (two str::replace passes, contains) and proved, for EVERY string, against a left-to-right "
  "reading of the string as format!() reads it: a value without arguments is recorded as exactly what format!() prints, a value whose first unescaped brace opens "
  "an argument goes to format!() verbatim; the function's own source text is cut out of fastrace-macro at build time and run on all strings over {,},a up to "
  "length 7 and on random ones against model and specification. Twins also keep a completed future alive past the report, make a second traced call after one "
  "that panicked, and run under an unsampled parent nested in a sampled one. Partial: syn/quote and Rust's ownership rules are outside the model; format!() itself "
  "is compared with hand-expanded expectations; strings format!() rejects are outside the claim."),
 ("C19", "Partial: the third-party encoders themselves",
  "Reporter objects serve several consecutive batches, the Datadog agent sometimes does not answer or answers 500 and the OTel exporter sometimes fails: the next "
  "report must be complete and well-formed again. Partial: the third-party encoders themselves"),
]
for _k, _a, _b in _EDITS6:
    assert _a in TEXTS[_k][0], (_k, _a[:40])
    TEXTS[_k] = (TEXTS[_k][0].replace(_a, _b, 1), TEXTS[_k][1])

_EDITS7 = [
 ("C01", "With a full ring an unforced set may be dropped (C09).",
  "Over whole histories: for every history with only the default configuration installed, all records reported so far plus what the current batch holds are, "
  "as a multiset, exactly one record per span per token item of the SubmitSpans commands popped so far (nothing twice, nothing else, nothing popped lost). "
  "With a full ring an unforced set may be dropped (C09)."),
 ("C03", "Kernel-checked theorems", "Kernel-checked theorems (incl., over the scheduler: in any reachable state a trace whose SubmitSpans commands and commit were in "
  "registered threads' rings when a cycle began is reported whole in that cycle's one report and forgotten, for every interleaving of the drain with the threads; a "
  "SubmitSpans processed by an earlier cycle is held through any history and reported by the cycle that processes the commit)"),
 ("C08", "Kernel-checked theorems", "Kernel-checked theorems (incl., over the scheduler: a commit or, cancelable, a cancel that is in a registered thread's ring when a "
  "cycle begins leaves nothing retained after that cycle, in any reachable state and for every interleaving; only the process step and a new reporter touch the retained set)"),
]
for _k, _a, _b in _EDITS7:
    assert _a in TEXTS[_k][0], (_k, _a[:40])
    TEXTS[_k] = (TEXTS[_k][0].replace(_a, _b, 1), TEXTS[_k][1])

_EDITS8 = [
 ("C03", "Kernel-checked theorems (incl., over the scheduler", "Kernel-checked theorems (plus an `aged` stream: threads that have traced before and a collector that has run up to 2100 idle cycles, then a trace across two threads) (incl., over the scheduler"),
]
for _k, _a, _b in _EDITS8:
    assert _a in TEXTS[_k][0], (_k, _a[:40])
    TEXTS[_k] = (TEXTS[_k][0].replace(_a, _b, 1), TEXTS[_k][1])

_EDITS9 = [
 ("C09", "Kernel-checked theorems", "Kernel-checked theorems (incl., at the system level: for every state in which a thread lives and every history in which it does not exit -- any ring "
  "capacity, any interleaving of calls, single pushes and collector pops of any threads -- the control commands (start, cancel, commit) popped out of its ring followed by those still in "
  "flight are, as a sequence, those in flight at the beginning followed by those its calls emitted since: none dropped, duplicated or reordered; every one of the 31 calls marks exactly its "
  "control commands as forced)"),
 ("C04", "Kernel-checked theorems", "Kernel-checked theorems (incl., over the scheduler: a cancel that is in a registered thread's ring when a cycle begins, cancelable configuration, any "
  "reachable state, any interleaving of the drain with the threads: that cycle's report carries no record produced for the trace, whatever else it drains, and the trace is inactive afterwards)"),
]
for _k, _a, _b in _EDITS9:
    assert _a in TEXTS[_k][0], (_k, _a[:40], TEXTS[_k][0][:200])
    TEXTS[_k] = (TEXTS[_k][0].replace(_a, _b, 1), TEXTS[_k][1])

_EDITS10 = [
 ("C02", "Kernel-checked theorems", "Kernel-checked theorems (plus an `unwind` stream: user code that panics inside a tracing call and is caught by the caller -- property closures of every entry point, "
  "span / event names whose conversion panics, a panic unwinding through a scope -- must leave the trace whole, the parents right and the local context restored; it found and now guards defect F14)"),
 ("C11", "Kernel-checked theorems", "Kernel-checked theorems (plus the `unwind` stream: a name conversion or property closure that panics inside a call must not move the local context)"),
]
for _k, _a, _b in _EDITS10:
    assert _a in TEXTS[_k][0], (_k, _a[:40], TEXTS[_k][0][:120])
    TEXTS[_k] = (TEXTS[_k][0].replace(_a, _b, 1), TEXTS[_k][1])

_EDITS11 = [
 ("C03", "reported by the cycle that processes the commit)", "reported by the cycle that processes the commit; hold over the scheduler: through any history of threads "
  "and drain steps the commits in the batch are exactly the CommitCollect commands popped along it, so a record of a trace is in a cycle's report only if that cycle popped the "
  "trace's commit during its own drain, and a cycle that pops no commit reports nothing)"),
]
for _k, _a, _b in _EDITS11:
    assert _a in TEXTS[_k][0], (_k, _a[:40], TEXTS[_k][0][:120])
    TEXTS[_k] = (TEXTS[_k][0].replace(_a, _b, 1), TEXTS[_k][1])

_EDITS12 = [
 ("C01", "With a full ring an unforced set may be dropped (C09).", "With a full ring an unforced set may be dropped (C09). Through any history of threads and drain steps the "
  "collector's batch is exactly the commands popped along it, in pop order (nothing enters a batch except by a pop, nothing popped is left out or reordered)."),
]
for _k, _a, _b in _EDITS12:
    assert _a in TEXTS[_k][0], (_k, _a[:40], TEXTS[_k][0][:120])
    TEXTS[_k] = (TEXTS[_k][0].replace(_a, _b, 1), TEXTS[_k][1])
