"""Correspondence streams: each runs the real code (harness binaries built from /repo) and the
extracted model on the same cases and returns what agreed, what did not, and the oracle verdicts."""
import os, re, shutil, sys
import vcommon as vc


class BuildError(Exception):
    pass


class Ctx:
    def __init__(self, prop, tier, seed, boost=1):
        self.prop, self.tier, self.seed, self.boost = prop, tier, seed, boost
        self.known_confirmed = set()
        self._bins = {}
        self._drv = None
        self.scratch = vc.scratch_dir(prop)

    def scale(self, quick, thorough):
        return (thorough if self.tier == "thorough" else quick) * self.boost

    def harness(self, crate="core", release=False, flags=vc.GUARD_FLAGS):
        key = (crate, release, flags)
        if key not in self._bins:
            d, out = vc.build_harness(crate, release, flags)
            if d is None:
                raise BuildError("cargo build of harness/%s failed:\n%s" % (crate, out[-5000:]))
            self._bins[key] = d
        return self._bins[key]

    def driver(self):
        if self._drv is None:
            d, out = vc.build_ocaml()
            if d is None:
                raise BuildError("ocaml model driver build failed:\n" + out[-5000:])
            self._drv = d
        return self._drv


class StreamResult:
    def __init__(self, name):
        self.name = name
        self.cases = 0
        self.nontrivial = 0
        self.disagreements = []   # dicts
        self.oracle_fails = []    # dicts
        self.stats = {}
        self.samples = []
        self.known_lines = []


def parse_driver_output(res, out, casefile=None):
    for line in out.split("\n"):
        if line.startswith("DISAGREE "):
            m = re.match(r"DISAGREE (\d+) (.*)$", line)
            res.disagreements.append({"line": int(m.group(1)), "detail": m.group(2)[:3000], "file": casefile})
        elif line.startswith("ORACLEFAIL "):
            m = re.match(r"ORACLEFAIL (\d+) (.*)$", line)
            res.oracle_fails.append({"line": int(m.group(1)), "case": m.group(2)[:6000], "file": casefile})
        elif line.startswith("SUMMARY "):
            kv = dict(x.split("=") for x in line.split()[1:])
            res.cases += int(kv.get("cases", 0))
            res.nontrivial += int(kv.get("nontrivial", 0))
        elif line.startswith("KNOWN "):
            res.stats["known:" + line.split()[1]] = res.stats.get("known:" + line.split()[1], 0) + 1


def collect_stats(res, casefile, nsamples=2):
    with open(casefile, errors="replace") as f:
        k = 0
        for line in f:
            if line.startswith("#stat "):
                _, key, val = line.split()
                res.stats[key] = res.stats.get(key, 0) + int(val)
            elif k < nsamples and not line.startswith("#"):
                res.samples.append(line.strip()[:400]); k += 1


def classify_known(prop, fail, known):
    """a failing case belongs to a listed known finding iff it matches that finding's specific
    classifier (regex on the canonical case text); anything else is a new violation"""
    for k in known:
        if k.get("status") != "known":
            continue
        pat = k.get("case_regex")
        if pat and re.search(pat, fail.get("case", "")):
            return k
    return None


# ------------------------------------------------------------------ C12

def codec_stream(ctx):
    res = StreamResult("codec")
    bindir = ctx.harness("core")
    drv = ctx.driver()
    shards = 16
    n = ctx.scale(1500, 60000)
    corpus = os.path.join(vc.VERIF, "corpus", "C12", "cases.txt")
    files = []
    cmds = []
    if os.path.exists(corpus):
        f = os.path.join(ctx.scratch, "codec-corpus.txt")
        cmds.append("%s/vharness codec --replay %s --out %s" % (bindir, corpus, f)); files.append(f)
    for s in range(shards):
        f = os.path.join(ctx.scratch, "codec-%d.txt" % s)
        cmds.append("%s/vharness codec --seed %d --n %d --out %s" % (bindir, ctx.seed * 1000 + s, n, f)); files.append(f)
    for rc, out in vc.parallel(cmds):
        if rc != 0:
            raise BuildError("harness codec run failed: " + out[-2000:])
    outs = vc.parallel(["%s codec %s" % (drv, f) for f in files])
    for (rc, out), f in zip(outs, files):
        if rc != 0:
            raise BuildError("model driver failed on %s: %s" % (f, out[-2000:]))
        parse_driver_output(res, out, f)
        collect_stats(res, f)
    keep_failing_files(ctx, res)
    return res


def unescape_stream(ctx):
    """C15: fastrace-macro's unescape_format_string (its source text compiled into the harness
    by harness/core/build.rs) against the Gallina model `unescape` and the `scan` specification"""
    res = StreamResult("unescape")
    os.makedirs(ctx.scratch, exist_ok=True)
    bindir = ctx.harness("core")
    drv = ctx.driver()
    n = ctx.scale(300, 20000)
    files, cmds = [], []
    for s in range(8):
        f = os.path.join(ctx.scratch, "unescape-%d.txt" % s)
        cmds.append("%s/vharness unescape --seed %d --n %d --out %s" % (bindir, ctx.seed * 1000 + s, n, f)); files.append(f)
    for rc, out in vc.parallel(cmds):
        if rc != 0:
            raise BuildError("harness unescape run failed: " + out[-2000:])
    outs = vc.parallel(["%s codec %s" % (drv, f) for f in files])
    for (rc, out), f in zip(outs, files):
        if rc != 0:
            raise BuildError("model driver failed on %s: %s" % (f, out[-2000:]))
        parse_driver_output(res, out, f)
        collect_stats(res, f, nsamples=0)
    with open(files[0], errors="replace") as fh:
        for i, l in enumerate(fh):
            if i in (5, 200, 3290):
                res.samples.append(l.strip()[:300])
    keep_failing_files(ctx, res)
    return res


def keep_failing_files(ctx, res):
    """copy the case lines of failures/disagreements next to the replay so it stays replayable"""
    keep = {}
    for d in res.oracle_fails[:20] + res.disagreements[:20]:
        f = d.get("file")
        if not f or not os.path.exists(f):
            continue
        keep.setdefault(f, set()).add(d["line"])
    if not keep:
        shutil.rmtree(ctx.scratch, ignore_errors=True)
        return
    outp = os.path.join(vc.VERIF, "replays", "%s-%s-cases-%d.txt" % (ctx.prop, res.name, ctx.seed))
    os.makedirs(os.path.dirname(outp), exist_ok=True)
    with open(outp, "w") as o:
        for f, lines in keep.items():
            with open(f, errors="replace") as fh:
                for i, l in enumerate(fh, 1):
                    if i in lines:
                        o.write(l)
    for d in res.oracle_fails + res.disagreements:
        d["file"] = os.path.relpath(outp, vc.VERIF)
    shutil.rmtree(ctx.scratch, ignore_errors=True)


def replay_file(prop, cfg, path):
    """re-run a replay: the case lines stored beside the replay json are executed again on the
    code and on the model"""
    import json
    p = path if os.path.isabs(path) else os.path.join(vc.VERIF, path)
    j = json.load(open(p)) if p.endswith(".json") else {}
    cases = None
    for key in ("failing_case", "first_disagreement"):
        if key in j and j[key].get("file"):
            cases = os.path.join(vc.VERIF, j[key]["file"])
    if p.endswith(".txt"):
        cases = p
    if not cases or not os.path.exists(cases):
        print("replay: no case file recorded in", path)
        print(json.dumps(j, indent=1)[:3000])
        return 2
    ctx = Ctx(prop, "quick", 1)
    sub = cfg.get("replay_sub", "codec")
    bindir = ctx.harness("core")
    drv = ctx.driver()
    out = os.path.join(ctx.scratch, "replay.txt")
    rc, o = vc.run("%s/vharness %s --replay %s --out %s" % (bindir, sub, cases, out))
    print(o)
    rc, o = vc.run("%s %s %s %s" % (drv, sub, out, prop if sub == "sys" else ""))
    print(o)
    bad = ("ORACLEFAIL" in o) or ("DISAGREE" in o)
    if bad:
        print("VIOLATION property=%s replay=%s" % (prop, path))
    shutil.rmtree(ctx.scratch, ignore_errors=True)
    return 1 if bad else 0


# ------------------------------------------------------------------ system histories

SYS_PROFILES = ["mixed", "overload", "adapters", "local", "exit"]


def run_sys_shard(bindir, seed, n, prof, outfile):
    """one harness process per shard; a history that leaves the real system in an unknown state
    (panic, stuck thread) ends the process, which is then resumed at the next history"""
    first = 0
    parts = []
    guard = 0
    while first < n and guard < n + 2:
        guard += 1
        part = "%s.part%d" % (outfile, len(parts))
        rc, out = vc.run("%s/vharness sys --seed %d --first %d --n %d --profile %s --out %s" %
                         (bindir, seed, first, n, prof, part), timeout=1200)
        parts.append(part)
        if rc == 0 or rc == 4:
            break
        nxt = None
        if os.path.exists(part):
            for line in open(part, errors="replace"):
                if line.startswith("#resume "):
                    nxt = int(line.split()[1])
        if nxt is None or nxt <= first:
            # crashed without telling where (the harness itself aborted: one of its assertions, a
            # thread that never settled): that is an observation too -- recorded, then skip one history
            done = sum(1 for l in open(part, errors="replace") if l.startswith("E")) if os.path.exists(part) else 0
            tail = ""
            if os.path.exists(part):
                lines = open(part, errors="replace").read().split("\n")
                hs = [l for l in lines if l.startswith("H ")]
                tail = (hs[-1] if len(hs) > done else "") + " | " + " | ".join(l[:120] for l in lines[-4:])
            with open(outfile + ".crashes", "a") as c:
                c.write("history %d of seed %d profile %s: harness process ended with rc=%s: %s :: %s\n" % (first + done, seed, prof, rc, tail[:600], out[-600:].replace("\n", " / ")))
            nxt = first + 1 + done
        first = nxt
    with open(outfile, "w") as o:
        for p in parts:
            if os.path.exists(p):
                o.write(open(p, errors="replace").read())
                os.remove(p)
    return outfile


def parse_sys_output(res, out, casefile):
    for line in out.split("\n"):
        if line.startswith("DISAGREE "):
            m = re.match(r"DISAGREE (\S+) (.*)$", line)
            res.disagreements.append({"hist": m.group(1), "detail": m.group(2)[:3000], "file": casefile})
        elif line.startswith("ORACLEFAIL "):
            m = re.match(r"ORACLEFAIL (\S+) (\S+) (.*)$", line)
            res.oracle_fails.append({"hist": m.group(1), "prop": m.group(2), "case": m.group(3)[:3000], "file": casefile})
        elif line.startswith("KNOWNHIT "):
            m = re.match(r"KNOWNHIT (\S+) (\S+) (\S+)", line)
            if m:
                res.stats["known:" + m.group(3)] = res.stats.get("known:" + m.group(3), 0) + 1
                res.known_ids.add(m.group(3))
        elif line.startswith("SUMMARY "):
            kv = dict(x.split("=") for x in line.split()[1:])
            res.cases += int(kv.get("cases", 0))
            res.nontrivial += int(kv.get("nontrivial", 0))
            res.stats["actions"] = res.stats.get("actions", 0) + int(kv.get("actions", 0))


def extract_history(casefile, hid):
    out, on = [], False
    with open(casefile, errors="replace") as f:
        for line in f:
            if line.startswith("H "):
                on = line.split()[1] == hid
            if on:
                out.append(line)
                if line.startswith("E"):
                    break
    return "".join(out)


def sys_stream_for(name, profiles, quick_n, thorough_n, release=False, shards_per_profile=None):
    def stream(ctx):
        res = StreamResult(name)
        res.known_ids = set()
        os.makedirs(ctx.scratch, exist_ok=True)
        bindir = ctx.harness("core", release=release)
        drv = ctx.driver()
        n = ctx.scale(quick_n, thorough_n)
        spp = shards_per_profile or max(1, vc.NCPU // max(1, len(profiles)))
        jobs = []
        corpus_dir = os.path.join(vc.VERIF, "corpus", ctx.prop)
        files = []
        # corpus first
        if os.path.isdir(corpus_dir):
            for fn in sorted(os.listdir(corpus_dir)):
                if fn.endswith(".hist"):
                    outp = os.path.join(ctx.scratch, "corpus-" + fn + ("-rel" if release else "") + ".txt")
                    rc, out = vc.run("%s/vharness sys --replay %s --out %s" % (bindir, os.path.join(corpus_dir, fn), outp), timeout=600)
                    files.append(outp)
        import concurrent.futures as cf
        with cf.ThreadPoolExecutor(max_workers=vc.NCPU) as ex:
            futs = []
            for prof in profiles:
                for sh in range(spp):
                    outp = os.path.join(ctx.scratch, "%s-%s-%d%s.txt" % (name, prof, sh, "-rel" if release else ""))
                    futs.append(ex.submit(run_sys_shard, bindir, ctx.seed * 100 + sh, n, prof, outp))
            for f in futs:
                files.append(f.result())
        outs = vc.parallel(["%s sys %s %s" % (drv, f, ctx.prop) for f in files])
        for (rc, out), f in zip(outs, files):
            if rc != 0:
                raise BuildError("model driver failed on %s: %s" % (f, out[-2000:]))
            parse_sys_output(res, out, f)
            collect_stats(res, f, nsamples=0)
            if os.path.exists(f + ".crashes"):
                for l in open(f + ".crashes", errors="replace"):
                    res.disagreements.append({"hist": "harness-abort", "detail": l.strip()[:3000], "file": None})
                os.remove(f + ".crashes")
        # one sample history
        for f in files:
            try:
                txt = open(f, errors="replace").read().split("\nE\n")[0]
                res.samples.append(txt[:1500])
                break
            except Exception:
                pass
        keep_failing_histories(ctx, res)
        return res
    return stream


def keep_failing_histories(ctx, res):
    fails = res.oracle_fails[:10] + res.disagreements[:10]
    if fails:
        outp = os.path.join(vc.VERIF, "replays", "%s-%s-hist-%d.txt" % (ctx.prop, res.name, ctx.seed))
        os.makedirs(os.path.dirname(outp), exist_ok=True)
        seen = set()
        with open(outp, "w") as o:
            for d in fails:
                key = (d.get("file"), d.get("hist"))
                if key in seen or not d.get("file"):
                    continue
                seen.add(key)
                o.write(extract_history(d["file"], d["hist"]) or (d.get("case", "") + "\n"))
        for d in res.oracle_fails + res.disagreements:
            d["file"] = os.path.relpath(outp, vc.VERIF)
    shutil.rmtree(ctx.scratch, ignore_errors=True)


# ------------------------------------------------------------------ reporters

def jaeger_stream(ctx):
    res = StreamResult("jaeger")
    os.makedirs(ctx.scratch, exist_ok=True)
    bindir = ctx.harness("reporters", flags="")
    drv = ctx.driver()
    shards = 16
    n = ctx.scale(24, 600)
    files, cmds = [], []
    corpus = os.path.join(vc.VERIF, "corpus", ctx.prop)
    if os.path.isdir(corpus):
        for fn in sorted(os.listdir(corpus)):
            if fn.endswith(".jaeger"):
                f = os.path.join(ctx.scratch, "corpus-" + fn + ".txt")
                cmds.append("%s/vreporters jaeger --replay %s --out %s" % (bindir, os.path.join(corpus, fn), f)); files.append(f)
    for s in range(shards):
        f = os.path.join(ctx.scratch, "jaeger-%d.txt" % s)
        cmds.append("%s/vreporters jaeger --seed %d --n %d --out %s" % (bindir, ctx.seed * 1000 + s, n, f)); files.append(f)
    for rc, out in vc.parallel(cmds):
        if rc != 0:
            raise BuildError("harness jaeger run failed: " + out[-2000:])
    outs = vc.parallel(["%s jaeger %s %s" % (drv, f, ctx.prop) for f in files])
    for (rc, out), f in zip(outs, files):
        if rc != 0:
            raise BuildError("model driver failed on %s: %s" % (f, out[-2000:]))
        for line in out.split("\n"):
            if line.startswith("DISAGREE "):
                m = re.match(r"DISAGREE (\d+) (.*)$", line)
                res.disagreements.append({"line": int(m.group(1)), "detail": m.group(2)[:1500], "file": f})
            elif line.startswith("ORACLEFAIL "):
                m = re.match(r"ORACLEFAIL (\d+) (.*)$", line)
                res.oracle_fails.append({"line": int(m.group(1)), "case": m.group(2)[:1500], "file": f})
            elif line.startswith("SUMMARY "):
                kv = dict(x.split("=") for x in line.split()[1:])
                res.cases += int(kv.get("cases", 0)); res.nontrivial += int(kv.get("nontrivial", 0))
        collect_stats(res, f, nsamples=0)
    for f in files[:1]:
        with open(f, errors="replace") as fh:
            for l in fh:
                if l.startswith("J "):
                    res.samples.append(l.strip()[:600]); break
    keep_failing_files(ctx, res)
    return res


def twins_stream(ctx):
    """C15: plain vs #[trace] twins (outcome/effects equality decided in the harness, recorded
    spans compared with the model through system histories)"""
    res = StreamResult("twins")
    res.known_ids = set()
    os.makedirs(ctx.scratch, exist_ok=True)
    bindir = ctx.harness("core")
    drv = ctx.driver()
    n = ctx.scale(6, 150)
    files, cmds = [], []
    for s in range(16):
        f = os.path.join(ctx.scratch, "twins-%d.txt" % s)
        cmds.append("%s/vharness twins --seed %d --n %d --out %s" % (bindir, ctx.seed * 1000 + s, n, f)); files.append(f)
    for rc, out in vc.parallel(cmds):
        if rc != 0:
            raise BuildError("harness twins run failed: " + out[-2000:])
    outs = vc.parallel(["%s sys %s C15" % (drv, f) for f in files])
    for (rc, out), f in zip(outs, files):
        if rc != 0:
            raise BuildError("model driver failed on %s: %s" % (f, out[-2000:]))
        parse_sys_output(res, out, f)
        collect_stats(res, f, nsamples=0)
    for f in files[:1]:
        with open(f, errors="replace") as fh:
            for l in fh:
                if l.startswith("T "):
                    res.samples.append(l.strip()[:500]); break
    keep_failing_histories(ctx, res)
    return res


def reporters_stream_for(kind, quick_n, thorough_n):
    """C19, Datadog (kind='datadog') and OpenTelemetry (kind='otel') parts"""
    def stream(ctx):
        res = StreamResult(kind)
        os.makedirs(ctx.scratch, exist_ok=True)
        bindir = ctx.harness("reporters", flags="")
        drv = ctx.driver()
        n = ctx.scale(quick_n, thorough_n)
        files, cmds = [], []
        for s in range(16):
            f = os.path.join(ctx.scratch, "%s-%d.txt" % (kind, s))
            cmds.append("%s/vreporters %s --seed %d --n %d --out %s" % (bindir, kind, ctx.seed * 1000 + s, n, f)); files.append(f)
        for rc, out in vc.parallel(cmds):
            if rc != 0:
                raise BuildError("harness %s run failed: %s" % (kind, out[-2000:]))
        outs = vc.parallel(["%s reporters %s" % (drv, f) for f in files])
        for (rc, out), f in zip(outs, files):
            if rc != 0:
                raise BuildError("model driver failed on %s: %s" % (f, out[-2000:]))
            for line in out.split("\n"):
                if line.startswith("DISAGREE "):
                    m = re.match(r"DISAGREE (\d+) (.*)$", line)
                    res.disagreements.append({"line": int(m.group(1)), "detail": m.group(2)[:1500], "file": f})
                elif line.startswith("ORACLEFAIL "):
                    m = re.match(r"ORACLEFAIL (\d+) (.*)$", line)
                    res.oracle_fails.append({"line": int(m.group(1)), "case": m.group(2)[:1500], "file": f})
                elif line.startswith("SUMMARY "):
                    kv = dict(x.split("=") for x in line.split()[1:])
                    res.cases += int(kv.get("cases", 0)); res.nontrivial += int(kv.get("nontrivial", 0))
            collect_stats(res, f, nsamples=0)
        for f in files[:1]:
            with open(f, errors="replace") as fh:
                for l in fh:
                    if l[:2] in ("D ", "O ") and len(l) > 60:
                        res.samples.append(l.strip()[:600]); break
        keep_failing_files(ctx, res)
        return res
    return stream


def verdict_stream_for(name, crate, subcmd, quick_n, thorough_n, flags=None, shards=8, binary=None):
    """streams whose expectation is a constant (every scenario must end in its 'good' verdict):
    the harness prints `<tag> <scenario> => <verdict>`; a verdict starting with VIOLATION fails"""
    def stream(ctx):
        res = StreamResult(name)
        os.makedirs(ctx.scratch, exist_ok=True)
        bindir = ctx.harness(crate, flags=vc.GUARD_FLAGS if flags is None else flags)
        exe = os.path.join(bindir, binary or ("vharness" if crate == "core" else "v" + crate))
        n = ctx.scale(quick_n, thorough_n)
        files, cmds = [], []
        for s in range(shards):
            f = os.path.join(ctx.scratch, "%s-%d.txt" % (name, s))
            cmds.append("%s %s --seed %d --n %d --out %s" % (exe, subcmd, ctx.seed * 1000 + s, n, f)); files.append(f)
        # a scenario that never ends (a tracing call or flush() that blocks) is a verdict, not a
        # failure of the machinery: the process is killed after a generous bound and reported
        limit = 300 if ctx.tier == "quick" else 2400
        for (rc, out), cmd in zip(vc.parallel(cmds, jobs=shards, timeout=limit), cmds):
            if rc == 124:
                res.oracle_fails.append({"line": 0, "case": "the %s scenarios did not finish within %d s (a tracing call, flush() or the collector blocks): %s" % (name, limit, cmd.split("/")[-1][:200]), "file": None})
            elif rc != 0:
                raise BuildError("harness %s run failed (rc %s): %s" % (name, rc, out[-2000:]))
        seen = set()
        for f in files:
            if not os.path.exists(f):
                continue
            with open(f, errors="replace") as fh:
                for i, line in enumerate(fh, 1):
                    if line.startswith("#stat "):
                        _, k, v = line.split()
                        res.stats[k] = res.stats.get(k, 0) + int(v)
                        continue
                    if " => " not in line:
                        continue
                    lhs, rhs = line.rstrip("\n").split(" => ", 1)
                    res.cases += 1
                    if lhs not in seen:
                        seen.add(lhs); res.nontrivial += 1
                    if rhs.startswith("VIOLATION"):
                        res.oracle_fails.append({"line": i, "case": (lhs + " => " + rhs)[:1500], "file": f})
                    elif len(res.samples) < 2:
                        res.samples.append(line.strip()[:400])
        keep_failing_files(ctx, res)
        return res
    return stream
