"""Common machinery of /verif/bin/check: Coq stage, builds, evidence, violation protocol."""
import fcntl, hashlib, json, os, re, shutil, subprocess, sys, time

VERIF = os.path.dirname(os.path.dirname(os.path.abspath(__file__)))
REPO = "/repo"
COQ = os.path.join(VERIF, "coq")
OCAML = os.path.join(VERIF, "ocaml")
TARGET = os.path.join(VERIF, ".target")
SCRATCH = os.path.join(VERIF, ".scratch")
GUARD_FLAGS = "--cfg fastrace_verif"
NCPU = os.cpu_count() or 4

FORBIDDEN = re.compile(
    r"\b(Admitted|admit|Axiom|Axioms|Parameter|Parameters|Conjecture|Conjectures|Hypothesis|Hypotheses|Variable|Variables)\b"
    r"|Unset\s+Guard|bypass_check|type-in-type|impredicative-set|Admit\s+Obligations|Unset\s+Positivity|Unset\s+Universe")
# Section-local Variable/Hypothesis are allowed: checked separately (must be inside a Section)
SECTION_OK = re.compile(r"\b(Variable|Variables|Hypothesis|Hypotheses|Context)\b")

ALLOWED_AXIOMS = set()   # the allow-list of Print Assumptions starts (and stays) empty


class Lock:
    def __init__(self, name):
        os.makedirs(os.path.join(VERIF, ".locks"), exist_ok=True)
        self.path = os.path.join(VERIF, ".locks", name)
    def __enter__(self):
        self.f = open(self.path, "w")
        fcntl.flock(self.f, fcntl.LOCK_EX)
        return self
    def __exit__(self, *a):
        fcntl.flock(self.f, fcntl.LOCK_UN)
        self.f.close()


def run(cmd, cwd=None, env=None, timeout=1800, check=False, stdin=None):
    e = dict(os.environ)
    e.update({"CARGO_NET_OFFLINE": "true"})
    if env:
        e.update(env)
    p = subprocess.Popen(cmd, cwd=cwd, env=e, stdout=subprocess.PIPE, stderr=subprocess.STDOUT, text=True,
                         errors="replace", stdin=subprocess.PIPE if stdin is not None else None,
                         shell=isinstance(cmd, str), start_new_session=True)
    try:
        out, _ = p.communicate(input=stdin, timeout=timeout)
    except subprocess.TimeoutExpired:
        # kill the whole process group: a stuck harness must not keep a core busy afterwards
        try:
            os.killpg(p.pid, 9)
        except Exception:
            p.kill()
        try:
            out, _ = p.communicate(timeout=5)
        except Exception:
            out = ""
        if check:
            raise RuntimeError("command timed out: %s" % cmd)
        return 124, (out or "") + "\ntimeout"
    if check and p.returncode != 0:
        raise RuntimeError("command failed (%s): %s\n%s" % (p.returncode, cmd, out[-4000:]))
    return p.returncode, out


# ------------------------------------------------------------------ Coq stage

def coq_files():
    out = []
    for root, _, files in os.walk(os.path.join(COQ, "theories")):
        for f in files:
            if f.endswith(".v"):
                out.append(os.path.join(root, f))
    return sorted(out)


def scan_forbidden():
    """grep the development for declared axioms / disabled checks; Variable & Hypothesis are
    accepted only between Section ... End."""
    bad = []
    for path in coq_files():
        depth = 0
        text = open(path).read()
        # strip comments (nested) and strings
        text = strip_comments(text)
        for ln, line in enumerate(text.split("\n"), 1):
            if re.match(r"\s*Section\b", line):
                depth += 1
            if re.match(r"\s*End\b", line) and depth > 0:
                depth -= 1
            for m in FORBIDDEN.finditer(line):
                w = m.group(0)
                if SECTION_OK.match(w) and depth > 0:
                    continue
                bad.append("%s:%d: %s" % (os.path.relpath(path, VERIF), ln, w))
    return bad


def strip_comments(text):
    out, i, depth, n = [], 0, 0, len(text)
    while i < n:
        if text.startswith("(*", i):
            depth += 1; i += 2
        elif text.startswith("*)", i) and depth > 0:
            depth -= 1; i += 2
        else:
            if depth == 0:
                out.append(text[i])
            elif text[i] == "\n":
                out.append("\n")
            i += 1
    return "".join(out)


def coq_make():
    """full .vo build of the development (no -vos); incremental; under a lock and a timeout"""
    with Lock("coq"):
        if not os.path.exists(os.path.join(COQ, "Makefile")) or \
           os.path.getmtime(os.path.join(COQ, "Makefile")) < os.path.getmtime(os.path.join(COQ, "_CoqProject")):
            run("coq_makefile -f _CoqProject -o Makefile", cwd=COQ, check=True)
        rc, out = run("timeout 1500 make -j%d" % NCPU, cwd=COQ, timeout=1600)
        return rc, out


def coq_dep_cone(vfile):
    """the .v files of this development that vfile depends on (transitively), via coqdep"""
    rc, out = run("coqdep -Q theories FT " + " ".join(os.path.relpath(f, COQ) for f in coq_files()), cwd=COQ)
    deps = {}
    for line in out.split("\n"):
        if ":" not in line:
            continue
        lhs, rhs = line.split(":", 1)
        tgt = [t for t in lhs.split() if t.endswith(".vo")]
        if not tgt:
            continue
        src = tgt[0][:-1]
        deps[src] = [d[:-1] for d in rhs.split() if d.endswith(".vo") and d.startswith("theories/")]
    rel = os.path.relpath(vfile, COQ)
    seen, todo = set(), [rel]
    while todo:
        f = todo.pop()
        if f in seen:
            continue
        seen.add(f)
        todo.extend(deps.get(f, []))
    return sorted(seen)


OBLIG = re.compile(r"^\s*(?:Local\s+|Global\s+|#\[[^\]]*\]\s*)*(Theorem|Lemma|Corollary|Example|Fact|Remark|Proposition)\s+([A-Za-z0-9_']+)", re.M)
QED = re.compile(r"\bQed\.")
DEFINED = re.compile(r"\bDefined\.")


def count_obligations(files):
    ob, qed, names = 0, 0, []
    for f in files:
        text = strip_comments(open(os.path.join(COQ, f)).read())
        found = OBLIG.findall(text)
        ob += len(found)
        qed += len(QED.findall(text))
        names += [n for _, n in found]
    return ob, qed, names


def check_property_file(vname):
    """re-check theories/Properties/<vname>.v with coqc (prints Print Assumptions), return
    (ok, output, assumptions)"""
    src = os.path.join(COQ, "theories", "Properties", vname + ".v")
    odir = os.path.join(SCRATCH, "coqo-%d" % os.getpid())
    os.makedirs(odir, exist_ok=True)
    tmpvo = os.path.join(odir, vname + ".vo")
    with Lock("coq"):
        rc, out = run("timeout 900 coqc -q -noglob -Q theories FT -o %s %s" % (tmpvo, src), cwd=COQ, timeout=1000)
    shutil.rmtree(odir, ignore_errors=True)
    # parse Print Assumptions blocks
    axioms = []
    closed = 0
    lines = out.split("\n")
    i = 0
    while i < len(lines):
        if lines[i].startswith("Closed under the global context"):
            closed += 1
        elif lines[i].startswith("Axioms:"):
            i += 1
            while i < len(lines) and (lines[i].startswith(" ") or lines[i].strip() == "") and lines[i].strip():
                m = re.match(r"\s*([A-Za-z0-9_.']+)\s*:", lines[i])
                if m:
                    axioms.append(m.group(1))
                i += 1
            continue
        i += 1
    return rc == 0, out, closed, axioms


# ------------------------------------------------------------------ builds

def sha_file(p):
    h = hashlib.sha256()
    with open(p, "rb") as f:
        h.update(f.read())
    return h.hexdigest()


def sync_if_changed(src, dst):
    if not os.path.exists(dst) or sha_file(src) != sha_file(dst):
        shutil.copyfile(src, dst)


def build_harness(crate="core", release=False, extra_flags=GUARD_FLAGS):
    """cargo build of a harness crate against /repo's working tree (path deps): cargo's
    fingerprints rebuild fastrace whenever a source file of /repo changed."""
    cdir = os.path.join(VERIF, "harness", crate)
    with Lock("cargo-" + crate + ("-rel" if release else "")):
        sync_if_changed(os.path.join(REPO, "Cargo.lock"), os.path.join(cdir, "Cargo.lock"))
        sync_if_changed(os.path.join(REPO, "rust-toolchain.toml"), os.path.join(cdir, "rust-toolchain.toml"))
        tdir = os.path.join(TARGET, crate)
        env = {"CARGO_TARGET_DIR": tdir, "RUSTFLAGS": extra_flags}
        cmd = "cargo build --offline" + (" --release" if release else "")
        rc, out = run(cmd, cwd=cdir, env=env, timeout=3000)
        if rc != 0:
            return None, out
        return os.path.join(tdir, "release" if release else "debug"), out


def build_ocaml():
    with Lock("ocaml"):
        drv = os.path.join(OCAML, "_build", "driver")
        srcs = [os.path.join(OCAML, f) for f in os.listdir(OCAML) if f.endswith(".ml")] + \
               [os.path.join(COQ, "theories", "Extract.v")] + \
               [f for f in coq_files() if "/Model/" in f or "/Oracles/" in f]
        newest = max(os.path.getmtime(s) for s in srcs)
        if os.path.exists(drv) and os.path.getmtime(drv) >= newest:
            return drv, ""
        rc, out = run("./build.sh", cwd=OCAML, timeout=900)
        if rc != 0:
            return None, out
        return drv, out


# ------------------------------------------------------------------ evidence / results

def write_json(path, obj):
    os.makedirs(os.path.dirname(path), exist_ok=True)
    tmp = path + ".tmp%d" % os.getpid()
    with open(tmp, "w") as f:
        json.dump(obj, f, indent=1, sort_keys=True)
        f.write("\n")
    os.replace(tmp, path)


def load_known_findings():
    p = os.path.join(VERIF, "known_findings.json")
    if not os.path.exists(p):
        return []
    return json.load(open(p)).get("findings", [])


def scratch_dir(prop):
    d = os.path.join(SCRATCH, "%s-%d" % (prop, os.getpid()))
    shutil.rmtree(d, ignore_errors=True)
    os.makedirs(d)
    return d


def repo_hash(files):
    h = hashlib.sha256()
    for f in sorted(files):
        p = os.path.join(REPO, f)
        if os.path.exists(p):
            h.update(f.encode()); h.update(open(p, "rb").read())
    return h.hexdigest()[:16]


def parallel(cmds, cwd=None, env=None, timeout=3000, jobs=NCPU):
    """run shell commands concurrently, at most `jobs` at a time; returns list of (rc, out).
    Output is drained while the command runs (a command that prints more than a pipe buffer
    must not block), and a command that exceeds the timeout is killed with its children."""
    from concurrent.futures import ThreadPoolExecutor
    e = dict(os.environ); e.update({"CARGO_NET_OFFLINE": "true"})
    if env: e.update(env)
    def one(cmd):
        p = subprocess.Popen(cmd, cwd=cwd, env=e, shell=True, stdout=subprocess.PIPE,
                             stderr=subprocess.STDOUT, text=True, errors="replace", start_new_session=True)
        try:
            out, _ = p.communicate(timeout=timeout)
            return (p.returncode, out)
        except subprocess.TimeoutExpired:
            try:
                os.killpg(p.pid, 9)
            except Exception:
                p.kill()
            try:
                p.communicate(timeout=5)
            except Exception:
                pass
            return (124, "timeout")
    if not cmds:
        return []
    with ThreadPoolExecutor(max_workers=max(1, jobs)) as ex:
        return list(ex.map(one, cmds))
