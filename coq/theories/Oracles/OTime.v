(* Executable oracle for C18, evaluated on the times the CODE reported.
   The model's clock is logical: a time point read during the call started at action index
   [call] carries the tick call*1024+k.  Real times must respect that order wherever the
   execution fixes it: within one call (k), and across calls when the earlier call had
   completed before the later one started.  Durations must lie inside the wall-clock
   bracket of the calls that started and finished the span. *)
From Coq Require Import List NArith Bool.
Import ListNotations.
Open Scope N_scope.

Record tpoint := mkTP { tp_tick : N; tp_real : N; tp_call : N; tp_done : N }.

Definition before (p q : tpoint) : bool :=
  ((tp_call p =? tp_call q) && (tp_tick p <=? tp_tick q)) || (tp_done p <? tp_call q).

(* one report batch = one clock anchor: order must be kept exactly *)
Definition order_ok (pts : list tpoint) : bool :=
  forallb (fun p => forallb (fun q => implb (before p q) (tp_real p <=? tp_real q)) pts) pts.

Record dcheck := mkDC { dc_dur : N; dc_lo : N; dc_hi : N }.
Definition dur_ok (ds : list dcheck) : bool :=
  forallb (fun d => (dc_lo d <=? dc_dur d) && (dc_dur d <=? dc_hi d)) ds.

Record wcheck := mkWC { wc_begin : N; wc_lo : N; wc_hi : N }.
Definition wall_ok (ws : list wcheck) : bool :=
  forallb (fun w => (wc_lo w <=? wc_begin w) && (wc_begin w <=? wc_hi w)) ws.

Definition P_C18 (batches : list (list tpoint)) (ds : list dcheck) (ws : list wcheck) : bool :=
  forallb order_ok batches && dur_ok ds && wall_ok ws.
