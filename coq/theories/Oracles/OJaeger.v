(* Executable oracles for C19 (Jaeger part) and C20, evaluated on the datagrams the CODE sent.
   They do not assume the model's splitting strategy: any segmentation of the batch into
   datagrams below the limit that keeps every span that fits alone, exactly once and in
   order, is accepted. *)
From Coq Require Import List NArith Bool Arith.
From FT Require Import Model.Jaeger Model.Thrift.
Import ListNotations.
Open Scope N_scope.

Fixpoint bytes_eqb (a b : bytes) : bool :=
  match a, b with
  | [], [] => true
  | x :: a', y :: b' => (x =? y) && bytes_eqb a' b'
  | _, _ => false
  end.

Definition limit : nat := N.to_nat 8000.

Definition oversize (service : bytes) (r : jrecord) : bool :=
  Nat.leb limit (length (encode_records service [r])).

Fixpoint drop_oversize (service : bytes) (rs : list jrecord) : list jrecord :=
  match rs with
  | r :: rs' => if oversize service r then drop_oversize service rs' else rs
  | [] => []
  end.

(* the smallest k >= 1 such that the encoding of the first k records is the datagram *)
Fixpoint find_k (service : bytes) (fuel k : nat) (rs : list jrecord) (d : bytes) : option nat :=
  match fuel with
  | O => None
  | S fuel' =>
      if Nat.ltb (length rs) k then None
      else
        let e := encode_records service (firstn k rs) in
        if bytes_eqb e d then Some k
        else if Nat.ltb (length d) (length e) then None
        else find_k service fuel' (S k) rs d
  end.

Fixpoint seg (service : bytes) (fuel : nat) (rs : list jrecord) (dgs : list bytes) : bool :=
  match fuel with
  | O => false
  | S fuel' =>
      let rs' := drop_oversize service rs in
      match dgs with
      | [] => match rs' with [] => true | _ => false end
      | d :: ds =>
          match find_k service (S (length rs')) 1 rs' d with
          | Some k => seg service fuel' (skipn k rs') ds
          | None => false
          end
      end
  end.

(* C19 (Jaeger): every datagram is the Thrift compact emitBatch encoding of a run of the
   batch's records, every record that fits alone is transmitted exactly once, in order *)
(* read with the Thrift reader (Model/Thrift.v, independent of the encoder): every datagram is a
   well-formed emitBatch message for this service, and the spans read from all datagrams, in
   order, are exactly the converted records that fit alone (compared through their
   encodings, which are injective: Proofs/ThriftProofs.v) *)
Definition decoded_spans (service : bytes) (dgs : list bytes) : option (list jspan) :=
  fold_right (fun d acc =>
                match tr_message d, acc with
                | Some (svc, sps), Some rest => if bytes_eqb svc service then Some (sps ++ rest) else None
                | _, _ => None
                end) (Some []) dgs.

Definition P_C19_jaeger_decoded (service : bytes) (rs : list jrecord) (dgs : list bytes) : bool :=
  match decoded_spans service dgs with
  | Some sps =>
      bytes_eqb (flat_map enc_span sps)
                (flat_map enc_span (map convert (filter (fun r => negb (oversize service r)) rs)))
  | None => false
  end.

Definition P_C19_jaeger (service : bytes) (rs : list jrecord) (dgs : list bytes) : bool :=
  seg service (S (length dgs)) rs dgs && P_C19_jaeger_decoded service rs dgs.

(* C20: additionally every datagram is smaller than 8000 bytes *)
Definition P_C20 (service : bytes) (rs : list jrecord) (dgs : list bytes) : bool :=
  forallb (fun d => Nat.ltb (length d) limit) dgs && seg service (S (length dgs)) rs dgs.
