(* Executable oracles for C19, Datadog and OpenTelemetry parts, evaluated on what the CODE
   transmitted (the HTTP body / the exported SpanData). *)
From Coq Require Import List NArith Bool Arith.
From FT Require Import Model.Jaeger Model.Reporters.
Import ListNotations.
Open Scope N_scope.

Definition pair_eqb (p q : bytes * bytes) : bool := beqb (fst p) (fst q) && beqb (snd p) (snd q).

Fixpoint pairs_eqb (a b : list (bytes * bytes)) : bool :=
  match a, b with
  | [], [] => true
  | p :: a', q :: b' => pair_eqb p q && pairs_eqb a' b'
  | _, _ => false
  end.

(* same entries, any order (HashMap iteration order is not specified) *)
Definition same_entries (a b : list (bytes * bytes)) : bool :=
  Nat.eqb (length a) (length b) &&
  forallb (fun p => existsb (pair_eqb p) b) a && forallb (fun p => existsb (pair_eqb p) a) b.

Definition ddspan_eqb (a b : ddspan) : bool :=
  beqb (dd_name a) (dd_name b) && beqb (dd_service a) (dd_service b) && beqb (dd_type a) (dd_type b) &&
  beqb (dd_resource a) (dd_resource b) && (dd_start a =? dd_start b) && (dd_duration a =? dd_duration b) &&
  (dd_span_id a =? dd_span_id b) && (dd_trace_id a =? dd_trace_id b) && (dd_parent_id a =? dd_parent_id b) &&
  match dd_meta a, dd_meta b with
  | None, None => true
  | Some x, Some y => pairs_eqb x y
  | _, _ => false
  end.

Fixpoint forallb2 {A B} (f : A -> B -> bool) (l : list A) (m : list B) : bool :=
  match l, m with
  | [], [] => true
  | a :: l', b :: m' => f a b && forallb2 f l' m'
  | _, _ => false
  end.

(* the body decodes as one trace (array of one array); span i is the conversion of record i
   (meta = the record's properties, last value per key, in whatever order); the decoded spans
   re-encode to exactly the bytes that were sent *)
Definition P_C19_datadog (service resource ty : bytes) (recs : list jrecord) (bodies : list bytes) : bool :=
  match recs, bodies with
  | [], [] => true
  | _ :: _, [body] =>
      match rd_dd_body body with
      | Some spans =>
          forallb2 (fun r s =>
                      let m := match dd_meta s with Some m => m | None => [] end in
                      ddspan_eqb s (dd_convert service resource ty r m) &&
                      same_entries m (last_wins (jr_props r))) recs spans &&
          beqb (enc_dd_body spans) body
      | None => false
      end
  | _, _ => false
  end.

Definition oevent_eqb (a b : otel_event) : bool :=
  beqb (oe_name a) (oe_name b) && (oe_time a =? oe_time b) && pairs_eqb (oe_attrs a) (oe_attrs b).

Definition ospan_eqb (a b : otel_span) : bool :=
  (os_trace a =? os_trace b) && (os_span a =? os_span b) && (os_parent a =? os_parent b) &&
  beqb (os_name a) (os_name b) && (os_start a =? os_start b) && (os_end a =? os_end b) &&
  pairs_eqb (os_attrs a) (os_attrs b) && forallb2 oevent_eqb (os_events a) (os_events b).

(* one export call carrying the conversion of every record, in order (none for an empty batch) *)
Definition P_C19_otel (recs : list jrecord) (exports : list (list otel_span)) : bool :=
  match recs, exports with
  | [], [] => true
  | _ :: _, [spans] => forallb2 (fun r s => ospan_eqb s (otel_convert r)) recs spans
  | _, _ => false
  end.
