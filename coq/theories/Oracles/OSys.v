(* Executable oracles for the system properties, evaluated on what the CODE showed
   (the observations logged by the harness).  The model is run alongside only to NAME things:
   which span has which id and token, which command was popped in which collector cycle,
   which call completed before which other call started.  Each oracle returns the list of
   failing clauses, each with the class of known finding it falls into (0 = none: a new
   violation). *)
From Coq Require Import List NArith Bool.
From FT Require Import Model.Base Model.Local Model.Records Model.Spsc Model.Collector Model.System.
Import ListNotations.
Open Scope N_scope.

(* known-finding classes *)
Definition K_NONE : N := 0.
Definition K1 : N := 1.   (* the drain is not a consistent cut across threads *)
Definition K2 : N := 2.   (* two copies of one span in one trace share a dangling bucket *)
Definition K3 : N := 3.   (* the 32-bit id counter wraps; id 0 with prefix 0 *)
Definition K7 : N := 7.   (* a refused local-parent scope records under the enclosing scope *)

(* clause codes *)
Definition CL_WHOLE : N := 31.         (* C03: a span finished before its root is in the root's batch *)
Definition CL_HOLD : N := 32.          (* C03: nothing of a trace before its root finished *)
Definition CL_AFTER : N := 33.         (* C03: nothing of a trace after its root's batch *)
Definition CL_CANCELLED : N := 41.     (* C04: nothing of a cancelled trace *)
Definition CL_LEAK : N := 81.          (* C08: active entry for a committed trace *)
Definition CL_DUP_ATTACH : N := 61.    (* C06: an attachment appears twice on one record *)
Definition CL_ID_ZERO : N := 21.       (* C02: span id 0 *)
Definition CL_REFUSED_SCOPE : N := 22. (* C02: local span recorded although its scope was refused *)
Definition CL_PANIC : N := 71.         (* C07: a call panicked *)
Definition CL_UNSAMPLED : N := 51.
Definition CL_MISSING : N := 11.       (* C01: a finished span was not delivered by a later complete cycle *)
Definition CL_DUPLICATE : N := 12.     (* C01: a finished span was delivered more often than it has parents in that trace *)     (* C05: record of a trace without sampled root *)

Record verdict := mkV { v_clause : N; v_known : N; v_step : N }.

(* ---------------------------------------------------------------- the run, step by step *)
Record frame_log := mkFL {
  fl_idx : N;            (* 1-based index of the action *)
  fl_pre : sys; fl_act : action; fl_obs : obs;   (* observed (code) *)
  fl_post : sys; fl_cycle : N }.                  (* number of cycles begun so far *)

Fixpoint trace_run (s : sys) (idx cyc : N) (h : list (action * obs)) : list frame_log :=
  match h with
  | [] => []
  | (a, o) :: h' =>
      let (s', _) := step s a in
      let cyc' := match a with ACBegin => cyc + 1 | _ => cyc end in
      mkFL idx s a o s' cyc' :: trace_run s' (idx + 1) cyc' h'
  end.

(* the command a collector micro-step moves into the batch, if any *)
Definition popped_cmd (f : frame_log) : option command :=
  match fl_act f with
  | ACPop =>
      match s_pc (fl_pre f) with
      | PDrain _ _ cur =>
          match get_thread (fl_pre f) cur with
          | Some th => fst (pop_step (th_chan th))
          | None => None
          end
      | _ => None
      end
  | ACCheck =>
      match s_pc (fl_pre f) with
      | PEmpty _ _ cur =>
          match get_thread (fl_pre f) cur with
          | Some th => if ch_abandoned (th_chan th) then fst (pop_step (th_chan th)) else None
          | None => None
          end
      | _ => None
      end
  | _ => None
  end.

Definition first_raw_id (s : span_set) : N :=
  match set_raws s with r :: _ => r_id r | [] => 0 end.

(* cycle in which the commit / drop / start of collect id c, or the span set whose first raw
   span has id i, was popped (0 = never) *)
Fixpoint pop_cycle (p : command -> bool) (l : list frame_log) : N :=
  match l with
  | [] => 0
  | f :: l' => match popped_cmd f with
               | Some c => if p c then fl_cycle f else pop_cycle p l'
               | None => pop_cycle p l'
               end
  end.
Definition is_commit (c : N) (x : command) := match x with CCommit c' => c =? c' | _ => false end.
Definition is_drop (c : N) (x : command) := match x with CDrop c' => c =? c' | _ => false end.
Definition is_start (c : N) (x : command) := match x with CStart c' => c =? c' | _ => false end.
Definition is_submit_of (i : N) (x : command) :=
  match x with CSubmit s _ => (first_raw_id s =? i) && negb (i =? 0) | _ => false end.

(* ---------------------------------------------------------------- calls: start and completion *)
(* completion index of the call started at index i: the index of its last ring push *)
Fixpoint completion (t : N) (last : N) (l : list frame_log) : N :=
  match l with
  | [] => last
  | f :: l' =>
      match fl_act f with
      | APush t' => if t =? t' then completion t (fl_idx f) l' else completion t last l'
      | ACall t' _ => if t =? t' then last else completion t last l'
      | AExit t' => if t =? t' then last else completion t last l'
      | _ => completion t last l'
      end
  end.

(* the finish of a thread-safe span *)
Record finish := mkFin {
  fin_start : N; fin_done : N; fin_id : N; fin_items : token; fin_cid : option N }.

Fixpoint finishes (l : list frame_log) : list finish :=
  match l with
  | [] => []
  | f :: l' =>
      let rest := finishes l' in
      match fl_act f with
      | ACall t (KDropSpan h) =>
          match fl_obs f, get_span (fl_pre f) h with
          | OCall _, Some (Some sp) =>
              mkFin (fl_idx f) (completion t (fl_idx f) l') (r_id (sp_raw sp)) (sp_token sp) (sp_cid sp) :: rest
          | _, _ => rest
          end
      | _ => rest
      end
  end.

Definition cancelled (c : N) (l : list frame_log) : bool :=
  existsb (fun f => match fl_act f with
                    | ACall _ (KCancel h) =>
                        match get_span (fl_pre f) h with
                        | Some (Some sp) => match sp_cid sp with Some c' => c =? c' | None => false end
                        | _ => false
                        end
                    | _ => false
                    end) l.

(* observed reports with their cycle number *)
Fixpoint reports (l : list frame_log) : list (N * N * list record * list (N * N * N)) :=
  match l with
  | [] => []
  | f :: l' =>
      match fl_obs f with
      | OReport recs st _ => (fl_idx f, fl_cycle f, recs, st) :: reports l'
      | _ => reports l'
      end
  end.

Definition has_record (tr id : N) (recs : list record) : bool :=
  existsb (fun r => (rc_trace r =? tr) && (rc_id r =? id)) recs.

Definition installed_cancelable (l : list frame_log) : bool :=
  existsb (fun f => match fl_act f with AInstall true => true | _ => false end) l.
Definition installed_default (l : list frame_log) : bool :=
  existsb (fun f => match fl_act f with AInstall false => true | _ => false end) l.
Definition has_prefix0 (l : list frame_log) : bool :=
  existsb (fun f => match fl_act f with ASpawn _ 0 _ => true | _ => false end) l.

(* ---------------------------------------------------------------- C03 *)
(* whole: the report that carries a root carries every span of its trace whose finish had
   completed before the root's finish started.  Evaluated only when no queue can be full. *)
Definition check_whole (l : list frame_log) (big_rings : bool) : list verdict :=
  if negb (installed_cancelable l && negb (installed_default l) && big_rings) then [] else
  let fs := finishes l in
  let rs := reports l in
  flat_map (fun root =>
    match fin_cid root, fin_items root with
    | Some c, [rit] =>
        if negb (ti_sampled rit) || cancelled c l then [] else
        match find (fun rep => has_record (ti_trace rit) (fin_id root) (snd (fst rep))) rs with
        | None => []
        | Some (ridx, rcyc, recs, _) =>
            flat_map (fun sp =>
              if (fin_done sp <? fin_start root) then
                flat_map (fun it =>
                  if (ti_collect it =? c) && ti_sampled it && negb (has_record (ti_trace it) (fin_id sp) recs)
                  then [mkV CL_WHOLE
                            (if pop_cycle (is_submit_of (fin_id sp)) l =? pop_cycle (is_commit c) l then K_NONE else K1)
                            ridx]
                  else []) (fin_items sp)
              else []) fs
        end
    | _, _ => []
    end) fs.

(* hold / nothing afterwards: records of the root's trace items only in the root's batch *)
Definition check_hold (l : list frame_log) : list verdict :=
  if negb (installed_cancelable l && negb (installed_default l)) then [] else
  let fs := finishes l in
  let rs := reports l in
  flat_map (fun root =>
    match fin_cid root, fin_items root with
    | Some c, [rit] =>
        if negb (ti_sampled rit) then [] else
        let commit_cyc := pop_cycle (is_commit c) l in
        flat_map (fun rep =>
          match rep with
          | (ridx, rcyc, recs, _) =>
              (* the root's own record outside the cycle that popped its commit *)
              if has_record (ti_trace rit) (fin_id root) recs && negb (rcyc =? commit_cyc)
              then [mkV (if rcyc <? commit_cyc then CL_HOLD else CL_AFTER) K_NONE ridx] else []
          end) rs
    | _, _ => []
    end) fs.

(* ---------------------------------------------------------------- C04 *)
Definition check_cancelled (l : list frame_log) : list verdict :=
  if negb (installed_cancelable l && negb (installed_default l)) then [] else
  let fs := finishes l in
  let rs := reports l in
  flat_map (fun root =>
    match fin_cid root, fin_items root with
    | Some c, [rit] =>
        if ti_sampled rit && cancelled c l then
          flat_map (fun sp =>
            flat_map (fun it =>
              if (ti_collect it =? c) && ti_sampled it then
                flat_map (fun rep =>
                  match rep with
                  | (ridx, _, recs, _) =>
                      if has_record (ti_trace it) (fin_id sp) recs
                      then [mkV CL_CANCELLED
                                (let dc := pop_cycle (is_drop c) l in
                                 let sc := pop_cycle (is_start c) l in
                                 (* the drop was popped after the commit, or before the start: the cut split them *)
                                 if (dc =? 0) || (pop_cycle (is_commit c) l <? dc) || (sc =? 0) || (dc <? sc)
                                 then K1 else K_NONE) ridx]
                      else []
                  end) rs
              else []) (fin_items sp)) fs
        else []
    | _, _ => []
    end) fs.

(* ---------------------------------------------------------------- C08 *)
Definition check_leak (l : list frame_log) : list verdict :=
  flat_map (fun rep =>
    match rep with
    | (ridx, rcyc, _, st) =>
        flat_map (fun e =>
          match e with
          | (c, _, _) =>
              let cc := pop_cycle (is_commit c) l in
              if negb (cc =? 0) && (cc <=? rcyc)
              then [mkV CL_LEAK
                        (let sc := pop_cycle (is_start c) l in if (sc =? 0) || (cc <? sc) then K1 else K_NONE) ridx]
              else []
          end) st
    end) (reports l).

(* ---------------------------------------------------------------- C06 / C02 / C05 / C07 *)
Fixpoint count_pair (p : N * N) (ps : props) : nat :=
  match ps with
  | [] => O
  | q :: ps' => (if (fst p =? fst q) && (snd p =? snd q) then 1 else 0)%nat + count_pair p ps'
  end.

(* a property pair with a key symbol > 0 is attached at most once by the generated programs
   (fresh symbols), so a repeated pair means an attachment was mounted twice *)
(* every span that ever existed (thread-safe spans, also those held by adapters) *)
Definition all_spans (l : list frame_log) : list span_inner :=
  flat_map (fun f =>
    flat_map (fun kv => match snd kv with Some sp => [sp] | None => [] end) (s_spans (fl_post f)) ++
    flat_map (fun kv => match snd kv with Some (Some sp) => [sp] | _ => [] end) (s_adapters (fl_post f))) l.

(* the pairs attached through Span::add_properties (each such call attaches fresh symbols) *)
Definition span_attached_pairs (l : list frame_log) : props :=
  flat_map (fun f => match fl_act f, fl_obs f with
                     | ACall _ (KSAddProps _ ps), OCall (RBool true) => ps
                     | _, _ => []
                     end) l.

Definition check_dup_attach (l : list frame_log) : list verdict :=
  let sps := all_spans l in
  let attached := span_attached_pairs l in
  flat_map (fun rep =>
    match rep with
    | (ridx, _, recs, _) =>
        flat_map (fun r =>
          if existsb (fun p => negb (fst p =? 0) && Nat.ltb 0 (count_pair p attached) && Nat.ltb 1 (count_pair p (rc_props r))) (rc_props r)
          then [mkV CL_DUP_ATTACH
                    (if existsb (fun sp => (r_id (sp_raw sp) =? rc_id r) &&
                                           Nat.ltb 1 (length (filter (fun it => ti_trace it =? rc_trace r) (sp_token sp)))) sps
                     then K2 else K_NONE) ridx]
          else []) recs
    end) (reports l).

Definition check_id_zero (l : list frame_log) : list verdict :=
  flat_map (fun rep =>
    match rep with
    | (ridx, _, recs, _) =>
        if existsb (fun r => rc_id r =? 0) recs
        then [mkV CL_ID_ZERO (if has_prefix0 l then K3 else K_NONE) ridx] else []
    end) (reports l).

Definition check_panic (l : list frame_log) : list verdict :=
  flat_map (fun f => match fl_obs f with
                     | OPanic _ => [mkV CL_PANIC (if has_prefix0 l then K3 else K_NONE) (fl_idx f)]
                     | _ => []
                     end) l.

Fixpoint roots_sampled (l : list frame_log) : list N :=
  match l with
  | [] => []
  | f :: l' => match fl_act f with
               | ACall _ (KRoot _ _ tr _ true) => tr :: roots_sampled l'
               | _ => roots_sampled l'
               end
  end.

Definition check_unsampled (l : list frame_log) : list verdict :=
  let ok := roots_sampled l in
  flat_map (fun rep =>
    match rep with
    | (ridx, _, recs, _) =>
        if existsb (fun r => negb (existsb (N.eqb (rc_trace r)) ok)) recs
        then [mkV CL_UNSAMPLED K_NONE ridx] else []
    end) (reports l).

(* local spans entered while the innermost scope object of the thread is a local-parent guard
   whose scope was refused by the stack limit: they must not be recorded *)
Fixpoint innermost_scope_refused (sc : list scoped) : bool :=
  match sc with
  | ScLocal _ _ :: rest => innermost_scope_refused rest
  | ScGuard _ (Some None) :: _ => true
  | _ => false
  end.

Definition refused_scope_ids (l : list frame_log) : list N :=
  flat_map (fun f =>
    match fl_act f with
    | ACall t (KLEnter lid _) =>
        match get_thread (fl_pre f) t, get_thread (fl_post f) t with
        | Some th, Some th' =>
            if innermost_scope_refused (th_scoped th) then
              match th_scoped th' with
              | ScLocal _ (Some (_, idx)) :: _ =>
                  match st_lines (th_stack th') with
                  | ln :: _ => match nth_error (q_spans (l_q ln)) (N.to_nat idx) with
                               | Some r => [r_id r]
                               | None => []
                               end
                  | [] => []
                  end
              | _ => []
              end
            else []
        | _, _ => []
        end
    | _ => []
    end) l.

Definition check_refused_scope (l : list frame_log) : list verdict :=
  let ids := refused_scope_ids l in
  flat_map (fun rep =>
    match rep with
    | (ridx, _, recs, _) =>
        if existsb (fun r => existsb (N.eqb (rc_id r)) ids) recs then [mkV CL_REFUSED_SCOPE K7 ridx] else []
    end) (reports l).

(* ---------------------------------------------------------------- C01 *)
Fixpoint count_records (tr id : N) (rs : list (N * N * list record * list (N * N * N))) : nat :=
  match rs with
  | [] => O
  | (_, _, recs, _) :: rs' =>
      (length (filter (fun r => (rc_trace r =? tr) && (rc_id r =? id)) recs) + count_records tr id rs')%nat
  end.

(* a complete cycle (begin ... process) that begins after action index i *)
Fixpoint cycle_after (i : N) (begun : bool) (l : list frame_log) : bool :=
  match l with
  | [] => false
  | f :: l' =>
      match fl_act f with
      | ACBegin => cycle_after i (i <? fl_idx f) l'
      | ACProcess => if begun then true else cycle_after i false l'
      | _ => cycle_after i begun l'
      end
  end.

Definition check_delivered_once (l : list frame_log) (big_rings : bool) : list verdict :=
  if negb (installed_default l && negb (installed_cancelable l) && big_rings) then [] else
  let rs := reports l in
  flat_map (fun f =>
    flat_map (fun it =>
      if ti_sampled it then
        let expected := length (filter (fun it' => ti_sampled it' && (ti_trace it' =? ti_trace it)) (fin_items f)) in
        let got := count_records (ti_trace it) (fin_id f) rs in
        (if Nat.ltb expected got then [mkV CL_DUPLICATE K_NONE (fin_start f)] else []) ++
        (if Nat.ltb got expected && cycle_after (fin_done f) false l then [mkV CL_MISSING K_NONE (fin_start f)] else [])
      else []) (fin_items f)) (finishes l).

(* ---------------------------------------------------------------- per property *)
Definition oracle (prop : N) (s0 : sys) (h : list (action * obs)) : list verdict :=
  let l := trace_run s0 1 0 h in
  let big := 1000 <=? s_ringcap s0 in
  match prop with
  | 1 => check_delivered_once l big
  | 2 => check_id_zero l ++ check_refused_scope l ++ check_unsampled l
  | 3 => check_whole l big ++ check_hold l
  | 4 => check_cancelled l
  | 5 => check_unsampled l
  | 6 => check_dup_attach l
  | 7 => check_panic l
  | 8 => check_leak l
  | 10 => check_panic l
  | _ => []
  end.
