(* Executable oracle for C12, evaluated on what the *code* returned.
   It reads only the property text: 55-byte fixed form, round trip, None outside the
   accepted language, no panic. *)
From Coq Require Import List NArith Bool.
From FT Require Import Model.Codec.
Import ListNotations.
Open Scope N_scope.

Definition lower_hexb (c : N) : bool :=
  ((48 <=? c) && (c <=? 57)) || ((97 <=? c) && (c <=? 102)).

Definition is_nil {A} (l : list A) : bool := match l with [] => true | _ => false end.

Fixpoint digits_value_o (acc : N) (s : str) : option N :=
  match s with
  | [] => Some acc
  | c :: s' => match hexval c with
               | None => None
               | Some d => digits_value_o (acc * 16 + d) s'
               end
  end.

(* "a hexadecimal number that fits its width" *)
Definition valid_field (bits : N) (s : str) : bool :=
  negb (is_nil s) &&
  match digits_value_o 0 s with Some v => v <? 2 ^ bits | None => false end.

(* "exactly four dash-separated fields, version 00, id and flags fields hexadecimal numbers
    that fit their width" *)
Definition valid_tp (s : str) : bool :=
  match split_dash s with
  | [v; a; b; f] => str_eqb v [48; 48] && valid_field 128 a && valid_field 64 b && valid_field 8 f
  | _ => false
  end.

Definition ctx_eqb (a b : span_ctx) : bool :=
  (c_trace a =? c_trace b) && (c_span a =? c_span b) && Bool.eqb (c_sampled a) (c_sampled b).

Definition opt_ctx_eqb (a b : option span_ctx) : bool :=
  match a, b with
  | None, None => true
  | Some x, Some y => ctx_eqb x y
  | _, _ => false
  end.

(* fixed 55-character form 00-<32 lowercase hex>-<16 lowercase hex>-<2 hex> *)
Definition shape55 (s : str) : bool :=
  match split_dash s with
  | [v; a; b; f] =>
      str_eqb v [48; 48] && Nat.eqb (length a) 32 && Nat.eqb (length b) 16 && Nat.eqb (length f) 2
      && forallb lower_hexb a && forallb lower_hexb b && forallb lower_hexb f
  | _ => false
  end.

Inductive c12_obs :=
| O_rt (c : span_ctx) (enc : str) (dec : option span_ctx)      (* encode c, decode of that *)
| O_rt_panic (c : span_ctx)
| O_dec (s : str) (res : option (option span_ctx))              (* None = panicked *)
| O_id (w : nat) (v : N) (disp : str) (parsed : option N) (ser : str) (back : option N)
| O_id_panic
| O_fromstr (s : str) (res : option (option N)).                (* None = panicked *)

Definition optN_eqb (a b : option N) : bool :=
  match a, b with
  | None, None => true
  | Some x, Some y => x =? y
  | _, _ => false
  end.

Definition P_C12 (o : c12_obs) : bool :=
  match o with
  | O_rt c enc dec =>
      negb (wf_ctxb c) ||
      (Nat.eqb (length enc) 55 && shape55 enc && opt_ctx_eqb dec (Some c))
  | O_rt_panic _ => false
  | O_dec s None => false
  | O_dec s (Some r) => valid_tp s || is_nil (match r with None => [] | Some c => [c] end)
  | O_id w v disp parsed ser back =>
      Nat.eqb (length disp) w && forallb lower_hexb disp && optN_eqb parsed (Some v)
      && str_eqb ser ([34] ++ disp ++ [34]) && optN_eqb back (Some v)
  | O_id_panic => false
  | O_fromstr _ None => false
  | O_fromstr _ (Some _) => true
  end.
