(* Extraction of the executable model and oracles to OCaml (ExtrOcamlBasic only:
   bool, option, list, prod, unit, sumbool map to OCaml's; N/positive/nat stay inductive). *)
Require Extraction.
Require Import ExtrOcamlBasic.
From Coq Require Import List NArith.
From FT Require Import Model.Base Model.Codec Model.Local Model.Records Model.Spsc Model.Collector
     Model.System Model.Jaeger Model.Reporters Model.FormatStr Oracles.OC12 Oracles.OJaeger Oracles.OTime Oracles.OSys Oracles.OReporters.
Extraction Language OCaml.
Extraction "model.ml"
  N.add N.mul N.sub N.eqb N.ltb N.leb N.of_nat N.to_nat N.compare
  encode_traceparent decode_traceparent display_trace display_span from_str_trace from_str_span
  serde_ser_trace serde_ser_span serde_de_trace serde_de_span
  P_C12 valid_tp
  sys_init step run to_span_records
  report_datagrams encode_records P_C19_jaeger P_C20
  P_C18 order_ok dur_ok wall_ok
  oracle
  P_C19_datadog P_C19_otel enc_dd_body rd_dd_body
  unescape scan.
