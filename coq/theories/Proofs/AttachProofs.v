(* C06: what every record of a report carries.  For records with pairwise distinct span ids
   (distinct spans: C02), mounting gives every record exactly its own bucket -- its own
   properties, then the attached ones in the order they were parked, events likewise -- and
   no record anything else; the buckets of the ids present are consumed, all others kept.
   For a local-span set: the bucket of a span is what was parked before plus the set's own
   attachments addressed to it, in recording order. *)
From Coq Require Import List Arith NArith Bool Lia.
From FT Require Import Model.Base Model.Records Proofs.RecordsProofs Proofs.CollectorProofs.
Import ListNotations.
Open Scope N_scope.

Definition with_bucket (d : danglings) (r : record) : record :=
  match alookup (rc_id r) d with
  | Some items => fold_left apply_ditem items r
  | None => r
  end.

Fixpoint remove_ids (ids : list N) (d : danglings) : danglings :=
  match ids with
  | [] => d
  | x :: xs => remove_ids xs (aremove x d)
  end.

Theorem mount_spec recs : forall d,
  NoDup (map rc_id recs) ->
  mount_danglings recs d = (map (with_bucket d) recs, remove_ids (map rc_id recs) d).
Proof.
  induction recs as [|r recs IH]; intros d Hn; [reflexivity|].
  simpl in Hn. inversion Hn as [|? ? Hnin Hn']; subst.
  assert (Hother : forall d', (forall r', In r' recs -> alookup (rc_id r') d' = alookup (rc_id r') d) ->
                             map (with_bucket d') recs = map (with_bucket d) recs).
  { intros d' H. apply map_ext_in. intros r' Hr'. unfold with_bucket. rewrite H by exact Hr'. reflexivity. }
  cbn [mount_danglings map remove_ids]. unfold with_bucket at 1.
  destruct (alookup (rc_id r) d) as [items|] eqn:El.
  - rewrite IH by exact Hn'. f_equal. f_equal. apply Hother.
    intros r' Hr'. apply alookup_aremove_other. intros E. apply Hnin. rewrite <- E. apply in_map. exact Hr'.
  - rewrite IH by exact Hn'. f_equal.
    assert (Hrm : aremove (rc_id r) d = d).
    { clear -El. induction d as [|[k v] d IHd]; simpl in *; auto.
      destruct (rc_id r =? k) eqn:E; [discriminate|]. f_equal. apply IHd. exact El. }
    rewrite Hrm. reflexivity.
Qed.

(* every record: own properties, then the attached ones in parking order; events likewise *)
Corollary mount_record_contents recs d r :
  NoDup (map rc_id recs) -> In r recs ->
  exists r', In r' (fst (mount_danglings recs d)) /\ core r' = core r /\
    rc_props r' = rc_props r ++ add_props_of (match alookup (rc_id r) d with Some i => i | None => [] end) /\
    rc_events r' = rc_events r ++ add_events_of (match alookup (rc_id r) d with Some i => i | None => [] end).
Proof.
  intros Hn Hin. rewrite mount_spec by exact Hn. cbn [fst].
  exists (with_bucket d r). split; [apply in_map; exact Hin|]. unfold with_bucket.
  destruct (alookup (rc_id r) d) as [items|].
  - split; [apply fold_apply_core|]. apply fold_apply_props.
  - simpl. rewrite !app_nil_r. auto.
Qed.

(* ---------------------------------------------------------------- what a set parks *)
Section Conv.
Variable conv : N -> N.

Definition mine (x : N) (items : list (N * ditem)) : list ditem :=
  map snd (filter (fun kv => fst kv =? x) items).

Lemma alookup_push_all x items : forall d,
  alookup x (push_all items d) =
  match alookup x d, mine x items with
  | None, [] => None
  | o, m => Some (match o with Some v => v | None => [] end ++ m)
  end.
Proof.
  unfold push_all, mine. induction items as [|[k it] items IH]; intros d; cbn [fold_left filter map fst snd].
  - destruct (alookup x d); [rewrite app_nil_r|]; reflexivity.
  - rewrite IH. destruct (k =? x) eqn:E.
    + apply N.eqb_eq in E; subst k. rewrite alookup_dang_push_same. cbn [map snd].
      destruct (alookup x d) as [v|]; cbn [app];
        destruct (map snd (filter (fun kv => fst kv =? x) items)); rewrite <- ?app_assoc; reflexivity.
    + rewrite alookup_dang_push_other by (intros ->; rewrite N.eqb_refl in E; discriminate). reflexivity.
Qed.

(* one local-span set, span ids pairwise distinct: every span's record carries its own
   properties, then what was parked for it before, then the set's own attachments addressed
   to it (local-parent properties and events recorded while it was the innermost open span),
   in recording order; nothing addressed to another id *)
Theorem local_set_attachments rs end_time trace parent d :
  NoDup (map r_id (filter is_kspan rs)) ->
  fst (postprocess conv [mkColl (SLocal rs end_time) trace parent] d) =
  map (fun sp =>
         let items := match alookup (r_id sp) d with Some v => v | None => [] end ++
                      mine (r_id sp) (flat_map (dang_of conv parent) rs) in
         fold_left apply_ditem items (base_record conv trace parent end_time sp))
      (filter is_kspan rs).
Proof.
  intros Hn. unfold postprocess, amend_collection. cbn [fold_left cl_set cl_trace cl_parent].
  rewrite amend_local_spec. cbn [app].
  rewrite mount_spec.
  - cbn [fst]. rewrite map_map. apply map_ext. intros sp. unfold with_bucket.
    cbn [rc_id base_record]. rewrite alookup_push_all.
    destruct (alookup (r_id sp) d) as [v|]; destruct (mine (r_id sp) (flat_map (dang_of conv parent) rs)); simpl;
      rewrite ?app_nil_r; reflexivity.
  - rewrite map_map. cbn [rc_id base_record]. exact Hn.
Qed.

End Conv.
