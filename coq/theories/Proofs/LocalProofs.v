(* C10 / C07 on the thread-local layer: every well-nested program, of any depth, including
   openings refused by a capacity limit, returns normally and leaves the thread's local
   context exactly as it found it -- provided span ids are non-zero (the id generator's
   prefix is non-zero; prefix 0 is the K3 boundary, where id 0 can occur). *)
From Coq Require Import List Arith NArith Bool Lia.
From FT Require Import Model.Base Model.Local Model.LocalProg.
Import ListNotations.
Open Scope N_scope.

Definition skel (l : list raw) : list (N * N) := map (fun r => (r_id r, r_parent r)) l.

Definition line_ext (l l' : sline) : Prop :=
  l_epoch l' = l_epoch l /\ l_token l' = l_token l /\ l_sampled l' = l_sampled l /\
  q_cap (l_q l') = q_cap (l_q l) /\ q_next (l_q l') = q_next (l_q l) /\
  exists more, skel (q_spans (l_q l')) = skel (q_spans (l_q l)) ++ more.

Definition ext (s s' : stack) : Prop :=
  Forall2 line_ext (st_lines s) (st_lines s') /\ st_cap s' = st_cap s /\ st_qcap s' = st_qcap s.

(* no open span has id 0 *)
Definition line_nz (l : sline) : Prop := q_next (l_q l) <> Some 0.
Definition nz (s : stack) : Prop := Forall line_nz (st_lines s).

Lemma line_ext_refl l : line_ext l l.
Proof. unfold line_ext; repeat split; auto. exists []. rewrite app_nil_r; auto. Qed.

Lemma line_ext_trans a b c : line_ext a b -> line_ext b c -> line_ext a c.
Proof.
  unfold line_ext. intros (A1 & A2 & A3 & A4 & A5 & m1 & A6) (B1 & B2 & B3 & B4 & B5 & m2 & B6).
  repeat split; try congruence. exists (m1 ++ m2). rewrite B6, A6, app_assoc. reflexivity.
Qed.

Lemma Forall2_refl {A} (R : A -> A -> Prop) l : (forall x, R x x) -> Forall2 R l l.
Proof. intros H; induction l; constructor; auto. Qed.

Lemma Forall2_trans {A} (R : A -> A -> Prop) l1 l2 l3 :
  (forall a b c, R a b -> R b c -> R a c) -> Forall2 R l1 l2 -> Forall2 R l2 l3 -> Forall2 R l1 l3.
Proof.
  intros Ht H; revert l3; induction H; intros l3 H3; inversion H3; subst; constructor; eauto.
Qed.

Lemma ext_refl s : ext s s.
Proof. unfold ext; repeat split; auto. apply Forall2_refl, line_ext_refl. Qed.

Lemma ext_trans a b c : ext a b -> ext b c -> ext a c.
Proof.
  unfold ext. intros (A1 & A2 & A3) (B1 & B2 & B3). repeat split; try congruence.
  eapply Forall2_trans; eauto using line_ext_trans.
Qed.

Lemma ext_lctx s s' : ext s s' -> lctx s' = lctx s.
Proof.
  unfold ext, lctx. intros (H & _ & _). induction H; simpl; auto.
  destruct H as (E1 & E2 & E3 & _ & E5 & _). rewrite E1, E2, E3, E5, IHForall2. reflexivity.
Qed.

(* ---------------------------------------------------------------- ids *)
Lemma next_id_prefix e : e_prefix (snd (next_id e)) = e_prefix e.
Proof. reflexivity. Qed.
Lemma now_prefix e : e_prefix (snd (now e)) = e_prefix e.
Proof. reflexivity. Qed.

Lemma next_id_nonzero e : e_prefix e <> 0 -> fst (next_id e) <> 0.
Proof.
  unfold next_id; cbn [fst]. intros H.
  generalize ((e_suffix e + 1) mod two32); intros s.
  assert (0 < e_prefix e * two32) by (apply N.mul_pos_pos; [lia | reflexivity]).
  lia.
Qed.

(* ---------------------------------------------------------------- queue steps *)
Lemma skel_app a b : skel (a ++ b) = skel a ++ skel b.
Proof. unfold skel. apply map_app. Qed.

Lemma skel_update_end i t l : skel (list_update i (raw_set_end t) l) = skel l.
Proof.
  revert i; induction l as [|x l IH]; intros [|i]; simpl; auto.
  - rewrite IH; reflexivity.
Qed.

Lemma skel_update_props i ps l : skel (list_update i (raw_add_props ps) l) = skel l.
Proof.
  revert i; induction l as [|x l IH]; intros [|i]; simpl; auto.
  - rewrite IH; reflexivity.
Qed.

Lemma nth_error_skel l i r :
  nth_error l i = Some r -> nth_error (skel l) i = Some (r_id r, r_parent r).
Proof. intros H. unfold skel. rewrite nth_error_map, H. reflexivity. Qed.

Lemma nth_error_skel_inv l i p :
  nth_error (skel l) i = Some p -> exists r, nth_error l i = Some r /\ p = (r_id r, r_parent r).
Proof.
  unfold skel. rewrite nth_error_map. destruct (nth_error l i); simpl; intros H; inversion H; eauto.
Qed.

Lemma lenN_nat {A} (l : list A) : N.to_nat (lenN l) = length l.
Proof. unfold lenN. apply Nnat.Nat2N.id. Qed.

(* ---------------------------------------------------------------- the main invariant *)

(* the top line right after a successful enter of span (id, parent) at index idx *)
Definition opened (l0 l1 : sline) (idx id : N) : Prop :=
  l_epoch l1 = l_epoch l0 /\ l_token l1 = l_token l0 /\ l_sampled l1 = l_sampled l0 /\
  l_sampled l0 = true /\
  q_cap (l_q l1) = q_cap (l_q l0) /\ q_next (l_q l1) = Some id /\
  idx = lenN (q_spans (l_q l0)) /\
  skel (q_spans (l_q l1)) = skel (q_spans (l_q l0)) ++ [(id, odefault 0 (q_next (l_q l0)))].

Lemma s_enter_some st name e h st1 e1 :
  s_enter st name e = (Some (h, st1), e1) ->
  exists l0 ls l1, st_lines st = l0 :: ls /\ st_lines st1 = l1 :: ls /\
    st_cap st1 = st_cap st /\ st_qcap st1 = st_qcap st /\
    fst h = l_epoch l0 /\ opened l0 l1 (snd h) (fst (next_id e)) /\ e_prefix e1 = e_prefix e.
Proof.
  unfold s_enter. destruct (st_lines st) as [|l0 ls] eqn:El; [discriminate|].
  unfold l_start. destruct (l_sampled l0) eqn:Es; simpl; [|discriminate].
  unfold q_start. destruct (q_full (l_q l0)); [discriminate|].
  simpl. intros H. inversion H; subst; clear H.
  exists l0, ls. eexists. split; [reflexivity|]. split; [reflexivity|].
  simpl. repeat split; auto.
  unfold l_set_q; cbn [l_q q_spans]. rewrite skel_app. reflexivity.
Qed.

Lemma s_enter_none st name e e1 : s_enter st name e = (None, e1) -> e1 = e.
Proof.
  unfold s_enter. destruct (st_lines st) as [|l0 ls]; [intros H; inversion H; auto|].
  unfold l_start. destruct (l_sampled l0); simpl; [|intros H; inversion H; auto].
  unfold q_start. destruct (q_full (l_q l0)); simpl; intros H; inversion H; auto.
Qed.

(* closing the span again, after the body extended the stack: the top line is back to an
   extension of the line before the enter *)
Lemma s_exit_restores dbg l0 l1 l3 ls3 cap ne qc idx id e :
  opened l0 l1 idx id -> line_ext l1 l3 -> line_nz l0 -> id <> 0 ->
  exists st' e', s_exit dbg (mkStack (l3 :: ls3) cap ne qc) (l_epoch l0, idx) e = Ok (st', e') /\
    e_prefix e' = e_prefix e /\
    exists l4, st' = mkStack (l4 :: ls3) cap ne qc /\ line_ext l0 l4.
Proof.
  intros (O1 & O2 & O3 & O4 & O5 & O6 & O7 & O8) (X1 & X2 & X3 & X4 & X5 & more & X6) Hnz Hid.
  unfold s_exit; simpl.
  assert (Hep : l_epoch l3 =? l_epoch l0 = true) by (apply N.eqb_eq; congruence).
  rewrite Hep. rewrite andb_false_r.
  unfold l_finish; simpl. rewrite Hep. unfold q_finish.
  assert (Hnth : nth_error (skel (q_spans (l_q l3))) (N.to_nat idx) = Some (id, odefault 0 (q_next (l_q l0)))).
  { rewrite X6, O8, <- app_assoc. rewrite nth_error_app2; subst idx; rewrite lenN_nat; unfold skel; rewrite map_length; [|lia].
    rewrite Nat.sub_diag. reflexivity. }
  apply nth_error_skel_inv in Hnth. destruct Hnth as [sp [Hsp Hpair]].
  injection Hpair as Hid' Hpar.
  rewrite Hsp. rewrite X5, O6. rewrite Hid', N.eqb_refl. rewrite andb_false_r.
  simpl. eexists. eexists. split; [reflexivity|]. split; [reflexivity|].
  eexists. split; [reflexivity|].
  unfold line_ext; simpl. repeat split; try congruence.
  - rewrite <- Hpar. destruct (q_next (l_q l0)) as [n|] eqn:En; simpl.
    + destruct (n =? 0) eqn:E0; auto. apply N.eqb_eq in E0; subst. exfalso; apply Hnz; auto.
    + reflexivity.
  - rewrite skel_update_end, X6, O8, <- app_assoc. eexists; reflexivity.
Qed.

Lemma with_props_ext dbg l0 l1 ls cap ne qc idx id ps :
  opened l0 l1 idx id ->
  exists l2, s_with_props dbg (mkStack (l1 :: ls) cap ne qc) (l_epoch l0, idx) ps
             = Ok (mkStack (l2 :: ls) cap ne qc) /\ opened l0 l2 idx id.
Proof.
  intros (O1 & O2 & O3 & O4 & O5 & O6 & O7 & O8).
  unfold s_with_props; simpl.
  assert (Hep : l_epoch l1 =? l_epoch l0 = true) by (apply N.eqb_eq; congruence).
  rewrite Hep, andb_false_r. unfold l_with_props; simpl. rewrite O3, O4, Hep; simpl.
  unfold q_with_props.
  assert (Hnth : nth_error (skel (q_spans (l_q l1))) (N.to_nat idx) = Some (id, odefault 0 (q_next (l_q l0)))).
  { rewrite O8. rewrite nth_error_app2; subst idx; rewrite lenN_nat; unfold skel; rewrite map_length; [|lia].
    rewrite Nat.sub_diag. reflexivity. }
  apply nth_error_skel_inv in Hnth. destruct Hnth as [sp [Hsp _]]. rewrite Hsp. simpl.
  eexists. split; [reflexivity|].
  unfold opened; simpl. repeat split; auto. rewrite skel_update_props. auto.
Qed.

Lemma add_event_ext st name ps e :
  ext st (fst (s_add_event st name ps e)) /\ e_prefix (snd (s_add_event st name ps e)) = e_prefix e /\
  (nz st -> nz (fst (s_add_event st name ps e))).
Proof.
  unfold s_add_event. destruct (st_lines st) as [|l ls] eqn:El; simpl.
  - split; [apply ext_refl|]. split; auto.
  - unfold l_add_event. destruct (l_sampled l); simpl.
    + unfold q_add_event. destruct (q_full (l_q l)); simpl.
      * split; [|split; auto].
        -- unfold ext; simpl. rewrite El. repeat split; auto. constructor.
           ++ unfold line_ext, l_set_q; simpl. repeat split; auto. exists []; rewrite app_nil_r; auto.
           ++ apply Forall2_refl, line_ext_refl.
        -- unfold nz; simpl. rewrite El. intros H; inversion H; subst. constructor; auto.
      * split; [|split; auto].
        -- unfold ext; simpl. rewrite El. repeat split; auto. constructor.
           ++ unfold line_ext, l_set_q; simpl. repeat split; auto. rewrite skel_app. eexists; reflexivity.
           ++ apply Forall2_refl, line_ext_refl.
        -- unfold nz; simpl. rewrite El. intros H; inversion H; subst. constructor; auto.
    + split; [|split; auto].
      * unfold ext; simpl. rewrite El. repeat split; auto. apply Forall2_refl, line_ext_refl.
      * unfold nz; simpl. rewrite El. auto.
Qed.

Lemma add_props_ext st ps e :
  ext st (fst (s_add_props st ps e)) /\ e_prefix (snd (s_add_props st ps e)) = e_prefix e /\
  (nz st -> nz (fst (s_add_props st ps e))).
Proof.
  unfold s_add_props. destruct (st_lines st) as [|l ls] eqn:El; simpl.
  - split; [apply ext_refl|]. split; auto.
  - unfold l_add_props. destruct (l_sampled l); simpl.
    + unfold q_add_props. destruct (q_full (l_q l)); simpl.
      * split; [|split; auto].
        -- unfold ext; simpl. rewrite El. repeat split; auto. constructor.
           ++ unfold line_ext, l_set_q; simpl. repeat split; auto. exists []; rewrite app_nil_r; auto.
           ++ apply Forall2_refl, line_ext_refl.
        -- unfold nz; simpl. rewrite El. intros H; inversion H; subst. constructor; auto.
      * split; [|split; auto].
        -- unfold ext; simpl. rewrite El. repeat split; auto. constructor.
           ++ unfold line_ext, l_set_q; simpl. repeat split; auto. rewrite skel_app. eexists; reflexivity.
           ++ apply Forall2_refl, line_ext_refl.
        -- unfold nz; simpl. rewrite El. intros H; inversion H; subst. constructor; auto.
    + split; [|split; auto].
      * unfold ext; simpl. rewrite El. repeat split; auto. apply Forall2_refl, line_ext_refl.
      * unfold nz; simpl. rewrite El. auto.
Qed.

(* the statement proved by induction on the program *)
Definition good (dbg : bool) (p : prog) : Prop :=
  forall st e, nz st -> e_prefix e <> 0 ->
    exists st' e', exec dbg p st e = Ok (st', e') /\ ext st st' /\ nz st' /\ e_prefix e' = e_prefix e.

Lemma stack_eta st : st = mkStack (st_lines st) (st_cap st) (st_next_epoch st) (st_qcap st).
Proof. destruct st; reflexivity. Qed.

Theorem exec_good dbg p : good dbg p.
Proof.
  induction p as [|p IHp q IHq|name ps|ps|name wp body IH|tk body IH]; intros st e Hnz Hpre; simpl.
  - (* skip *) exists st, e. split; [reflexivity|]. split; [apply ext_refl|]. split; auto.
  - (* seq *)
    destruct (IHp st e Hnz Hpre) as (st1 & e1 & E1 & X1 & N1 & P1). rewrite E1; simpl.
    destruct (IHq st1 e1 N1) as (st2 & e2 & E2 & X2 & N2 & P2); [congruence|].
    exists st2, e2. split; [exact E2|]. split; [eapply ext_trans; eauto|]. split; [exact N2 | congruence].
  - (* event *)
    destruct (add_event_ext st name ps e) as (X & P & N).
    destruct (s_add_event st name ps e) as [st' e']; simpl in *.
    exists st', e'. split; [reflexivity|]. split; [exact X|]. split; auto.
  - (* props *)
    destruct (s_is_current_recording st).
    + destruct (add_props_ext st ps e) as (X & P & N).
      destruct (s_add_props st ps e) as [st' e']; simpl in *.
      exists st', e'. split; [reflexivity|]. split; [exact X|]. split; auto.
    + exists st, e. split; [reflexivity|]. split; [apply ext_refl|]. split; auto.
  - (* local span *)
    destruct (s_enter st name e) as [[[h st1]|] e1] eqn:En.
    + apply s_enter_some in En.
      destruct En as (l0 & ls & l1 & L0 & L1 & C1 & Q1 & Hh & Hop & P1).
      destruct h as [hep hidx]; simpl in Hh, Hop; subst hep.
      assert (Hid : fst (next_id e) <> 0) by (apply next_id_nonzero; auto).
      (* optional with_properties *)
      assert (W : exists l2, match wp with
                  | Some ps => if s_is_recording st1 (l_epoch l0, hidx) then s_with_props dbg st1 (l_epoch l0, hidx) ps else Ok st1
                  | None => Ok st1 end = Ok (mkStack (l2 :: ls) (st_cap st1) (st_next_epoch st1) (st_qcap st1))
                  /\ opened l0 l2 hidx (fst (next_id e))).
      { destruct wp as [ps|].
        - destruct (s_is_recording st1 (l_epoch l0, hidx)).
          + rewrite (stack_eta st1), L1.
            destruct (with_props_ext dbg l0 l1 ls (st_cap st1) (st_next_epoch st1) (st_qcap st1) hidx _ ps Hop)
              as (l2 & E2 & O2). exists l2. split; auto.
          + exists l1. split; auto. rewrite (stack_eta st1) at 1. rewrite L1. reflexivity.
        - exists l1. split; auto. rewrite (stack_eta st1) at 1. rewrite L1. reflexivity. }
      destruct W as (l2 & EW & O2). rewrite EW; simpl.
      set (st2 := mkStack (l2 :: ls) (st_cap st1) (st_next_epoch st1) (st_qcap st1)).
      assert (Hnz2 : nz st2).
      { unfold nz, st2; simpl. unfold nz in Hnz. rewrite L0 in Hnz. inversion Hnz; subst.
        constructor; auto. unfold line_nz. destruct O2 as (_ & _ & _ & _ & _ & O6 & _). rewrite O6.
        intros H; inversion H; auto. }
      destruct (IH st2 e1 Hnz2) as (st3 & e3 & E3 & X3 & N3 & P3); [congruence|].
      rewrite E3; simpl.
      destruct X3 as (F3 & C3 & Q3). unfold st2 in F3; simpl in F3.
      inversion F3 as [|? l3 ? ls3 Hl3 Hls3]; subst.
      rewrite (stack_eta st3). rewrite <- H1.
      assert (Hnz0 : line_nz l0) by (unfold nz in Hnz; rewrite L0 in Hnz; inversion Hnz; auto).
      destruct (s_exit_restores dbg l0 l2 l3 ls3 (st_cap st3) (st_next_epoch st3) (st_qcap st3) hidx _ e3 O2 Hl3 Hnz0 Hid)
        as (st4 & e4 & E4 & P4 & l4 & S4 & X4).
      rewrite E4. exists st4, e4. split; auto. subst st4. split; [|split].
      * unfold st2 in C3, Q3; simpl in C3, Q3.
        unfold ext; simpl. rewrite L0. split; [constructor; auto|]. split; congruence.
      * unfold nz; simpl. unfold nz in N3. rewrite <- H1 in N3. inversion N3; subst. constructor; auto.
        unfold line_nz. destruct X4 as (_ & _ & _ & _ & X5 & _). rewrite X5. exact Hnz0.
      * congruence.
    + apply s_enter_none in En; subst e1.
      destruct (IH st e Hnz Hpre) as (st1 & e1 & E1 & X1 & N1 & P1).
      exists st1, e1. auto.
  - (* scope *)
    unfold s_register. destruct (st_cap st <=? lenN (st_lines st)).
    + destruct (IH st e Hnz Hpre) as (st1 & e1 & E1 & X1 & N1 & P1). exists st1, e1. auto.
    + set (ep := st_next_epoch st).
      set (st1 := mkStack (l_new (st_qcap st) ep tk :: st_lines st) (st_cap st) ((ep + 1) mod two64) (st_qcap st)).
      assert (Hnz1 : nz st1).
      { unfold nz, st1; simpl. constructor; auto. unfold line_nz, l_new; simpl. discriminate. }
      destruct (IH st1 e Hnz1 Hpre) as (st2 & e2 & E2 & X2 & N2 & P2). rewrite E2; simpl.
      destruct X2 as (F2 & C2 & Q2). unfold st1 in F2; simpl in F2.
      inversion F2 as [|? l2 ? ls2 Hl2 Hls2]; subst.
      unfold s_unregister. rewrite <- H1.
      destruct Hl2 as (Ep2 & _). unfold l_new in Ep2; simpl in Ep2.
      assert (Hep : l_epoch l2 =? ep = true) by (apply N.eqb_eq; auto).
      rewrite Hep, andb_false_r. simpl.
      eexists; eexists. split; [reflexivity|]. split; [|split; auto].
      * unfold ext; simpl. repeat split; auto.
      * unfold nz; simpl. unfold nz in N2. rewrite <- H1 in N2. inversion N2; auto.
Qed.

(* C10: the local context after any well-nested program is the context before it *)
Theorem frame dbg p st e st' e' :
  nz st -> e_prefix e <> 0 -> exec dbg p st e = Ok (st', e') -> lctx st' = lctx st.
Proof.
  intros Hnz Hpre E. destruct (exec_good dbg p st e Hnz Hpre) as (st1 & e1 & E1 & X1 & _ & _).
  rewrite E in E1. inversion E1; subst. apply ext_lctx; auto.
Qed.

(* C07 (local layer): well-nested programs never reach a panic site, in either profile *)
Theorem no_panic dbg p st e :
  nz st -> e_prefix e <> 0 -> exists st' e', exec dbg p st e = Ok (st', e').
Proof.
  intros Hnz Hpre. destruct (exec_good dbg p st e Hnz Hpre) as (st1 & e1 & E1 & _). eauto.
Qed.

(* with no local parent in scope, local-span operations are inert: nothing changes but the
   environment (no id is drawn either) *)
Lemma empty_nz cap qc : nz (st_new cap qc).
Proof. unfold nz, st_new; simpl. constructor. Qed.

Theorem inert_without_parent dbg name wp cap ne qc e :
  exec dbg (PSpan name wp PSkip) (mkStack [] cap ne qc) e = Ok (mkStack [] cap ne qc, e) /\
  exec dbg (PEvent name None) (mkStack [] cap ne qc) e = Ok (mkStack [] cap ne qc, e) /\
  exec dbg (PProps []) (mkStack [] cap ne qc) e = Ok (mkStack [] cap ne qc, e).
Proof. repeat split; reflexivity. Qed.
