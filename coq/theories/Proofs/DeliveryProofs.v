(* C01 at the collector: in the default configuration the processing of a batch reports every
   span of every submitted set exactly once per token item (in the item's trace, under the
   right parent) and nothing else -- for EVERY batch and every active map that satisfies the
   cycle invariant (unique collect ids, nothing buffered), which the processing re-establishes.
   Hence for every sequence of batches the reports add up to exactly what was submitted. *)
From Coq Require Import List Arith NArith Bool Lia Permutation.
From FT Require Import Model.Base Model.Records Model.Collector Proofs.RecordsProofs Proofs.CollectorProofs.
Import ListNotations.
Open Scope N_scope.

Definition core3 (r : record) : N * N * N := (rc_trace r, rc_id r, rc_parent r).

(* what a collection contributes: one (trace, span id, parent) per raw span of kind Span; the
   roots of a local set hang under the collection's parent, the others under their own *)
Definition coll_cores (cl : collection) : list (N * N * N) :=
  match cl_set cl with
  | SSpan r => if is_kspan r then [(cl_trace cl, r_id r, cl_parent cl)] else []
  | SLocal rs _ | SShared rs _ =>
      map (fun sp => (cl_trace cl, r_id sp, eff_parent (cl_parent cl) sp)) (filter is_kspan rs)
  end.

Definition submitted_colls (l : list (span_set * token)) : list collection :=
  flat_map (fun sub => map (fun it => mkColl (fst sub) (ti_trace it) (ti_parent it)) (snd sub)) l.

Definition held (am : active_map) : list collection := flat_map (fun ka => a_colls (snd ka)) am.

Definition nothing_buffered (am : active_map) : Prop := forall c a, In (c, a) am -> a_colls a = [].

Section Conv.
Variable conv : N -> N.

Lemma core3_of_core r r' : core r = core r' -> core3 r = core3 r'.
Proof. unfold core, core3. intros H. inversion H. reflexivity. Qed.

Lemma map_core3_of_core l l' : map core l = map core l' -> map core3 l = map core3 l'.
Proof.
  revert l'; induction l as [|x l IH]; intros [|y l'] H; simpl in *; try discriminate; auto.
  assert (Hh : core x = core y) by congruence. assert (Ht : map core l = map core l') by congruence.
  f_equal; [apply core3_of_core; exact Hh | apply IH; exact Ht].
Qed.

(* records produced by folding amend_collection, before mounting *)
Lemma amend_collection_cores cl recs d :
  map core3 (fst (amend_collection conv cl (recs, d))) = map core3 recs ++ coll_cores cl.
Proof.
  unfold amend_collection, coll_cores. destruct (cl_set cl) as [r|rs en|rs en].
  - rewrite amend_span_spec. unfold is_kspan. destruct (r_kind r); simpl; rewrite ?app_nil_r; auto.
    rewrite map_app. reflexivity.
  - rewrite amend_local_spec. simpl. rewrite map_app, map_map. reflexivity.
  - rewrite amend_local_spec. simpl. rewrite map_app, map_map. reflexivity.
Qed.

Lemma fold_amend_cores cs recs d :
  map core3 (fst (fold_left (fun a c => amend_collection conv c a) cs (recs, d))) =
  map core3 recs ++ flat_map coll_cores cs.
Proof.
  revert recs d; induction cs as [|c cs IH]; intros recs d; simpl.
  - rewrite app_nil_r. reflexivity.
  - destruct (amend_collection conv c (recs, d)) as [r1 d1] eqn:E.
    rewrite IH. pose proof (amend_collection_cores c recs d) as H. rewrite E in H. simpl in H.
    rewrite H, app_assoc. reflexivity.
Qed.

Lemma postprocess_cores cs d :
  map core3 (fst (postprocess conv cs d)) = flat_map coll_cores cs.
Proof.
  unfold postprocess.
  destruct (fold_left (fun a c => amend_collection conv c a) cs ([], d)) as [recs d1] eqn:E.
  pose proof (fold_amend_cores cs [] d) as H. rewrite E in H. simpl in H.
  destruct (mount_danglings recs d1) as [recs' d2] eqn:Em. simpl.
  rewrite <- H. apply map_core3_of_core.
  pose proof (mount_core recs d1) as Hm. rewrite Em in Hm. exact Hm.
Qed.

(* ---------------------------------------------------------------- keys *)
Lemma keys_aremove k (am : active_map) : NoDup (map fst am) -> NoDup (map fst (aremove k am)).
Proof.
  induction am as [|[k' v] am IH]; simpl; intros H; auto.
  inversion H as [|? ? Hn Hd]; subst.
  destruct (k =? k'); auto. simpl. constructor; auto.
  intros Hin. apply Hn. clear -Hin.
  induction am as [|[k2 v2] am IH]; simpl in *; auto.
  destruct (k =? k2); simpl in *; auto. destruct Hin; auto.
Qed.

Lemma in_keys_aremove k k' (am : active_map) : In k' (map fst (aremove k am)) -> In k' (map fst am) /\ k' <> k.
Proof.
  induction am as [|[k2 v2] am IH]; simpl; intros H; [contradiction|].
  destruct (k =? k2) eqn:E.
  - apply IH in H. tauto.
  - simpl in H. destruct H as [H|H].
    + subst. split; auto. apply N.eqb_neq in E. congruence.
    + apply IH in H. tauto.
Qed.

Lemma keys_aset k v (am : active_map) : NoDup (map fst am) -> NoDup (map fst (aset k v am)).
Proof.
  intros H. unfold aset. simpl. constructor.
  - intros Hin. apply in_keys_aremove in Hin. tauto.
  - apply keys_aremove; auto.
Qed.

Lemma keys_aupdate k f (am : active_map) : map fst (aupdate k f am) = map fst am.
Proof.
  induction am as [|[k' v] am IH]; simpl; auto.
  destruct (k =? k'); simpl; [reflexivity | rewrite IH; reflexivity].
Qed.

(* ---------------------------------------------------------------- starts *)
Lemma held_aremove_nb k (am : active_map) : nothing_buffered am -> nothing_buffered (aremove k am).
Proof.
  unfold nothing_buffered. induction am as [|[k' v] am IH]; simpl; intros H c a Hin; [contradiction|].
  destruct (k =? k').
  - apply IH in Hin; auto. intros; eapply H; right; eauto.
  - destruct Hin as [Hin|Hin].
    + eapply H. left. exact Hin.
    + apply IH in Hin; auto. intros; eapply H; right; eauto.
Qed.

Lemma do_starts_inv am l :
  NoDup (map fst am) -> nothing_buffered am ->
  NoDup (map fst (do_starts am l)) /\ nothing_buffered (do_starts am l).
Proof.
  unfold do_starts. revert am; induction l as [|c l IH]; intros am Hk Hn; simpl; auto.
  apply IH.
  - apply keys_aset; auto.
  - unfold aset. intros c0 a0 [Heq|Hin].
    + inversion Heq; subst. reflexivity.
    + eapply held_aremove_nb; eauto.
Qed.

Lemma nothing_buffered_held am : nothing_buffered am -> held am = [].
Proof.
  unfold nothing_buffered, held. induction am as [|[k a] am IH]; simpl; intros H; auto.
  rewrite (H k a) by (left; reflexivity). simpl. apply IH. intros; eapply H; right; eauto.
Qed.

(* ---------------------------------------------------------------- submits *)
Lemma held_aupdate c cl (am : active_map) :
  amem c am = true ->
  Permutation (held (aupdate c (fun a => mkActive (a_colls a ++ [cl]) (a_dang a)) am)) (held am ++ [cl]).
Proof.
  unfold amem, held. induction am as [|[k a] am IH]; simpl; intros H; [discriminate|].
  destruct (c =? k) eqn:E; simpl.
  - rewrite <- !app_assoc. apply Permutation_app_head. apply Permutation_app_comm.
  - rewrite <- app_assoc. apply Permutation_app_head. apply IH. exact H.
Qed.

Lemma submit_item_held s st it :
  let st' := submit_item false s st it in
  Permutation (held (fst st') ++ map snd (snd st'))
              ((held (fst st) ++ map snd (snd st)) ++ [mkColl s (ti_trace it) (ti_parent it)]) /\
  map fst (fst st') = map fst (fst st).
Proof.
  destruct st as [am stale]. unfold submit_item. cbn [fst snd].
  destruct (amem (ti_collect it) am) eqn:E; cbn [fst snd].
  - split; [|apply keys_aupdate].
    eapply Permutation_trans.
    + apply Permutation_app_tail. apply held_aupdate. exact E.
    + rewrite <- !app_assoc. apply Permutation_app_head. apply Permutation_app_comm.
  - split; auto. rewrite map_app. cbn [map snd]. rewrite app_assoc. apply Permutation_refl.
Qed.

Lemma fold_submit_item_held s tk st :
  let st' := fold_left (submit_item false s) tk st in
  Permutation (held (fst st') ++ map snd (snd st'))
              ((held (fst st) ++ map snd (snd st)) ++ map (fun it => mkColl s (ti_trace it) (ti_parent it)) tk) /\
  map fst (fst st') = map fst (fst st).
Proof.
  revert st; induction tk as [|it tk IH]; intros st; cbn [fold_left map].
  - rewrite app_nil_r. split; auto.
  - destruct (IH (submit_item false s st it)) as [P K].
    destruct (submit_item_held s st it) as [P1 K1]. split; [|congruence].
    eapply Permutation_trans; [exact P|].
    eapply Permutation_trans; [apply Permutation_app_tail; exact P1|].
    rewrite <- !app_assoc. apply Permutation_refl.
Qed.

Lemma do_submits_held am l :
  let st' := do_submits false am l in
  Permutation (held (fst st') ++ map snd (snd st')) (held am ++ submitted_colls l) /\
  map fst (fst st') = map fst am.
Proof.
  unfold do_submits.
  assert (H : forall st,
    let st' := fold_left (fun st sub => fold_left (submit_item false (fst sub)) (snd sub) st) l st in
    Permutation (held (fst st') ++ map snd (snd st'))
                ((held (fst st) ++ map snd (snd st)) ++ submitted_colls l) /\
    map fst (fst st') = map fst (fst st)).
  { induction l as [|[s tk] l IH]; intros st; cbn [fold_left submitted_colls flat_map fst snd].
    - rewrite app_nil_r. split; auto.
    - destruct (IH (fold_left (submit_item false s) tk st)) as [P K].
      destruct (fold_submit_item_held s tk st) as [P1 K1]. split; [|congruence].
      eapply Permutation_trans; [exact P|].
      eapply Permutation_trans; [apply Permutation_app_tail; exact P1|].
      rewrite <- !app_assoc. apply Permutation_refl. }
  specialize (H (am, [])). cbn [fst snd map] in H. rewrite app_nil_r in H. exact H.
Qed.

(* ---------------------------------------------------------------- commits *)
Lemma held_lookup_remove c a (am : active_map) :
  NoDup (map fst am) -> alookup c am = Some a ->
  Permutation (held am) (a_colls a ++ held (aremove c am)).
Proof.
  unfold held. induction am as [|[k x] am IH]; simpl; intros Hk Hl; [discriminate|].
  inversion Hk as [|? ? Hn Hd]; subst.
  destruct (c =? k) eqn:E.
  - inversion Hl; subst. apply N.eqb_eq in E; subst.
    apply Permutation_app_head.
    assert (Hrm : aremove k am = am).
    { clear -Hn. induction am as [|[k2 v2] am IH]; simpl in *; auto.
      destruct (k =? k2) eqn:E2.
      - apply N.eqb_eq in E2. subst. exfalso. apply Hn. left; reflexivity.
      - f_equal. apply IH. intros H; apply Hn; right; exact H. }
    rewrite Hrm. apply Permutation_refl.
  - simpl. eapply Permutation_trans.
    + apply Permutation_app_head. apply IH; auto.
    + rewrite !app_assoc. apply Permutation_app_tail. apply Permutation_app_comm.
Qed.

Lemma tag_snd c l : map snd (tag c l) = l.
Proof. unfold tag. rewrite map_map. simpl. apply map_id. Qed.

Lemma do_commits_held am l :
  NoDup (map fst am) ->
  let st' := do_commits conv am l in
  Permutation (map core3 (map snd (snd st')) ++ flat_map coll_cores (held (fst st')))
              (flat_map coll_cores (held am)) /\
  NoDup (map fst (fst st')).
Proof.
  unfold do_commits.
  assert (H : forall st, NoDup (map fst (fst st)) ->
    let st' := fold_left (fun st c =>
               match alookup c (fst st) with
               | Some a => (aremove c (fst st),
                            snd st ++ tag c (fst (postprocess conv (a_colls a) (a_dang a))))
               | None => st
               end) l st in
    Permutation (map core3 (map snd (snd st')) ++ flat_map coll_cores (held (fst st')))
                (map core3 (map snd (snd st)) ++ flat_map coll_cores (held (fst st))) /\
    NoDup (map fst (fst st'))).
  { induction l as [|c l IH]; intros [am0 out] Hk; cbn [fold_left fst snd] in *.
    - split; auto.
    - destruct (alookup c am0) as [a|] eqn:El.
      + destruct (IH (aremove c am0, out ++ tag c (fst (postprocess conv (a_colls a) (a_dang a)))))
          as [P K]; [cbn [fst]; apply keys_aremove; auto|].
        split; [|exact K].
        eapply Permutation_trans; [exact P|]. cbn [fst snd].
        rewrite !map_app, tag_snd, postprocess_cores, <- app_assoc.
        apply Permutation_app_head.
        rewrite <- flat_map_app. apply Permutation_flat_map. apply Permutation_sym.
        apply held_lookup_remove; auto.
      + apply IH. exact Hk. }
  intros Hk. specialize (H (am, []) Hk). cbn [fst snd map app] in H. exact H.
Qed.

(* ---------------------------------------------------------------- default-mode flush *)
Lemma flush_active_held am :
  let st' := flush_active conv am in
  map core3 (map snd (snd st')) = flat_map coll_cores (held am) /\
  map fst (fst st') = map fst am /\ nothing_buffered (fst st').
Proof.
  unfold flush_active.
  assert (H : forall acc recs, nothing_buffered acc ->
    let st' := fold_left (fun st ka =>
               let (recs, d) := postprocess conv (a_colls (snd ka)) (a_dang (snd ka)) in
               (fst st ++ [(fst ka, mkActive [] d)], snd st ++ tag (fst ka) recs)) am (acc, recs) in
    map core3 (map snd (snd st')) = map core3 (map snd recs) ++ flat_map coll_cores (held am) /\
    map fst (fst st') = map fst acc ++ map fst am /\ nothing_buffered (fst st')).
  { induction am as [|[k a] am IH]; intros acc recs Hn; cbn [fold_left fst snd held flat_map map].
    - rewrite !app_nil_r. auto.
    - destruct (postprocess conv (a_colls a) (a_dang a)) as [rs d] eqn:Ep.
      destruct (IH (acc ++ [(k, mkActive [] d)]) (recs ++ tag k rs)) as (A & B & C).
      + intros c0 a0 Hin. apply in_app_iff in Hin. destruct Hin as [Hin|[Heq|[]]].
        * eapply Hn; eauto.
        * inversion Heq; subst. reflexivity.
      + split; [|split; auto].
        * etransitivity; [exact A|]. rewrite !map_app, tag_snd, <- app_assoc. f_equal.
          rewrite flat_map_app. f_equal.
          pose proof (postprocess_cores (a_colls a) (a_dang a)) as Hp. rewrite Ep in Hp. exact Hp.
        * etransitivity; [exact B|]. rewrite map_app, <- app_assoc. reflexivity. }
  specialize (H [] []). cbn [map app] in H. apply H. intros ? ? [].
Qed.

Lemma do_stale_cores stale :
  map core3 (map snd (do_stale conv stale)) = flat_map coll_cores (map snd stale).
Proof.
  unfold do_stale. induction stale as [|[c cl] stale IH]; cbn [flat_map map snd fst]; auto.
  rewrite !map_app, tag_snd, postprocess_cores, IH. cbn [flat_map]. rewrite app_nil_r. reflexivity.
Qed.

(* ---------------------------------------------------------------- one batch *)
Definition cycle_inv (am : active_map) : Prop := NoDup (map fst am) /\ nothing_buffered am.

Theorem default_batch_delivers_exactly am b :
  cycle_inv am ->
  Permutation (map core3 (snd (process conv false am b)))
              (flat_map coll_cores (submitted_colls (b_submit b))) /\
  cycle_inv (fst (process conv false am b)).
Proof.
  intros [Hk Hn]. unfold process, process_owned. cbn [do_drops].
  destruct (do_starts_inv am (b_start b) Hk Hn) as [Hk1 Hn1].
  set (am1 := do_starts am (b_start b)) in *.
  pose proof (do_submits_held am1 (b_submit b)) as Hs.
  destruct (do_submits false am1 (b_submit b)) as [am3 stale]. cbn [fst snd] in Hs.
  destruct Hs as [Ps Ks].
  assert (Hk3 : NoDup (map fst am3)) by (rewrite Ks; exact Hk1).
  pose proof (do_commits_held am3 (b_commit b) Hk3) as Hc.
  destruct (do_commits conv am3 (b_commit b)) as [am4 committed]. cbn [fst snd] in Hc.
  destruct Hc as [Pc Kc].
  pose proof (flush_active_held am4) as Hf.
  destruct (flush_active conv am4) as [am5 flushed]. cbn [fst snd] in Hf.
  destruct Hf as (Ef & Kf & Nf).
  cbn [fst snd]. split.
  - rewrite !map_app, Ef, do_stale_cores.
    rewrite (nothing_buffered_held am1 Hn1) in Ps. cbn [app] in Ps.
    (* committed ++ held am4 ~ held am3 ; held am3 ++ stale ~ submitted *)
    eapply Permutation_trans.
    + rewrite app_assoc. apply Permutation_app_tail. exact Pc.
    + rewrite <- flat_map_app. apply Permutation_flat_map. exact Ps.
  - split; [rewrite Kf; exact Kc | exact Nf].
Qed.

(* ---------------------------------------------------------------- any number of cycles *)
Fixpoint run_batches (am : active_map) (bs : list batch) : active_map * list record :=
  match bs with
  | [] => (am, [])
  | b :: rest =>
      let (am1, r1) := process conv false am b in
      let (am2, r2) := run_batches am1 rest in (am2, r1 ++ r2)
  end.

Theorem default_cycles_deliver_exactly am bs :
  cycle_inv am ->
  Permutation (map core3 (snd (run_batches am bs)))
              (flat_map coll_cores (flat_map (fun b => submitted_colls (b_submit b)) bs)) /\
  cycle_inv (fst (run_batches am bs)).
Proof.
  revert am; induction bs as [|b bs IH]; intros am Hinv; cbn [run_batches flat_map].
  - split; [apply Permutation_refl | exact Hinv].
  - destruct (default_batch_delivers_exactly am b Hinv) as [P1 I1].
    destruct (process conv false am b) as [am1 r1]. cbn [fst snd] in *.
    destruct (IH am1 I1) as [P2 I2].
    destruct (run_batches am1 bs) as [am2 r2]. cbn [fst snd] in *.
    split; [|exact I2].
    rewrite map_app, flat_map_app. apply Permutation_app; assumption.
Qed.

Lemma cycle_inv_empty : cycle_inv [].
Proof. split; [constructor | intros ? ? []]. Qed.

End Conv.

(* ---------------------------------------------------------------- C03: delivered whole *)
(* Cancelable configuration, per collect id.  [colls_at c am]: what the collector holds for c;
   [items_for c l]: the collections the SubmitSpans commands of a batch carry for c, in order. *)
Definition colls_at (c : N) (am : active_map) : list collection :=
  match alookup c am with Some a => a_colls a | None => [] end.

Definition items_for (c : N) (l : list (span_set * token)) : list collection :=
  flat_map (fun sub => map (fun it => mkColl (fst sub) (ti_trace it) (ti_parent it))
                           (filter (fun it => ti_collect it =? c) (snd sub))) l.

Definition tagged (c : N) (l : list (N * record)) : list record :=
  map snd (filter (fun cr => fst cr =? c) l).

Lemma tagged_app c a b : tagged c (a ++ b) = tagged c a ++ tagged c b.
Proof. unfold tagged. rewrite filter_app, map_app. reflexivity. Qed.

Lemma tagged_tag_same c l : tagged c (tag c l) = l.
Proof.
  unfold tagged, tag. induction l as [|x l IH]; simpl; auto.
  rewrite N.eqb_refl. simpl. rewrite IH. reflexivity.
Qed.

Lemma tagged_tag_other c c' l : c' <> c -> tagged c (tag c' l) = [].
Proof.
  intros H. unfold tagged, tag. induction l as [|x l IH]; simpl; auto.
  replace (c' =? c) with false by (symmetry; apply N.eqb_neq; exact H). exact IH.
Qed.

Section Conv2.
Variable conv : N -> N.

Lemma alookup_aupdate_same c f (am : active_map) :
  alookup c (aupdate c f am) = match alookup c am with Some a => Some (f a) | None => None end.
Proof.
  induction am as [|[k v] am IH]; simpl; auto.
  destruct (c =? k) eqn:E; simpl; rewrite E; auto.
Qed.

Lemma alookup_aupdate_other c c' f (am : active_map) :
  c <> c' -> alookup c (aupdate c' f am) = alookup c am.
Proof.
  intros Hne. induction am as [|[k v] am IH]; simpl; auto.
  destruct (c' =? k) eqn:E; simpl.
  - apply N.eqb_eq in E; subst. replace (c =? k) with false by (symmetry; apply N.eqb_neq; exact Hne). reflexivity.
  - destruct (c =? k); auto.
Qed.

(* submits: what is held for an active c grows by exactly the items carried for c, in order;
   danglings untouched *)
Lemma submit_item_at c s st it :
  amem c (fst st) = true ->
  colls_at c (fst (submit_item true s st it)) =
  colls_at c (fst st) ++ (if ti_collect it =? c then [mkColl s (ti_trace it) (ti_parent it)] else []) /\
  amem c (fst (submit_item true s st it)) = true.
Proof.
  destruct st as [am stale]. cbn [fst]. intros Hc. split; [|rewrite submit_item_amem; exact Hc].
  unfold submit_item. destruct (amem (ti_collect it) am) eqn:E; cbn [fst].
  - unfold colls_at. destruct (ti_collect it =? c) eqn:Ec.
    + apply N.eqb_eq in Ec. subst c. rewrite alookup_aupdate_same.
      unfold amem in Hc. destruct (alookup (ti_collect it) am); [reflexivity|discriminate].
    + apply N.eqb_neq in Ec. rewrite alookup_aupdate_other by congruence. rewrite app_nil_r. reflexivity.
  - destruct (ti_collect it =? c) eqn:Ec.
    + apply N.eqb_eq in Ec. subst c. congruence.
    + rewrite app_nil_r. reflexivity.
Qed.

Lemma do_submits_at c am l :
  amem c am = true ->
  colls_at c (fst (do_submits true am l)) = colls_at c am ++ items_for c l.
Proof.
  unfold do_submits. intros Hc.
  assert (H : forall st, amem c (fst st) = true ->
    colls_at c (fst (fold_left (fun st sub => fold_left (submit_item true (fst sub)) (snd sub) st) l st)) =
    colls_at c (fst st) ++ items_for c l).
  { induction l as [|[s tk] l IH]; intros st Hst; cbn [fold_left items_for flat_map fst snd].
    - rewrite app_nil_r. reflexivity.
    - assert (Hin : forall st0, amem c (fst st0) = true ->
        colls_at c (fst (fold_left (submit_item true s) tk st0)) =
        colls_at c (fst st0) ++ map (fun it => mkColl s (ti_trace it) (ti_parent it))
                                     (filter (fun it => ti_collect it =? c) tk) /\
        amem c (fst (fold_left (submit_item true s) tk st0)) = true).
      { clear IH. induction tk as [|it tk IHt]; intros st0 H0; cbn [fold_left filter map].
        - rewrite app_nil_r. auto.
        - destruct (submit_item_at c s st0 it H0) as [A B].
          destruct (IHt _ B) as [A2 B2]. split; auto.
          apply (eq_trans A2). apply (eq_trans (f_equal (fun z => z ++ _) A)).
          rewrite <- app_assoc. f_equal.
          destruct (ti_collect it =? c); reflexivity. }
      destruct (Hin st Hst) as [A B]. apply (eq_trans (IH _ B)).
      apply (eq_trans (f_equal (fun z => z ++ _) A)). rewrite <- app_assoc. reflexivity. }
  apply (H (am, [])). exact Hc.
Qed.

Lemma alookup_aremove_ne c c' (am : active_map) : c <> c' -> alookup c (aremove c' am) = alookup c am.
Proof.
  intros Hne. induction am as [|[k v] am IH]; simpl; auto.
  destruct (c' =? k) eqn:E.
  - apply N.eqb_eq in E; subst. replace (c =? k) with false by (symmetry; apply N.eqb_neq; exact Hne). exact IH.
  - simpl. destruct (c =? k); auto.
Qed.

(* commits: the records tagged c are exactly the post-processing of what was held for c, once,
   if c is committed and active; nothing if it is not active *)
Lemma do_commits_at c am l a :
  alookup c am = Some a -> In c l ->
  tagged c (snd (do_commits conv am l)) = fst (postprocess conv (a_colls a) (a_dang a)).
Proof.
  unfold do_commits.
  assert (Hnone : forall l st, alookup c (fst st) = None ->
    tagged c (snd (fold_left (fun st c =>
               match alookup c (fst st) with
               | Some a => (aremove c (fst st),
                            snd st ++ tag c (fst (postprocess conv (a_colls a) (a_dang a))))
               | None => st
               end) l st)) = tagged c (snd st)).
  { clear l. induction l as [|x l IH]; intros [am0 out] Hn; cbn [fold_left fst snd] in *; auto.
    destruct (alookup x am0) as [ax|] eqn:Ex.
    - destruct (N.eq_dec x c) as [->|Hne]; [congruence|].
      rewrite IH; cbn [fst snd].
      + rewrite tagged_app, tagged_tag_other by exact Hne. rewrite app_nil_r. reflexivity.
      + rewrite alookup_aremove_ne by congruence. exact Hn.
    - apply IH. exact Hn. }
  assert (H : forall st, alookup c (fst st) = Some a -> In c l ->
    tagged c (snd (fold_left (fun st c =>
               match alookup c (fst st) with
               | Some a => (aremove c (fst st),
                            snd st ++ tag c (fst (postprocess conv (a_colls a) (a_dang a))))
               | None => st
               end) l st)) = tagged c (snd st) ++ fst (postprocess conv (a_colls a) (a_dang a))).
  { induction l as [|x l IH]; intros [am0 out] Hs Hin; cbn [fold_left fst snd] in *; [contradiction|].
    destruct (N.eq_dec x c) as [->|Hne].
    - rewrite Hs. rewrite Hnone; cbn [fst snd].
      + rewrite tagged_app, tagged_tag_same. reflexivity.
      + apply alookup_aremove_same.
    - destruct Hin as [Hin|Hin]; [congruence|].
      destruct (alookup x am0) as [ax|] eqn:Ex.
      + rewrite IH; cbn [fst snd]; auto.
        * rewrite tagged_app, tagged_tag_other by exact Hne. rewrite app_nil_r. reflexivity.
        * rewrite alookup_aremove_ne by congruence. exact Hs.
      + apply IH; auto. }
  intros Hs Hin. exact (H (am, []) Hs Hin).
Qed.

(* C03 at the collector: when the commit of c is processed (and c was not cancelled), the one
   report call of that cycle carries, for c, exactly the spans of everything the collector
   had been given for c before plus everything submitted for c in this very batch -- in
   order, each once -- and c is gone afterwards (nothing of it can be reported later:
   cancelable_reports_only_committed / inactive_stays_silent) *)
Theorem cancelable_commit_delivers_whole am b c a :
  alookup c (do_drops true (do_starts am (b_start b)) (b_drop b)) = Some a ->
  In c (b_commit b) ->
  map core3 (tagged c (snd (process_owned conv true am b))) =
  flat_map coll_cores (a_colls a ++ items_for c (b_submit b)) /\
  amem c (fst (process_owned conv true am b)) = false.
Proof.
  intros Ha Hc. unfold process_owned.
  set (am2 := do_drops true (do_starts am (b_start b)) (b_drop b)) in *.
  assert (Hm : amem c am2 = true) by (unfold amem; rewrite Ha; reflexivity).
  pose proof (do_submits_at c am2 (b_submit b) Hm) as Hs.
  pose proof (do_submits_cancelable_stale am2 (b_submit b)) as Hst.
  pose proof (do_submits_amem true am2 (b_submit b) c) as Hm3.
  destruct (do_submits true am2 (b_submit b)) as [am3 stale]. cbn [fst snd] in *. subst stale.
  rewrite Hm in Hm3. unfold amem in Hm3.
  destruct (alookup c am3) as [a3|] eqn:E3; [|discriminate].
  pose proof (do_commits_at c am3 (b_commit b) a3 E3 Hc) as Hcm.
  pose proof (do_commits_removes conv am3 (b_commit b) c Hc) as Hrm.
  destruct (do_commits conv am3 (b_commit b)) as [am4 committed]. cbn [fst snd] in *.
  split; [|exact Hrm].
  unfold do_stale. cbn [flat_map]. rewrite !app_nil_r. rewrite Hcm, postprocess_cores.
  unfold colls_at in Hs. rewrite E3, Ha in Hs. rewrite Hs. reflexivity.
Qed.

End Conv2.

(* ---------------------------------------------------------------- from popped commands *)
Definition submits_of (cmds : list command) : list (span_set * token) :=
  flat_map (fun c => match c with CSubmit s tk => [(s, tk)] | _ => [] end) cmds.

Definition batch_of (cmds : list command) : batch := fold_left batch_add cmds batch_empty.

Lemma batch_add_submits b c :
  b_submit (batch_add b c) = b_submit b ++ submits_of [c].
Proof. destruct c; simpl; rewrite ?app_nil_r; reflexivity. Qed.

Lemma batch_of_submits cmds : b_submit (batch_of cmds) = submits_of cmds.
Proof.
  unfold batch_of.
  assert (H : forall b, b_submit (fold_left batch_add cmds b) = b_submit b ++ submits_of cmds).
  { induction cmds as [|c cmds IH]; intros b; cbn [fold_left].
    - unfold submits_of; simpl. rewrite app_nil_r. reflexivity.
    - rewrite IH, batch_add_submits, <- app_assoc. f_equal.
      unfold submits_of. cbn [flat_map]. rewrite app_nil_r. reflexivity. }
  apply (H batch_empty).
Qed.

(* whatever the drains of successive cycles popped (any commands, from any number of threads,
   cut into cycles anywhere): in the default configuration the reports carry exactly the
   spans of the popped SubmitSpans commands, one record per span per token item *)
Theorem default_popped_commands_delivered_exactly (conv : N -> N) (cycles : list (list command)) :
  Permutation (map core3 (snd (run_batches conv [] (map batch_of cycles))))
              (flat_map coll_cores (submitted_colls (submits_of (concat cycles)))).
Proof.
  assert (E : flat_map (fun b => submitted_colls (b_submit b)) (map batch_of cycles) =
              submitted_colls (submits_of (concat cycles))).
  { induction cycles as [|cy cycles IH]; cbn [map flat_map concat]; auto.
    rewrite IH, batch_of_submits. unfold submits_of, submitted_colls. rewrite !flat_map_app. reflexivity. }
  destruct (default_cycles_deliver_exactly conv [] (map batch_of cycles) cycle_inv_empty) as [P _].
  eapply Permutation_trans; [exact P|].
  rewrite E. apply Permutation_refl.
Qed.

(* C02 reading of the same theorem: every record the default configuration reports carries
   (trace, span id, parent) of one raw span of one submitted set under one of its token items
   -- the item's trace; the item's parent for the roots of the set, the recorded parent for
   the others -- and every such triple is reported *)
Corollary default_reported_core_is_submitted (conv : N -> N) am b r :
  cycle_inv am -> In r (snd (process conv false am b)) ->
  In (core3 r) (flat_map coll_cores (submitted_colls (b_submit b))).
Proof.
  intros Hi Hin. destruct (default_batch_delivers_exactly conv am b Hi) as [P _].
  eapply Permutation_in; [exact P|]. apply in_map. exact Hin.
Qed.

Corollary default_submitted_core_is_reported (conv : N -> N) am b x :
  cycle_inv am -> In x (flat_map coll_cores (submitted_colls (b_submit b))) ->
  exists r, In r (snd (process conv false am b)) /\ core3 r = x.
Proof.
  intros Hi Hin. destruct (default_batch_delivers_exactly conv am b Hi) as [P _].
  apply Permutation_sym in P. pose proof (Permutation_in _ P Hin) as H.
  apply in_map_iff in H. destruct H as (r & E & Hr). eauto.
Qed.
