(* C03, composed over the scheduler: in the cancelable configuration, at the process step of a
   cycle whose batch holds the commit of collect id c (c started earlier or in this batch, not
   cancelled in it), the one report of that step contains the record of every span of every
   SubmitSpans for c that is in the batch -- and with the drain theorem: of every SubmitSpans
   for c that was in a registered thread's ring when the cycle began, provided the commit
   was there too.  A trace whose spans and root were all finished before a cycle begins is
   delivered whole, in one report, by that cycle. *)
From Coq Require Import List Arith NArith Bool Lia Permutation.
From FT Require Import Model.Base Model.Local Model.Records Model.Spsc Model.Collector Model.System.
From FT Require Import Proofs.CollectorProofs Proofs.DeliveryProofs Proofs.DrainProofs Proofs.EndToEndProofs.
Import ListNotations.
Open Scope N_scope.

Lemma fold_aremove_lookup (am : active_map) l c :
  ~ In c l -> alookup c (fold_left (fun m x => aremove x m) l am) = alookup c am.
Proof.
  revert am. induction l as [|x l IH]; intros am H; simpl; [reflexivity|].
  rewrite IH by (intros Hi; apply H; right; exact Hi).
  apply alookup_aremove_ne. intros ->. apply H. left. reflexivity.
Qed.

Lemma survives_starts_and_drops am starts drops c :
  amem c am = true \/ In c starts -> ~ In c drops ->
  exists a, alookup c (do_drops true (do_starts am starts) drops) = Some a.
Proof.
  intros Hs Hd. unfold do_drops. rewrite fold_aremove_lookup by exact Hd.
  assert (H : amem c (do_starts am starts) = true).
  { rewrite do_starts_amem. destruct Hs as [H|H]; [rewrite H; reflexivity|].
    apply orb_true_iff. right. apply existsb_exists. exists c. split; [exact H|apply N.eqb_refl]. }
  unfold amem in H. destruct (alookup c (do_starts am starts)) as [a|]; [eauto|discriminate].
Qed.

Lemma items_for_in c sp tk it l :
  In (sp, tk) l -> In it tk -> ti_collect it = c ->
  In (mkColl sp (ti_trace it) (ti_parent it)) (items_for c l).
Proof.
  intros H1 H2 H3. unfold items_for. apply in_flat_map. exists (sp, tk). split; [exact H1|].
  cbn [fst snd]. apply in_map_iff. exists it. split; [reflexivity|].
  apply filter_In. split; [exact H2|]. apply N.eqb_eq. exact H3.
Qed.

Lemma tagged_incl c (l : list (N * record)) : incl (tagged c l) (map snd l).
Proof.
  unfold tagged. intros r H. apply in_map_iff in H. destruct H as (x & E & Hx).
  apply filter_In in Hx. apply in_map_iff. exists x. split; [exact E|apply Hx].
Qed.

(* the collector's side *)
Theorem commit_reports_batch_submits conv am b c sp tk it :
  amem c am = true \/ In c (b_start b) -> ~ In c (b_drop b) -> In c (b_commit b) ->
  In (sp, tk) (b_submit b) -> In it tk -> ti_collect it = c ->
  incl (coll_cores (mkColl sp (ti_trace it) (ti_parent it)))
       (map core3 (snd (process conv true am b))) /\
  amem c (fst (process conv true am b)) = false.
Proof.
  intros Hs Hd Hc Hsub Hit Hcid.
  destruct (survives_starts_and_drops am (b_start b) (b_drop b) c Hs Hd) as [a Ha].
  destruct (cancelable_commit_delivers_whole conv am b c a Ha Hc) as [Hw Hgone].
  unfold process. destruct (process_owned conv true am b) as [am' recs] eqn:Ep. cbn [fst snd] in *.
  split; [|exact Hgone].
  intros x Hx.
  assert (Hin : In x (map core3 (tagged c recs))).
  { rewrite Hw. apply in_flat_map. exists (mkColl sp (ti_trace it) (ti_parent it)). split; [|exact Hx].
    apply in_app_iff. right. apply (items_for_in c sp tk it); assumption. }
  apply in_map_iff in Hin. destruct Hin as (r & Er & Hr).
  apply in_map_iff. exists r. split; [exact Er|]. apply (tagged_incl c recs). exact Hr.
Qed.

(* at the system's process step *)
Theorem step_commit_reports_batch_submits s c sp tk it :
  s_pc s = PDrained -> s_cancelable s = true ->
  amem c (s_active s) = true \/ In c (b_start (s_batch s)) ->
  ~ In c (b_drop (s_batch s)) -> In c (b_commit (s_batch s)) ->
  In (sp, tk) (b_submit (s_batch s)) -> In it tk -> ti_collect it = c ->
  exists recs st n,
    snd (step s ACProcess) = OReport recs st n /\
    incl (coll_cores (mkColl sp (ti_trace it) (ti_parent it))) (map core3 recs) /\
    amem c (s_active (fst (step s ACProcess))) = false.
Proof.
  intros Hpc Hcb Hs Hd Hc Hsub Hit Hcid.
  pose proof (commit_reports_batch_submits (anchor_conv (s_nstep (s_tick s))) (s_active s) (s_batch s) c sp tk it
                Hs Hd Hc Hsub Hit Hcid) as [Hincl Hgone].
  unfold step. cbv beta iota zeta. change (s_pc (s_tick s)) with (s_pc s). rewrite Hpc.
  change (s_cancelable (s_tick s)) with (s_cancelable s). rewrite Hcb.
  change (s_active (s_tick s)) with (s_active s). change (s_batch (s_tick s)) with (s_batch s).
  destruct (process (anchor_conv (s_nstep (s_tick s))) true (s_active s) (s_batch s)) as [am recs].
  cbn [fst snd] in *. exists recs, (stats_of am), (lenN (s_registry (s_tick s))).
  split; [reflexivity|split; [exact Hincl|exact Hgone]].
Qed.

(* with the drain: everything of the trace that was in the rings when the cycle began *)
Theorem whole_trace_in_rings_is_reported_in_one_report dbg ringcap stackcap qcap h0 h c :
  let s := fst (run (sys_init dbg ringcap stackcap qcap) h0) in
  let s1 := fst (run s (ACBegin :: h)) in
  s_pc s = PIdle -> s_installed s = true -> no_process h ->
  s_pc s1 = PDrained -> s_cancelable s1 = true ->
  (exists tc, In (tc, CCommit c) (ring_commands s)) ->
  amem c (s_active s1) = true \/ (exists ts, In (ts, CStart c) (ring_commands s)) ->
  ~ In c (b_drop (s_batch s1)) ->
  exists recs st n,
    snd (step s1 ACProcess) = OReport recs st n /\
    amem c (s_active (fst (step s1 ACProcess))) = false /\
    forall t sp tk it, In (t, CSubmit sp tk) (ring_commands s) -> In it tk -> ti_collect it = c ->
      incl (coll_cores (mkColl sp (ti_trace it) (ti_parent it))) (map core3 recs).
Proof.
  intros s s1 Hpc Hin Hn Hend Hcb [tc Hcommit] Hstart Hnd.
  pose proof (reachable_cycle_drains_every_ring dbg ringcap stackcap qcap h0 h Hpc Hin Hn Hend) as Hdrain.
  fold s in Hdrain. fold s1 in Hdrain.
  assert (Hc : In c (b_commit (s_batch s1))) by exact (Hdrain tc (CCommit c) Hcommit).
  assert (Hs : amem c (s_active s1) = true \/ In c (b_start (s_batch s1))).
  { destruct Hstart as [H|[ts H]]; [left; exact H|right; exact (Hdrain ts (CStart c) H)]. }
  destruct (process_reports s1 Hend) as (recs & st & n & Hr).
  exists recs, st, n. split; [exact Hr|].
  assert (G : forall sp tk it, In (sp, tk) (b_submit (s_batch s1)) -> In it tk -> ti_collect it = c ->
              incl (coll_cores (mkColl sp (ti_trace it) (ti_parent it))) (map core3 recs) /\
              amem c (s_active (fst (step s1 ACProcess))) = false).
  { intros sp tk it Hsub Hit Hcid.
    destruct (step_commit_reports_batch_submits s1 c sp tk it Hend Hcb Hs Hnd Hc Hsub Hit Hcid)
      as (recs' & st' & n' & Hr' & Hi & Hg).
    rewrite Hr in Hr'. inversion Hr'; subst. split; assumption. }
  split.
  - (* the entry is gone: from the collector theorem, no submit needed *)
    destruct (survives_starts_and_drops (s_active s1) (b_start (s_batch s1)) (b_drop (s_batch s1)) c Hs Hnd) as [a Ha].
    pose proof (cancelable_commit_delivers_whole (anchor_conv (s_nstep (s_tick s1))) (s_active s1) (s_batch s1) c a Ha Hc) as [_ Hgone].
    unfold step. cbv beta iota zeta. change (s_pc (s_tick s1)) with (s_pc s1). rewrite Hend.
    change (s_cancelable (s_tick s1)) with (s_cancelable s1). rewrite Hcb.
    change (s_active (s_tick s1)) with (s_active s1). change (s_batch (s_tick s1)) with (s_batch s1).
    unfold process. destruct (process_owned (anchor_conv (s_nstep (s_tick s1))) true (s_active s1) (s_batch s1)) as [am recs0].
    cbn [fst snd] in *. exact Hgone.
  - intros t sp tk it Hring Hit Hcid.
    apply (G sp tk it); auto. exact (Hdrain t (CSubmit sp tk) Hring).
Qed.

(* ================================================================ across cycles *)
(* what is submitted for an active collect id whose commit has not come yet is held by the
   collector, and stays held -- whatever the threads and later drains do -- until the commit
   is processed; the report of that step then carries it *)
Lemma do_starts_lookup_other am l c : ~ In c l -> alookup c (do_starts am l) = alookup c am.
Proof.
  unfold do_starts. revert am. induction l as [|x l IH]; intros am H; simpl; [reflexivity|].
  rewrite IH by (intros Hi; apply H; right; exact Hi).
  apply alookup_aset_other. intros ->. apply H. left. reflexivity.
Qed.

Lemma commit_fold_lookup_other conv c l : forall st,
  ~ In c l ->
  alookup c (fst (fold_left (fun st c =>
               match alookup c (fst st) with
               | Some a => (aremove c (fst st),
                            snd st ++ tag c (fst (postprocess conv (a_colls a) (a_dang a))))
               | None => st
               end) l st)) = alookup c (fst st).
Proof.
  induction l as [|x l IH]; intros st H; cbn [fold_left]; [reflexivity|].
  rewrite IH by (intros Hi; apply H; right; exact Hi).
  destruct (alookup x (fst st)); cbn [fst]; [|reflexivity].
  apply alookup_aremove_ne. intros ->. apply H. left. reflexivity.
Qed.

Theorem held_after_process conv am b c :
  amem c am = true \/ In c (b_start b) -> ~ In c (b_drop b) -> ~ In c (b_commit b) ->
  colls_at c (fst (process conv true am b)) =
  colls_at c (do_drops true (do_starts am (b_start b)) (b_drop b)) ++ items_for c (b_submit b) /\
  amem c (fst (process conv true am b)) = true.
Proof.
  intros Hs Hd Hc.
  destruct (survives_starts_and_drops am (b_start b) (b_drop b) c Hs Hd) as [a Ha].
  unfold process, process_owned.
  set (am2 := do_drops true (do_starts am (b_start b)) (b_drop b)) in *.
  assert (Hm : amem c am2 = true) by (unfold amem; rewrite Ha; reflexivity).
  pose proof (do_submits_at c am2 (b_submit b) Hm) as Hat.
  pose proof (do_submits_amem true am2 (b_submit b) c) as Hm3.
  destruct (do_submits true am2 (b_submit b)) as [am3 stale]. cbn [fst] in *.
  pose proof (commit_fold_lookup_other conv c (b_commit b) (am3, []) Hc) as Hl.
  change (alookup c (fst (do_commits conv am3 (b_commit b))) = alookup c am3) in Hl.
  destruct (do_commits conv am3 (b_commit b)) as [am4 committed]. cbn [fst snd] in *.
  split.
  - unfold colls_at in *. rewrite Hl. exact Hat.
  - unfold amem in *. rewrite Hl. rewrite Hm3. exact Hm.
Qed.

(* no step other than the process step and the installation of a reporter touches what the
   collector holds *)
Lemma step_keeps_active s a :
  a <> ACProcess -> (forall cb, a <> AInstall cb) -> s_active (fst (step s a)) = s_active s.
Proof.
  intros Hp Hi. unfold step. destruct a; cbv beta iota zeta;
    try (exfalso; apply (Hi cancelable); reflexivity); try contradiction;
    repeat match goal with
           | |- context [match ?x with _ => _ end] => destruct x eqn:?
           end; cbn [fst]; try reflexivity.
  match goal with
  | E : exec_call _ _ _ _ = COk ?s1 _ _ _ _ |- _ => destruct (SystemDeliveryProofs.exec_call_collector _ _ _ _ _ _ _ _ _ E) as (A & _); exact A
  end.
Qed.

Definition no_process_no_install (h : list action) : Prop :=
  Forall (fun a => a <> ACProcess /\ forall cb, a <> AInstall cb) h.

Lemma run_keeps_active h : forall s, no_process_no_install h -> s_active (fst (run s h)) = s_active s.
Proof.
  induction h as [|a h IH]; intros s Hn; [reflexivity|].
  inversion Hn as [|? ? [Ha1 Ha2] Hn']; subst.
  pose proof (step_keeps_active s a Ha1 Ha2) as E. cbn [run].
  destruct (step s a) as [s1 o]. cbn [fst] in E. specialize (IH s1 Hn').
  destruct (run s1 h) as [s2 os]. cbn [fst] in *. rewrite IH. exact E.
Qed.

(* the process step itself, in terms of [process] *)
Lemma process_step_active s :
  s_pc s = PDrained ->
  s_active (fst (step s ACProcess)) =
  fst (process (anchor_conv (s_nstep (s_tick s))) (s_cancelable s) (s_active s) (s_batch s)).
Proof.
  intros H. unfold step. cbv beta iota zeta. change (s_pc (s_tick s)) with (s_pc s). rewrite H.
  change (s_cancelable (s_tick s)) with (s_cancelable s).
  change (s_active (s_tick s)) with (s_active s). change (s_batch (s_tick s)) with (s_batch s).
  destruct (process _ _ _ _) as [am recs]. reflexivity.
Qed.

(* C03 over two cycles: a SubmitSpans for c processed in one cycle (c active or started, not
   cancelled, not yet committed) and the commit of c processed in a later one (c not started
   again, not cancelled): the report of the later cycle carries the spans of the earlier
   submit.  In between: any history without a process step or a new reporter. *)
Theorem held_submit_is_reported_with_the_commit s1 h s2 c sp tk it :
  s_pc s1 = PDrained -> s_cancelable s1 = true ->
  amem c (s_active s1) = true \/ In c (b_start (s_batch s1)) ->
  ~ In c (b_drop (s_batch s1)) -> ~ In c (b_commit (s_batch s1)) ->
  In (sp, tk) (b_submit (s_batch s1)) -> In it tk -> ti_collect it = c ->
  no_process_no_install h ->
  s2 = fst (run (fst (step s1 ACProcess)) h) ->
  s_pc s2 = PDrained -> s_cancelable s2 = true ->
  ~ In c (b_start (s_batch s2)) -> ~ In c (b_drop (s_batch s2)) -> In c (b_commit (s_batch s2)) ->
  exists recs st n,
    snd (step s2 ACProcess) = OReport recs st n /\
    incl (coll_cores (mkColl sp (ti_trace it) (ti_parent it))) (map core3 recs) /\
    amem c (s_active (fst (step s2 ACProcess))) = false.
Proof.
  intros Hpc1 Hcb1 Hs1 Hd1 Hc1 Hsub Hit Hcid Hn E2 Hpc2 Hcb2 Hns2 Hd2 Hc2.
  (* after the first process step the collection is held under c *)
  destruct (held_after_process (anchor_conv (s_nstep (s_tick s1))) (s_active s1) (s_batch s1) c Hs1 Hd1 Hc1) as [Hheld Hact].
  assert (Ha2 : s_active s2 = fst (process (anchor_conv (s_nstep (s_tick s1))) true (s_active s1) (s_batch s1))).
  { rewrite E2, run_keeps_active by exact Hn. rewrite process_step_active by exact Hpc1. rewrite Hcb1. reflexivity. }
  set (cl := mkColl sp (ti_trace it) (ti_parent it)).
  assert (Hin2 : In cl (colls_at c (s_active s2))).
  { rewrite Ha2, Hheld. apply in_app_iff. right. apply (items_for_in c sp tk it); assumption. }
  assert (Hm2 : amem c (s_active s2) = true) by (rewrite Ha2; exact Hact).
  (* the second process step *)
  destruct (survives_starts_and_drops (s_active s2) (b_start (s_batch s2)) (b_drop (s_batch s2)) c (or_introl Hm2) Hd2) as [a Ha].
  assert (Hsame : alookup c (s_active s2) = Some a).
  { unfold do_drops in Ha. rewrite fold_aremove_lookup in Ha by exact Hd2.
    rewrite do_starts_lookup_other in Ha by exact Hns2. exact Ha. }
  destruct (cancelable_commit_delivers_whole (anchor_conv (s_nstep (s_tick s2))) (s_active s2) (s_batch s2) c a Ha Hc2) as [Hw Hgone].
  unfold step. cbv beta iota zeta. change (s_pc (s_tick s2)) with (s_pc s2). rewrite Hpc2.
  change (s_cancelable (s_tick s2)) with (s_cancelable s2). rewrite Hcb2.
  change (s_active (s_tick s2)) with (s_active s2). change (s_batch (s_tick s2)) with (s_batch s2).
  unfold process. destruct (process_owned (anchor_conv (s_nstep (s_tick s2))) true (s_active s2) (s_batch s2)) as [am recs] eqn:Ep.
  cbn [fst snd] in *. exists (map snd recs), (stats_of am), (lenN (s_registry (s_tick s2))).
  split; [reflexivity|split; [|exact Hgone]].
  intros x Hx.
  assert (Hin : In x (map core3 (tagged c recs))).
  { rewrite Hw. apply in_flat_map. exists cl. split; [|exact Hx].
    apply in_app_iff. left. unfold colls_at in Hin2. rewrite Hsame in Hin2. exact Hin2. }
  apply in_map_iff in Hin. destruct Hin as (r & Er & Hr).
  apply in_map_iff. exists r. split; [exact Er|]. apply (tagged_incl c recs). exact Hr.
Qed.

(* ================================================================ C08 over the scheduler *)
(* a commit -- or, cancelable, a cancel -- that is in a registered thread's ring when a cycle
   begins: after that cycle's process step the collector retains nothing for c, in both
   configurations and for every interleaving of the drain with the threads *)
Theorem finished_trace_is_forgotten dbg ringcap stackcap qcap h0 h c :
  let s := fst (run (sys_init dbg ringcap stackcap qcap) h0) in
  let s1 := fst (run s (ACBegin :: h)) in
  s_pc s = PIdle -> s_installed s = true -> no_process h -> s_pc s1 = PDrained ->
  (exists t, In (t, CCommit c) (ring_commands s)) \/
  (s_cancelable s1 = true /\ exists t, In (t, CDrop c) (ring_commands s)) ->
  amem c (s_active (fst (step s1 ACProcess))) = false.
Proof.
  intros s s1 Hpc Hin Hn Hend Hcmd.
  pose proof (reachable_cycle_drains_every_ring dbg ringcap stackcap qcap h0 h Hpc Hin Hn Hend) as Hdrain.
  fold s in Hdrain. fold s1 in Hdrain.
  rewrite process_step_active by exact Hend. unfold process.
  destruct Hcmd as [[t Ht]|[Hcb [t Ht]]].
  - pose proof (commit_removes (anchor_conv (s_nstep (s_tick s1))) (s_cancelable s1) (s_active s1) (s_batch s1) c
                  (Hdrain t (CCommit c) Ht)) as H.
    destruct (process_owned _ _ _ _) as [am recs]. exact H.
  - rewrite Hcb.
    pose proof (drop_removes (anchor_conv (s_nstep (s_tick s1))) (s_active s1) (s_batch s1) c
                  (Hdrain t (CDrop c) Ht)) as H.
    destruct (process_owned _ _ _ _) as [am recs]. exact H.
Qed.

(* what the collector retains only grows by StartCollect commands of the batch: over a whole
   cycle, from its begin to after its process step *)
Theorem retained_only_grows_by_starts s c :
  s_pc s = PDrained ->
  amem c (s_active (fst (step s ACProcess))) = true ->
  amem c (s_active s) = true \/ In c (b_start (s_batch s)).
Proof.
  intros Hpc H. rewrite process_step_active in H by exact Hpc. unfold process in H.
  pose proof (active_only_started (anchor_conv (s_nstep (s_tick s))) (s_cancelable s) (s_active s) (s_batch s) c) as G.
  destruct (process_owned _ _ _ _) as [am recs]. exact (G H).
Qed.

(* ================================================================ from landed commands *)
(* when the collector is idle its batch is empty, and a thread whose ring is not empty is in
   the registry: what has landed is in the rings the next cycle drains *)
Lemma landed_idle_in_ring_commands s t c :
  tracked s -> s_pc s = PIdle -> landed t c s -> In (t, c) (ring_commands s).
Proof.
  intros (A & B & C) Hpc [Hr|Hb].
  - unfold ring_of in Hr. destruct (get_thread s t) as [th|] eqn:Eg; [|destruct Hr].
    apply in_ring_commands.
    + destruct (C t th Eg) as [_ [V|[R _]]].
      * unfold view in V. rewrite Hpc in V. exact V.
      * rewrite R in Hr. destruct Hr.
    + unfold ring_of. rewrite Eg. exact Hr.
  - rewrite (B Hpc) in Hb. destruct (in_batch_empty c Hb).
Qed.

(* C03 from the threads' side: in any reachable idle state in which the commit of c has landed
   (its thread has pushed it), c is active or its start has landed too, and the cycle that
   begins now does not meet a cancel of c: that cycle's one report carries every span of every
   SubmitSpans for c that has landed, from whatever thread *)
Theorem landed_trace_is_reported_whole dbg ringcap stackcap qcap h0 h c :
  let s := fst (run (sys_init dbg ringcap stackcap qcap) h0) in
  let s1 := fst (run s (ACBegin :: h)) in
  s_pc s = PIdle -> s_installed s = true -> no_process h ->
  s_pc s1 = PDrained -> s_cancelable s1 = true ->
  (exists tc, landed tc (CCommit c) s) ->
  amem c (s_active s1) = true \/ (exists ts, landed ts (CStart c) s) ->
  ~ In c (b_drop (s_batch s1)) ->
  exists recs st n,
    snd (step s1 ACProcess) = OReport recs st n /\
    amem c (s_active (fst (step s1 ACProcess))) = false /\
    forall t sp tk it, landed t (CSubmit sp tk) s -> In it tk -> ti_collect it = c ->
      incl (coll_cores (mkColl sp (ti_trace it) (ti_parent it))) (map core3 recs).
Proof.
  intros s s1 Hpc Hin Hn Hend Hcb [tc Hcommit] Hstart Hnd.
  assert (Ht : tracked s) by (apply run_tracked; apply tracked_init).
  destruct (whole_trace_in_rings_is_reported_in_one_report dbg ringcap stackcap qcap h0 h c Hpc Hin Hn Hend Hcb)
    as (recs & st & n & Hr & Hg & Hall).
  - exists tc. apply landed_idle_in_ring_commands; assumption.
  - destruct Hstart as [H|[ts H]]; [left; exact H|right; exists ts; apply landed_idle_in_ring_commands; assumption].
  - exact Hnd.
  - exists recs, st, n. split; [exact Hr|split; [exact Hg|]].
    intros t sp tk it HL Hit Hcid. apply (Hall t sp tk it); auto.
    apply landed_idle_in_ring_commands; assumption.
Qed.

(* ================================================================ C04 over the scheduler *)
(* a cancel that is in a registered thread's ring when a cycle begins (cancelable
   configuration): whatever else that cycle drains -- the start, span sets, even the commit of
   the same trace -- its report carries no record of c (records are tagged with the collect
   id they were produced for; the tag is ghost, the report itself is [map snd]), and c is
   inactive afterwards *)
Theorem cancel_in_rings_silences_the_trace dbg ringcap stackcap qcap h0 h c :
  let s := fst (run (sys_init dbg ringcap stackcap qcap) h0) in
  let s1 := fst (run s (ACBegin :: h)) in
  s_pc s = PIdle -> s_installed s = true -> no_process h ->
  s_pc s1 = PDrained -> s_cancelable s1 = true ->
  (exists t, In (t, CDrop c) (ring_commands s)) ->
  exists tagged_recs st n,
    snd (step s1 ACProcess) = OReport (map snd tagged_recs) st n /\
    (forall r, ~ In (c, r) tagged_recs) /\
    amem c (s_active (fst (step s1 ACProcess))) = false.
Proof.
  intros s s1 Hpc Hin Hn Hend Hcb [t Ht].
  pose proof (reachable_cycle_drains_every_ring dbg ringcap stackcap qcap h0 h Hpc Hin Hn Hend t (CDrop c) Ht) as Hd.
  fold s in Hd. fold s1 in Hd. cbn [in_batch] in Hd.
  pose proof (fun r => cancel_suppresses (anchor_conv (s_nstep (s_tick s1))) (s_active s1) (s_batch s1) c r Hd) as Hsup.
  pose proof (drop_removes (anchor_conv (s_nstep (s_tick s1))) (s_active s1) (s_batch s1) c Hd) as Hgone.
  unfold step. cbv beta iota zeta. change (s_pc (s_tick s1)) with (s_pc s1). rewrite Hend.
  change (s_cancelable (s_tick s1)) with (s_cancelable s1). rewrite Hcb.
  change (s_active (s_tick s1)) with (s_active s1). change (s_batch (s_tick s1)) with (s_batch s1).
  unfold process.
  destruct (process_owned (anchor_conv (s_nstep (s_tick s1))) true (s_active s1) (s_batch s1)) as [am recs].
  cbn [fst snd] in *. exists recs, (stats_of am), (lenN (s_registry (s_tick s1))).
  split; [reflexivity|split; [exact Hsup|exact Hgone]].
Qed.

(* ================================================================ a reporter installed again *)
(* set_reporter replaces the collector: the new one knows no trace and has drained nothing;
   threads, their rings, their spans and the registry of rings are untouched *)
Theorem reinstall_starts_afresh s cb :
  s_pc s = PIdle ->
  let s' := fst (step s (AInstall cb)) in
  s_active s' = [] /\ s_batch s' = batch_empty /\ s_cancelable s' = cb /\ s_installed s' = true /\
  s_pc s' = PIdle /\ s_registry s' = s_registry s /\ s_threads s' = s_threads s /\ s_spans s' = s_spans s.
Proof.
  intros H. unfold step. cbv beta iota zeta. change (s_pc (s_tick s)) with (s_pc s). rewrite H.
  cbn [fst]. repeat split.
Qed.
