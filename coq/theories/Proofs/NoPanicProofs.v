(* C07, system level, part 2: every API call of the system model, issued in a state whose
   threads are well-formed (Proofs/WfProofs.v), returns without reaching a panic site and
   leaves the thread well-formed -- provided id prefixes are non-zero (K3 boundary), fewer
   than 2^64 steps have been taken, and a local collector is not collected while local spans
   opened after it are still open (the release-in-reverse-order precondition of the property).
   Hence no history that respects these conditions ever shows a panic. *)
From Coq Require Import List Arith NArith Bool Lia.
From FT Require Import Model.Base Model.Local Model.Records Model.Spsc Model.Collector Model.System
     Proofs.WfProofs.
Import ListNotations.
Open Scope N_scope.

Definition th_inv (b : N) (th : thread) : Prop :=
  st_inv (th_scoped th) (th_stack th) b /\ th_prefix th <> 0.

Definition tabs_inv (s : sys) : Prop :=
  (forall h sp, In (h, Some sp) (s_spans s) -> sp_token sp <> []) /\
  (forall a sp, In (a, Some (Some sp)) (s_adapters s) -> sp_token sp <> []).

Definition strict_call (th : thread) (c : call) : Prop :=
  match c with
  | KLcCollect _ _ => fst (split_locals (th_scoped th)) = []
  | _ => True
  end.

Lemma in_aremove {A} k (x : N * A) l : In x (aremove k l) -> In x l.
Proof.
  induction l as [|[k' v] l IH]; simpl; auto.
  destruct (k =? k'); simpl; intros H; auto. destruct H; auto.
Qed.

Lemma alookup_in {A} k (v : A) l : alookup k l = Some v -> In (k, v) l.
Proof.
  induction l as [|[k' v'] l IH]; simpl; [discriminate|].
  destruct (k =? k') eqn:E; intros H.
  - inversion H; subst. apply N.eqb_eq in E; subst. auto.
  - auto.
Qed.

Lemma issue_token_nonempty sp : sp_token sp <> [] -> issue_token sp <> [].
Proof. unfold issue_token. destruct (sp_token sp); simpl; [tauto|discriminate]. Qed.

Lemma new_span_spec name tk cid e :
  sp_token (fst (new_span name tk cid e)) = tk /\ e_prefix (snd (new_span name tk cid e)) = e_prefix e.
Proof. unfold new_span, next_id, now. simpl. auto. Qed.

Lemma drop_span_prefix osp e : e_prefix (snd (drop_span osp e)) = e_prefix e.
Proof. unfold drop_span. destruct osp; simpl; auto. Qed.

Lemma th_inv_bound b b' th : th_inv b th -> b <= b' -> th_inv b' th.
Proof. unfold th_inv. intros [I P] H. split; auto. eapply st_inv_bound; eauto. Qed.

Lemma th_inv_frames b th fr : th_inv b th -> th_inv b (th_set_frames th fr).
Proof. unfold th_inv; simpl; auto. Qed.

(* --- guards and collectors *)
Lemma lc_new_inv sc st b tk x :
  st_inv sc st b -> b + 1 < two64 -> tk <> Some [] ->
  (forall oep, fst (lc_new st tk) = oep ->
     kind_of x = match oep with Some ep => EReg ep | None => ENone end) ->
  st_inv (x :: sc) (snd (lc_new st tk)) (b + 1).
Proof.
  intros I Hb Htk Hk. unfold lc_new in *.
  pose proof (s_register_inv sc st b tk x I Hb Htk) as H.
  destruct (s_register st tk) as [[ep|] st'] eqn:E; cbn [fst snd] in *.
  - apply H. apply (Hk (Some ep)). reflexivity.
  - subst st'. apply st_inv_none; [apply (Hk None); reflexivity|]. eapply st_inv_bound; eauto. lia.
Qed.

Lemma lc_collect_inv dbg x rest st b oep e :
  kind_of x = match oep with Some ep => EReg ep | None => ENone end ->
  st_inv (x :: rest) st b ->
  exists r st' e', lc_collect dbg st oep e = Ok (r, st', e') /\ st_inv rest st' b /\ e_prefix e' = e_prefix e.
Proof.
  intros K I. unfold lc_collect. destruct oep as [ep|].
  - destruct (s_unregister_inv dbg x rest st b ep K I) as (r & st' & E & I').
    rewrite E. cbn [bind fst snd]. destruct r as [[spans tk]|]; eexists; eexists; eexists; (split; [reflexivity|]); split; auto.
  - eexists. eexists. eexists. split; [reflexivity|]. split; auto. eapply st_inv_none_inv; eauto.
Qed.

Lemma lc_drop_inv dbg x rest st b oep :
  kind_of x = match oep with Some ep => EReg ep | None => ENone end ->
  st_inv (x :: rest) st b ->
  exists st', lc_drop dbg st oep = Ok st' /\ st_inv rest st' b.
Proof.
  intros K I. unfold lc_drop. destruct oep as [ep|].
  - destruct (s_unregister_inv dbg x rest st b ep K I) as (r & st' & E & I').
    rewrite E. cbn [bind snd]. eauto.
  - eexists. split; [reflexivity|]. eapply st_inv_none_inv; eauto.
Qed.

Lemma set_local_inv sc st b osp g :
  st_inv sc st b -> b + 1 < two64 ->
  (forall sp, osp = Some sp -> sp_token sp <> []) ->
  st_inv (ScGuard g (fst (set_local osp st)) :: sc) (snd (set_local osp st)) (b + 1).
Proof.
  intros I Hb Htok. unfold set_local. destruct osp as [sp|]; cbn [fst snd].
  - destruct (lc_new st (Some (issue_token sp))) as [oep st'] eqn:E. cbn [fst snd].
    pose proof (lc_new_inv sc st b (Some (issue_token sp)) (ScGuard g (Some oep)) I Hb) as H.
    rewrite E in H. cbn [fst snd] in H. apply H.
    + intros Hc. inversion Hc as [Hc']. apply (issue_token_nonempty sp); auto.
    + intros oep' <-. destruct oep; reflexivity.
  - apply st_inv_none; [reflexivity|]. eapply st_inv_bound; eauto. lia.
Qed.

Lemma drop_guard_inv dbg g inner rest st b e :
  st_inv (ScGuard g inner :: rest) st b ->
  exists out st' e', drop_guard dbg inner st e = Ok (out, st', e') /\ st_inv rest st' b /\ e_prefix e' = e_prefix e.
Proof.
  intros I. unfold drop_guard. destruct inner as [oep|].
  - assert (K : kind_of (ScGuard g (Some oep)) = match oep with Some ep => EReg ep | None => ENone end)
      by (destruct oep; reflexivity).
    destruct (lc_collect_inv dbg (ScGuard g (Some oep)) rest st b oep e K I) as (r & st' & e' & E & I' & P).
    rewrite E. cbn [bind]. destruct r as [[spans endt] otk]. destruct otk; eexists; eexists; eexists; (split; [reflexivity|]); auto.
  - eexists. eexists. eexists. split; [reflexivity|]. split; auto.
Qed.

(* the current token of a well-formed stack is never empty *)
Lemma s_cur_token_nonempty sc st b : st_inv sc st b -> s_cur_token st <> Some [].
Proof.
  intros (_ & _ & _ & T). unfold s_cur_token. destruct (st_lines st) as [|l ls]; [discriminate|].
  inversion T as [|? ? Hl _]; subst. unfold l_cur_token, tok_ok in *.
  destruct (l_token l) as [tk|]; [|discriminate]. destruct tk; [tauto|]. simpl. discriminate.
Qed.

(* ---------------------------------------------------------------- tables *)
Lemma tabs_add_span s h osp :
  tabs_inv s -> (forall sp, osp = Some sp -> sp_token sp <> []) ->
  tabs_inv (s_set_spans s ((h, osp) :: s_spans s)).
Proof.
  intros [A B] H. split; simpl; auto.
  intros h0 sp [E|Hin]; [inversion E; subst; auto | eauto].
Qed.

Lemma tabs_next_collect s n : tabs_inv s -> tabs_inv (s_set_next_collect s n).
Proof. intros [A B]. split; simpl; auto. Qed.

Lemma tabs_remove_span s h : tabs_inv s -> tabs_inv (s_set_spans s (aremove h (s_spans s))).
Proof. intros [A B]. split; simpl; auto. intros h0 sp Hin. apply in_aremove in Hin. eauto. Qed.

Lemma tabs_aset_span s h sp :
  tabs_inv s -> sp_token sp <> [] -> tabs_inv (s_set_spans s (aset h (Some sp) (s_spans s))).
Proof.
  intros [A B] H. split; simpl; auto. unfold aset.
  intros h0 sp0 [E|Hin]; [inversion E; subst; auto | apply in_aremove in Hin; eauto].
Qed.

Lemma tabs_lsets s l : tabs_inv s -> tabs_inv (s_set_lsets s l).
Proof. intros [A B]. split; simpl; auto. Qed.

Lemma tabs_adnew s h a osp :
  tabs_inv s -> (forall sp, osp = Some sp -> sp_token sp <> []) ->
  tabs_inv (s_set_adapters (s_set_spans s (aremove h (s_spans s))) ((a, Some osp) :: s_adapters s)).
Proof.
  intros [A B] H. split; simpl.
  - intros h0 sp Hin. apply in_aremove in Hin. eauto.
  - intros a0 sp [E|Hin]; [inversion E; subst; auto | eauto].
Qed.

Lemma tabs_ad_none s a : tabs_inv s -> tabs_inv (s_set_adapters s (aset a None (s_adapters s))).
Proof.
  intros [A B]. split; simpl; auto. unfold aset.
  intros a0 sp [E|Hin]; [inversion E | apply in_aremove in Hin; eauto].
Qed.

Lemma tabs_ad_remove s a : tabs_inv s -> tabs_inv (s_set_adapters s (aremove a (s_adapters s))).
Proof. intros [A B]. split; simpl; auto. intros a0 sp Hin. apply in_aremove in Hin. eauto. Qed.

Lemma tabs_span_lookup s h sp : tabs_inv s -> alookup h (s_spans s) = Some (Some sp) -> sp_token sp <> [].
Proof. intros [A _] H. apply alookup_in in H. eauto. Qed.

Lemma tabs_ad_lookup s a sp : tabs_inv s -> alookup a (s_adapters s) = Some (Some (Some sp)) -> sp_token sp <> [].
Proof. intros [_ B] H. apply alookup_in in H. eauto. Qed.

(* ---------------------------------------------------------------- one call *)
Definition call_post (b : N) (th : thread) (e : env) (r : cout) : Prop :=
  match r with
  | CPanic _ => False
  | CBad _ => True
  | COk s' th' e' out res =>
      tabs_inv s' /\ th_inv (b + 1) th' /\ e_prefix e' = e_prefix e /\ th_prefix th' = th_prefix th
  end.

Ltac keep_th Hth := split; [|split; [eapply th_inv_bound; [exact Hth|lia] | split; reflexivity]].

Theorem exec_call_safe s th e c b :
  tabs_inv s -> th_inv b th -> b + 1 < two64 -> e_prefix e = th_prefix th -> strict_call th c ->
  call_post b th e (exec_call s th e c).
Proof.
  intros Ht Hth Hb He Hs. pose proof Hth as [Hst Hp].
  assert (Hpe : e_prefix e <> 0) by congruence.
  destruct c; cbv beta iota zeta delta [exec_call].
  - (* root *)
    destruct (amem h (s_spans s)); [exact I|].
    destruct (negb (s_ready s)).
    + simpl. keep_th Hth. apply tabs_add_span; auto. discriminate.
    + destruct (new_span name [mkTok trace span (if sampled then s_next_collect s else NOT_SAMPLED_COLLECT_ID) true sampled]
                         (Some (if sampled then s_next_collect s else NOT_SAMPLED_COLLECT_ID)) e) as [sp e'] eqn:En.
      pose proof (new_span_spec name [mkTok trace span (if sampled then s_next_collect s else NOT_SAMPLED_COLLECT_ID) true sampled]
                         (Some (if sampled then s_next_collect s else NOT_SAMPLED_COLLECT_ID)) e) as [T1 T2].
      rewrite En in T1, T2. cbn [fst snd] in T1, T2.
      simpl. split; [|split; [eapply th_inv_bound; [exact Hth|lia] | split; [exact T2|reflexivity]]].
      destruct sampled; apply tabs_add_span; try apply tabs_next_collect; auto;
        intros sp0 E0; inversion E0; subst; rewrite T1; discriminate.
  - (* noop *)
    destruct (amem h (s_spans s)); [exact I|].
    simpl. keep_th Hth. apply tabs_add_span; auto. discriminate.
  - (* child *)
    destruct (amem h (s_spans s)); [exact I|].
    unfold get_span. destruct (alookup p (s_spans s)) as [[psp|]|] eqn:El; [| |exact I].
    + pose proof (issue_token_nonempty psp (tabs_span_lookup _ _ _ Ht El)) as Hne.
      destruct (issue_token psp) as [|it tk] eqn:Ei; [tauto|].
      destruct (new_span name (it :: tk) None e) as [sp e'] eqn:En.
      pose proof (new_span_spec name (it :: tk) None e) as [T1 T2]. rewrite En in T1, T2. cbn [fst snd] in T1, T2.
      simpl. split; [|split; [eapply th_inv_bound; [exact Hth|lia] | split; [exact T2|reflexivity]]].
      apply tabs_add_span; auto. intros sp0 E0; inversion E0; subst; rewrite T1; discriminate.
    + simpl. keep_th Hth. apply tabs_add_span; auto. discriminate.
  - (* child of many *)
    destruct (amem h (s_spans s)); [exact I|].
    destruct (negb (forallb (fun p => amem p (s_spans s)) ps)); [exact I|].
    destruct (flat_map _ ps) as [|it tk] eqn:Ef.
    + simpl. keep_th Hth. apply tabs_add_span; auto. discriminate.
    + destruct (new_span name (it :: tk) None e) as [sp e'] eqn:En.
      pose proof (new_span_spec name (it :: tk) None e) as [T1 T2]. rewrite En in T1, T2. cbn [fst snd] in T1, T2.
      simpl. split; [|split; [eapply th_inv_bound; [exact Hth|lia] | split; [exact T2|reflexivity]]].
      apply tabs_add_span; auto. intros sp0 E0; inversion E0; subst; rewrite T1; discriminate.
  - (* child of the local parent *)
    destruct (amem h (s_spans s)); [exact I|].
    pose proof (s_cur_token_nonempty _ _ _ Hst) as Hct.
    destruct (s_cur_token (th_stack th)) as [tk|].
    + destruct (new_span name tk None e) as [sp e'] eqn:En.
      pose proof (new_span_spec name tk None e) as [T1 T2]. rewrite En in T1, T2. cbn [fst snd] in T1, T2.
      simpl. split; [|split; [eapply th_inv_bound; [exact Hth|lia] | split; [exact T2|reflexivity]]].
      apply tabs_add_span; auto. intros sp0 E0; inversion E0; subst. intros Hc; apply Hct; rewrite Hc; reflexivity.
    + simpl. keep_th Hth. apply tabs_add_span; auto. discriminate.
  - (* set local parent *)
    destruct (negb (scoped_id_free g (th_scoped th))); [exact I|].
    unfold get_span. destruct (alookup h (s_spans s)) as [osp|] eqn:El; [|exact I].
    pose proof (set_local_inv (th_scoped th) (th_stack th) b osp g Hst Hb) as Hsl.
    destruct (set_local osp (th_stack th)) as [inner st'] eqn:Es. cbn [fst snd] in Hsl.
    simpl. split; [exact Ht|]. split; [|split; reflexivity].
    split; [|exact Hp]. simpl. apply Hsl. intros sp ->. eapply tabs_span_lookup; eauto.
  - (* drop guard *)
    destruct (th_scoped th) as [|[g' inner|? ?|? ?] rest] eqn:Esc; try exact I.
    destruct (negb (g =? g')); [exact I|].
    destruct (drop_guard_inv (s_dbg s) g' inner rest (th_stack th) b e Hst) as (out & st' & e' & E & I' & P).
    rewrite E. simpl. split; [exact Ht|]. split; [|split; [exact P|reflexivity]].
    split; [|exact Hp]. simpl. eapply st_inv_bound; eauto. lia.
  - (* local span enter *)
    destruct (negb (scoped_id_free l (th_scoped th))); [exact I|].
    destruct (s_enter (th_stack th) name e) as [[[h st']|] e'] eqn:En.
    + destruct (s_enter_inv _ _ _ _ _ _ _ _ l Hst Hpe En) as [I' P].
      simpl. split; [exact Ht|]. split; [|split; [exact P|reflexivity]].
      split; [|exact Hp]. simpl. eapply st_inv_bound; eauto. lia.
    + assert (e' = e).
      { revert En. unfold s_enter. destruct (st_lines (th_stack th)) as [|l0 ls]; [intros H; inversion H; auto|].
        unfold l_start. destruct (l_sampled l0); simpl; [|intros H; inversion H; auto].
        unfold q_start. destruct (q_full (l_q l0)); simpl; intros H; inversion H; auto. }
      subst e'. simpl. split; [exact Ht|]. split; [|split; reflexivity].
      split; [|exact Hp]. simpl. apply st_inv_none; [reflexivity|]. eapply st_inv_bound; eauto. lia.
  - (* local span exit *)
    destruct (th_scoped th) as [|[? ?|l' oh|? ?] rest] eqn:Esc; try exact I.
    destruct (negb (l =? l')); [exact I|].
    destruct oh as [h|].
    + destruct (s_exit_inv (s_dbg s) rest (th_stack th) b l' h e Hst) as (st' & e' & E & I' & P).
      rewrite E. simpl. split; [exact Ht|]. split; [|split; [exact P|reflexivity]].
      split; [|exact Hp]. simpl. eapply st_inv_bound; eauto. lia.
    + simpl. split; [exact Ht|]. split; [|split; reflexivity].
      split; [|exact Hp]. simpl. eapply st_inv_bound; [|instantiate (1 := b); lia].
      eapply st_inv_none_inv; eauto. reflexivity.
  - (* with_properties on a local span: the closure frame *)
    destruct (find_local l (th_scoped th)) as [[h|]|]; [| |exact I].
    + destruct (s_is_recording (th_stack th) h); simpl; keep_th Hth; exact Ht.
    + simpl. keep_th Hth. exact Ht.
  - (* add_properties on the local parent: the closure frame *)
    destruct (s_is_current_recording (th_stack th)); simpl; keep_th Hth; exact Ht.
  - (* add_event on the local parent *)
    pose proof (s_add_event_inv _ _ _ name ps e Hst) as [I' P].
    destruct (s_add_event (th_stack th) name ps e) as [st' e']. cbn [fst snd] in *.
    simpl. split; [exact Ht|]. split; [|split; [exact P|reflexivity]].
    split; [|exact Hp]. simpl. eapply st_inv_bound; eauto. lia.
  - (* local collector start *)
    destruct (negb (scoped_id_free lc (th_scoped th))); [exact I|].
    destruct (lc_new (th_stack th) None) as [oep st'] eqn:El.
    pose proof (lc_new_inv (th_scoped th) (th_stack th) b None (ScColl lc oep) Hst Hb) as Hn.
    simpl. split; [exact Ht|]. split; [|split; reflexivity].
    split; [|exact Hp]. simpl.
    replace st' with (snd (lc_new (th_stack th) None)) by (exact (f_equal snd El)).
    apply Hn; [discriminate|].
    intros oep' E'. assert (Ho : oep' = oep) by (rewrite <- E'; exact (f_equal fst El)).
    rewrite Ho. destruct oep; reflexivity.
  - (* local collector collect: nothing opened after it is still open *)
    destruct (amem ls (s_lsets s)); [exact I|].
    simpl in Hs. destruct (split_locals (th_scoped th)) as [open_locals rest0] eqn:Esp. simpl in Hs. subst open_locals.
    assert (Hsc : th_scoped th = rest0).
    { revert Esp. destruct (th_scoped th) as [|[? ?|? ?|? ?] r]; simpl; intros H; inversion H; auto.
      destruct (split_locals r). inversion H. }
    destruct rest0 as [|[? ?|? ?|lc' oep] rest]; try exact I.
    destruct (negb (lc =? lc')); [exact I|].
    rewrite Hsc in Hst.
    assert (K : kind_of (ScColl lc' oep) = match oep with Some ep => EReg ep | None => ENone end) by (destruct oep; reflexivity).
    destruct (lc_collect_inv (s_dbg s) (ScColl lc' oep) rest (th_stack th) b oep e K Hst) as (r & st' & e' & E & I' & P).
    rewrite E. destruct r as [[spans endt] otk]. simpl.
    split; [apply tabs_lsets; exact Ht|]. split; [|split; [exact P|reflexivity]].
    split; [|exact Hp]. simpl. eapply st_inv_bound; eauto. lia.
  - (* local collector drop *)
    destruct (th_scoped th) as [|[? ?|? ?|lc' oep] rest] eqn:Esc; try exact I.
    destruct (negb (lc =? lc')); [exact I|].
    assert (K : kind_of (ScColl lc' oep) = match oep with Some ep => EReg ep | None => ENone end) by (destruct oep; reflexivity).
    destruct (lc_drop_inv (s_dbg s) (ScColl lc' oep) rest (th_stack th) b oep K Hst) as (st' & E & I').
    rewrite E. simpl. split; [exact Ht|]. split; [|split; reflexivity].
    split; [|exact Hp]. simpl. eapply st_inv_bound; eauto. lia.
  - (* push child spans *)
    unfold get_span. destruct (alookup h (s_spans s)) as [osp|]; [|exact I].
    destruct (alookup ls (s_lsets s)) as [[rs endt]|]; [|exact I].
    destruct osp as [sp|]; [destruct rs|]; simpl; keep_th Hth; exact Ht.
  - (* to_span_records *)
    destruct (alookup ls (s_lsets s)) as [[rs endt]|]; [|exact I]. simpl. keep_th Hth. exact Ht.
  - (* span with_properties: closure frame *)
    unfold get_span. destruct (alookup h (s_spans s)) as [[sp|]|]; [| |exact I]; simpl; keep_th Hth; exact Ht.
  - (* span add_properties: closure frame *)
    unfold get_span. destruct (alookup h (s_spans s)) as [[sp|]|]; [| |exact I].
    + destruct (issue_token sp) as [|it tk]; [simpl; keep_th Hth; exact Ht|].
      destruct (new_span 0 (it :: tk) None e) as [nsp e'] eqn:En.
      pose proof (new_span_spec 0 (it :: tk) None e) as [T1 T2]. rewrite En in T1, T2. cbn [fst snd] in T1, T2.
      simpl. split; [exact Ht|]. split; [eapply th_inv_bound; [exact Hth|lia] | split; [exact T2|reflexivity]].
    + simpl. keep_th Hth. exact Ht.
  - (* span add_event *)
    unfold get_span. destruct (alookup h (s_spans s)) as [[sp|]|]; [| |exact I].
    + destruct (issue_token sp) as [|it tk]; [simpl; keep_th Hth; exact Ht|].
      destruct (new_span name (it :: tk) None e) as [nsp e'] eqn:En.
      pose proof (new_span_spec name (it :: tk) None e) as [T1 T2]. rewrite En in T1, T2. cbn [fst snd] in T1, T2.
      simpl. split; [exact Ht|]. split; [eapply th_inv_bound; [exact Hth|lia] | split; [exact T2|reflexivity]].
    + simpl. keep_th Hth. exact Ht.
  - (* cancel *)
    unfold get_span. destruct (alookup h (s_spans s)) as [[sp|]|]; [| |exact I]; simpl; keep_th Hth; exact Ht.
  - (* drop span *)
    unfold get_span. destruct (alookup h (s_spans s)) as [osp|]; [|exact I].
    pose proof (drop_span_prefix osp e) as P.
    destruct (drop_span osp e) as [out e']. cbn [snd] in P.
    simpl. split; [apply tabs_remove_span; exact Ht|]. split; [eapply th_inv_bound; [exact Hth|lia] | split; [exact P|reflexivity]].
  - (* elapsed *)
    unfold get_span. destruct (alookup h (s_spans s)) as [osp|]; [|exact I]. simpl. keep_th Hth. exact Ht.
  - (* from_span *)
    unfold get_span. destruct (alookup h (s_spans s)) as [[sp|]|]; [| |exact I]; simpl; keep_th Hth; exact Ht.
  - (* current_local_parent *)
    pose proof (s_cur_token_nonempty _ _ _ Hst) as Hct.
    destruct (s_cur_token (th_stack th)) as [[|it tk]|]; [exfalso; apply Hct; reflexivity| |]; simpl; keep_th Hth; exact Ht.
  - (* a closure returns *)
    destruct (th_frames th) as [|[h ps|r tk ps|l ps|ps|a] fr] eqn:Ef; try exact I.
    + unfold get_span. destruct (alookup h (s_spans s)) as [[sp|]|] eqn:El; try exact I.
      simpl. split; [|split; [eapply th_inv_bound; [apply th_inv_frames; exact Hth|lia] | split; reflexivity]].
      apply tabs_aset_span; auto. simpl. eapply tabs_span_lookup; eauto.
    + simpl. split; [exact Ht|]. split; [eapply th_inv_bound; [apply th_inv_frames; exact Hth|lia] | split; reflexivity].
    + destruct (find_local l (th_scoped th)) as [[h|]|] eqn:Ef2; try exact I.
      destruct (s_is_recording (th_stack th) h) eqn:Er.
      * destruct (s_with_props_inv (s_dbg s) _ _ _ l h ps Hst Ef2 Er) as (st' & E & I').
        rewrite E. simpl. split; [exact Ht|]. split; [|split; reflexivity].
        split; [|exact Hp]. simpl. eapply st_inv_bound; eauto. lia.
      * simpl. split; [exact Ht|]. split; [eapply th_inv_bound; [apply th_inv_frames; exact Hth|lia] | split; reflexivity].
    + pose proof (s_add_props_inv _ _ _ ps e Hst) as [I' P].
      destruct (s_add_props (th_stack th) ps e) as [st' e']. cbn [fst snd] in *.
      simpl. split; [exact Ht|]. split; [|split; [exact P|reflexivity]].
      split; [|exact Hp]. simpl. eapply st_inv_bound; eauto. lia.
  - (* adapter new *)
    destruct (amem a (s_adapters s)); [exact I|].
    unfold get_span. destruct (alookup h (s_spans s)) as [osp|] eqn:El; [|exact I].
    simpl. keep_th Hth. apply tabs_adnew; auto. intros sp ->. eapply tabs_span_lookup; eauto.
  - (* poll begin *)
    destruct (negb (scoped_id_free g (th_scoped th))); [exact I|].
    destruct (alookup a (s_adapters s)) as [held|] eqn:El; [|exact I].
    destruct held as [osp|].
    + pose proof (set_local_inv (th_scoped th) (th_stack th) b osp g Hst Hb) as Hsl.
      destruct (set_local osp (th_stack th)) as [inner st'] eqn:Es. cbn [fst snd] in Hsl.
      simpl. split; [exact Ht|]. split; [|split; reflexivity].
      split; [|exact Hp]. simpl. apply Hsl. intros sp ->. eapply tabs_ad_lookup; eauto.
    + simpl. split; [exact Ht|]. split; [|split; reflexivity].
      split; [|exact Hp]. simpl. apply st_inv_none; [reflexivity|]. eapply st_inv_bound; eauto. lia.
  - (* poll end *)
    destruct (th_frames th) as [|[? ?|? ? ?|? ?|?|a'] fr] eqn:Ef; try exact I.
    destruct (th_scoped th) as [|[g' inner|? ?|? ?] rest] eqn:Esc; try exact I.
    destruct (alookup a (s_adapters s)) as [held|] eqn:El; [|exact I].
    destruct (negb (a =? a')); [exact I|].
    destruct (drop_guard_inv (s_dbg s) g' inner rest (th_stack th) b e Hst) as (out & st' & e' & E & I' & P).
    rewrite E.
    assert (Hth' : th_inv (b + 1) (th_set_frames (th_set_scoped (th_set_stack th st') rest) fr)).
    { split; [|exact Hp]. simpl. eapply st_inv_bound; eauto. lia. }
    destruct held as [osp|]; [destruct (takes m r)|].
    + pose proof (drop_span_prefix osp e') as P2.
      destruct (drop_span osp e') as [out2 e2]. cbn [snd] in P2.
      simpl. split; [apply tabs_ad_none; exact Ht|]. split; [exact Hth'|]. split; [congruence|reflexivity].
    + simpl. split; [exact Ht|]. split; [exact Hth'|]. split; [exact P|reflexivity].
    + simpl. split; [exact Ht|]. split; [exact Hth'|]. split; [exact P|reflexivity].
  - (* adapter drop *)
    destruct (alookup a (s_adapters s)) as [held|] eqn:El; [|exact I].
    destruct held as [osp|].
    + pose proof (drop_span_prefix osp e) as P.
      destruct (drop_span osp e) as [out e']. cbn [snd] in P.
      simpl. split; [apply tabs_ad_remove; exact Ht|]. split; [eapply th_inv_bound; [exact Hth|lia] | split; [exact P|reflexivity]].
    + simpl. keep_th Hth. apply tabs_ad_remove; exact Ht.
Qed.

(* ---------------------------------------------------------------- the whole system *)
Definition sys_inv (s : sys) : Prop :=
  tabs_inv s /\ forall t th, In (t, th) (s_threads s) -> th_inv (s_nstep s) th.

(* what the property's precondition and the K3 boundary ask of one scheduled action *)
Definition action_ok (s : sys) (a : action) : Prop :=
  s_nstep s + 2 < two64 /\
  match a with
  | ASpawn _ prefix _ => prefix <> 0
  | ACall t c => forall th, get_thread s t = Some th -> strict_call th c
  | _ => True
  end.

Lemma exec_call_frame s th e c s1 th1 e1 out r :
  exec_call s th e c = COk s1 th1 e1 out r ->
  s_threads s1 = s_threads s /\ s_nstep s1 = s_nstep s.
Proof.
  intros Ex. unfold exec_call in Ex.
  destruct c; cbv beta iota zeta in Ex;
    repeat match type of Ex with
           | context [match ?x with _ => _ end] => destruct x eqn:?; try discriminate
           | context [if ?x then _ else _] => destruct x eqn:?; try discriminate
           end; inversion Ex; subst; simpl; auto.
Qed.

Lemma in_aupdate {A} t (f : A -> A) k v (l : list (N * A)) :
  In (k, v) (aupdate t f l) -> In (k, v) l \/ (k = t /\ exists v0, In (t, v0) l /\ v = f v0).
Proof.
  induction l as [|[k' v'] l IH]; simpl; [tauto|].
  destruct (t =? k') eqn:E.
  - apply N.eqb_eq in E; subst k'. intros [H|H].
    + inversion H; subst. right. split; auto. exists v'. auto.
    + auto.
  - simpl. intros [H|H]; auto. apply IH in H. destruct H as [H|[Hk (v0 & Hin & Hv)]]; auto.
    right. split; auto. exists v0. auto.
Qed.

Lemma sys_inv_threads s s' :
  sys_inv s -> tabs_inv s' -> s_nstep s <= s_nstep s' ->
  (forall t th, In (t, th) (s_threads s') ->
     In (t, th) (s_threads s) \/ th_inv (s_nstep s') th) ->
  sys_inv s'.
Proof.
  intros [Ht Hth] Ht' Hn H. split; auto.
  intros t th Hin. destruct (H t th Hin) as [Hold|Hnew]; auto.
  eapply th_inv_bound; [exact (Hth _ _ Hold) | exact Hn].
Qed.

(* replacing thread t by a thread with the same stack, held objects and prefix *)
Lemma put_thread_same s t th th' :
  sys_inv s -> get_thread s t = Some th ->
  th_stack th' = th_stack th -> th_scoped th' = th_scoped th -> th_prefix th' = th_prefix th ->
  sys_inv (put_thread s t th').
Proof.
  intros Hi Hg E1 E2 E3. eapply sys_inv_threads; eauto.
  - destruct Hi as [[A B] _]. split; simpl; auto.
  - simpl. lia.
  - simpl. intros t0 th0 Hin. apply in_aupdate in Hin. destruct Hin as [Hin|[-> (v0 & Hin & ->)]]; auto.
    right. destruct Hi as [_ Hth]. unfold get_thread in Hg. apply alookup_in in Hg.
    pose proof (Hth _ _ Hg) as [I P]. unfold th_inv. rewrite E1, E2, E3. split; auto.
Qed.

Lemma tick_inv s : sys_inv s -> sys_inv (s_tick s).
Proof.
  intros Hi. eapply sys_inv_threads; eauto.
  - destruct Hi as [[A B] _]. split; simpl; auto.
  - simpl. lia.
Qed.

Lemma set_collector_inv s reg pc b am : sys_inv s -> sys_inv (s_set_collector s reg pc b am).
Proof.
  intros Hi. eapply sys_inv_threads; eauto.
  - destruct Hi as [[A B] _]. split; simpl; auto.
  - simpl. lia.
Qed.

Theorem step_no_panic s a :
  sys_inv s -> action_ok (s_tick s) a ->
  sys_inv (fst (step s a)) /\ forall site, snd (step s a) <> OPanic site.
Proof.
  intros Hi0 [Hn Ha]. pose proof (tick_inv s Hi0) as Hi.
  unfold step. destruct a; cbv beta iota zeta.
  - (* install *)
    destruct (s_pc (s_tick s)); simpl; (split; [|discriminate]); auto.
  - (* spawn *)
    destruct (amem t (s_threads (s_tick s)) || in_drain (s_pc (s_tick s))); simpl; (split; [|discriminate]); auto.
    eapply sys_inv_threads; eauto.
    + destruct Hi as [[A B] _]; split; simpl; auto.
    + simpl; lia.
    + simpl. intros t0 th0 Hin. apply in_app_iff in Hin. destruct Hin as [Hin|[Heq|[]]]; auto.
      right. inversion Heq; subst. split; [|exact Ha]. unfold st_inv, st_new; simpl. repeat split; auto. lia.
  - (* call *)
    destruct (get_thread (s_tick s) t) as [th|] eqn:Eg; [|simpl; split; [auto|discriminate]].
    destruct (th_outbox th); [|simpl; split; [auto|discriminate]].
    destruct (ch_dropping (th_chan th)); [simpl; split; [auto|discriminate]|].
    set (e := mkEnv (th_prefix th) (th_suffix th) (clock_of_step (s_nstep (s_tick s)))).
    destruct Hi as [Ht Hth].
    assert (Hin : In (t, th) (s_threads (s_tick s))) by (unfold get_thread in Eg; apply alookup_in; exact Eg).
    pose proof (proj2 Hi0 _ _ Hin) as Hthi.
    assert (Hbb : s_nstep s + 1 < two64) by (simpl in Hn; lia).
    pose proof (exec_call_safe (s_tick s) th e c (s_nstep s) Ht Hthi Hbb eq_refl (Ha th eq_refl)) as Hsafe.
    destruct (exec_call (s_tick s) th e c) as [s1 th1 e1 out r|code|site] eqn:Ex; simpl in Hsafe.
    + destruct Hsafe as (T1 & I1 & P1 & Q1).
      destruct (exec_call_frame _ _ _ _ _ _ _ _ _ Ex) as [F1 F2].
      simpl. split; [|discriminate].
      split.
      * destruct T1 as [A B]. split; simpl; auto.
      * simpl. intros t0 th0 Hin0. apply in_aupdate in Hin0. rewrite F1 in Hin0. rewrite F2.
        destruct Hin0 as [Hin0|[-> (v0 & Hin0 & ->)]].
        -- eapply th_inv_bound; [exact (Hth _ _ Hin0)|lia].
        -- destruct I1 as [I1 P1']. split; simpl; auto.
    + simpl. split; [split; auto|discriminate].
    + contradiction.
  - (* push *)
    destruct (get_thread (s_tick s) t) as [th|] eqn:Eg; [|simpl; split; [auto|discriminate]].
    destruct (ch_dropping (th_chan th)).
    + destruct (ch_abandoned (th_chan th)); simpl; (split; [|discriminate]); auto.
      eapply put_thread_same; eauto.
    + destruct (th_outbox th) as [|[f cmd] rest]; [simpl; split; [auto|discriminate]|].
      destruct (push_step (th_chan th) f cmd) as [ch' fin]. simpl. split; [|discriminate].
      eapply put_thread_same; eauto.
  - (* exit *)
    destruct (get_thread (s_tick s) t) as [th|] eqn:Eg; [|simpl; split; [auto|discriminate]].
    destruct (th_outbox th), (th_scoped th) eqn:Esc, (th_frames th); try (simpl; split; [auto|discriminate]).
    destruct (ch_dropping (th_chan th)); simpl; (split; [|discriminate]); auto.
    eapply put_thread_same; eauto.
  - (* cycle begin *)
    destruct (s_pc (s_tick s)), (s_installed (s_tick s)); try (simpl; split; [auto|discriminate]).
    destruct (s_registry (s_tick s)); simpl; (split; [|discriminate]); apply set_collector_inv; auto.
  - (* pop *)
    destruct (s_pc (s_tick s)); try (simpl; split; [auto|discriminate]).
    destruct (get_thread (s_tick s) cur) as [th|] eqn:Eg; [|simpl; split; [auto|discriminate]].
    destruct (pop_step (th_chan th)) as [[c|] ch']; simpl; (split; [|discriminate]).
    + apply set_collector_inv. eapply put_thread_same; eauto.
    + apply set_collector_inv; auto.
  - (* check *)
    destruct (s_pc (s_tick s)); try (simpl; split; [auto|discriminate]).
    destruct (get_thread (s_tick s) cur) as [th|] eqn:Eg; [|simpl; split; [auto|discriminate]].
    destruct (ch_abandoned (th_chan th)).
    + destruct (pop_step (th_chan th)) as [[c|] ch'].
      * simpl. split; [|discriminate]. apply set_collector_inv. eapply put_thread_same; eauto.
      * destruct (advance todo kept) as [pc [reg|]]; simpl; (split; [|discriminate]); apply set_collector_inv; auto.
    + destruct (advance todo (kept ++ [cur])) as [pc [reg|]]; simpl; (split; [|discriminate]); apply set_collector_inv; auto.
  - (* process *)
    destruct (s_pc (s_tick s)); try (simpl; split; [auto|discriminate]).
    destruct (process _ _ _ _) as [am recs]. simpl. split; [|discriminate]. apply set_collector_inv; auto.
Qed.

Fixpoint run_ok (s : sys) (h : list action) : Prop :=
  match h with
  | [] => True
  | a :: h' => action_ok (s_tick s) a /\ run_ok (fst (step s a)) h'
  end.

Theorem run_no_panic h : forall s,
  sys_inv s -> run_ok s h ->
  Forall (fun o => forall site, o <> OPanic site) (snd (run s h)) /\ sys_inv (fst (run s h)).
Proof.
  induction h as [|a h IH]; intros s Hi Hr; simpl.
  - split; [constructor | exact Hi].
  - destruct Hr as [Ha Hr]. destruct (step_no_panic s a Hi Ha) as [Hi1 Hno].
    destruct (step s a) as [s1 o] eqn:Es. cbn [fst snd] in *.
    destruct (IH s1 Hi1 Hr) as [F I2]. destruct (run s1 h) as [s2 os]. cbn [fst snd] in *.
    split; [constructor; auto | exact I2].
Qed.

Lemma sys_init_inv dbg ringcap stackcap qcap : sys_inv (sys_init dbg ringcap stackcap qcap).
Proof. unfold sys_inv, sys_init, tabs_inv; simpl. repeat split; intros; contradiction. Qed.

(* C07: no history whose actions respect the precondition ever shows a panic *)
Theorem no_panic_from_init dbg ringcap stackcap qcap h :
  run_ok (sys_init dbg ringcap stackcap qcap) h ->
  Forall (fun o => forall site, o <> OPanic site) (snd (run (sys_init dbg ringcap stackcap qcap) h)).
Proof. intros Hr. apply (run_no_panic h _ (sys_init_inv _ _ _ _) Hr). Qed.

(* a computable version of the hypothesis, for checking concrete histories *)
Definition strict_callb (th : thread) (c : call) : bool :=
  match c with
  | KLcCollect _ _ => match fst (split_locals (th_scoped th)) with [] => true | _ => false end
  | _ => true
  end.

Definition action_okb (s : sys) (a : action) : bool :=
  (s_nstep s + 2 <? two64) &&
  match a with
  | ASpawn _ prefix _ => negb (prefix =? 0)
  | ACall t c => match get_thread s t with Some th => strict_callb th c | None => true end
  | _ => true
  end.

Fixpoint run_okb (s : sys) (h : list action) : bool :=
  match h with
  | [] => true
  | a :: h' => action_okb (s_tick s) a && run_okb (fst (step s a)) h'
  end.

Lemma action_okb_sound s a : action_okb s a = true -> action_ok s a.
Proof.
  unfold action_okb, action_ok. intros H. apply andb_true_iff in H. destruct H as [H1 H2].
  apply N.ltb_lt in H1. split; auto.
  destruct a; auto.
  - apply negb_true_iff in H2. apply N.eqb_neq in H2. exact H2.
  - intros th Hg. rewrite Hg in H2. unfold strict_callb in H2. unfold strict_call.
    destruct c; auto. destruct (fst (split_locals (th_scoped th))); [reflexivity|discriminate].
Qed.

Lemma run_okb_sound h : forall s, run_okb s h = true -> run_ok s h.
Proof.
  induction h as [|a h IH]; intros s; simpl; auto.
  intros H. apply andb_true_iff in H. destruct H as [H1 H2]. split; [apply action_okb_sound; exact H1 | apply IH; exact H2].
Qed.
