(* SpanId::next_id (Model/Local.v): per-thread prefix, 32-bit counter with wrap-around.
   Distinct and non-zero for the first 2^32 - 1 ids of a thread with a non-zero prefix,
   distinct across threads with different prefixes; the unbounded claim is false (K3). *)
From Coq Require Import List Arith NArith Bool Lia ZArith.
From FT Require Import Model.Base Model.Local.
Import ListNotations.
Open Scope N_scope.

(* the k-th id drawn from generator state e (k >= 1) *)
Definition nth_id (e : env) (k : N) : N := e_prefix e * two32 + (e_suffix e + k) mod two32.

Fixpoint draw (n : nat) (e : env) : list N * env :=
  match n with
  | O => ([], e)
  | S n' => let (id, e1) := next_id e in
            let (ids, e2) := draw n' e1 in (id :: ids, e2)
  end.

Lemma two32_pos : 0 < two32.
Proof. reflexivity. Qed.

Lemma next_id_spec e : e_suffix e < two32 ->
  fst (next_id e) = nth_id e 1 /\ e_prefix (snd (next_id e)) = e_prefix e /\
  e_suffix (snd (next_id e)) = (e_suffix e + 1) mod two32 /\ e_suffix (snd (next_id e)) < two32.
Proof.
  intros H. unfold next_id, nth_id; simpl. repeat split; auto.
  apply N.mod_upper_bound. discriminate.
Qed.

Lemma nth_id_shift e k :
  nth_id (snd (next_id e)) k = nth_id e (k + 1).
Proof.
  unfold nth_id, next_id; simpl.
  f_equal. rewrite N.add_mod_idemp_l by discriminate. f_equal. lia.
Qed.

Lemma draw_spec n : forall e, e_suffix e < two32 ->
  fst (draw n e) = map (fun k => nth_id e (N.of_nat k)) (seq 1 n).
Proof.
  induction n as [|n IH]; intros e He; [reflexivity|]. cbn [draw].
  destruct (next_id_spec e He) as (H1 & H2 & H3 & H4).
  destruct (next_id e) as [id e1] eqn:En. simpl in *.
  specialize (IH e1 H4). destruct (draw n e1) as [ids e2]. simpl in IH. cbn [fst].
  subst id. rewrite IH. cbn [map]. f_equal.
  rewrite <- (seq_shift n 1), map_map. apply map_ext. intros k.
  replace e1 with (snd (next_id e)) by (rewrite En; reflexivity).
  rewrite nth_id_shift. f_equal. lia.
Qed.

(* two different positions below 2^32 give different ids *)
Lemma nth_id_inj e i j :
  0 < i -> i < j -> j < i + two32 -> nth_id e i <> nth_id e j.
Proof.
  unfold nth_id, two32. intros Hi Hij Hj Heq.
  set (s := e_suffix e) in *. set (p := e_prefix e) in *.
  assert (Hm : (s + i) mod 4294967296 = (s + j) mod 4294967296) by lia.
  clear Heq.
  pose proof (N.div_mod (s + i) 4294967296 ltac:(discriminate)) as Ha.
  pose proof (N.div_mod (s + j) 4294967296 ltac:(discriminate)) as Hb.
  pose proof (N.mod_upper_bound (s + i) 4294967296 ltac:(discriminate)) as Hc.
  rewrite <- Hm in Hb.
  set (q1 := (s + i) / 4294967296) in *. set (q2 := (s + j) / 4294967296) in *.
  set (r := (s + i) mod 4294967296) in *.
  lia.
Qed.

Lemma NoDup_map_inj_in {A B} (f : A -> B) l :
  (forall x y, In x l -> In y l -> f x = f y -> x = y) -> NoDup l -> NoDup (map f l).
Proof.
  induction l as [|a l IH]; intros Hinj Hnd; simpl; [constructor|].
  inversion Hnd; subst. constructor.
  - intros Hin. apply in_map_iff in Hin. destruct Hin as [x [Hfx Hx]].
    assert (x = a) by (apply Hinj; simpl; auto). subst. contradiction.
  - apply IH; auto. intros x y Hx Hy. apply Hinj; simpl; auto.
Qed.

(* C02: the first n < 2^32 ids drawn by a thread are pairwise distinct *)
Theorem ids_distinct n e :
  e_suffix e < two32 -> N.of_nat n < two32 -> NoDup (fst (draw n e)).
Proof.
  intros He Hn. rewrite draw_spec by auto.
  apply NoDup_map_inj_in; [|apply seq_NoDup].
  intros x y Hx Hy Heq. apply in_seq in Hx. apply in_seq in Hy.
  destruct (Nat.lt_trichotomy x y) as [Hlt|[Heq'|Hgt]]; auto; exfalso.
  - apply (nth_id_inj e (N.of_nat x) (N.of_nat y)); auto; lia.
  - apply (nth_id_inj e (N.of_nat y) (N.of_nat x)); auto; lia.
Qed.

(* with a non-zero prefix every id is non-zero *)
Theorem ids_nonzero e k : e_prefix e <> 0 -> nth_id e k <> 0.
Proof.
  unfold nth_id. intros H.
  assert (0 < e_prefix e * two32) by (apply N.mul_pos_pos; [lia | reflexivity]).
  generalize dependent ((e_suffix e + k) mod two32). intros m. lia.
Qed.

(* ids of threads with different prefixes differ *)
Theorem ids_differ_across_threads e1 e2 i j :
  e_prefix e1 <> e_prefix e2 -> nth_id e1 i <> nth_id e2 j.
Proof.
  unfold nth_id. intros Hp Heq.
  pose proof (N.mod_upper_bound (e_suffix e1 + i) two32 ltac:(discriminate)).
  pose proof (N.mod_upper_bound (e_suffix e2 + j) two32 ltac:(discriminate)).
  assert (e_prefix e1 = e_prefix e2); [|contradiction].
  assert (Hd : forall p r, r < two32 -> (p * two32 + r) / two32 = p).
  { intros p r Hr. rewrite N.add_comm.
    rewrite N.div_add by discriminate. rewrite N.div_small by auto. lia. }
  rewrite <- (Hd (e_prefix e1) _ H), <- (Hd (e_prefix e2) _ H0). rewrite Heq. reflexivity.
Qed.

(* K3: the counter wraps -- id number k + 2^32 of a thread equals its id number k, and with
   prefix 0 an id is 0 *)
Theorem ids_wrap_refuted e k : nth_id e (k + two32) = nth_id e k.
Proof.
  unfold nth_id. f_equal. rewrite N.add_assoc.
  replace (e_suffix e + k + two32) with (e_suffix e + k + 1 * two32) by lia.
  apply N.mod_add. discriminate.
Qed.

Theorem id_zero_with_prefix_zero s : s < two32 -> nth_id (mkEnv 0 s 0) (two32 - s) = 0.
Proof.
  intros Hs. unfold nth_id; cbn [e_prefix e_suffix].
  replace (s + (two32 - s)) with two32 by lia. rewrite N.mod_same by discriminate. reflexivity.
Qed.
