(* C01, end to end at the collector's side: the drain theorem and the exactly-once theorem of
   the report composed over the scheduler.  A SubmitSpans command that is in the ring of a
   registered thread when a cycle begins is, at that cycle's process step, turned into one
   record per span per token item -- and the report of that step contains nothing but the
   spans of the batch (as a multiset). *)
From Coq Require Import List Arith NArith Bool Lia Permutation.
From FT Require Import Model.Base Model.Local Model.Records Model.Spsc Model.Collector Model.System.
From FT Require Import Proofs.ApiProofs Proofs.SpscProofs Proofs.DeliveryProofs Proofs.SystemDeliveryProofs Proofs.DrainProofs.
Import ListNotations.
Open Scope N_scope.

Lemma run_app s h1 h2 :
  fst (run s (h1 ++ h2)) = fst (run (fst (run s h1)) h2).
Proof.
  revert s. induction h1 as [|a h1 IH]; intros s; [reflexivity|].
  cbn [app run]. destruct (step s a) as [s1 o]. specialize (IH s1).
  destruct (run s1 (h1 ++ h2)) as [s2 os]. destruct (run s1 h1) as [s3 os3]. cbn [fst] in *. exact IH.
Qed.

Lemma submitted_colls_in sp tk it l :
  In (sp, tk) l -> In it tk -> In (mkColl sp (ti_trace it) (ti_parent it)) (submitted_colls l).
Proof.
  intros H1 H2. unfold submitted_colls. apply in_flat_map. exists (sp, tk). split; [exact H1|].
  cbn [fst snd]. apply in_map_iff. exists it. split; [reflexivity|exact H2].
Qed.

Lemma flat_map_incl {A B} (f : A -> list B) x l : In x l -> incl (f x) (flat_map f l).
Proof. intros H y Hy. apply in_flat_map. exists x. split; assumption. Qed.

(* the process step of a drained cycle always reports *)
Lemma process_reports s :
  s_pc s = PDrained -> exists recs st n, snd (step s ACProcess) = OReport recs st n.
Proof.
  intros H. unfold step. cbv beta iota zeta.
  change (s_pc (s_tick s)) with (s_pc s). rewrite H.
  destruct (process (anchor_conv (s_nstep (s_tick s))) (s_cancelable (s_tick s)) (s_active (s_tick s)) (s_batch (s_tick s))) as [am recs].
  cbn [snd]. eauto.
Qed.

Theorem pushed_before_cycle_is_reported dbg ringcap stackcap qcap h0 h :
  let s0 := fst (run (sys_init dbg ringcap stackcap qcap) h0) in
  let s1 := fst (run s0 (ACBegin :: h)) in
  s_pc s0 = PIdle -> s_installed s0 = true -> no_process h ->
  s_pc s1 = PDrained -> s_cancelable s1 = false ->
  exists recs st n,
    snd (step s1 ACProcess) = OReport recs st n /\
    Permutation (map core3 recs) (flat_map coll_cores (submitted_colls (b_submit (s_batch s1)))) /\
    forall t sp tk it, In (t, CSubmit sp tk) (ring_commands s0) -> In it tk ->
      incl (coll_cores (mkColl sp (ti_trace it) (ti_parent it))) (map core3 recs).
Proof.
  intros s0 s1 Hpc Hin Hn Hend Hc.
  destruct (process_reports s1 Hend) as (recs & st & n & Hr).
  exists recs, st, n. split; [exact Hr|].
  assert (P : Permutation (map core3 recs) (flat_map coll_cores (submitted_colls (b_submit (s_batch s1))))).
  { assert (E : s1 = fst (run (sys_init dbg ringcap stackcap qcap) (h0 ++ ACBegin :: h))).
    { unfold s1, s0. rewrite run_app. reflexivity. }
    rewrite E in Hc, Hr |- *.
    exact (reachable_default_report_exact dbg ringcap stackcap qcap (h0 ++ ACBegin :: h) recs st n Hc Hr). }
  split; [exact P|].
  intros t sp tk it Hring Hit x Hx.
  pose proof (reachable_cycle_drains_every_ring dbg ringcap stackcap qcap h0 h Hpc Hin Hn Hend t (CSubmit sp tk) Hring) as Hb.
  cbn [in_batch] in Hb.
  apply (Permutation_in x (Permutation_sym P)).
  apply (flat_map_incl coll_cores (mkColl sp (ti_trace it) (ti_parent it))); [|exact Hx].
  apply (submitted_colls_in sp tk it); assumption.
Qed.

(* ================================================================ persistence *)
(* A command that has landed in a ring stays there until a drain pops it into the batch, and
   stays in the batch until the process step; the thread that owns the ring stays in the
   collector's view (registry, or the drain's own lists) as long as the ring is not empty. *)
Definition ring_of (s : sys) (t : N) : list command :=
  match get_thread s t with Some th => ch_ring (th_chan th) | None => [] end.

Definition view (s : sys) : list N :=
  match s_pc s with
  | PDrain todo kept cur | PEmpty todo kept cur => kept ++ cur :: todo
  | _ => s_registry s
  end.

Definition tracked (s : sys) : Prop :=
  (s_pc s <> PIdle -> s_installed s = true) /\
  (s_pc s = PIdle -> s_batch s = batch_empty) /\
  forall t th, get_thread s t = Some th ->
    (ch_abandoned (th_chan th) = true -> ch_dropping (th_chan th) = true) /\
    (In t (view s) \/ (ch_ring (th_chan th) = [] /\ ch_abandoned (th_chan th) = true)).

Lemma alookup_snoc_other {A} t t' (v : A) l : t' <> t -> alookup t' (l ++ [(t, v)]) = alookup t' l.
Proof.
  intros Hne. induction l as [|[k x] l IH]; simpl.
  - destruct (N.eqb_spec t' t); [contradiction|reflexivity].
  - destruct (t' =? k); [reflexivity|exact IH].
Qed.

Lemma alookup_snoc_same {A} t (v : A) l : alookup t l = None -> alookup t (l ++ [(t, v)]) = Some v.
Proof.
  induction l as [|[k x] l IH]; simpl; intros H.
  - rewrite N.eqb_refl. reflexivity.
  - destruct (t =? k); [discriminate|auto].
Qed.

Lemma amem_false_lookup {A} t (l : list (N * A)) : amem t l = false -> alookup t l = None.
Proof. unfold amem. destruct (alookup t l); [discriminate|reflexivity]. Qed.

(* a step that changes one thread's channel and nothing the collector sees *)
Lemma tracked_put s t th th' :
  tracked s -> get_thread s t = Some th ->
  (ch_abandoned (th_chan th') = true -> ch_dropping (th_chan th') = true) ->
  (ch_abandoned (th_chan th) = true -> ch_ring (th_chan th') = [] /\ ch_abandoned (th_chan th') = true) ->
  tracked (put_thread s t th').
Proof.
  intros (A & B & C) Hg Hf Hk. split; [exact A|split; [exact B|]].
  intros t0 th0 H0. rewrite get_put_thread in H0.
  change (view (put_thread s t th')) with (view s).
  destruct (N.eqb_spec t0 t) as [->|Hne].
  - rewrite Hg in H0. simpl in H0. inversion H0; subst th0. split; [exact Hf|].
    destruct (C t th Hg) as [_ [Hv|[_ Hab]]]; [left; exact Hv|right; apply Hk; exact Hab].
  - apply C. exact H0.
Qed.

Lemma view_advance s todo kept pc oreg :
  advance todo kept = (pc, oreg) ->
  view (s_set_collector s (match oreg with Some reg => reg | None => s_registry s end) pc (s_batch s) (s_active s))
  = kept ++ todo.
Proof.
  unfold advance. destruct todo as [|n todo']; intros E; inversion E; subst; unfold view; simpl.
  - rewrite app_nil_r. reflexivity.
  - reflexivity.
Qed.

Theorem step_tracked s a : tracked s -> tracked (fst (step s a)).
Proof.
  intros Hi.
  assert (Ht : tracked (s_tick s)) by exact Hi.
  unfold step. destruct a; cbv beta iota zeta.
  - (* install *)
    destruct (s_pc (s_tick s)) eqn:Epc; cbn [fst]; auto.
    destruct Ht as (A & B & C). split; [intros _; reflexivity|split; [intros _; reflexivity|]].
    intros t th Hg. specialize (C t th Hg). unfold view in C |- *. rewrite Epc in C. exact C.
  - (* spawn *)
    destruct (amem t (s_threads (s_tick s)) || in_drain (s_pc (s_tick s))) eqn:Eb; cbn [fst]; auto.
    apply orb_false_iff in Eb. destruct Eb as [Em Ed]. apply amem_false_lookup in Em.
    destruct Ht as (A & B & C). split; [exact A|split; [exact B|]].
    intros t0 th0 H0. unfold get_thread in H0. cbn [s_threads s_set_collector s_set_threads] in H0.
    assert (Hv : forall x, In x (view (s_tick s)) \/ x = t ->
                 In x (view (s_set_collector (s_set_threads (s_tick s) (s_threads (s_tick s) ++ [(t, mkThread (st_new (s_stackcap (s_tick s)) (s_qcap (s_tick s))) [] [] prefix suffix (ch_new (s_ringcap (s_tick s))) [])]))
                       (s_registry (s_tick s) ++ [t]) (s_pc (s_tick s)) (s_batch (s_tick s)) (s_active (s_tick s))))).
    { intros x Hx. unfold view in *. cbn [s_pc s_registry s_set_collector].
      destruct (s_pc (s_tick s)); simpl in Ed; try discriminate; apply in_app_iff;
        (destruct Hx as [Hx| ->]; [left; exact Hx|right; left; reflexivity]). }
    destruct (N.eq_dec t0 t) as [->|Hne].
    + rewrite (alookup_snoc_same _ _ _ Em) in H0. inversion H0; subst th0. simpl.
      split; [discriminate|]. left. apply Hv. right. reflexivity.
    + rewrite (alookup_snoc_other _ _ _ _ Hne) in H0.
      destruct (C t0 th0 H0) as [F [V|R]]; split; auto.
  - (* call *)
    destruct (get_thread (s_tick s) t) as [th|] eqn:Eg; [|cbn [fst]; auto].
    destruct (th_outbox th); [|cbn [fst]; auto].
    destruct (ch_dropping (th_chan th)) eqn:Ed; [cbn [fst]; auto|].
    destruct (exec_call (s_tick s) th _ c) as [s1 th1 e1 out r|code|site] eqn:Ex; [|cbn [fst]; auto..].
    destruct (exec_call_chan _ _ _ _ _ _ _ _ _ Ex) as (Hch & Hth & Hpc & Hb & Hreg).
    cbn [fst].
    assert (H1 : tracked s1).
    { destruct Ht as (A & B & C). unfold tracked, view, get_thread.
      replace (s_installed s1) with (s_installed (s_tick s)).
      2:{ clear -Ex. unfold exec_call in Ex.
          destruct c; cbv beta iota zeta in Ex;
            repeat match type of Ex with
                   | context [match ?x with _ => _ end] => destruct x eqn:?; try discriminate
                   | context [if ?x then _ else _] => destruct x eqn:?; try discriminate
                   end; inversion Ex; subst; reflexivity. }
      rewrite Hpc, Hb, Hreg, Hth. exact (conj A (conj B C)). }
    apply tracked_put with (th := th).
    + exact H1.
    + unfold get_thread. rewrite Hth. exact Eg.
    + simpl. rewrite Hch. destruct Ht as (_ & _ & C). apply (C t th Eg).
    + simpl. rewrite Hch. intros Hab. destruct Ht as (_ & _ & C). destruct (C t th Eg) as [F _].
      rewrite (F Hab) in Ed. discriminate.
  - (* push *)
    destruct (get_thread (s_tick s) t) as [th|] eqn:Eg; [|cbn [fst]; auto].
    destruct (ch_dropping (th_chan th)) eqn:Ed.
    + destruct (ch_abandoned (th_chan th)) eqn:Ea; cbn [fst]; auto.
      apply tracked_put with (th := th); [exact Ht|exact Eg| |].
      * simpl. intros _. unfold drop_step. destruct (ch_pending (th_chan th)); [|destruct (ch_room (th_chan th))]; reflexivity.
      * intros Hab. rewrite Hab in Ea. discriminate.
    + destruct (th_outbox th) as [|[f cmd] rest]; [cbn [fst]; auto|].
      destruct (push_step (th_chan th) f cmd) as [ch' fin] eqn:Ep. cbn [fst].
      assert (Hfl : ch_dropping ch' = ch_dropping (th_chan th) /\ ch_abandoned ch' = ch_abandoned (th_chan th)).
      { unfold push_step in Ep. destruct (ch_pending (th_chan th)); destruct (ch_room (th_chan th)); try destruct f;
          inversion Ep; subst; simpl; auto. }
      destruct Hfl as [Hd Ha].
      destruct Ht as (A & B & C). destruct (C t th Eg) as [F _].
      assert (Hna : ch_abandoned (th_chan th) = false).
      { destruct (ch_abandoned (th_chan th)) eqn:Eab; [|reflexivity]. rewrite (F eq_refl) in Ed. discriminate. }
      apply tracked_put with (th := th); [exact (conj A (conj B C))|exact Eg| |].
      * simpl. rewrite Ha, Hna. discriminate.
      * rewrite Hna. discriminate.
  - (* exit *)
    destruct (get_thread (s_tick s) t) as [th|] eqn:Eg; [|cbn [fst]; auto].
    destruct (th_outbox th), (th_scoped th), (th_frames th); try (cbn [fst]; auto; fail).
    destruct (ch_dropping (th_chan th)) eqn:Ed; cbn [fst]; auto.
    apply tracked_put with (th := th); [exact Ht|exact Eg| |].
    + simpl. discriminate.
    + intros Hab. destruct Ht as (_ & _ & C). destruct (C t th Eg) as [F _]. rewrite (F Hab) in Ed. discriminate.
  - (* cycle begin *)
    destruct Ht as (A & B & C).
    destruct (s_pc (s_tick s)) eqn:Epc; try (cbn [fst]; exact Hi).
    destruct (s_installed (s_tick s)) eqn:Ei; try (cbn [fst]; exact Hi).
    destruct (s_registry (s_tick s)) as [|t todo] eqn:Er; cbn [fst].
    + split; [intros _; exact Ei|split; [simpl; discriminate|]].
      intros t0 th0 H0. specialize (C t0 th0 H0). unfold view in C |- *. rewrite Epc, Er in C. simpl. exact C.
    + split; [intros _; exact Ei|split; [simpl; discriminate|]].
      intros t0 th0 H0. specialize (C t0 th0 H0). unfold view in C |- *. rewrite Epc, Er in C. simpl. try rewrite Er. exact C.
  - (* pop *)
    destruct Ht as (A & B & C).
    destruct (s_pc (s_tick s)) eqn:Epc; try (cbn [fst]; exact Hi).
    destruct (get_thread (s_tick s) cur) as [th|] eqn:Eg; [|cbn [fst]; exact Hi].
    destruct (pop_step (th_chan th)) as [[c|] ch'] eqn:Ep; cbn [fst].
    + unfold pop_step in Ep. destruct (ch_ring (th_chan th)) as [|x r] eqn:Er; inversion Ep; subst c ch'.
      split; [intros _; apply A; try rewrite Epc; discriminate|split; [simpl; discriminate|]].
      intros t0 th0 H0. unfold get_thread in H0. cbn [s_threads s_set_collector] in H0.
      change (alookup t0 (s_threads (put_thread (s_tick s) cur (th_set_chan th (mkChan r (ch_cap (th_chan th)) (ch_pending (th_chan th)) (ch_dropping (th_chan th)) (ch_abandoned (th_chan th)))))))
        with (get_thread (put_thread (s_tick s) cur (th_set_chan th (mkChan r (ch_cap (th_chan th)) (ch_pending (th_chan th)) (ch_dropping (th_chan th)) (ch_abandoned (th_chan th))))) t0) in H0.
      rewrite get_put_thread in H0. unfold view. cbn [s_pc s_set_collector].
      destruct (N.eqb_spec t0 cur) as [->|Hne].
      * rewrite Eg in H0. simpl in H0. inversion H0; subst th0. simpl.
        destruct (C cur th Eg) as [F _]. split; [exact F|]. left. apply in_app_iff. right. left. reflexivity.
      * specialize (C t0 th0 H0). unfold view in C. rewrite Epc in C. exact C.
    + split; [intros _; apply A; try rewrite Epc; discriminate|split; [simpl; discriminate|]].
      intros t0 th0 H0. specialize (C t0 th0 H0). unfold view in C |- *. rewrite Epc in C. exact C.
  - (* check *)
    destruct Ht as (A & B & C).
    destruct (s_pc (s_tick s)) eqn:Epc; try (cbn [fst]; exact Hi).
    assert (Hinst : s_installed (s_tick s) = true) by (apply A; try rewrite Epc; discriminate).
    destruct (get_thread (s_tick s) cur) as [th|] eqn:Eg; [|cbn [fst]; exact Hi].
    destruct (ch_abandoned (th_chan th)) eqn:Eab.
    + destruct (pop_step (th_chan th)) as [[c|] ch'] eqn:Ep; cbn [fst].
      * unfold pop_step in Ep. destruct (ch_ring (th_chan th)) as [|x r] eqn:Er; inversion Ep; subst c ch'.
        split; [intros _; exact Hinst|split; [simpl; discriminate|]].
        intros t0 th0 H0. unfold get_thread in H0. cbn [s_threads s_set_collector] in H0.
        change (alookup t0 (s_threads (put_thread (s_tick s) cur (th_set_chan th (mkChan r (ch_cap (th_chan th)) (ch_pending (th_chan th)) (ch_dropping (th_chan th)) (ch_abandoned (th_chan th)))))))
          with (get_thread (put_thread (s_tick s) cur (th_set_chan th (mkChan r (ch_cap (th_chan th)) (ch_pending (th_chan th)) (ch_dropping (th_chan th)) (ch_abandoned (th_chan th))))) t0) in H0.
        rewrite get_put_thread in H0. unfold view. cbn [s_pc s_set_collector].
        destruct (N.eqb_spec t0 cur) as [->|Hne].
        -- rewrite Eg in H0. simpl in H0. inversion H0; subst th0. simpl.
           destruct (C cur th Eg) as [F _]. split; [exact F|]. left. apply in_app_iff. right. left. reflexivity.
        -- specialize (C t0 th0 H0). unfold view in C. rewrite Epc in C. exact C.
      * apply pop_none_empty in Ep.
        destruct (advance todo kept) as [pc oreg] eqn:Ea.
        pose proof (view_advance (s_tick s) todo kept pc oreg Ea) as Hv.
        assert (Hpc : pc <> PIdle) by (unfold advance in Ea; destruct todo; inversion Ea; discriminate).
        assert (G : tracked (s_set_collector (s_tick s) (match oreg with Some reg => reg | None => s_registry (s_tick s) end) pc (s_batch (s_tick s)) (s_active (s_tick s)))).
        { split; [intros _; exact Hinst|split; [intros E; simpl in E; contradiction|]].
          intros t0 th0 H0. rewrite Hv.
          change (get_thread (s_tick s) t0 = Some th0) in H0.
          destruct (C t0 th0 H0) as [F V]. split; [exact F|].
          destruct V as [V|R]; [|right; exact R].
          unfold view in V. rewrite Epc in V. apply in_app_iff in V. destruct V as [V|[V|V]].
          - left. apply in_app_iff. left. exact V.
          - subst t0. rewrite Eg in H0. inversion H0; subst th0. right. split; assumption.
          - left. apply in_app_iff. right. exact V. }
        destruct oreg; exact G.
    + destruct (advance todo (kept ++ [cur])) as [pc oreg] eqn:Ea. cbn [fst].
      pose proof (view_advance (s_tick s) todo (kept ++ [cur]) pc oreg Ea) as Hv.
      assert (Hpc : pc <> PIdle) by (unfold advance in Ea; destruct todo; inversion Ea; discriminate).
      assert (G : tracked (s_set_collector (s_tick s) (match oreg with Some reg => reg | None => s_registry (s_tick s) end) pc (s_batch (s_tick s)) (s_active (s_tick s)))).
      { split; [intros _; exact Hinst|split; [intros E; simpl in E; contradiction|]].
        intros t0 th0 H0. rewrite Hv.
        change (get_thread (s_tick s) t0 = Some th0) in H0.
        destruct (C t0 th0 H0) as [F V]. split; [exact F|].
        destruct V as [V|R]; [|right; exact R].
        unfold view in V. rewrite Epc in V. left. rewrite <- app_assoc. exact V. }
      destruct oreg; exact G.
  - (* process *)
    destruct Ht as (A & B & C).
    destruct (s_pc (s_tick s)) eqn:Epc; try (cbn [fst]; exact Hi).
    destruct (process _ _ _ _) as [am recs]. cbn [fst].
    split; [intros E; simpl in E; contradiction|split; [intros _; reflexivity|]].
    intros t0 th0 H0. specialize (C t0 th0 H0). unfold view in C |- *. rewrite Epc in C. exact C.
Qed.

Lemma run_tracked h : forall s, tracked s -> tracked (fst (run s h)).
Proof.
  induction h as [|a h IH]; intros s Hi; simpl; auto.
  pose proof (step_tracked s a Hi) as H1.
  destruct (step s a) as [s1 o]. destruct (run s1 h) as [s2 os] eqn:E. simpl.
  specialize (IH s1 H1). rewrite E in IH. exact IH.
Qed.

Lemma tracked_init dbg ringcap stackcap qcap : tracked (sys_init dbg ringcap stackcap qcap).
Proof.
  split; [intros H; exfalso; apply H; reflexivity|split; [reflexivity|]].
  intros t th H. discriminate.
Qed.

(* ---------------------------------------------------------------- a landed command *)
Definition landed (t : N) (c : command) (s : sys) : Prop :=
  In c (ring_of s t) \/ in_batch c (s_batch s).

Lemma in_batch_empty c : ~ in_batch c batch_empty.
Proof. destruct c; simpl; auto. Qed.

Lemma ring_of_put s t th' t' :
  ring_of (put_thread s t th') t' =
  if t' =? t then match get_thread s t' with Some _ => ch_ring (th_chan th') | None => [] end
  else ring_of s t'.
Proof.
  unfold ring_of. rewrite get_put_thread. destruct (t' =? t); [|reflexivity].
  destruct (get_thread s t'); reflexivity.
Qed.

(* a step that replaces thread t' by one whose ring extends the old ring keeps what landed *)
Lemma landed_put_grow s t c t' th th' more :
  get_thread s t' = Some th -> ch_ring (th_chan th') = ch_ring (th_chan th) ++ more ->
  landed t c s -> landed t c (put_thread s t' th').
Proof.
  intros Hg Hr [H|H]; [left|right; exact H].
  rewrite ring_of_put. destruct (N.eqb_spec t t') as [->|Hne]; [|exact H].
  unfold ring_of in H. rewrite Hg in H |- *. rewrite Hr. apply in_app_iff. left. exact H.
Qed.

Theorem step_landed s a t c :
  tracked s -> a <> ACProcess -> landed t c s -> landed t c (fst (step s a)).
Proof.
  intros Hi Hna HL.
  assert (Ht : tracked (s_tick s)) by exact Hi.
  assert (HLt : landed t c (s_tick s)) by exact HL.
  unfold step. destruct a; cbv beta iota zeta.
  - (* install *)
    destruct (s_pc (s_tick s)) eqn:Epc; cbn [fst]; auto.
    destruct HLt as [H|H]; [left; exact H|].
    destruct Ht as (_ & B & _). rewrite (B Epc) in H. destruct (in_batch_empty c H).
  - (* spawn *)
    destruct (amem t0 (s_threads (s_tick s)) || in_drain (s_pc (s_tick s))) eqn:Eb; cbn [fst]; auto.
    apply orb_false_iff in Eb. destruct Eb as [Em _]. apply amem_false_lookup in Em.
    destruct HLt as [H|H]; [left|right; exact H].
    unfold ring_of, get_thread in *. cbn [s_threads s_set_collector s_set_threads].
    destruct (N.eq_dec t t0) as [->|Hne].
    + rewrite Em in H. destruct H.
    + rewrite (alookup_snoc_other _ _ _ _ Hne). exact H.
  - (* call *)
    destruct (get_thread (s_tick s) t0) as [th|] eqn:Eg; [|cbn [fst]; auto].
    destruct (th_outbox th); [|cbn [fst]; auto].
    destruct (ch_dropping (th_chan th)) eqn:Ed; [cbn [fst]; auto|].
    destruct (exec_call (s_tick s) th _ c0) as [s1 th1 e1 out r|code|site] eqn:Ex; [|cbn [fst]; auto..].
    destruct (exec_call_chan _ _ _ _ _ _ _ _ _ Ex) as (Hch & Hth & Hpc & Hb & Hreg).
    cbn [fst].
    assert (H1 : landed t c s1).
    { unfold landed, ring_of, get_thread in *. rewrite Hth, Hb. exact HLt. }
    apply landed_put_grow with (th := th) (more := []); [unfold get_thread; rewrite Hth; exact Eg| |exact H1].
    simpl. rewrite Hch, app_nil_r. reflexivity.
  - (* push *)
    destruct (get_thread (s_tick s) t0) as [th|] eqn:Eg; [|cbn [fst]; auto].
    destruct (ch_dropping (th_chan th)) eqn:Ed.
    + destruct (ch_abandoned (th_chan th)) eqn:Ea; cbn [fst]; auto.
      destruct (drop_step_grows (th_chan th)) as [more Hm].
      apply landed_put_grow with (th := th) (more := more); [exact Eg|exact Hm|exact HLt].
    + destruct (th_outbox th) as [|[f cmd] rest]; [cbn [fst]; auto|].
      destruct (push_step_grows (th_chan th) f cmd) as [more Hm].
      destruct (push_step (th_chan th) f cmd) as [ch' fin] eqn:Ep. cbn [fst] in *.
      apply landed_put_grow with (th := th) (more := more); [exact Eg|exact Hm|exact HLt].
  - (* exit *)
    destruct (get_thread (s_tick s) t0) as [th|] eqn:Eg; [|cbn [fst]; auto].
    destruct (th_outbox th), (th_scoped th), (th_frames th); try (cbn [fst]; auto; fail).
    destruct (ch_dropping (th_chan th)) eqn:Ed; cbn [fst]; auto.
    apply landed_put_grow with (th := th) (more := []); [exact Eg| |exact HLt].
    simpl. rewrite app_nil_r. reflexivity.
  - (* cycle begin *)
    destruct (s_pc (s_tick s)) eqn:Epc; try (cbn [fst]; exact HL).
    destruct (s_installed (s_tick s)) eqn:Ei; try (cbn [fst]; exact HL).
    destruct (s_registry (s_tick s)) as [|t0 todo] eqn:Er; cbn [fst]; exact HLt.
  - (* pop *)
    destruct (s_pc (s_tick s)) eqn:Epc; try (cbn [fst]; exact HL).
    destruct (get_thread (s_tick s) cur) as [th|] eqn:Eg; [|cbn [fst]; exact HL].
    destruct (pop_step (th_chan th)) as [[c0|] ch'] eqn:Ep; cbn [fst]; [|exact HLt].
    unfold pop_step in Ep. destruct (ch_ring (th_chan th)) as [|x r] eqn:Er; inversion Ep; subst c0 ch'.
    destruct HLt as [H|H].
    + unfold landed. cbn [s_batch s_set_collector].
      destruct (N.eq_dec t cur) as [->|Hne].
      * unfold ring_of in H. rewrite Eg, Er in H. destruct H as [<-|H].
        -- right. apply in_batch_add_same.
        -- left. unfold ring_of, get_thread. cbn [s_threads s_set_collector].
           change (alookup cur (s_threads (put_thread (s_tick s) cur (th_set_chan th (mkChan r (ch_cap (th_chan th)) (ch_pending (th_chan th)) (ch_dropping (th_chan th)) (ch_abandoned (th_chan th)))))))
             with (get_thread (put_thread (s_tick s) cur (th_set_chan th (mkChan r (ch_cap (th_chan th)) (ch_pending (th_chan th)) (ch_dropping (th_chan th)) (ch_abandoned (th_chan th))))) cur).
           rewrite get_put_thread, N.eqb_refl, Eg. simpl. exact H.
      * left. unfold ring_of, get_thread. cbn [s_threads s_set_collector].
        change (alookup t (s_threads (put_thread (s_tick s) cur (th_set_chan th (mkChan r (ch_cap (th_chan th)) (ch_pending (th_chan th)) (ch_dropping (th_chan th)) (ch_abandoned (th_chan th)))))))
          with (get_thread (put_thread (s_tick s) cur (th_set_chan th (mkChan r (ch_cap (th_chan th)) (ch_pending (th_chan th)) (ch_dropping (th_chan th)) (ch_abandoned (th_chan th))))) t).
        rewrite get_put_thread. apply N.eqb_neq in Hne. rewrite Hne. exact H.
    + right. cbn [s_batch s_set_collector]. apply in_batch_add_keep. exact H.
  - (* check *)
    destruct (s_pc (s_tick s)) eqn:Epc; try (cbn [fst]; exact HL).
    destruct (get_thread (s_tick s) cur) as [th|] eqn:Eg; [|cbn [fst]; exact HL].
    destruct (ch_abandoned (th_chan th)) eqn:Eab.
    + destruct (pop_step (th_chan th)) as [[c0|] ch'] eqn:Ep; cbn [fst].
      * unfold pop_step in Ep. destruct (ch_ring (th_chan th)) as [|x r] eqn:Er; inversion Ep; subst c0 ch'.
        destruct HLt as [H|H].
        -- unfold landed. cbn [s_batch s_set_collector].
           destruct (N.eq_dec t cur) as [->|Hne].
           ++ unfold ring_of in H. rewrite Eg, Er in H. destruct H as [<-|H].
              ** right. apply in_batch_add_same.
              ** left. unfold ring_of, get_thread. cbn [s_threads s_set_collector].
                 change (alookup cur (s_threads (put_thread (s_tick s) cur (th_set_chan th (mkChan r (ch_cap (th_chan th)) (ch_pending (th_chan th)) (ch_dropping (th_chan th)) (ch_abandoned (th_chan th)))))))
                   with (get_thread (put_thread (s_tick s) cur (th_set_chan th (mkChan r (ch_cap (th_chan th)) (ch_pending (th_chan th)) (ch_dropping (th_chan th)) (ch_abandoned (th_chan th))))) cur).
                 rewrite get_put_thread, N.eqb_refl, Eg. simpl. exact H.
           ++ left. unfold ring_of, get_thread. cbn [s_threads s_set_collector].
              change (alookup t (s_threads (put_thread (s_tick s) cur (th_set_chan th (mkChan r (ch_cap (th_chan th)) (ch_pending (th_chan th)) (ch_dropping (th_chan th)) (ch_abandoned (th_chan th)))))))
                with (get_thread (put_thread (s_tick s) cur (th_set_chan th (mkChan r (ch_cap (th_chan th)) (ch_pending (th_chan th)) (ch_dropping (th_chan th)) (ch_abandoned (th_chan th))))) t).
              rewrite get_put_thread. apply N.eqb_neq in Hne. rewrite Hne. exact H.
        -- right. cbn [s_batch s_set_collector]. apply in_batch_add_keep. exact H.
      * destruct (advance todo kept) as [pc [reg|]]; exact HLt.
    + destruct (advance todo (kept ++ [cur])) as [pc [reg|]]; cbn [fst]; exact HLt.
  - contradiction.
Qed.

Lemma run_landed h : forall s t c,
  tracked s -> no_process h -> landed t c s -> landed t c (fst (run s h)).
Proof.
  induction h as [|a h IH]; intros s t c Hi Hn HL; simpl; auto.
  inversion Hn as [|? ? Ha Hn']; subst.
  pose proof (step_tracked s a Hi) as H1. pose proof (step_landed s a t c Hi Ha HL) as H2.
  destruct (step s a) as [s1 o]. destruct (run s1 h) as [s2 os] eqn:E. cbn [fst] in *.
  specialize (IH s1 t c H1 Hn' H2). rewrite E in IH. exact IH.
Qed.

(* ================================================================ within two cycles *)
Definition good (s : sys) : Prop := tracked s /\ reg_inv s /\ default_inv s.

Lemma run_good h s : good s -> good (fst (run s h)).
Proof.
  intros (A & B & C). split; [apply run_tracked; exact A|split; [apply run_reg_inv; exact B|apply run_default_inv; exact C]].
Qed.

Lemma good_init dbg ringcap stackcap qcap : good (sys_init dbg ringcap stackcap qcap).
Proof. split; [apply tracked_init|split; [apply reg_inv_init|apply sys_init_default_inv]]. Qed.

Lemma in_ring_commands s t c :
  In t (s_registry s) -> In c (ring_of s t) -> In (t, c) (ring_commands s).
Proof.
  intros Hr Hc. unfold ring_commands. apply in_flat_map. exists t. split; [exact Hr|].
  unfold ring_of in Hc. destruct (get_thread s t); [|destruct Hc].
  apply in_map_iff. exists c. split; [reflexivity|exact Hc].
Qed.

Lemma batch_reported s sp tk it recs st n :
  default_inv s -> s_cancelable s = false ->
  snd (step s ACProcess) = OReport recs st n ->
  in_batch (CSubmit sp tk) (s_batch s) -> In it tk ->
  incl (coll_cores (mkColl sp (ti_trace it) (ti_parent it))) (map core3 recs).
Proof.
  intros Hd Hc Hr Hb Hit x Hx.
  pose proof (step_default_report_exact s recs st n Hd Hc Hr) as P.
  apply (Permutation_in x (Permutation_sym P)).
  apply (flat_map_incl coll_cores (mkColl sp (ti_trace it) (ti_parent it))); [|exact Hx].
  apply (submitted_colls_in sp tk it); assumption.
Qed.

(* the process step: rings untouched, the collector idle again with the same registry *)
Lemma process_effect s :
  s_pc s = PDrained ->
  let s' := fst (step s ACProcess) in
  s_pc s' = PIdle /\ s_registry s' = s_registry s /\ s_installed s' = s_installed s /\
  forall t, ring_of s' t = ring_of s t.
Proof.
  intros H. unfold step. cbv beta iota zeta. change (s_pc (s_tick s)) with (s_pc s). rewrite H.
  destruct (process _ _ _ _) as [am recs]. cbn [fst]. repeat split.
Qed.

(* C01, composed: a SubmitSpans command that has landed -- it is in its thread's ring, or
   already in the collector's batch -- is reported by the process step of the cycle in
   progress or, at the latest, by that of the next complete cycle; whatever any threads do in
   between and however the drains are interleaved with them. *)
Theorem landed_is_reported_within_two_cycles s h1 h2 t sp tk it :
  good s -> landed t (CSubmit sp tk) s -> In it tk ->
  no_process h1 ->
  let s1 := fst (run s h1) in
  s_pc s1 = PDrained -> s_cancelable s1 = false ->
  no_process h2 ->
  let s2 := fst (run s1 (ACProcess :: ACBegin :: h2)) in
  s_pc s2 = PDrained -> s_cancelable s2 = false ->
  exists recs st n,
    (snd (step s1 ACProcess) = OReport recs st n \/ snd (step s2 ACProcess) = OReport recs st n) /\
    incl (coll_cores (mkColl sp (ti_trace it) (ti_parent it))) (map core3 recs).
Proof.
  intros Hg HL Hit Hn1 s1 Hpc1 Hc1 Hn2 s2 Hpc2 Hc2.
  assert (Hg1 : good s1) by (apply run_good; exact Hg).
  pose proof (run_landed h1 s t _ (proj1 Hg) Hn1 HL) as HL1. fold s1 in HL1.
  destruct HL1 as [Hring|Hbatch].
  2:{ destruct (process_reports s1 Hpc1) as (recs & st & n & Hr). exists recs, st, n. split; [left; exact Hr|].
      destruct Hg1 as (_ & _ & D). eapply batch_reported; eauto. }
  (* still in the ring when the first cycle's drain is over: the next cycle takes it *)
  destruct (process_effect s1 Hpc1) as (Hp & Hreg & Hinst & Hrings).
  set (s1' := fst (step s1 ACProcess)) in *.
  assert (Hg1' : good s1').
  { unfold s1'. destruct Hg1 as (A & B & C). split; [apply step_tracked; exact A|split; [apply step_reg_inv; exact B|apply step_default_inv; exact C]]. }
  assert (E2 : s2 = fst (run s1' (ACBegin :: h2))).
  { unfold s2, s1'. cbn [run]. destruct (step s1 ACProcess) as [sa oa]. cbn [fst].
    destruct (step sa ACBegin) as [sb ob]. destruct (run sb h2) as [sc oc]. reflexivity. }
  assert (Hin1' : In (CSubmit sp tk) (ring_of s1' t)) by (rewrite Hrings; exact Hring).
  assert (Hreg1' : In t (s_registry s1')).
  { destruct Hg1' as ((_ & _ & C) & _ & _). unfold ring_of in Hin1'.
    destruct (get_thread s1' t) as [th|] eqn:Eg; [|destruct Hin1'].
    destruct (C t th Eg) as [_ [V|[R _]]].
    - unfold view in V. rewrite Hp in V. exact V.
    - rewrite R in Hin1'. destruct Hin1'. }
  assert (Hinst1' : s_installed s1' = true).
  { rewrite Hinst. destruct Hg1 as ((A & _) & _). apply A. rewrite Hpc1. discriminate. }
  assert (Hb2 : in_batch (CSubmit sp tk) (s_batch s2)).
  { rewrite E2. apply (cycle_drains_every_ring s1' h2 Hp Hinst1' (proj1 (proj1 (proj2 Hg1'))) Hn2) with (t := t); [rewrite <- E2; exact Hpc2|].
    apply in_ring_commands; assumption. }
  destruct (process_reports s2 Hpc2) as (recs & st & n & Hr). exists recs, st, n. split; [right; exact Hr|].
  assert (Hg2 : good s2) by (rewrite E2; apply run_good; exact Hg1').
  destruct Hg2 as (_ & _ & D). eapply batch_reported; eauto.
Qed.

Theorem reachable_landed_is_reported_within_two_cycles dbg ringcap stackcap qcap h0 h1 h2 t sp tk it :
  let s := fst (run (sys_init dbg ringcap stackcap qcap) h0) in
  landed t (CSubmit sp tk) s -> In it tk ->
  no_process h1 ->
  let s1 := fst (run s h1) in
  s_pc s1 = PDrained -> s_cancelable s1 = false ->
  no_process h2 ->
  let s2 := fst (run s1 (ACProcess :: ACBegin :: h2)) in
  s_pc s2 = PDrained -> s_cancelable s2 = false ->
  exists recs st n,
    (snd (step s1 ACProcess) = OReport recs st n \/ snd (step s2 ACProcess) = OReport recs st n) /\
    incl (coll_cores (mkColl sp (ti_trace it) (ti_parent it))) (map core3 recs).
Proof.
  intros s. apply landed_is_reported_within_two_cycles. apply run_good. apply good_init.
Qed.

(* ================================================================ the thread's side *)
(* What a call has handed to its thread's sender reaches the ring: while the ring has room for
   it (nothing parked from earlier), every command of the outbox lands, in order, whatever the
   other threads and the collector do in between. *)
Definition quiet (t : N) (a : action) : Prop :=
  match a with
  | ACall t' _ | AExit t' => t' <> t
  | ACProcess => False
  | _ => True
  end.

Definition sending (t : N) (all : list command) (s : sys) : Prop :=
  exists th done,
    get_thread s t = Some th /\
    done ++ map snd (th_outbox th) = all /\
    ch_pending (th_chan th) = [] /\ ch_dropping (th_chan th) = false /\
    lenN (ch_ring (th_chan th)) + lenN (th_outbox th) <= ch_cap (th_chan th) /\
    forall c, In c done -> landed t c s.

Lemma lenN_cons' {A} (x : A) l : lenN (x :: l) = lenN l + 1.
Proof. unfold lenN. simpl length. lia. Qed.
Lemma lenN_snoc' {A} (x : A) l : lenN (l ++ [x]) = lenN l + 1.
Proof. unfold lenN. rewrite app_length. simpl. lia. Qed.

(* a step that leaves thread t's record alone *)
Lemma sending_same_thread t all s s' :
  get_thread s' t = get_thread s t -> (forall c, landed t c s -> landed t c s') ->
  sending t all s -> sending t all s'.
Proof.
  intros Hg HL (th & done & G & E & P & D & R & L). exists th, done. rewrite Hg. repeat split; auto.
Qed.

(* a step that pops the head of thread t's ring *)
Lemma sending_popped t all s s' th x r :
  get_thread s t = Some th -> ch_ring (th_chan th) = x :: r ->
  get_thread s' t = Some (th_set_chan th (mkChan r (ch_cap (th_chan th)) (ch_pending (th_chan th)) (ch_dropping (th_chan th)) (ch_abandoned (th_chan th)))) ->
  (forall c, landed t c s -> landed t c s') ->
  sending t all s -> sending t all s'.
Proof.
  intros Hg Hr Hg' HL (th0 & done & G & E & P & D & R & L). rewrite Hg in G. inversion G; subst th0.
  eexists. exists done. split; [exact Hg'|]. simpl. repeat split; auto.
  rewrite Hr, lenN_cons' in R. lia.
Qed.

Theorem step_sending t all s a :
  tracked s -> quiet t a -> sending t all s -> sending t all (fst (step s a)).
Proof.
  intros Hi Hq HS.
  assert (Hna : a <> ACProcess) by (intros ->; exact Hq).
  pose proof (fun c => step_landed s a t c Hi Hna) as HL.
  assert (HSt : sending t all (s_tick s)) by exact HS.
  revert HL. unfold step. destruct a; cbv beta iota zeta; intros HL.
  - (* install *)
    destruct (s_pc (s_tick s)) eqn:Epc; cbn [fst] in *; auto.
    eapply sending_same_thread; [|exact HL|exact HSt]. reflexivity.
  - (* spawn *)
    destruct (amem t0 (s_threads (s_tick s)) || in_drain (s_pc (s_tick s))) eqn:Eb; cbn [fst] in *; auto.
    apply orb_false_iff in Eb. destruct Eb as [Em _]. apply amem_false_lookup in Em.
    eapply sending_same_thread; [|exact HL|exact HSt].
    unfold get_thread. cbn [s_threads s_set_collector s_set_threads].
    destruct (N.eq_dec t t0) as [->|Hne].
    + destruct HSt as (th & done & G & _). unfold get_thread in G. rewrite Em in G. discriminate.
    + apply alookup_snoc_other. exact Hne.
  - (* call, by another thread *)
    simpl in Hq.
    destruct (get_thread (s_tick s) t0) as [th|] eqn:Eg; [|cbn [fst] in *; auto].
    destruct (th_outbox th); [|cbn [fst] in *; auto].
    destruct (ch_dropping (th_chan th)) eqn:Ed; [cbn [fst] in *; auto|].
    destruct (exec_call (s_tick s) th _ c) as [s1 th1 e1 out r|code|site] eqn:Ex; [|cbn [fst] in *; auto..].
    destruct (exec_call_chan _ _ _ _ _ _ _ _ _ Ex) as (Hch & Hth & Hpc & Hb & Hreg).
    cbn [fst] in *. eapply sending_same_thread; [|exact HL|exact HSt].
    rewrite get_put_thread. assert (E : (t =? t0) = false) by (apply N.eqb_neq; auto). rewrite E.
    unfold get_thread. rewrite Hth. reflexivity.
  - (* push *)
    destruct (get_thread (s_tick s) t0) as [th|] eqn:Eg; [|cbn [fst] in *; auto].
    destruct (N.eq_dec t0 t) as [->|Hne].
    + destruct HSt as (th0 & done & G & E & P & D & R & L). rewrite Eg in G. inversion G; subst th0.
      rewrite D in *.
      destruct (th_outbox th) as [|[f cmd] rest] eqn:Eo; [cbn [fst] in *; exists th, done; rewrite Eo; repeat split; auto|].
      assert (Hroom : ch_room (th_chan th) = true).
      { unfold ch_room. apply N.ltb_lt. rewrite lenN_cons' in R. lia. }
      unfold push_step in *. rewrite P, Hroom in *. cbn [fst] in *.
      eexists. exists (done ++ [cmd]). split; [rewrite get_put_thread, N.eqb_refl, Eg; reflexivity|].
      simpl. repeat split; auto.
      * rewrite <- E. simpl. rewrite <- app_assoc. reflexivity.
      * rewrite lenN_snoc'. rewrite lenN_cons' in R. lia.
      * intros c Hc. apply in_app_iff in Hc. destruct Hc as [Hc|[<-|[]]].
        -- apply HL. apply L. exact Hc.
        -- left. unfold ring_of. rewrite get_put_thread, N.eqb_refl, Eg. simpl. apply in_app_iff. right. left. reflexivity.
    + assert (E : (t =? t0) = false) by (apply N.eqb_neq; auto).
      destruct (ch_dropping (th_chan th)) eqn:Ed.
      * destruct (ch_abandoned (th_chan th)) eqn:Ea; cbn [fst] in *; auto.
        eapply sending_same_thread; [|exact HL|exact HSt]. rewrite get_put_thread, E. reflexivity.
      * destruct (th_outbox th) as [|[f cmd] rest]; [cbn [fst] in *; auto|].
        destruct (push_step (th_chan th) f cmd) as [ch' fin] eqn:Ep. cbn [fst] in *.
        eapply sending_same_thread; [|exact HL|exact HSt]. rewrite get_put_thread, E. reflexivity.
  - (* exit, of another thread *)
    simpl in Hq.
    destruct (get_thread (s_tick s) t0) as [th|] eqn:Eg; [|cbn [fst] in *; auto].
    destruct (th_outbox th), (th_scoped th), (th_frames th); try (cbn [fst] in *; auto; fail).
    destruct (ch_dropping (th_chan th)) eqn:Ed; cbn [fst] in *; auto.
    eapply sending_same_thread; [|exact HL|exact HSt].
    rewrite get_put_thread. assert (E : (t =? t0) = false) by (apply N.eqb_neq; auto). rewrite E. reflexivity.
  - (* cycle begin *)
    destruct (s_pc (s_tick s)) eqn:Epc; try (cbn [fst] in *; exact HS).
    destruct (s_installed (s_tick s)) eqn:Ei; try (cbn [fst] in *; exact HS).
    destruct (s_registry (s_tick s)) as [|t0 todo] eqn:Er; cbn [fst] in *;
      (eapply sending_same_thread; [|exact HL|exact HSt]); reflexivity.
  - (* pop *)
    destruct (s_pc (s_tick s)) eqn:Epc; try (cbn [fst] in *; exact HS).
    destruct (get_thread (s_tick s) cur) as [th|] eqn:Eg; [|cbn [fst] in *; exact HS].
    destruct (pop_step (th_chan th)) as [[c0|] ch'] eqn:Ep; cbn [fst] in *.
    + unfold pop_step in Ep. destruct (ch_ring (th_chan th)) as [|x r] eqn:Er; inversion Ep; subst c0 ch'.
      destruct (N.eq_dec t cur) as [->|Hne].
      * eapply sending_popped; [exact Eg|exact Er| |exact HL|exact HSt].
        unfold get_thread. cbn [s_threads s_set_collector].
        change (alookup cur (s_threads (put_thread (s_tick s) cur (th_set_chan th (mkChan r (ch_cap (th_chan th)) (ch_pending (th_chan th)) (ch_dropping (th_chan th)) (ch_abandoned (th_chan th)))))))
          with (get_thread (put_thread (s_tick s) cur (th_set_chan th (mkChan r (ch_cap (th_chan th)) (ch_pending (th_chan th)) (ch_dropping (th_chan th)) (ch_abandoned (th_chan th))))) cur).
        rewrite get_put_thread, N.eqb_refl, Eg. reflexivity.
      * eapply sending_same_thread; [|exact HL|exact HSt].
        unfold get_thread. cbn [s_threads s_set_collector].
        change (alookup t (s_threads (put_thread (s_tick s) cur (th_set_chan th (mkChan r (ch_cap (th_chan th)) (ch_pending (th_chan th)) (ch_dropping (th_chan th)) (ch_abandoned (th_chan th)))))))
          with (get_thread (put_thread (s_tick s) cur (th_set_chan th (mkChan r (ch_cap (th_chan th)) (ch_pending (th_chan th)) (ch_dropping (th_chan th)) (ch_abandoned (th_chan th))))) t).
        rewrite get_put_thread. apply N.eqb_neq in Hne. rewrite Hne. reflexivity.
    + eapply sending_same_thread; [|exact HL|exact HSt]. reflexivity.
  - (* check *)
    destruct (s_pc (s_tick s)) eqn:Epc; try (cbn [fst] in *; exact HS).
    destruct (get_thread (s_tick s) cur) as [th|] eqn:Eg; [|cbn [fst] in *; exact HS].
    destruct (ch_abandoned (th_chan th)) eqn:Eab.
    + destruct (pop_step (th_chan th)) as [[c0|] ch'] eqn:Ep; cbn [fst] in *.
      * unfold pop_step in Ep. destruct (ch_ring (th_chan th)) as [|x r] eqn:Er; inversion Ep; subst c0 ch'.
        destruct (N.eq_dec t cur) as [->|Hne].
        -- eapply sending_popped; [exact Eg|exact Er| |exact HL|exact HSt].
           unfold get_thread. cbn [s_threads s_set_collector].
           change (alookup cur (s_threads (put_thread (s_tick s) cur (th_set_chan th (mkChan r (ch_cap (th_chan th)) (ch_pending (th_chan th)) (ch_dropping (th_chan th)) (ch_abandoned (th_chan th)))))))
             with (get_thread (put_thread (s_tick s) cur (th_set_chan th (mkChan r (ch_cap (th_chan th)) (ch_pending (th_chan th)) (ch_dropping (th_chan th)) (ch_abandoned (th_chan th))))) cur).
           rewrite get_put_thread, N.eqb_refl, Eg. reflexivity.
        -- eapply sending_same_thread; [|exact HL|exact HSt].
           unfold get_thread. cbn [s_threads s_set_collector].
           change (alookup t (s_threads (put_thread (s_tick s) cur (th_set_chan th (mkChan r (ch_cap (th_chan th)) (ch_pending (th_chan th)) (ch_dropping (th_chan th)) (ch_abandoned (th_chan th)))))))
             with (get_thread (put_thread (s_tick s) cur (th_set_chan th (mkChan r (ch_cap (th_chan th)) (ch_pending (th_chan th)) (ch_dropping (th_chan th)) (ch_abandoned (th_chan th))))) t).
           rewrite get_put_thread. apply N.eqb_neq in Hne. rewrite Hne. reflexivity.
      * destruct (advance todo kept) as [pc [reg|]]; cbn [fst] in *;
          (eapply sending_same_thread; [|exact HL|exact HSt]); reflexivity.
    + destruct (advance todo (kept ++ [cur])) as [pc [reg|]]; cbn [fst] in *;
        (eapply sending_same_thread; [|exact HL|exact HSt]); reflexivity.
  - contradiction.
Qed.

(* ================================================================ spans are of kind Span *)
(* every span in the span table was built by [new_span] (kind Span) and only ever gains
   properties: an invariant of every reachable state, which discharges the kind hypothesis *)
Definition spans_kspan (s : sys) : Prop :=
  forall h sp, In (h, Some sp) (s_spans s) -> r_kind (sp_raw sp) = KSpan.

Lemma new_span_kind name tk cid e : r_kind (sp_raw (fst (new_span name tk cid e))) = KSpan.
Proof. unfold new_span. destruct (next_id e) as [id e1]. destruct (now e1) as [t0 e2]. reflexivity. Qed.

Lemma in_aremove {A} k (x : N * A) l : In x (aremove k l) -> In x l.
Proof.
  induction l as [|[k' v] l IH]; simpl; auto.
  destruct (k =? k'); simpl; intros H; auto. destruct H; auto.
Qed.

Lemma alookup_in {A} k (v : A) l : alookup k l = Some v -> In (k, v) l.
Proof.
  induction l as [|[k' v'] l IH]; simpl; [discriminate|].
  destruct (N.eqb_spec k k') as [->|]; intros H; [inversion H; left; reflexivity|right; auto].
Qed.

Lemma kspan_cons_none s h l : s_spans s = l -> (forall h sp, In (h, Some sp) l -> r_kind (sp_raw sp) = KSpan) ->
  forall h' sp, In (h', Some sp) ((h, None) :: l) -> r_kind (sp_raw sp) = KSpan.
Proof. intros _ H h' sp [E|Hi]; [discriminate|eauto]. Qed.

Lemma exec_call_kspan s th e c s1 th1 e1 out r :
  spans_kspan s -> exec_call s th e c = COk s1 th1 e1 out r -> spans_kspan s1.
Proof.
  intros Hk Ex. unfold exec_call in Ex.
  destruct c; cbv beta iota zeta in Ex;
    repeat match type of Ex with
           | context [match ?x with _ => _ end] => destruct x eqn:?; try discriminate
           | context [if ?x then _ else _] => destruct x eqn:?; try discriminate
           end; inversion Ex; subst; try exact Hk;
    unfold spans_kspan in *; cbn [s_spans s_set_spans s_set_adapters s_set_next_collect s_set_lsets];
    intros h' sp' Hin;
    repeat match goal with
           | H : In _ (_ :: _) |- _ => destruct H as [H|H]; [inversion H; subst; clear H|]
           | H : In _ (aset _ _ _) |- _ => unfold aset in H
           | H : In _ (aremove _ _) |- _ => apply in_aremove in H
           end; eauto;
    try match goal with
        | E : new_span ?n ?tk ?cid ?e = (?sp, _) |- r_kind (sp_raw ?sp) = KSpan =>
            pose proof (new_span_kind n tk cid e) as Hn; rewrite E in Hn; exact Hn
        end.
simpl. apply (Hk h'). apply alookup_in. exact Heqo.
Qed.

Lemma spans_kspan_tick s : spans_kspan s -> spans_kspan (s_tick s).
Proof. exact (fun H => H). Qed.

Theorem step_kspan s a : spans_kspan s -> spans_kspan (fst (step s a)).
Proof.
  intros Hk. assert (Ht : spans_kspan (s_tick s)) by exact Hk.
  unfold step. destruct a; cbv beta iota zeta;
    repeat match goal with
           | |- context [match ?x with _ => _ end] => destruct x eqn:?
           end; cbn [fst]; try exact Hk; try exact Ht.
  (* the call *)
  match goal with
  | E : exec_call _ _ _ _ = COk ?s1 _ _ _ _ |- _ => exact (exec_call_kspan _ _ _ _ _ _ _ _ _ Ht E)
  end.
Qed.

Lemma run_kspan h : forall s, spans_kspan s -> spans_kspan (fst (run s h)).
Proof.
  induction h as [|a h IH]; intros s Hi; simpl; auto.
  pose proof (step_kspan s a Hi) as H1.
  destruct (step s a) as [s1 o]. destruct (run s1 h) as [s2 os] eqn:E. simpl.
  specialize (IH s1 H1). rewrite E in IH. exact IH.
Qed.

Theorem reachable_spans_kspan dbg ringcap stackcap qcap h :
  spans_kspan (fst (run (sys_init dbg ringcap stackcap qcap) h)).
Proof. apply run_kspan. intros h' sp []. Qed.


Definition all_quiet (t : N) (h : list action) : Prop := Forall (quiet t) h.

Lemma all_quiet_no_process t h : all_quiet t h -> no_process h.
Proof.
  intros H. induction H as [|a h Ha _ IH]; constructor; auto.
  intros ->. exact Ha.
Qed.

Lemma run_sending t all h : forall s,
  tracked s -> all_quiet t h -> sending t all s -> sending t all (fst (run s h)).
Proof.
  induction h as [|a h IH]; intros s Hi Hq HS; simpl; auto.
  inversion Hq as [|? ? Ha Hq']; subst.
  pose proof (step_tracked s a Hi) as H1. pose proof (step_sending t all s a Hi Ha HS) as H2.
  destruct (step s a) as [s1 o]. destruct (run s1 h) as [s2 os] eqn:E. cbn [fst] in *.
  specialize (IH s1 H1 Hq' H2). rewrite E in IH. exact IH.
Qed.

(* the state right after a call: the call's commands are in the thread's outbox *)
Lemma call_starts_sending s t c th s1 th1 e1 out r :
  get_thread s t = Some th -> th_outbox th = [] ->
  ch_pending (th_chan th) = [] -> ch_dropping (th_chan th) = false ->
  exec_call (s_tick s) th (mkEnv (th_prefix th) (th_suffix th) (clock_of_step (s_nstep (s_tick s)))) c
    = COk s1 th1 e1 out r ->
  lenN (ch_ring (th_chan th)) + lenN out <= ch_cap (th_chan th) ->
  sending t (map snd out) (fst (step s (ACall t c))).
Proof.
  intros Hg Ho Hp Hd Ex Hroom.
  destruct (exec_call_chan _ _ _ _ _ _ _ _ _ Ex) as (Hch & Hth & _).
  unfold step. cbv beta iota zeta. change (get_thread (s_tick s) t) with (get_thread s t).
  rewrite Hg, Ho, Hd, Ex. cbn [fst].
  eexists. exists []. split; [rewrite get_put_thread, N.eqb_refl; unfold get_thread in *; rewrite Hth; change (s_threads (s_tick s)) with (s_threads s); rewrite Hg; reflexivity|].
  simpl. rewrite Hch. repeat split; auto. intros c0 [].
Qed.

(* C01, from the finish call to the ring: a call made on a thread whose sender is idle and
   whose ring has room for what the call sends; then any history in which that thread only
   pushes (all other threads and the collector do whatever they like, short of the process
   step); once the thread's outbox is empty, every command of the call has landed. *)
Theorem call_commands_land s t c th s1 th1 e1 out r h :
  tracked s ->
  get_thread s t = Some th -> th_outbox th = [] ->
  ch_pending (th_chan th) = [] -> ch_dropping (th_chan th) = false ->
  exec_call (s_tick s) th (mkEnv (th_prefix th) (th_suffix th) (clock_of_step (s_nstep (s_tick s)))) c
    = COk s1 th1 e1 out r ->
  lenN (ch_ring (th_chan th)) + lenN out <= ch_cap (th_chan th) ->
  all_quiet t h ->
  let s' := fst (run s (ACall t c :: h)) in
  (forall th', get_thread s' t = Some th' -> th_outbox th' = []) ->
  forall cmd, In cmd (map snd out) -> landed t cmd s'.
Proof.
  intros Hi Hg Ho Hp Hd Ex Hroom Hq s' Hend cmd Hin.
  pose proof (call_starts_sending s t c th s1 th1 e1 out r Hg Ho Hp Hd Ex Hroom) as H0.
  pose proof (step_tracked s (ACall t c) Hi) as Ht0.
  assert (E : s' = fst (run (fst (step s (ACall t c))) h)).
  { unfold s'. cbn [run]. destruct (step s (ACall t c)) as [sa oa]. cbn [fst]. destruct (run sa h) as [sb ob]. reflexivity. }
  pose proof (run_sending t (map snd out) h _ Ht0 Hq H0) as H1. rewrite <- E in H1.
  destruct H1 as (th' & done & G & Ed & _ & _ & _ & L).
  rewrite (Hend th' G) in Ed. simpl in Ed. rewrite app_nil_r in Ed. subst done. apply L. exact Hin.
Qed.

(* ... and so, for the finish of a span: its SubmitSpans is reported within two cycles *)
Theorem finished_span_is_reported dbg ringcap stackcap qcap h0 t hd th sp h h1 h2 it :
  let s := fst (run (sys_init dbg ringcap stackcap qcap) h0) in
  get_thread s t = Some th -> th_outbox th = [] ->
  ch_pending (th_chan th) = [] -> ch_dropping (th_chan th) = false ->
  get_span (s_tick s) hd = Some (Some sp) ->
  In it (filter ti_sampled (sp_token sp)) ->
  lenN (ch_ring (th_chan th)) + 2 <= ch_cap (th_chan th) ->
  all_quiet t h ->
  let s' := fst (run s (ACall t (KDropSpan hd) :: h)) in
  (forall th', get_thread s' t = Some th' -> th_outbox th' = []) ->
  no_process h1 ->
  let s1 := fst (run s' h1) in
  s_pc s1 = PDrained -> s_cancelable s1 = false ->
  no_process h2 ->
  let s2 := fst (run s1 (ACProcess :: ACBegin :: h2)) in
  s_pc s2 = PDrained -> s_cancelable s2 = false ->
  exists recs st n,
    (snd (step s1 ACProcess) = OReport recs st n \/ snd (step s2 ACProcess) = OReport recs st n) /\
    In (ti_trace it, r_id (sp_raw sp), ti_parent it) (map core3 recs).
Proof.
  intros s Hg Ho Hp Hd Hsp Hit Hroom Hq s' Hend Hn1 s1 Hpc1 Hc1 Hn2 s2 Hpc2 Hc2.
  assert (Hkind : r_kind (sp_raw sp) = KSpan).
  { apply (reachable_spans_kspan dbg ringcap stackcap qcap h0 hd). apply alookup_in. exact Hsp. }
  assert (Hgood : good s) by (apply run_good; apply good_init).
  set (e := mkEnv (th_prefix th) (th_suffix th) (clock_of_step (s_nstep (s_tick s)))).
  set (raw := raw_set_end (fst (now e)) (sp_raw sp)).
  set (out := submit (SSpan raw) (sp_token sp) ++ match sp_cid sp with Some c => [(true, CCommit c)] | None => [] end).
  assert (Ex : exec_call (s_tick s) th e (KDropSpan hd) =
               COk (s_set_spans (s_tick s) (aremove hd (s_spans (s_tick s)))) th (snd (now e)) out RUnit).
  { unfold exec_call. rewrite Hsp. rewrite drop_span_spec. reflexivity. }
  assert (Hne : filter ti_sampled (sp_token sp) <> []) by (intros E0; rewrite E0 in Hit; destruct Hit).
  assert (Hsub : submit (SSpan raw) (sp_token sp) = [(false, CSubmit (SSpan raw) (filter ti_sampled (sp_token sp)))])
    by (apply submit_one; exact Hne).
  assert (Hlen : lenN out <= 2).
  { unfold out. rewrite Hsub. destruct (sp_cid sp); unfold lenN; simpl; lia. }
  assert (Hland : landed t (CSubmit (SSpan raw) (filter ti_sampled (sp_token sp))) s').
  { apply (call_commands_land s t (KDropSpan hd) th _ th _ out RUnit h (proj1 Hgood) Hg Ho Hp Hd Ex); auto; [lia|].
    unfold out. rewrite Hsub. simpl. left. reflexivity. }
  assert (Hgood' : good s') by (apply run_good; exact Hgood).
  destruct (landed_is_reported_within_two_cycles s' h1 h2 t (SSpan raw) (filter ti_sampled (sp_token sp)) it
              Hgood' Hland Hit Hn1 Hpc1 Hc1 Hn2 Hpc2 Hc2) as (recs & st & n & Hor & Hincl).
  exists recs, st, n. split; [exact Hor|].
  apply Hincl. unfold coll_cores. cbn [cl_set cl_trace cl_parent].
  assert (Hk : RecordsProofs.is_kspan raw = true).
  { unfold RecordsProofs.is_kspan, raw. cbn [r_kind raw_set_end]. rewrite Hkind. reflexivity. }
  rewrite Hk. left. reflexivity.
Qed.

