(* C18 on the thread-local layer: what any well-nested program records in a local-span set
   is a properly nested forest in time.  [nested par lo hi l]: the raw spans [l], in queue
   order, are the pre-order listing of a forest whose roots have parent id [par]; every time
   lies in (lo, hi]; a span's interval strictly contains everything recorded inside it (child
   spans and events, which carry the span's id as parent); whatever follows a span at the
   same level begins after the span's end (siblings do not overlap); properties entries carry
   no time.  No hypothesis on ids (prefix 0 and wrap-around included), no bound on depth. *)
From Coq Require Import List Arith NArith Bool Lia.
From FT Require Import Model.Base Model.Local Model.LocalProg.
Import ListNotations.
Open Scope N_scope.

Inductive nested : N -> N -> N -> list raw -> Prop :=
| n_nil par lo hi : lo <= hi -> nested par lo hi []
| n_event par lo hi r rest :
    r_kind r = KEvent -> r_parent r = par -> lo < r_begin r ->
    nested par (r_begin r) hi rest -> nested par lo hi (r :: rest)
| n_props par lo hi r rest :
    r_kind r = KProps -> r_parent r = par ->
    nested par lo hi rest -> nested par lo hi (r :: rest)
| n_span par lo hi sp inner hin rest :
    r_kind sp = KSpan -> r_parent sp = par -> lo < r_begin sp ->
    nested (r_id sp) (r_begin sp) hin inner -> hin < r_end sp ->
    nested par (r_end sp) hi rest -> nested par lo hi (sp :: inner ++ rest).

Lemma nested_le par lo hi l : nested par lo hi l -> lo <= hi.
Proof. induction 1; lia. Qed.

Lemma nested_weaken par lo hi l lo' hi' :
  nested par lo hi l -> lo' <= lo -> hi <= hi' -> nested par lo' hi' l.
Proof.
  intros H; revert lo' hi'; induction H; intros lo' hi' Hlo Hhi.
  - constructor; lia.
  - eapply n_event; eauto; try lia. apply IHnested; lia.
  - eapply n_props; eauto.
  - eapply n_span; eauto; try lia. apply IHnested2; lia.
Qed.

Lemma nested_app par lo mid hi a b :
  nested par lo mid a -> nested par mid hi b -> nested par lo hi (a ++ b).
Proof.
  intros H; revert hi b; induction H; intros hi' b Hb.
  - simpl. eapply nested_weaken; eauto; lia.
  - simpl. eapply n_event; eauto.
  - simpl. eapply n_props; eauto.
  - simpl. rewrite <- app_assoc. eapply n_span; eauto.
Qed.

(* what the forest shape says about the individual entries *)
Definition in_window (lo hi : N) (r : raw) : Prop :=
  match r_kind r with
  | KSpan => lo < r_begin r /\ r_begin r < r_end r /\ r_end r <= hi
  | KEvent => lo < r_begin r /\ r_begin r <= hi
  | KProps => True
  end.

Lemma in_window_weaken lo hi lo' hi' r :
  in_window lo hi r -> lo' <= lo -> hi <= hi' -> in_window lo' hi' r.
Proof. unfold in_window; destruct (r_kind r); intros; lia. Qed.

Lemma nested_window par lo hi l : nested par lo hi l -> Forall (in_window lo hi) l.
Proof.
  induction 1.
  - constructor.
  - constructor.
    + unfold in_window. rewrite H. apply nested_le in H2. lia.
    + eapply Forall_impl; [|exact IHnested]. intros a Ha. eapply in_window_weaken; eauto; lia.
  - constructor; auto. unfold in_window. rewrite H. exact I.
  - pose proof (nested_le _ _ _ _ H2) as L1. pose proof (nested_le _ _ _ _ H4) as L2.
    constructor.
    + unfold in_window. rewrite H. lia.
    + apply Forall_app. split.
      * eapply Forall_impl; [|exact IHnested1]. intros a Ha. eapply in_window_weaken; eauto; lia.
      * eapply Forall_impl; [|exact IHnested2]. intros a Ha. eapply in_window_weaken; eauto; lia.
Qed.

(* ---------------------------------------------------------------- the stack relation *)
Definition curpar (l : sline) : N := odefault 0 (q_next (l_q l)).

Definition line_tx (lo hi : N) (l l' : sline) : Prop :=
  l_epoch l' = l_epoch l /\ l_sampled l' = l_sampled l /\ l_token l' = l_token l /\
  q_cap (l_q l') = q_cap (l_q l) /\ curpar l' = curpar l /\
  exists added, q_spans (l_q l') = q_spans (l_q l) ++ added /\ nested (curpar l) lo hi added.

Definition tx (lo hi : N) (st st' : stack) : Prop :=
  st_cap st' = st_cap st /\ st_qcap st' = st_qcap st /\
  match st_lines st with
  | [] => st_lines st' = []
  | l :: ls => exists l', st_lines st' = l' :: ls /\ line_tx lo hi l l'
  end.

Lemma line_tx_refl lo hi l : lo <= hi -> line_tx lo hi l l.
Proof.
  intros H. unfold line_tx. repeat split; auto. exists []. rewrite app_nil_r. split; auto. constructor; auto.
Qed.

Lemma tx_refl lo hi st : lo <= hi -> tx lo hi st st.
Proof.
  intros H. unfold tx. repeat split; auto. destruct (st_lines st) as [|l ls]; auto.
  exists l. split; auto. apply line_tx_refl; auto.
Qed.

Lemma line_tx_trans lo mid hi a b c :
  line_tx lo mid a b -> line_tx mid hi b c -> line_tx lo hi a c.
Proof.
  intros (A1 & A2 & A3 & A4 & A5 & m1 & A6 & A7) (B1 & B2 & B3 & B4 & B5 & m2 & B6 & B7).
  unfold line_tx. repeat split; try congruence.
  exists (m1 ++ m2). split.
  - rewrite B6, A6, app_assoc. reflexivity.
  - rewrite A5 in B7. eapply nested_app; eauto.
Qed.

Lemma tx_trans lo mid hi a b c : tx lo mid a b -> tx mid hi b c -> tx lo hi a c.
Proof.
  unfold tx. intros (A1 & A2 & A3) (B1 & B2 & B3). repeat split; try congruence.
  destruct (st_lines a) as [|l ls].
  - rewrite A3 in B3. exact B3.
  - destruct A3 as (l' & E & T). rewrite E in B3. destruct B3 as (l'' & E' & T').
    exists l''. split; auto. eapply line_tx_trans; eauto.
Qed.

Lemma stack_eta' st : st = mkStack (st_lines st) (st_cap st) (st_next_epoch st) (st_qcap st).
Proof. destruct st; reflexivity. Qed.

Lemma list_update_mid {A} (f : A -> A) (a : list A) x b :
  list_update (length a) f (a ++ x :: b) = a ++ f x :: b.
Proof. induction a as [|y a IH]; simpl; auto. rewrite IH. reflexivity. Qed.

Lemma nth_error_mid {A} (a : list A) x b : nth_error (a ++ x :: b) (length a) = Some x.
Proof. induction a; simpl; auto. Qed.

Lemma lenN_to_nat {A} (l : list A) : N.to_nat (lenN l) = length l.
Proof. unfold lenN. apply Nnat.Nat2N.id. Qed.

(* ---------------------------------------------------------------- single operations *)
Lemma add_event_tx st name ps e st' e' :
  s_add_event st name ps e = (st', e') ->
  e_clock e <= e_clock e' /\ tx (e_clock e) (e_clock e') st st'.
Proof.
  unfold s_add_event. destruct (st_lines st) as [|l ls] eqn:El.
  - intros H; inversion H; subst. split; [lia|]. apply tx_refl; lia.
  - unfold l_add_event. destruct (l_sampled l) eqn:Es; simpl.
    + unfold q_add_event. destruct (q_full (l_q l)); simpl; intros H; inversion H; subst; clear H.
      * split; [lia|]. unfold tx; simpl. rewrite El. repeat split; auto.
        eexists. split; [reflexivity|]. unfold line_tx, l_set_q, curpar; simpl. repeat split; auto.
        exists []. rewrite app_nil_r. split; auto. constructor; lia.
      * simpl. split; [lia|]. unfold tx; simpl. rewrite El. repeat split; auto.
        eexists. split; [reflexivity|]. unfold line_tx, l_set_q, curpar; simpl. repeat split; auto.
        eexists. split; [reflexivity|].
        eapply n_event; simpl; auto; try lia. constructor; lia.
    + intros H; inversion H; subst. split; [lia|]. unfold tx; simpl. rewrite El. repeat split; auto.
      exists l. split; auto. apply line_tx_refl; lia.
Qed.

Lemma add_props_tx st ps e st' e' :
  s_add_props st ps e = (st', e') ->
  e_clock e <= e_clock e' /\ tx (e_clock e) (e_clock e') st st'.
Proof.
  unfold s_add_props. destruct (st_lines st) as [|l ls] eqn:El.
  - intros H; inversion H; subst. split; [lia|]. apply tx_refl; lia.
  - unfold l_add_props. destruct (l_sampled l) eqn:Es; simpl.
    + unfold q_add_props. destruct (q_full (l_q l)); simpl; intros H; inversion H; subst; clear H.
      * split; [lia|]. unfold tx; simpl. rewrite El. repeat split; auto.
        eexists. split; [reflexivity|]. unfold line_tx, l_set_q, curpar; simpl. repeat split; auto.
        exists []. rewrite app_nil_r. split; auto. constructor; lia.
      * simpl. split; [lia|]. unfold tx; simpl. rewrite El. repeat split; auto.
        eexists. split; [reflexivity|]. unfold line_tx, l_set_q, curpar; simpl. repeat split; auto.
        eexists. split; [reflexivity|].
        eapply n_props; simpl; auto. constructor; lia.
    + intros H; inversion H; subst. split; [lia|]. unfold tx; simpl. rewrite El. repeat split; auto.
      exists l. split; auto. apply line_tx_refl; lia.
Qed.

(* the top line while a span entered at index |spans0| is open *)
Definition open_at (l0 l : sline) (sp : raw) : Prop :=
  l_epoch l = l_epoch l0 /\ l_sampled l = true /\ l_sampled l0 = true /\ l_token l = l_token l0 /\
  q_cap (l_q l) = q_cap (l_q l0) /\
  q_next (l_q l) = Some (r_id sp) /\ q_spans (l_q l) = q_spans (l_q l0) ++ [sp] /\
  r_kind sp = KSpan /\ r_parent sp = curpar l0.

Lemma s_enter_open st name e h st1 e1 :
  s_enter st name e = (Some (h, st1), e1) ->
  exists l0 ls l1 sp, st_lines st = l0 :: ls /\ st_lines st1 = l1 :: ls /\
    st_cap st1 = st_cap st /\ st_qcap st1 = st_qcap st /\
    h = (l_epoch l0, lenN (q_spans (l_q l0))) /\ open_at l0 l1 sp /\
    r_begin sp = e_clock e + 1 /\ e_clock e1 = e_clock e + 1.
Proof.
  unfold s_enter. destruct (st_lines st) as [|l0 ls] eqn:El; [discriminate|].
  unfold l_start. destruct (l_sampled l0) eqn:Es; simpl; [|discriminate].
  unfold q_start. destruct (q_full (l_q l0)); [discriminate|].
  simpl. intros H. inversion H; subst; clear H.
  exists l0, ls. eexists. eexists. split; [reflexivity|]. split; [reflexivity|].
  simpl. repeat split; auto.
Qed.

Lemma s_enter_none' st name e e1 : s_enter st name e = (None, e1) -> e1 = e.
Proof.
  unfold s_enter. destruct (st_lines st) as [|l0 ls]; [intros H; inversion H; auto|].
  unfold l_start. destruct (l_sampled l0); simpl; [|intros H; inversion H; auto].
  unfold q_start. destruct (q_full (l_q l0)); simpl; intros H; inversion H; auto.
Qed.

Lemma with_props_open dbg l0 l1 sp ls cap ne qc ps st2 :
  open_at l0 l1 sp ->
  s_with_props dbg (mkStack (l1 :: ls) cap ne qc) (l_epoch l0, lenN (q_spans (l_q l0))) ps = Ok st2 ->
  exists l2 sp2, st2 = mkStack (l2 :: ls) cap ne qc /\ open_at l0 l2 sp2 /\ r_begin sp2 = r_begin sp.
Proof.
  intros (O1 & O2 & O3 & O4 & O5 & O6 & O7 & O8 & O9).
  unfold s_with_props; simpl.
  assert (Hep : l_epoch l1 =? l_epoch l0 = true) by (apply N.eqb_eq; congruence).
  rewrite Hep, andb_false_r. unfold l_with_props; simpl. rewrite O2, Hep; simpl.
  unfold q_with_props. rewrite O7, lenN_to_nat, nth_error_mid, list_update_mid. simpl.
  intros H; inversion H; subst; clear H.
  eexists. exists (raw_add_props ps sp). split; [reflexivity|]. split; [|reflexivity].
  unfold open_at, l_set_q; simpl. repeat split; auto.
Qed.

Lemma s_exit_open dbg l0 sp l3 ls cap ne qc e3 st4 e4 inner hin :
  l_epoch l3 = l_epoch l0 -> l_sampled l3 = l_sampled l0 -> l_token l3 = l_token l0 ->
  q_cap (l_q l3) = q_cap (l_q l0) ->
  q_spans (l_q l3) = (q_spans (l_q l0) ++ [sp]) ++ inner ->
  r_kind sp = KSpan -> r_parent sp = curpar l0 ->
  nested (r_id sp) (r_begin sp) hin inner -> hin <= e_clock e3 ->
  s_exit dbg (mkStack (l3 :: ls) cap ne qc) (l_epoch l0, lenN (q_spans (l_q l0))) e3 = Ok (st4, e4) ->
  e_clock e4 = e_clock e3 + 1 /\
  exists l4, st4 = mkStack (l4 :: ls) cap ne qc /\
    forall lo, lo < r_begin sp -> line_tx lo (e_clock e4) l0 l4.
Proof.
  intros X1 X2 X3 X4 X5 K P Hn Hh.
  unfold s_exit; simpl.
  assert (Hep : l_epoch l3 =? l_epoch l0 = true) by (apply N.eqb_eq; congruence).
  rewrite Hep, andb_false_r. unfold l_finish; simpl. rewrite Hep. unfold q_finish.
  rewrite X5, <- app_assoc, lenN_to_nat. simpl. rewrite nth_error_mid.
  destruct (dbg && negb match q_next (l_q l3) with Some n => n =? r_id sp | None => false end); [discriminate|].
  simpl. rewrite list_update_mid. intros H; inversion H; subst; clear H. simpl.
  split; [reflexivity|]. eexists. split; [reflexivity|].
  intros lo Hlo. unfold line_tx, l_set_q, curpar; simpl. repeat split; auto.
  - rewrite P. unfold curpar. destruct (odefault 0 (q_next (l_q l0)) =? 0) eqn:E0; simpl; auto.
    apply N.eqb_eq in E0. auto.
  - eexists. split; [reflexivity|].
    replace (raw_set_end (e_clock e3 + 1) sp :: inner) with (raw_set_end (e_clock e3 + 1) sp :: inner ++ []) by (rewrite app_nil_r; reflexivity).
    pose proof (nested_le _ _ _ _ Hn) as Hle.
    eapply n_span with (hin := hin); simpl; auto; try lia.
    constructor; lia.
Qed.

(* ---------------------------------------------------------------- every well-nested program *)
Theorem exec_timed dbg p : forall st e st' e',
  exec dbg p st e = Ok (st', e') ->
  e_clock e <= e_clock e' /\ tx (e_clock e) (e_clock e') st st'.
Proof.
  induction p as [|p IHp q IHq|name ps|ps|name wp body IH|tk body IH]; intros st e st' e' E; simpl in E.
  - inversion E; subst. split; [lia|]. apply tx_refl; lia.
  - destruct (exec dbg p st e) as [[st1 e1]|] eqn:E1; simpl in E; [|discriminate].
    destruct (IHp _ _ _ _ E1) as (M1 & T1). destruct (IHq _ _ _ _ E) as (M2 & T2).
    split; [lia|]. eapply tx_trans; eauto.
  - inversion E as [E0]. apply add_event_tx in E0. exact E0.
  - destruct (s_is_current_recording st).
    + inversion E as [E0]. apply add_props_tx in E0. exact E0.
    + inversion E; subst. split; [lia|]. apply tx_refl; lia.
  - destruct (s_enter st name e) as [[[h st1]|] e1] eqn:En.
    + apply s_enter_open in En.
      destruct En as (l0 & ls & l1 & sp & L0 & L1 & C1 & Q1 & Hh & Hop & Hb & Hc).
      subst h.
      (* optional with_properties *)
      assert (W : exists st2, match wp with
                  | Some ps => if s_is_recording st1 (l_epoch l0, lenN (q_spans (l_q l0)))
                               then s_with_props dbg st1 (l_epoch l0, lenN (q_spans (l_q l0))) ps else Ok st1
                  | None => Ok st1 end = Ok st2 /\
                  exists l2 sp2, st2 = mkStack (l2 :: ls) (st_cap st1) (st_next_epoch st1) (st_qcap st1) /\
                                 open_at l0 l2 sp2 /\ r_begin sp2 = r_begin sp).
      { destruct (match wp with
                  | Some ps => if s_is_recording st1 (l_epoch l0, lenN (q_spans (l_q l0)))
                               then s_with_props dbg st1 (l_epoch l0, lenN (q_spans (l_q l0))) ps else Ok st1
                  | None => Ok st1 end) as [st2|] eqn:EW; [|discriminate].
        exists st2. split; auto.
        destruct wp as [ps|].
        - destruct (s_is_recording st1 (l_epoch l0, lenN (q_spans (l_q l0)))).
          + rewrite (stack_eta' st1), L1 in EW. simpl in EW.
            eapply with_props_open in EW; eauto.
          + inversion EW; subst. exists l1, sp. split; [|split; auto].
            rewrite (stack_eta' st2) at 1. rewrite L1. reflexivity.
        - inversion EW; subst. exists l1, sp. split; [|split; auto].
          rewrite (stack_eta' st2) at 1. rewrite L1. reflexivity. }
      destruct W as (st2 & EW & l2 & sp2 & S2 & O2 & B2). rewrite EW in E; simpl in E.
      destruct (exec dbg body st2 e1) as [[st3 e3]|] eqn:E3; simpl in E; [|discriminate].
      destruct (IH _ _ _ _ E3) as (M3 & T3).
      destruct T3 as (C3 & Q3 & T3). rewrite S2 in T3; simpl in T3.
      destruct T3 as (l3 & L3 & (X1 & X2 & X3 & X4 & X5 & inner & X6 & X7)).
      destruct O2 as (O1 & O2 & O3 & O4 & O5 & O6 & O7 & O8 & O9).
      rewrite (stack_eta' st3), L3 in E.
      assert (Hcp : curpar l2 = r_id sp2) by (unfold curpar; rewrite O6; reflexivity).
      rewrite Hcp in X7.
      eapply s_exit_open with (inner := inner) (sp := sp2) (hin := e_clock e3) in E; eauto; try congruence; try lia.
      * destruct E as (Hc4 & l4 & S4 & T4).
        split; [lia|]. subst st'.
        unfold tx. rewrite S2 in C3, Q3; simpl in C3, Q3.
        simpl. rewrite L0. repeat split; try congruence.
        exists l4. split; auto. rewrite Hc4 in T4. rewrite Hc4. apply T4. lia.
    + apply s_enter_none' in En; subst e1. eapply IH; eauto.
  - unfold s_register in E. destruct (st_cap st <=? lenN (st_lines st)).
    + eapply IH; eauto.
    + set (ep := st_next_epoch st) in *.
      set (st1 := mkStack (l_new (st_qcap st) ep tk :: st_lines st) (st_cap st) ((ep + 1) mod two64) (st_qcap st)) in *.
      destruct (exec dbg body st1 e) as [[st2 e2]|] eqn:E2; simpl in E; [|discriminate].
      destruct (IH _ _ _ _ E2) as (M2 & C2 & Q2 & T2). unfold st1 in T2; simpl in T2.
      destruct T2 as (l2 & L2 & _).
      unfold s_unregister in E. rewrite L2 in E.
      destruct (dbg && negb (l_epoch l2 =? ep)); simpl in E; [discriminate|].
      inversion E; subst. split; [exact M2|].
      unfold tx; simpl. unfold st1 in C2, Q2; simpl in C2, Q2. repeat split; auto.
      destruct (st_lines st) as [|l ls]; auto.
      exists l. split; auto. apply line_tx_refl; auto.
Qed.

(* what a local-parent scope or a LocalCollector collects: a nested forest within the scope's
   own time window, whose roots have no local parent (parent id 0 = "attach under the
   scope's span") *)
Theorem scope_set_nested dbg body st e st2 e2 tk :
  (st_cap st <=? lenN (st_lines st)) = false ->
  exec dbg body (mkStack (l_new (st_qcap st) (st_next_epoch st) tk :: st_lines st) (st_cap st)
                         ((st_next_epoch st + 1) mod two64) (st_qcap st)) e = Ok (st2, e2) ->
  exists l2, st_lines st2 = l2 :: st_lines st /\
    l_collect l2 (st_next_epoch st) = Some (q_spans (l_q l2), tk) /\
    nested 0 (e_clock e) (e_clock e2) (q_spans (l_q l2)).
Proof.
  intros Hcap E. destruct (exec_timed _ _ _ _ _ _ E) as (M & _ & _ & T). simpl in T.
  destruct T as (l2 & L2 & (X1 & _ & X3 & _ & _ & added & X6 & X7)).
  exists l2. split; auto. unfold l_new in *; simpl in *. split.
  - unfold l_collect. rewrite X1, N.eqb_refl, X3. reflexivity.
  - rewrite X6. exact X7.
Qed.

(* the clauses of C18 read off the forest shape *)
Theorem span_contains_inner par hi sp inner hin rest :
  r_kind sp = KSpan -> nested (r_id sp) (r_begin sp) hin inner -> hin < r_end sp ->
  nested par (r_end sp) hi rest ->
  Forall (in_window (r_begin sp) (r_end sp - 1)) inner /\      (* strictly inside the span *)
  Forall (in_window (r_end sp) hi) rest.                        (* later siblings start after its end *)
Proof.
  intros K Hin Hh Hrest. split.
  - eapply Forall_impl; [|eapply nested_window; exact Hin].
    intros a Ha. eapply in_window_weaken; eauto; lia.
  - eapply nested_window; eauto.
Qed.
