(* What the collector does with one batch (Model/Collector.v), for every batch and every
   collector state.  Records carry the ghost tag of the collect id they were delivered for
   ([process_owned]); [process] is its erasure and is what the system model reports. *)
From Coq Require Import List NArith Bool Lia.
From FT Require Import Model.Base Model.Records Model.Collector.
Import ListNotations.
Open Scope N_scope.

(* ---------------------------------------------------------------- association lists *)
Section AList.
Context {A : Type}.

Lemma alookup_aremove_same k (l : list (N * A)) : alookup k (aremove k l) = None.
Proof.
  induction l as [|[k' v] l IH]; simpl; auto.
  destruct (k =? k') eqn:E; auto. simpl. rewrite E. auto.
Qed.

Lemma alookup_aremove_other k k' (l : list (N * A)) :
  k <> k' -> alookup k (aremove k' l) = alookup k l.
Proof.
  intros Hne. induction l as [|[k2 v] l IH]; simpl; auto.
  destruct (k' =? k2) eqn:E.
  - apply N.eqb_eq in E; subst. destruct (k =? k2) eqn:E2; auto.
    apply N.eqb_eq in E2; congruence.
  - simpl. destruct (k =? k2); auto.
Qed.

Lemma amem_aremove_same k (l : list (N * A)) : amem k (aremove k l) = false.
Proof. unfold amem. rewrite alookup_aremove_same. reflexivity. Qed.

Lemma amem_aremove_other k k' (l : list (N * A)) : k <> k' -> amem k (aremove k' l) = amem k l.
Proof. intros. unfold amem. rewrite alookup_aremove_other; auto. Qed.

Lemma amem_aremove_false k k' (l : list (N * A)) : amem k l = false -> amem k (aremove k' l) = false.
Proof.
  destruct (N.eq_dec k k') as [->|Hne]; intros.
  - apply amem_aremove_same.
  - rewrite amem_aremove_other; auto.
Qed.

Lemma alookup_aset_same k v (l : list (N * A)) : alookup k (aset k v l) = Some v.
Proof. unfold aset; simpl. rewrite N.eqb_refl. reflexivity. Qed.

Lemma alookup_aset_other k k' v (l : list (N * A)) :
  k <> k' -> alookup k (aset k' v l) = alookup k l.
Proof.
  intros Hne. unfold aset; simpl. destruct (k =? k') eqn:E.
  - apply N.eqb_eq in E; congruence.
  - apply alookup_aremove_other; auto.
Qed.

Lemma alookup_aupdate k k' f (l : list (N * A)) :
  alookup k (aupdate k' f l) =
  if k =? k' then option_map f (alookup k l) else alookup k l.
Proof.
  induction l as [|[k2 v] l IH]; simpl.
  - destruct (k =? k'); reflexivity.
  - destruct (k' =? k2) eqn:E.
    + apply N.eqb_eq in E; subst. simpl. destruct (k =? k2) eqn:E2; reflexivity.
    + simpl. destruct (k =? k2) eqn:E2.
      * apply N.eqb_eq in E2; subst. rewrite N.eqb_sym, E. reflexivity.
      * exact IH.
Qed.

Lemma amem_aupdate k k' f (l : list (N * A)) : amem k (aupdate k' f l) = amem k l.
Proof.
  unfold amem. rewrite alookup_aupdate. destruct (k =? k'); auto.
  destruct (alookup k l); reflexivity.
Qed.

End AList.

Section Conv.
Variable conv : N -> N.

(* ---------------------------------------------------------------- starts, drops *)
Lemma do_starts_amem am l c :
  amem c (do_starts am l) = amem c am || existsb (N.eqb c) l.
Proof.
  unfold do_starts. revert am. induction l as [|x l IH]; intros am; simpl.
  - rewrite orb_false_r; reflexivity.
  - rewrite IH. unfold amem at 1.
    destruct (N.eq_dec c x) as [->|Hne].
    + rewrite alookup_aset_same, N.eqb_refl. simpl. rewrite orb_true_r. reflexivity.
    + rewrite alookup_aset_other by auto. fold (amem c am).
      replace (c =? x) with false by (symmetry; apply N.eqb_neq; auto). reflexivity.
Qed.

Lemma fold_aremove_false (am : active_map) l c :
  amem c am = false -> amem c (fold_left (fun m x => aremove x m) l am) = false.
Proof.
  revert am; induction l as [|x l IH]; intros am H; simpl; auto.
  apply IH. apply amem_aremove_false; auto.
Qed.

Lemma fold_aremove_in (am : active_map) l c :
  In c l -> amem c (fold_left (fun m x => aremove x m) l am) = false.
Proof.
  revert am; induction l as [|x l IH]; intros am H; simpl; [contradiction|].
  destruct H as [->|H].
  - apply fold_aremove_false. apply amem_aremove_same.
  - apply IH; auto.
Qed.

Lemma do_drops_cancelable_in am l c : In c l -> amem c (do_drops true am l) = false.
Proof. unfold do_drops. apply fold_aremove_in. Qed.

(* ---------------------------------------------------------------- submits *)
Lemma submit_item_amem cb s st it c :
  amem c (fst (submit_item cb s st it)) = amem c (fst st).
Proof.
  destruct st as [am stale]; unfold submit_item; simpl.
  destruct (amem (ti_collect it) am); simpl.
  - apply amem_aupdate.
  - destruct cb; reflexivity.
Qed.

Lemma fold_submit_item_amem cb s tk st c :
  amem c (fst (fold_left (submit_item cb s) tk st)) = amem c (fst st).
Proof.
  revert st; induction tk as [|it tk IH]; intros st; simpl; auto.
  rewrite IH. apply submit_item_amem.
Qed.

Lemma do_submits_amem cb am l c : amem c (fst (do_submits cb am l)) = amem c am.
Proof.
  unfold do_submits.
  assert (H : forall st, amem c (fst (fold_left
             (fun st sub => fold_left (submit_item cb (fst sub)) (snd sub) st) l st)) = amem c (fst st)).
  { induction l as [|sub l IH]; intros st; simpl; auto.
    rewrite IH. apply fold_submit_item_amem. }
  apply (H (am, [])).
Qed.

(* in cancelable mode nothing is ever put on the stale list *)
Lemma submit_item_cancelable_stale s st it :
  snd st = [] -> snd (submit_item true s st it) = [].
Proof.
  destruct st as [am stale]; unfold submit_item; simpl. intros ->.
  destruct (amem (ti_collect it) am); reflexivity.
Qed.

Lemma fold_submit_item_cancelable_stale s tk st :
  snd st = [] -> snd (fold_left (submit_item true s) tk st) = [].
Proof.
  revert st; induction tk as [|it tk IH]; intros st Hst; simpl; auto.
  apply IH. apply submit_item_cancelable_stale; auto.
Qed.

Lemma do_submits_cancelable_stale am l : snd (do_submits true am l) = [].
Proof.
  unfold do_submits.
  assert (H : forall st, snd st = [] -> snd (fold_left
             (fun st sub => fold_left (submit_item true (fst sub)) (snd sub) st) l st) = []).
  { induction l as [|sub l IH]; intros st Hst; simpl; auto.
    apply IH. apply fold_submit_item_cancelable_stale; auto. }
  apply H; reflexivity.
Qed.

(* every stale collection is tagged with a collect id that is not active *)
Lemma submit_item_stale_tags cb s st it c :
  In c (map fst (snd (submit_item cb s st it))) ->
  In c (map fst (snd st)) \/ (c = ti_collect it /\ amem c (fst st) = false /\ cb = false).
Proof.
  destruct st as [am stale]; unfold submit_item; simpl.
  destruct (amem (ti_collect it) am) eqn:E; simpl; auto.
  destruct cb; simpl; auto.
  rewrite map_app, in_app_iff; simpl. intros [H|[H|[]]]; auto.
  subst; right; auto.
Qed.

(* ---------------------------------------------------------------- commits *)
Lemma do_commits_tags am l c r :
  In (c, r) (snd (do_commits conv am l)) -> In c l.
Proof.
  unfold do_commits.
  assert (H : forall st, In (c, r) (snd (fold_left (fun st c =>
               match alookup c (fst st) with
               | Some a => (aremove c (fst st),
                            snd st ++ tag c (fst (postprocess conv (a_colls a) (a_dang a))))
               | None => st
               end) l st)) -> In (c, r) (snd st) \/ In c l).
  { induction l as [|x l IH]; intros st Hin; simpl in *; auto.
    apply IH in Hin. destruct Hin as [Hin|Hin]; auto.
    destruct (alookup x (fst st)); simpl in Hin; auto.
    apply in_app_iff in Hin. destruct Hin as [Hin|Hin]; auto.
    unfold tag in Hin. apply in_map_iff in Hin. destruct Hin as [r' [Heq _]].
    inversion Heq; subst; auto. }
  intros Hin. apply H in Hin. destruct Hin as [[]|Hin]; auto.
Qed.

(* a committed record was produced from an entry that was active *)
Lemma do_commits_tags_active am l c r :
  In (c, r) (snd (do_commits conv am l)) -> amem c am = true.
Proof.
  unfold do_commits.
  assert (H : forall st, In (c, r) (snd (fold_left (fun st c =>
               match alookup c (fst st) with
               | Some a => (aremove c (fst st),
                            snd st ++ tag c (fst (postprocess conv (a_colls a) (a_dang a))))
               | None => st
               end) l st)) -> In (c, r) (snd st) \/ amem c (fst st) = true).
  { induction l as [|x l IH]; intros st Hin; simpl in *; auto.
    apply IH in Hin. clear IH.
    destruct (alookup x (fst st)) eqn:E; simpl in Hin; auto.
    destruct Hin as [Hin|Hin].
    - apply in_app_iff in Hin. destruct Hin as [Hin|Hin]; auto.
      unfold tag in Hin. apply in_map_iff in Hin. destruct Hin as [r' [Heq _]].
      inversion Heq; subst. right. unfold amem. rewrite E. reflexivity.
    - right. destruct (N.eq_dec c x) as [->|Hne].
      + rewrite amem_aremove_same in Hin. discriminate.
      + rewrite amem_aremove_other in Hin; auto. }
  intros Hin. apply H in Hin. destruct Hin as [[]|Hin]; auto.
Qed.

Definition commit_step (st : active_map * list (N * record)) (c : N) :=
  match alookup c (fst st) with
  | Some a => (aremove c (fst st),
               snd st ++ tag c (fst (postprocess conv (a_colls a) (a_dang a))))
  | None => st
  end.

Lemma commit_fold_keep c l st :
  amem c (fst st) = false -> amem c (fst (fold_left commit_step l st)) = false.
Proof.
  revert st; induction l as [|x l IH]; intros [am0 rs0] Hst; simpl; auto.
  apply IH. unfold commit_step. simpl in *. destruct (alookup x am0); simpl; auto.
  apply amem_aremove_false; auto.
Qed.

Lemma commit_fold_removes c l st :
  In c l -> amem c (fst (fold_left commit_step l st)) = false.
Proof.
  revert st; induction l as [|x l IH]; intros [am0 rs0] Hin; simpl; [contradiction|].
  destruct Hin as [->|Hin].
  - apply commit_fold_keep. unfold commit_step. simpl. destruct (alookup c am0) eqn:E; simpl.
    + apply amem_aremove_same.
    + unfold amem. rewrite E. reflexivity.
  - apply IH; auto.
Qed.

Lemma do_commits_removes am l c : In c l -> amem c (fst (do_commits conv am l)) = false.
Proof. intros H. exact (commit_fold_removes c l (am, []) H). Qed.

Lemma do_commits_amem_false am l c : amem c am = false -> amem c (fst (do_commits conv am l)) = false.
Proof.
  unfold do_commits. revert am.
  assert (H : forall st, amem c (fst st) = false ->
            amem c (fst (fold_left (fun st c =>
               match alookup c (fst st) with
               | Some a => (aremove c (fst st),
                            snd st ++ tag c (fst (postprocess conv (a_colls a) (a_dang a))))
               | None => st
               end) l st)) = false).
  { induction l as [|x l IH]; intros st Hst; simpl; auto.
    apply IH. destruct (alookup x (fst st)); simpl; auto. apply amem_aremove_false; auto. }
  intros am; apply (H (am, [])).
Qed.

(* ---------------------------------------------------------------- default-mode flush *)
Lemma flush_active_keys am c :
  amem c (fst (flush_active conv am)) = amem c am.
Proof.
  unfold flush_active.
  assert (H : forall acc recs,
            amem c (fst (fold_left (fun st ka =>
               let (recs, d) := postprocess conv (a_colls (snd ka)) (a_dang (snd ka)) in
               (fst st ++ [(fst ka, mkActive [] d)], snd st ++ tag (fst ka) recs)) am (acc, recs)))
            = amem c acc || amem c am).
  { induction am as [|[k a] am IH]; intros acc recs; simpl.
    - rewrite orb_false_r; reflexivity.
    - destruct (postprocess conv (a_colls a) (a_dang a)) as [rs d]; simpl.
      rewrite IH. unfold amem.
      assert (Happ : forall (l : active_map) x, alookup c (l ++ [x]) =
                match alookup c l with Some v => Some v | None => if c =? fst x then Some (snd x) else None end).
      { induction l as [|[k2 v2] l IHl]; intros [kx vx]; simpl.
        - reflexivity.
        - destruct (c =? k2); auto. apply IHl. }
      rewrite Happ; simpl. destruct (alookup c acc); simpl; auto.
      destruct (c =? k); simpl; auto. }
  specialize (H [] []). exact H.
Qed.

Lemma flush_active_colls_empty am c a :
  In (c, a) (fst (flush_active conv am)) -> a_colls a = [].
Proof.
  unfold flush_active.
  assert (H : forall acc recs,
            (forall c a, In (c, a) acc -> a_colls a = []) ->
            forall c a, In (c, a) (fst (fold_left (fun st ka =>
               let (recs, d) := postprocess conv (a_colls (snd ka)) (a_dang (snd ka)) in
               (fst st ++ [(fst ka, mkActive [] d)], snd st ++ tag (fst ka) recs)) am (acc, recs))) ->
            a_colls a = []).
  { induction am as [|[k x] am IH]; intros acc recs Hacc c0 a0; simpl; auto.
    - apply Hacc.
    - destruct (postprocess conv (a_colls x) (a_dang x)) as [rs d]; simpl.
      apply IH. intros c1 a1 Hin. apply in_app_iff in Hin. destruct Hin as [Hin|[Heq|[]]].
      + eapply Hacc; eauto.
      + inversion Heq; subst. reflexivity. }
  apply (H [] []). intros ? ? [].
Qed.

(* ---------------------------------------------------------------- the whole batch *)

(* C03 hold: in cancelable mode every reported record belongs to a trace whose commit is in
   this very batch (hence nothing of a trace is reported before its root finished). *)
Theorem cancelable_reports_only_committed am b c r :
  In (c, r) (snd (process_owned conv true am b)) -> In c (b_commit b).
Proof.
  unfold process_owned.
  destruct (do_submits true (do_drops true (do_starts am (b_start b)) (b_drop b)) (b_submit b))
    as [am3 stale] eqn:E3.
  destruct (do_commits conv am3 (b_commit b)) as [am4 committed] eqn:E4. simpl.
  assert (Hs : stale = []).
  { change stale with (snd (am3, stale)). rewrite <- E3. apply do_submits_cancelable_stale. }
  subst stale. simpl. rewrite app_nil_r. intros Hin.
  change committed with (snd (am4, committed)) in Hin. rewrite <- E4 in Hin.
  eapply do_commits_tags; eauto.
Qed.

Corollary cancelable_no_commit_no_report am b :
  b_commit b = [] -> snd (process conv true am b) = [].
Proof.
  intros Hc. unfold process.
  destruct (process_owned conv true am b) as [am' recs] eqn:E. simpl.
  destruct recs as [|[c r] recs]; auto.
  assert (Hin : In (c, r) (snd (process_owned conv true am b))) by (rewrite E; left; reflexivity).
  apply cancelable_reports_only_committed in Hin. rewrite Hc in Hin. destruct Hin.
Qed.

(* C03/C04: a reported record of collect id c was active when the commits were processed:
   c was active before the batch or started in it, and not dropped in it *)
Theorem cancelable_reported_was_active am b c r :
  In (c, r) (snd (process_owned conv true am b)) ->
  (amem c am = true \/ In c (b_start b)) /\ ~ In c (b_drop b).
Proof.
  unfold process_owned.
  destruct (do_submits true (do_drops true (do_starts am (b_start b)) (b_drop b)) (b_submit b))
    as [am3 stale] eqn:E3.
  destruct (do_commits conv am3 (b_commit b)) as [am4 committed] eqn:E4. simpl.
  assert (Hs : stale = []).
  { change stale with (snd (am3, stale)). rewrite <- E3. apply do_submits_cancelable_stale. }
  subst stale. simpl. rewrite app_nil_r. intros Hin.
  change committed with (snd (am4, committed)) in Hin. rewrite <- E4 in Hin.
  apply do_commits_tags_active in Hin.
  change am3 with (fst (am3, @nil (N * collection))) in Hin. rewrite <- E3 in Hin.
  rewrite do_submits_amem in Hin.
  split.
  - destruct (amem c (do_starts am (b_start b))) eqn:Es.
    + rewrite do_starts_amem in Es. apply orb_true_iff in Es. destruct Es as [Es|Es]; auto.
      right. apply existsb_exists in Es. destruct Es as [x [Hx Hc]]. apply N.eqb_eq in Hc; subst; auto.
    + unfold do_drops in Hin. rewrite fold_aremove_false in Hin; auto. discriminate.
  - intros Hd. rewrite do_drops_cancelable_in in Hin; auto. discriminate.
Qed.

(* C04: a cancelled trace (its DropCollect is in the batch) produces no record in this batch,
   whatever else the batch holds -- start, submits and commit of the same trace included *)
Corollary cancel_suppresses am b c r :
  In c (b_drop b) -> ~ In (c, r) (snd (process_owned conv true am b)).
Proof. intros Hd Hin. apply cancelable_reported_was_active in Hin. tauto. Qed.

(* C03 nothing afterwards / C04 later spans: once a trace is not active (committed or
   dropped earlier) and is not started again, nothing of it is ever reported *)
Corollary inactive_stays_silent am b c r :
  amem c am = false -> ~ In c (b_start b) -> ~ In (c, r) (snd (process_owned conv true am b)).
Proof. intros Ha Hs Hin. apply cancelable_reported_was_active in Hin. destruct Hin as [[H|H] _]; congruence. Qed.

(* C08: after the batch a committed trace is not retained (both configurations) *)
Theorem commit_removes cb am b c :
  In c (b_commit b) -> amem c (fst (process_owned conv cb am b)) = false.
Proof.
  intros Hc. unfold process_owned.
  destruct (do_submits cb (do_drops cb (do_starts am (b_start b)) (b_drop b)) (b_submit b))
    as [am3 stale] eqn:E3.
  destruct (do_commits conv am3 (b_commit b)) as [am4 committed] eqn:E4.
  assert (H4 : amem c am4 = false).
  { change am4 with (fst (am4, committed)). rewrite <- E4. apply do_commits_removes; auto. }
  destruct cb; simpl; auto.
  destruct (flush_active conv am4) as [am5 fl] eqn:E5. simpl.
  change am5 with (fst (am5, fl)). rewrite <- E5. rewrite flush_active_keys. auto.
Qed.

(* C08: in cancelable mode a dropped trace is not retained either *)
Theorem drop_removes am b c :
  In c (b_drop b) -> amem c (fst (process_owned conv true am b)) = false.
Proof.
  intros Hd. unfold process_owned.
  destruct (do_submits true (do_drops true (do_starts am (b_start b)) (b_drop b)) (b_submit b))
    as [am3 stale] eqn:E3.
  destruct (do_commits conv am3 (b_commit b)) as [am4 committed] eqn:E4. simpl.
  change am4 with (fst (am4, committed)). rewrite <- E4. apply do_commits_amem_false.
  change am3 with (fst (am3, stale)). rewrite <- E3. rewrite do_submits_amem.
  apply do_drops_cancelable_in; auto.
Qed.

(* C08: the retained set only grows by the traces started in the batch *)
Theorem active_only_started cb am b c :
  amem c (fst (process_owned conv cb am b)) = true -> amem c am = true \/ In c (b_start b).
Proof.
  unfold process_owned.
  destruct (do_submits cb (do_drops cb (do_starts am (b_start b)) (b_drop b)) (b_submit b))
    as [am3 stale] eqn:E3.
  destruct (do_commits conv am3 (b_commit b)) as [am4 committed] eqn:E4.
  assert (H4 : amem c am4 = true -> amem c am = true \/ In c (b_start b)).
  { intros H. destruct (amem c am3) eqn:H3.
    - change am3 with (fst (am3, stale)) in H3. rewrite <- E3 in H3. rewrite do_submits_amem in H3.
      destruct (amem c (do_starts am (b_start b))) eqn:Es.
      + rewrite do_starts_amem in Es. apply orb_true_iff in Es. destruct Es as [Es|Es]; auto.
        right. apply existsb_exists in Es. destruct Es as [x [Hx Hc]]. apply N.eqb_eq in Hc; subst; auto.
      + unfold do_drops in H3. destruct cb; [|congruence].
        rewrite fold_aremove_false in H3; auto. discriminate.
    - change am4 with (fst (am4, committed)) in H. rewrite <- E4 in H.
      rewrite do_commits_amem_false in H; auto. discriminate. }
  destruct cb; simpl; auto.
  destruct (flush_active conv am4) as [am5 fl] eqn:E5. simpl.
  change am5 with (fst (am5, fl)). rewrite <- E5. rewrite flush_active_keys. auto.
Qed.

(* C04: in the default configuration DropCollect commands change nothing at all *)
Theorem default_cancel_noop am b :
  process_owned conv false am b =
  process_owned conv false am (mkBatch (b_start b) [] (b_commit b) (b_submit b)).
Proof. reflexivity. Qed.

(* C01/C08: in the default configuration nothing stays buffered after a cycle *)
Theorem default_nothing_buffered am b c a :
  In (c, a) (fst (process_owned conv false am b)) -> a_colls a = [].
Proof.
  unfold process_owned.
  destruct (do_submits false (do_drops false (do_starts am (b_start b)) (b_drop b)) (b_submit b))
    as [am3 stale].
  destruct (do_commits conv am3 (b_commit b)) as [am4 committed].
  destruct (flush_active conv am4) as [am5 fl] eqn:E5. simpl.
  change am5 with (fst (am5, fl)). rewrite <- E5. apply flush_active_colls_empty.
Qed.

End Conv.
