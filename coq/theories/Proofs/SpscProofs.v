(* The command channel under arbitrary interleavings of the producer's ring pushes with the
   consumer's pops (Model/Spsc.v): forced messages are never lost or reordered while the
   thread lives, unforced ones are either kept in order or dropped, nothing is duplicated.
   The statements hold for every capacity, every message sequence and every schedule. *)
From Coq Require Import List NArith Bool Lia.
From FT Require Import Model.Base Model.Spsc.
Import ListNotations.
Open Scope N_scope.

Section Line.
Context {A : Type}.
Variable forced : A -> bool.

(* The producer's state while it works through the sends it still has to perform: the
   channel, and the outbox of (forced?, message) of which the head is in progress. *)
Record pstate := mkP { p_chan : chan A; p_out : list A; p_popped : list A }.

Inductive mstep := MPush | MPop.

(* One scheduled micro-step: the producer performs one ring push of its current send
   (nothing when it has nothing to send), or the consumer pops once. *)
Definition micro (s : pstate) (m : mstep) : pstate :=
  match m with
  | MPush =>
      match p_out s with
      | [] => s
      | v :: rest =>
          let (c', fin) := push_step (p_chan s) (forced v) v in
          mkP c' (if fin then rest else v :: rest) (p_popped s)
      end
  | MPop =>
      match pop_step (p_chan s) with
      | (Some x, c') => mkP c' (p_out s) (p_popped s ++ [x])
      | (None, _) => s
      end
  end.

Definition run_micro (s : pstate) (ms : list mstep) : pstate := fold_left micro ms s.

(* everything that has been or will be sent, oldest first *)
Definition line (s : pstate) : list A :=
  p_popped s ++ ch_ring (p_chan s) ++ ch_pending (p_chan s) ++ p_out s.

(* l' is l with some elements e (all satisfying drop) removed, order kept *)
Inductive thinned (drop : A -> bool) : list A -> list A -> Prop :=
| th_nil : thinned drop [] []
| th_keep x l l' : thinned drop l l' -> thinned drop (x :: l) (x :: l')
| th_drop x l l' : drop x = true -> thinned drop l l' -> thinned drop (x :: l) l'.

Lemma thinned_refl drop l : thinned drop l l.
Proof. induction l; constructor; auto. Qed.

Lemma thinned_app drop a a' b b' :
  thinned drop a a' -> thinned drop b b' -> thinned drop (a ++ b) (a' ++ b').
Proof. induction 1; simpl; intros; auto; constructor; auto. Qed.

Lemma thinned_trans drop a b c : thinned drop a b -> thinned drop b c -> thinned drop a c.
Proof.
  intros H; revert c; induction H; intros c Hc.
  - exact Hc.
  - inversion Hc; subst.
    + constructor; auto.
    + apply th_drop; auto.
  - apply th_drop; auto.
Qed.

Lemma thinned_filter_keep drop (keep : A -> bool) l l' :
  (forall x, drop x = true -> keep x = false) ->
  thinned drop l l' -> filter keep l' = filter keep l.
Proof.
  intros Hd H; induction H; simpl; auto.
  - rewrite IHthinned; reflexivity.
  - rewrite (Hd _ H); auto.
Qed.

Definition unforced (x : A) : bool := negb (forced x).

(* one micro-step only ever removes unforced messages from the line and never reorders *)
Lemma micro_thins s m : thinned unforced (line s) (line (micro s m)).
Proof.
  destruct s as [c out popped]; destruct m; unfold micro, line; simpl.
  - destruct out as [|v rest]; [apply thinned_refl|].
    unfold push_step.
    destruct (ch_pending c) as [|p ps] eqn:Hp; destruct (ch_room c); destruct (forced v) eqn:Hf;
      simpl; rewrite ?Hp; simpl; rewrite <- ?app_assoc; simpl; rewrite <- ?app_assoc; simpl;
      try apply thinned_refl;
      repeat (apply thinned_app; [apply thinned_refl|]);
      try (apply th_drop; [unfold unforced; rewrite Hf; reflexivity | apply thinned_refl]).
    apply (thinned_app unforced (p :: ps) (p :: ps) (v :: rest) rest); [apply thinned_refl|].
    apply th_drop; [unfold unforced; rewrite Hf; reflexivity | apply thinned_refl].
  - unfold pop_step. destruct (ch_ring c) as [|x r] eqn:Hr; simpl; rewrite ?Hr.
    + apply thinned_refl.
    + rewrite <- !app_assoc. simpl. apply thinned_refl.
Qed.

Theorem run_thins s ms : thinned unforced (line s) (line (run_micro s ms)).
Proof.
  revert s; induction ms as [|m ms IH]; intros s; simpl.
  - apply thinned_refl.
  - eapply thinned_trans; [apply micro_thins | apply IH].
Qed.

(* Forced messages: the forced subsequence of the line is invariant, for every schedule. *)
Theorem forced_line_invariant s ms :
  filter forced (line (run_micro s ms)) = filter forced (line s).
Proof.
  apply thinned_filter_keep with (drop := unforced); [|apply run_thins].
  intros x; unfold unforced; destruct (forced x); simpl; congruence.
Qed.

(* Consequences in the shape of the property text. *)

(* what the consumer has popped so far, restricted to forced messages, is a prefix of the
   forced messages the producer was given, in the order given: none dropped, none
   reordered, none duplicated *)
Theorem forced_popped_prefix c out ms :
  ch_ring c = [] -> ch_pending c = [] ->
  let s := run_micro (mkP c out []) ms in
  exists rest, filter forced out = filter forced (p_popped s) ++ rest /\
               rest = filter forced (ch_ring (p_chan s) ++ ch_pending (p_chan s) ++ p_out s).
Proof.
  intros Hr Hp s.
  pose proof (forced_line_invariant (mkP c out []) ms) as H.
  unfold line in H; simpl in H. rewrite Hr, Hp in H; simpl in H.
  fold s in H. rewrite filter_app in H.
  eexists; split; [symmetry; exact H | reflexivity].
Qed.

(* everything popped was sent, in the order sent (unforced messages may be missing) *)
Theorem popped_thinned c out ms :
  ch_ring c = [] -> ch_pending c = [] ->
  let s := run_micro (mkP c out []) ms in
  thinned unforced out (p_popped s ++ ch_ring (p_chan s) ++ ch_pending (p_chan s) ++ p_out s).
Proof.
  intros Hr Hp s.
  pose proof (run_thins (mkP c out []) ms) as H.
  unfold line in H; simpl in H. rewrite Hr, Hp in H; simpl in H. exact H.
Qed.

(* the overflow list only ever holds forced messages *)
Definition pending_forced (s : pstate) : Prop := Forall (fun x => forced x = true) (ch_pending (p_chan s)).

Lemma micro_pending_forced s m : pending_forced s -> pending_forced (micro s m).
Proof.
  unfold pending_forced; destruct s as [c out popped]; destruct m; simpl.
  - destruct out as [|v rest]; auto. unfold push_step.
    destruct (ch_pending c) as [|p ps] eqn:Hp; intros H.
    + destruct (ch_room c); simpl; auto. destruct (forced v) eqn:Hf; simpl; auto. rewrite Hp; auto.
    + destruct (ch_room c); simpl.
      * inversion H; auto.
      * destruct (forced v) eqn:Hf; simpl.
        -- inversion H; subst. constructor; auto. apply Forall_app; split; auto.
        -- rewrite Hp; auto.
  - unfold pop_step. destruct (ch_ring c); simpl; auto.
Qed.

(* the ring never exceeds its capacity *)
Definition ring_bounded (s : pstate) : Prop := lenN (ch_ring (p_chan s)) <= ch_cap (p_chan s).

Lemma lenN_app1 (l : list A) x : lenN (l ++ [x]) = lenN l + 1.
Proof. unfold lenN. rewrite app_length. simpl. lia. Qed.

Lemma lenN_cons (l : list A) x : lenN (x :: l) = lenN l + 1.
Proof. unfold lenN. simpl length. lia. Qed.

Lemma micro_ring_bounded s m : ring_bounded s -> ring_bounded (micro s m).
Proof.
  unfold ring_bounded; destruct s as [c out popped]; destruct m; simpl.
  - destruct out as [|v rest]; auto. unfold push_step, ch_room.
    destruct (ch_pending c) as [|p ps]; destruct (N.ltb_spec (lenN (ch_ring c)) (ch_cap c));
      destruct (forced v); simpl; intros; rewrite ?lenN_app1; lia.
  - unfold pop_step. destruct (ch_ring c) as [|x r] eqn:Hr; cbn [p_chan ch_ring ch_cap].
    + rewrite Hr; auto.
    + rewrite lenN_cons. lia.
Qed.

(* a send takes at most |pending| + 1 ring operations: each failed or final push returns *)
Lemma push_step_progress (c : chan A) f (v : A) (c' : chan A) :
  push_step c f v = (c', false) -> (length (ch_pending c') < length (ch_pending c))%nat.
Proof.
  unfold push_step. destruct (ch_pending c) as [|p ps]; destruct (ch_room c); destruct f;
    intros H; inversion H; subst; simpl; auto.
Qed.

End Line.

(* ---------------------------------------------------------------- thread exit *)
Section Drop.
Context {A : Type}.

(* Sender::drop never adds anything and ends by abandoning the ring *)
Lemma drop_step_pending (c : chan A) :
  length (ch_pending (drop_step c)) = pred (length (ch_pending c)).
Proof. unfold drop_step. destruct (ch_pending c); [|destruct (ch_room c)]; reflexivity. Qed.

Lemma drop_step_abandons (c : chan A) : ch_pending c = [] -> ch_abandoned (drop_step c) = true.
Proof. unfold drop_step. intros ->. reflexivity. Qed.

(* a pop on an abandoned, empty ring: nothing can arrive any more, so removing the
   receiver loses nothing *)
Lemma pop_none_empty (c : chan A) c' : pop_step c = (None, c') -> ch_ring c = [].
Proof. unfold pop_step. destruct (ch_ring c); intros H; inversion H; reflexivity. Qed.

End Drop.
