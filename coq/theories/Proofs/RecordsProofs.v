(* Record construction (Model/Records.v): what amend_span / amend_local_span /
   mount_danglings / postprocess produce, for every span set, every dangling map and every
   monotone time conversion. *)
From Coq Require Import List Arith NArith Bool Lia.
From FT Require Import Model.Base Model.Records.
Import ListNotations.
Open Scope N_scope.

Section Conv.
Variable conv : N -> N.

Definition is_kspan (r : raw) : bool := match r_kind r with KSpan => true | _ => false end.
Definition eff_parent (parent : N) (sp : raw) : N := if r_parent sp =? 0 then parent else r_parent sp.
Definition eff_end (end_time : N) (sp : raw) : N := if r_end sp =? 0 then end_time else r_end sp.

(* the record of one raw span of kind Span before danglings are mounted *)
Definition base_record (trace parent end_time : N) (sp : raw) : record :=
  mkRec trace (r_id sp) (eff_parent parent sp) (conv (r_begin sp))
        (conv (eff_end end_time sp) - conv (r_begin sp)) (r_name sp) (oprops (r_props sp)) [].

(* the dangling item of one raw span of kind Event / Properties, with the id it hangs on *)
Definition dang_of (parent : N) (sp : raw) : list (N * ditem) :=
  match r_kind sp with
  | KSpan => []
  | KEvent => [(eff_parent parent sp, DEvent (mkEv (r_name sp) (conv (r_begin sp)) (oprops (r_props sp))))]
  | KProps => [(eff_parent parent sp, DProps (oprops (r_props sp)))]
  end.

Definition push_all (items : list (N * ditem)) (d : danglings) : danglings :=
  fold_left (fun d kv => dang_push (fst kv) (snd kv) d) items d.

Lemma push_all_app a b d : push_all (a ++ b) d = push_all b (push_all a d).
Proof. unfold push_all. apply fold_left_app. Qed.

Lemma amend_one_spec trace parent end_time sp recs d :
  amend_one conv trace (eff_parent parent sp) (eff_end end_time sp) sp (recs, d) =
  (recs ++ (if is_kspan sp then [base_record trace parent end_time sp] else []),
   push_all (dang_of parent sp) d).
Proof.
  unfold amend_one, is_kspan, dang_of, base_record, push_all.
  destruct (r_kind sp); simpl; rewrite ?app_nil_r; reflexivity.
Qed.

Lemma amend_local_spec rs end_time trace parent recs d :
  amend_local conv rs end_time trace parent (recs, d) =
  (recs ++ map (base_record trace parent end_time) (filter is_kspan rs),
   push_all (flat_map (dang_of parent) rs) d).
Proof.
  unfold amend_local. revert recs d. induction rs as [|sp rs IH]; intros recs d.
  - simpl. rewrite app_nil_r. reflexivity.
  - cbn [fold_left].
    pose proof (amend_one_spec trace parent end_time sp recs d) as Hs.
    unfold eff_parent, eff_end in Hs. rewrite Hs. rewrite IH.
    cbn [flat_map filter]. rewrite push_all_app.
    destruct (is_kspan sp); simpl; rewrite <- ?app_assoc, ?app_nil_r; reflexivity.
Qed.

(* amend_span: a thread-safe span is never the root of a set, its parent is the token's *)
Lemma amend_span_spec sp trace parent recs d :
  amend_span conv sp trace parent (recs, d) =
  match r_kind sp with
  | KSpan => (recs ++ [mkRec trace (r_id sp) parent (conv (r_begin sp))
                             (conv (r_end sp) - conv (r_begin sp)) (r_name sp) (oprops (r_props sp)) []], d)
  | KEvent => (recs, dang_push parent (DEvent (mkEv (r_name sp) (conv (r_begin sp)) (oprops (r_props sp)))) d)
  | KProps => (recs, dang_push parent (DProps (oprops (r_props sp))) d)
  end.
Proof. unfold amend_span, amend_one. destruct (r_kind sp); reflexivity. Qed.

(* ---------------------------------------------------------------- mounting *)
(* everything of a record except properties and events *)
Definition core (r : record) := (rc_trace r, rc_id r, rc_parent r, rc_begin r, rc_dur r, rc_name r).

Lemma apply_ditem_core r it : core (apply_ditem r it) = core r.
Proof. destruct it; reflexivity. Qed.

Lemma fold_apply_core items r : core (fold_left apply_ditem items r) = core r.
Proof.
  revert r; induction items as [|it items IH]; intros r; simpl; auto.
  rewrite IH. apply apply_ditem_core.
Qed.

Lemma mount_core recs d : map core (fst (mount_danglings recs d)) = map core recs.
Proof.
  revert d; induction recs as [|r recs IH]; intros d; simpl; auto.
  destruct (alookup (rc_id r) d) as [items|].
  - specialize (IH (aremove (rc_id r) d)).
    destruct (mount_danglings recs (aremove (rc_id r) d)) as [rest' d']; simpl in *.
    rewrite IH, fold_apply_core. reflexivity.
  - specialize (IH d). destruct (mount_danglings recs d) as [rest' d']; simpl in *.
    rewrite IH. reflexivity.
Qed.

Lemma mount_length recs d : length (fst (mount_danglings recs d)) = length recs.
Proof.
  rewrite <- (map_length core), mount_core, map_length. reflexivity.
Qed.

(* properties and events of a record after mounting: what it had, followed by the items
   hanging on its id, in the order they were pushed -- provided it is the first record
   with that id (a second record with the same id finds the bucket gone: K2) *)
Definition add_props_of (items : list ditem) : props :=
  flat_map (fun it => match it with DProps ps => ps | DEvent _ => [] end) items.
Definition add_events_of (items : list ditem) : list event_rec :=
  flat_map (fun it => match it with DEvent e => [e] | DProps _ => [] end) items.

Lemma fold_apply_props items r :
  rc_props (fold_left apply_ditem items r) = rc_props r ++ add_props_of items /\
  rc_events (fold_left apply_ditem items r) = rc_events r ++ add_events_of items.
Proof.
  revert r; induction items as [|it items IH]; intros r; simpl.
  - rewrite !app_nil_r. auto.
  - destruct (IH (apply_ditem r it)) as [P E]. rewrite P, E.
    destruct it; simpl; rewrite <- ?app_assoc; auto.
Qed.

(* mounting on the head record *)
Lemma mount_head r recs d :
  exists rest d',
    mount_danglings (r :: recs) d =
    (match alookup (rc_id r) d with
     | Some items => fold_left apply_ditem items r
     | None => r
     end :: rest, d').
Proof.
  simpl. destruct (alookup (rc_id r) d).
  - destruct (mount_danglings recs (aremove (rc_id r) d)); eauto.
  - destruct (mount_danglings recs d); eauto.
Qed.

(* a record whose id has no bucket is left exactly as it is *)
Lemma mount_untouched recs d :
  (forall r, In r recs -> alookup (rc_id r) d = None) ->
  mount_danglings recs d = (recs, d).
Proof.
  induction recs as [|r recs IH]; intros H; simpl; auto.
  rewrite (H r) by (left; reflexivity). rewrite IH; auto.
  intros r' Hr'. apply H. right; auto.
Qed.

(* ---------------------------------------------------------------- whole collections *)

(* C17: to_span_records is exactly what pushing the same set under a span with that context
   delivers (one shared code path) *)
Theorem to_span_records_eq_push rs end_time trace parent :
  to_span_records conv rs end_time trace parent =
  fst (postprocess conv [mkColl (SShared rs end_time) trace parent] []).
Proof.
  unfold to_span_records, postprocess, amend_collection. cbn [fold_left cl_set cl_trace cl_parent].
  rewrite !amend_local_spec. reflexivity.
Qed.

Lemma postprocess_local_core rs end_time trace parent d :
  map core (fst (postprocess conv [mkColl (SShared rs end_time) trace parent] d)) =
  map core (map (base_record trace parent end_time) (filter is_kspan rs)).
Proof.
  unfold postprocess, amend_collection; simpl. rewrite amend_local_spec. simpl.
  rewrite mount_core. reflexivity.
Qed.

(* what two copies of one set have in common: ids, begin, duration, name of every span, in
   the same order *)
Definition core_nt (r : record) := (rc_id r, rc_begin r, rc_dur r, rc_name r).

(* C17: a set pushed to two parents (any traces, any parent ids, any dangling maps in the two
   collectors) yields the same spans with the same ids, names, begin times and durations *)
Theorem copies_identical rs end_time tr1 p1 d1 tr2 p2 d2 :
  map core_nt (fst (postprocess conv [mkColl (SShared rs end_time) tr1 p1] d1)) =
  map core_nt (fst (postprocess conv [mkColl (SShared rs end_time) tr2 p2] d2)).
Proof.
  assert (H : forall tr p d,
             map core_nt (fst (postprocess conv [mkColl (SShared rs end_time) tr p] d)) =
             map (fun sp => (r_id sp, conv (r_begin sp), conv (eff_end end_time sp) - conv (r_begin sp), r_name sp))
                 (filter is_kspan rs)).
  { intros tr p d.
    pose proof (postprocess_local_core rs end_time tr p d) as Hc.
    assert (Hm : forall l : list record, map core_nt l = map (fun c => match c with (_, i, _, b, du, n) => (i, b, du, n) end) (map core l)).
    { intros l. rewrite map_map. apply map_ext. intros r. reflexivity. }
    rewrite Hm, Hc, !map_map. apply map_ext. intros sp. reflexivity. }
  rewrite (H tr1 p1 d1), (H tr2 p2 d2). reflexivity.
Qed.

(* every copy carries the trace id of the parent it was pushed to; roots of the set hang
   under that parent, all other spans keep their recorded parent *)
Theorem copy_trace_and_parents rs end_time trace parent d :
  map (fun r => (rc_trace r, rc_id r, rc_parent r))
      (fst (postprocess conv [mkColl (SShared rs end_time) trace parent] d)) =
  map (fun sp => (trace, r_id sp, eff_parent parent sp)) (filter is_kspan rs).
Proof.
  pose proof (postprocess_local_core rs end_time trace parent d) as Hc.
  assert (Hm : forall l : list record, map (fun r => (rc_trace r, rc_id r, rc_parent r)) l =
                map (fun c => match c with (t, i, p, _, _, _) => (t, i, p) end) (map core l)).
  { intros l. rewrite map_map. apply map_ext. intros r. reflexivity. }
  rewrite Hm, Hc, !map_map. apply map_ext. intros sp. reflexivity.
Qed.

(* C17: spans still open when the set was collected are closed at the collection time;
   C18: the duration of a record is the converted end minus the converted begin *)
Theorem duration_formula rs end_time trace parent d :
  map (fun r => (rc_id r, rc_begin r, rc_dur r))
      (fst (postprocess conv [mkColl (SShared rs end_time) trace parent] d)) =
  map (fun sp => (r_id sp, conv (r_begin sp),
                  conv (if r_end sp =? 0 then end_time else r_end sp) - conv (r_begin sp)))
      (filter is_kspan rs).
Proof.
  pose proof (postprocess_local_core rs end_time trace parent d) as Hc.
  assert (Hm : forall l : list record, map (fun r => (rc_id r, rc_begin r, rc_dur r)) l =
                map (fun c => match c with (_, i, _, b, du, _) => (i, b, du) end) (map core l)).
  { intros l. rewrite map_map. apply map_ext. intros r. reflexivity. }
  rewrite Hm, Hc, !map_map. apply map_ext. intros sp. reflexivity.
Qed.

(* a thread-safe span: trace and parent of the token item, duration end - begin *)
Theorem span_record sp trace parent d :
  r_kind sp = KSpan ->
  exists r d', postprocess conv [mkColl (SSpan sp) trace parent] d = ([r], d') /\
    core r = (trace, r_id sp, parent, conv (r_begin sp), conv (r_end sp) - conv (r_begin sp), r_name sp).
Proof.
  intros K. unfold postprocess, amend_collection; cbn [fold_left cl_set cl_trace cl_parent]. rewrite amend_span_spec, K. simpl.
  destruct (alookup (r_id sp) d) as [items|] eqn:E.
  - eexists; eexists. split; [reflexivity|]. rewrite fold_apply_core. reflexivity.
  - eexists; eexists. split; [reflexivity|]. reflexivity.
Qed.

(* C06: a thread-safe span takes every property and event parked for its id, in the order
   they were parked, after its own properties; the bucket is consumed *)
Theorem span_takes_bucket sp trace parent d items :
  r_kind sp = KSpan -> alookup (r_id sp) d = Some items ->
  exists r, postprocess conv [mkColl (SSpan sp) trace parent] d = ([r], aremove (r_id sp) d) /\
    rc_props r = oprops (r_props sp) ++ add_props_of items /\
    rc_events r = add_events_of items.
Proof.
  intros K E. unfold postprocess, amend_collection; cbn [fold_left cl_set cl_trace cl_parent]. rewrite amend_span_spec, K. simpl. rewrite E.
  eexists. split; [reflexivity|].
  destruct (fold_apply_props items
              (mkRec trace (r_id sp) parent (conv (r_begin sp)) (conv (r_end sp) - conv (r_begin sp))
                     (r_name sp) (oprops (r_props sp)) [])) as [P Ev].
  rewrite P, Ev. simpl. auto.
Qed.

(* C06: a pseudo-span of kind Properties / Event submitted under span id p is parked under p,
   after what is already parked there, and produces no record *)
Theorem attachment_parked sp trace p d :
  r_kind sp <> KSpan ->
  exists it, postprocess conv [mkColl (SSpan sp) trace p] d = ([], dang_push p it d) /\
    match r_kind sp with
    | KEvent => it = DEvent (mkEv (r_name sp) (conv (r_begin sp)) (oprops (r_props sp)))
    | KProps => it = DProps (oprops (r_props sp))
    | KSpan => False
    end.
Proof.
  intros K. unfold postprocess, amend_collection; cbn [fold_left cl_set cl_trace cl_parent]. rewrite amend_span_spec.
  destruct (r_kind sp); [congruence| |]; simpl; eexists; split; reflexivity.
Qed.

Lemma alookup_dang_push_same k it (d : danglings) :
  alookup k (dang_push k it d) = Some (match alookup k d with Some v => v ++ [it] | None => [it] end).
Proof.
  induction d as [|[k' v] d IH]; simpl.
  - rewrite N.eqb_refl. reflexivity.
  - destruct (k =? k') eqn:E; simpl; rewrite E; auto.
Qed.

Lemma alookup_dang_push_other k k' it (d : danglings) :
  k <> k' -> alookup k (dang_push k' it d) = alookup k d.
Proof.
  intros Hne. induction d as [|[k2 v] d IH]; simpl.
  - destruct (k =? k') eqn:E; auto. apply N.eqb_eq in E; congruence.
  - destruct (k' =? k2) eqn:E2; simpl.
    + apply N.eqb_eq in E2; subst. destruct (k =? k2) eqn:E; auto. apply N.eqb_eq in E; congruence.
    + destruct (k =? k2); auto.
Qed.

End Conv.

(* monotone conversions keep order: the consequences used by C18 *)
Lemma conv_monotone_dur (conv : N -> N) b e :
  (forall x y, x <= y -> conv x <= conv y) -> b <= e -> conv b + (conv e - conv b) = conv e.
Proof. intros Hm Hle. specialize (Hm b e Hle). lia. Qed.
