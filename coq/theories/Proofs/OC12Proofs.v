From Coq Require Import List NArith ZArith Bool Lia ZifyBool ZifyN ZifyNat Arith.
From FT Require Import Model.Codec Proofs.CodecProofs Oracles.OC12.
Import ListNotations.
Open Scope N_scope.

Lemma digits_value_o_eq acc s : digits_value_o acc s = digits_value acc s.
Proof. revert acc; induction s as [|c s IH]; intros acc; cbn; [reflexivity|]. destruct (hexval c); auto. Qed.

Lemma hexnum_valid_field bits s v : hexnum bits s v -> valid_field bits s = true.
Proof.
  intros (Hn & Hv & Hb). unfold valid_field. rewrite digits_value_o_eq, Hv.
  destruct s; [congruence|]. cbn. lia.
Qed.

Lemma lower_hexb_iff c : lower_hexb c = true <-> lower_hex c.
Proof. unfold lower_hexb, lower_hex. lia. Qed.

Lemma forallb_lower l : Forall lower_hex l -> forallb lower_hexb l = true.
Proof. intros H. apply forallb_forall. intros x Hx. apply lower_hexb_iff. rewrite Forall_forall in H; auto. Qed.

Lemma ctx_eqb_refl c : ctx_eqb c c = true.
Proof. unfold ctx_eqb. rewrite !N.eqb_refl, Bool.eqb_reflx. reflexivity. Qed.

Lemma wf_ctxb_iff c : wf_ctxb c = true <-> wf_ctx c.
Proof. unfold wf_ctxb, wf_ctx. lia. Qed.

Lemma decode_some_valid s c : decode_traceparent s = Some c -> valid_tp s = true.
Proof.
  intros H. apply decode_some_iff in H as (a & b & f & fl & -> & Na & Nb & Nf & Ha & Hb & Hf & _).
  unfold valid_tp. rewrite split_dash_app' by apply nodash_00.
  rewrite !split_dash_app' by assumption. rewrite split_dash_nodash by assumption.
  rewrite (hexnum_valid_field _ _ _ Ha), (hexnum_valid_field _ _ _ Hb), (hexnum_valid_field _ _ _ Hf).
  reflexivity.
Qed.

(* the model meets the oracle on every input *)
Lemma P_C12_model_rt c : P_C12 (O_rt c (encode_traceparent c) (decode_traceparent (encode_traceparent c))) = true.
Proof.
  cbn [P_C12]. destruct (wf_ctxb c) eqn:E; [|reflexivity]. apply wf_ctxb_iff in E. cbn [negb orb].
  rewrite decode_encode by exact E. rewrite encode_length by exact E.
  cbn [opt_ctx_eqb]. rewrite ctx_eqb_refl.
  unfold shape55. rewrite split_encode by exact E.
  rewrite !to_hex_fixed_length. rewrite !forallb_lower by apply to_hex_fixed_lower. reflexivity.
Qed.

Lemma P_C12_model_dec s : P_C12 (O_dec s (Some (decode_traceparent s))) = true.
Proof.
  cbn [P_C12]. destruct (decode_traceparent s) eqn:E; [|apply orb_true_r].
  rewrite (decode_some_valid _ _ E). reflexivity.
Qed.

Lemma P_C12_model_idt t : t < 2 ^ 128 ->
  P_C12 (O_id 32 t (display_trace t) (from_str_trace (display_trace t))
              ([34] ++ serde_ser_trace t ++ [34]) (serde_de_trace (serde_ser_trace t))) = true.
Proof.
  intros H. cbn [P_C12]. unfold serde_de_trace, serde_ser_trace.
  change (from_str_radix16 128 (fmt_hex 32 t)) with (from_str_trace (display_trace t)).
  rewrite fromstr_display_trace by exact H.
  destruct (display_trace_shape t H) as [L F]. rewrite L. rewrite forallb_lower by exact F.
  cbn [optN_eqb]. rewrite N.eqb_refl.
  replace (str_eqb _ _) with true; [reflexivity|]. symmetry. apply str_eqb_eq. reflexivity.
Qed.

Lemma P_C12_model_ids s : s < 2 ^ 64 ->
  P_C12 (O_id 16 s (display_span s) (from_str_span (display_span s))
              ([34] ++ serde_ser_span s ++ [34]) (serde_de_span (serde_ser_span s))) = true.
Proof.
  intros H. cbn [P_C12]. unfold serde_de_span, serde_ser_span.
  change (from_str_radix16 64 (fmt_hex 16 s)) with (from_str_span (display_span s)).
  rewrite fromstr_display_span by exact H.
  destruct (display_span_shape s H) as [L F]. rewrite L. rewrite forallb_lower by exact F.
  cbn [optN_eqb]. rewrite N.eqb_refl.
  replace (str_eqb _ _) with true; [reflexivity|]. symmetry. apply str_eqb_eq. reflexivity.
Qed.
