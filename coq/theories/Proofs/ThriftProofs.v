(* C19, Jaeger: the Thrift compact message reads back to the service name and the spans it was
   made from -- every field of every span, the optional tag and log lists, nothing left over --
   for every batch whose integers fit 64 bits (flags 63) and whose strings and lists are
   shorter than 2^64.  Hence the message encoding is injective. *)
From Coq Require Import List Arith NArith Bool Lia.
From FT Require Import Model.Jaeger Model.Thrift Proofs.JaegerProofs.
Import ListNotations.
Open Scope N_scope.

Lemma tr_varint_is fuel l : tr_varint fuel l = unvarint_fuel fuel l.
Proof.
  revert l; induction fuel as [|f IH]; intros [|b r]; simpl; auto;
    destruct (b <? 128); auto; rewrite IH; reflexivity.
Qed.

Lemma tr_varint_rt n rest : n < two64j -> tr_varint 10 (varint n ++ rest) = Some (n, rest).
Proof. intros H. rewrite tr_varint_is. apply varint64_roundtrip. exact H. Qed.

Lemma tr_i64_rt v rest : v < two64j -> tr_i64 (enc_i64 v ++ rest) = Some (v, rest).
Proof.
  intros H. unfold tr_i64, enc_i64. rewrite tr_varint_rt by (apply zigzag64_bound; exact H).
  f_equal. f_equal. apply (zigzag64_inv v H).
Qed.

Lemma tr_take_app (a rest : bytes) : tr_take (length a) (a ++ rest) = Some (a, rest).
Proof. induction a as [|x a IH]; simpl; auto. rewrite IH. reflexivity. Qed.

Definition len_ok {A} (l : list A) : Prop := N.of_nat (length l) < two64j.

Lemma tr_str_rt s rest : len_ok s -> tr_str (enc_str s ++ rest) = Some (s, rest).
Proof.
  intros H. unfold tr_str, enc_str. rewrite <- app_assoc. rewrite tr_varint_rt by exact H.
  rewrite Nnat.Nat2N.id. apply tr_take_app.
Qed.

Lemma tr_byte_rt b rest : tr_byte b (b :: rest) = Some rest.
Proof. unfold tr_byte. rewrite N.eqb_refl. reflexivity. Qed.

Lemma tr_list_hdr_rt n ty rest :
  ty < 16 -> N.of_nat n < two64j ->
  tr_list_hdr ty (list_hdr n ty ++ rest) = Some (N.of_nat n, rest).
Proof.
  intros Hty Hn. unfold list_hdr, tr_list_hdr. destruct (Nat.ltb n 15) eqn:E.
  - apply Nat.ltb_lt in E. cbn [app].
    assert (Hb : N.of_nat n * 16 + ty < 240) by lia.
    replace (N.of_nat n * 16 + ty <? 240) with true by (symmetry; apply N.ltb_lt; exact Hb).
    assert (Hm : (N.of_nat n * 16 + ty) mod 16 = ty).
    { rewrite N.add_comm, N.mod_add by discriminate. apply N.mod_small. exact Hty. }
    rewrite Hm, N.eqb_refl. f_equal. f_equal.
    rewrite N.add_comm, N.div_add by discriminate. rewrite N.div_small by exact Hty. reflexivity.
  - cbn [app].
    replace (240 + ty <? 240) with false by (symmetry; apply N.ltb_ge; lia).
    rewrite N.eqb_refl. apply tr_varint_rt. exact Hn.
Qed.

Section Elems.
Context {A : Type}.
Variable enc : A -> bytes.
Variable rd : bytes -> option (A * bytes).
Variable ok : A -> Prop.
Hypothesis rd_enc : forall x rest, ok x -> rd (enc x ++ rest) = Some (x, rest).

Lemma tr_elems_rt xs rest :
  Forall ok xs -> tr_elems rd (length xs) (flat_map enc xs ++ rest) = Some (xs, rest).
Proof.
  induction xs as [|x xs IH]; intros H; [reflexivity|].
  inversion H as [|? ? Hx Hxs]; subst. cbn [length flat_map tr_elems].
  rewrite <- app_assoc, rd_enc by exact Hx. rewrite IH by exact Hxs. reflexivity.
Qed.

Lemma tr_list_rt xs rest :
  len_ok xs -> Forall ok xs ->
  tr_list rd (list_hdr (length xs) T_STRUCT ++ flat_map enc xs ++ rest) = Some (xs, rest).
Proof.
  intros Hl Hx. unfold tr_list. rewrite tr_list_hdr_rt; [|unfold T_STRUCT; lia|exact Hl].
  cbn [obnd]. rewrite Nnat.Nat2N.id. apply tr_elems_rt. exact Hx.
Qed.
End Elems.

Definition tag_ok (kv : bytes * bytes) : Prop := len_ok (fst kv) /\ len_ok (snd kv).

Lemma tr_tag_rt kv rest : tag_ok kv -> tr_tag (enc_tag kv ++ rest) = Some (kv, rest).
Proof.
  destruct kv as [k v]. intros [Hk Hv]. cbn [fst snd] in *.
  unfold tr_tag, enc_tag, field_hdr, T_BINARY, T_I32, zigzag32. cbn [fst snd].
  change (1 * 16 + 8) with 24. change (1 * 16 + 5) with 21. change (2 * 0) with 0.
  rewrite <- !app_assoc. cbn [app]. rewrite tr_byte_rt. cbn [obnd].
  rewrite tr_str_rt by exact Hk. cbn [obnd app]. rewrite tr_byte_rt. cbn [obnd].
  change (varint 0) with [0]. cbn [app tr_varint N.ltb N.compare]. cbn [obnd N.eqb negb].
  rewrite tr_byte_rt. cbn [obnd]. rewrite tr_str_rt by exact Hv. cbn [obnd app].
  rewrite tr_byte_rt. reflexivity.
Qed.

Definition log_ok (l : jlog) : Prop :=
  jl_ts l < two64j /\ len_ok (jl_fields l) /\ Forall tag_ok (jl_fields l).

Lemma tr_log_rt lg rest : log_ok lg -> tr_log (enc_log lg ++ rest) = Some (lg, rest).
Proof.
  destruct lg as [ts fs]. intros (Ht & Hl & Hf). cbn [jl_ts jl_fields] in *.
  unfold tr_log, enc_log, field_hdr, T_I64, T_LIST. cbn [jl_ts jl_fields].
  change (1 * 16 + 6) with 22. change (1 * 16 + 9) with 25.
  rewrite <- !app_assoc. cbn [app]. rewrite tr_byte_rt. cbn [obnd].
  rewrite tr_i64_rt by exact Ht. cbn [obnd app]. rewrite tr_byte_rt. cbn [obnd].
  rewrite (tr_list_rt enc_tag tr_tag tag_ok tr_tag_rt) by assumption. cbn [obnd app].
  rewrite tr_byte_rt. reflexivity.
Qed.

Definition span_ok (s : jspan) : Prop :=
  j_trace_low s < two64j /\ j_trace_high s < two64j /\ j_span s < two64j /\ j_parent s < two64j /\
  len_ok (j_name s) /\ 2 * j_flags s < two64j /\ j_start s < two64j /\ j_dur s < two64j /\
  len_ok (j_tags s) /\ Forall tag_ok (j_tags s) /\ len_ok (j_logs s) /\ Forall log_ok (j_logs s).

Lemma tr_fi64_rt v rest : v < two64j -> tr_fi64 (22 :: enc_i64 v ++ rest) = Some (v, rest).
Proof. intros H. unfold tr_fi64. rewrite tr_byte_rt. cbn [obnd]. apply tr_i64_rt. exact H. Qed.

Lemma tr_span_tail_rt tags logs rest :
  len_ok tags -> Forall tag_ok tags -> len_ok logs -> Forall log_ok logs ->
  tr_span_tail
    ((match tags with
      | [] => []
      | tags1 => field_hdr 1 T_LIST ++ list_hdr (length tags1) T_STRUCT ++ flat_map enc_tag tags1
      end) ++
     (match logs with
      | [] => []
      | logs1 => field_hdr (match tags with [] => 2 | _ => 1 end) T_LIST ++
                 list_hdr (length logs1) T_STRUCT ++ flat_map enc_log logs1
      end) ++ 0 :: rest) = Some ((tags, logs), rest).
Proof.
  intros Ht1 Ht2 Hl1 Hl2. unfold field_hdr, T_LIST.
  change (1 * 16 + 9) with 25. change (2 * 16 + 9) with 41.
  destruct tags as [|t tags]; destruct logs as [|lg logs].
  - reflexivity.
  - cbn [app tr_span_tail]. rewrite <- ?app_assoc.
    rewrite (tr_list_rt enc_log tr_log log_ok tr_log_rt) by assumption. cbn [obnd app].
    rewrite tr_byte_rt. reflexivity.
  - cbn [app tr_span_tail]. rewrite <- ?app_assoc.
    rewrite (tr_list_rt enc_tag tr_tag tag_ok tr_tag_rt) by assumption. cbn [obnd app]. reflexivity.
  - cbn [app tr_span_tail]. rewrite <- ?app_assoc.
    rewrite (tr_list_rt enc_tag tr_tag tag_ok tr_tag_rt) by assumption. cbn [obnd app].
    rewrite <- ?app_assoc.
    rewrite (tr_list_rt enc_log tr_log log_ok tr_log_rt) by assumption. cbn [obnd app].
    rewrite tr_byte_rt. reflexivity.
Qed.

Theorem tr_span_rt s rest : span_ok s -> tr_span (enc_span s ++ rest) = Some (s, rest).
Proof.
  destruct s as [tlow thigh sid pid name flags start dur tags logs].
  unfold span_ok. cbn [j_trace_low j_trace_high j_span j_parent j_name j_flags j_start j_dur j_tags j_logs].
  intros (H1 & H2 & H3 & H4 & H5 & H6 & H7 & H8 & H9 & H10 & H11 & H12).
  unfold tr_span, enc_span.
  cbn [j_trace_low j_trace_high j_span j_parent j_name j_flags j_start j_dur j_tags j_logs].
  unfold field_hdr at 1 2 3 4 5 6 7 8, T_I64, T_BINARY, T_I32, zigzag32.
  change (1 * 16 + 6) with 22. change (1 * 16 + 8) with 24. change (2 * 16 + 5) with 37.
  rewrite <- !app_assoc. cbn [app].
  rewrite tr_fi64_rt by exact H1. rewrite tr_fi64_rt by exact H2.
  rewrite tr_fi64_rt by exact H3. rewrite tr_fi64_rt by exact H4.
  rewrite tr_byte_rt. cbn [obnd]. rewrite tr_str_rt by exact H5. cbn [app].
  rewrite tr_byte_rt. cbn [obnd]. rewrite tr_varint_rt by exact H6.
  rewrite tr_fi64_rt by exact H7. rewrite tr_fi64_rt by exact H8.
  pose proof (tr_span_tail_rt tags logs rest H9 H10 H11 H12) as Htl.
  destruct tags as [|t0 tags]; destruct logs as [|lg0 logs]; cbv iota beta in Htl |- *; rewrite Htl; cbn [fst snd];
    (replace (2 * flags / 2) with flags by (rewrite N.mul_comm, N.div_mul; [reflexivity|discriminate])); reflexivity.
Qed.

(* the whole message *)
Theorem tr_message_rt service spans :
  len_ok service -> len_ok spans -> Forall span_ok spans ->
  tr_message (enc_message service spans) = Some (service, spans).
Proof.
  intros Hs Hl Hx. unfold tr_message, enc_message, field_hdr, T_STRUCT, T_BINARY, T_LIST.
  change (varint 0) with [0]. change (1 * 16 + 12) with 28. change (1 * 16 + 8) with 24. change (1 * 16 + 9) with 25.
  rewrite <- ?app_assoc. cbn [app].
  rewrite tr_str_rt by (unfold len_ok, emit_batch_name, two64j; simpl; lia).
  destruct (list_eq_dec N.eq_dec emit_batch_name emit_batch_name) as [_|Hne]; [|contradiction].
  cbn [negb app]. rewrite !tr_byte_rt. cbn [obnd]. rewrite tr_byte_rt. cbn [obnd]. rewrite tr_byte_rt. cbn [obnd].
  rewrite tr_str_rt by exact Hs. cbn [app]. rewrite tr_byte_rt. cbn [obnd]. rewrite tr_byte_rt. cbn [obnd].
  change (12) with T_STRUCT.
  rewrite (tr_list_rt enc_span tr_span span_ok tr_span_rt) by assumption. reflexivity.
Qed.

Corollary enc_message_injective s1 l1 s2 l2 :
  len_ok s1 -> len_ok l1 -> Forall span_ok l1 -> len_ok s2 -> len_ok l2 -> Forall span_ok l2 ->
  enc_message s1 l1 = enc_message s2 l2 -> s1 = s2 /\ l1 = l2.
Proof.
  intros A1 A2 A3 B1 B2 B3 E.
  pose proof (tr_message_rt s1 l1 A1 A2 A3) as R1. pose proof (tr_message_rt s2 l2 B1 B2 B3) as R2.
  rewrite E in R1. rewrite R1 in R2. inversion R2. auto.
Qed.

(* convert produces well-formed spans from records whose fields fit their Rust types *)
Lemma convert_ok r :
  jr_trace r < two64j * two64j -> jr_id r < two64j -> jr_parent r < two64j ->
  jr_begin r < two64j -> jr_dur r < two64j -> len_ok (jr_name r) ->
  len_ok (jr_props r) -> Forall tag_ok (jr_props r) -> len_ok (jr_events r) ->
  Forall (fun ev => je_ts ev < two64j /\ len_ok (je_name ev) /\ N.of_nat (S (length (je_props ev))) < two64j /\
                    Forall tag_ok (je_props ev)) (jr_events r) ->
  span_ok (convert r).
Proof.
  intros Ht Hi Hp Hb Hd Hn Hpl Hpt Hel Hev. unfold span_ok, convert; simpl.
  assert (Hdiv : forall x, x < two64j -> x / 1000 < two64j).
  { intros x Hx. apply N.div_lt_upper_bound; [discriminate|]. unfold two64j in *. lia. }
  repeat split; auto.
  all: try (apply N.mod_lt; discriminate).
  all: try (apply N.div_lt_upper_bound; [discriminate|exact Ht]).
  all: try (unfold len_ok; rewrite map_length; exact Hel).
  all: try (apply Forall_map; eapply Forall_impl; [|exact Hev]; intros ev (E1 & E2 & E3 & E4);
            unfold log_ok; simpl; repeat split; auto;
            constructor; auto; unfold tag_ok, name_key; simpl; split; [unfold len_ok, two64j; simpl; lia|exact E2]).
  all: reflexivity.
Qed.
