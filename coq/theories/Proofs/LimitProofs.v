(* C09, the per-scope span limit: once the span queue of a scope is full, every further local
   recording in that scope (opening a local span, an event, properties) is skipped without any
   effect on what is already recorded -- no record is touched, no id is drawn, the current
   parent does not move -- so the recorded spans keep their parents and the excess ones leave
   no trace; closing a skipped span is a no-op. *)
From Coq Require Import List NArith Bool.
From FT Require Import Model.Base Model.Local.
Import ListNotations.
Open Scope N_scope.

Definition top_full (st : stack) : Prop :=
  match st_lines st with l :: _ => q_full (l_q l) = true | [] => False end.

Theorem full_enter_skipped st name e : top_full st -> s_enter st name e = (None, e).
Proof.
  unfold top_full, s_enter. destruct (st_lines st) as [|l ls]; [tauto|]. intros H.
  unfold l_start. destruct (l_sampled l); cbn [negb]; [|reflexivity].
  unfold q_start. rewrite H. reflexivity.
Qed.

Theorem full_event_skipped st name ps e : top_full st -> s_add_event st name ps e = (st, e).
Proof.
  unfold top_full, s_add_event. destruct (st_lines st) as [|l ls] eqn:El; [tauto|]. intros H.
  unfold l_add_event. destruct (l_sampled l); cbn [negb].
  - unfold q_add_event. rewrite H. unfold l_set_q, st_set_lines. destruct st, l, l_q; simpl in *. subst. reflexivity.
  - unfold st_set_lines. destruct st; simpl in *. subst. reflexivity.
Qed.

Theorem full_props_skipped st ps e : top_full st -> s_add_props st ps e = (st, e).
Proof.
  unfold top_full, s_add_props. destruct (st_lines st) as [|l ls] eqn:El; [tauto|]. intros H.
  unfold l_add_props. destruct (l_sampled l); cbn [negb].
  - unfold q_add_props. rewrite H. unfold l_set_q, st_set_lines. destruct st, l, l_q; simpl in *. subst. reflexivity.
  - unfold st_set_lines. destruct st; simpl in *. subst. reflexivity.
Qed.

(* a scope stays full: finishing a recorded span does not make room *)
Theorem full_stays_full_after_exit dbg st h e st' e' :
  top_full st -> s_exit dbg st h e = Ok (st', e') -> top_full st'.
Proof.
  unfold top_full, s_exit. destruct (st_lines st) as [|l ls]; [tauto|]. intros H.
  destruct (dbg && negb (l_epoch l =? fst h)); [discriminate|].
  unfold l_finish. destruct (l_epoch l =? fst h).
  - unfold q_finish. destruct (nth_error (q_spans (l_q l)) (N.to_nat (snd h))) as [sp|]; [|discriminate].
    destruct (dbg && _); [discriminate|]. cbn. intros E. inversion E; subst; clear E. cbn.
    unfold q_full in *. cbn. unfold lenN in *.
    assert (Hl : forall (f : raw -> raw) i (xs : list raw), length (list_update i f xs) = length xs).
    { intros f i xs. revert i; induction xs as [|x xs IH]; intros [|i]; simpl; auto. }
    rewrite Hl. exact H.
  - cbn. intros E. inversion E; subst. cbn. exact H.
Qed.
