(* Facts about single API calls of the system model (Model/System.v) used by C01, C11, C13,
   C14, C16: what contexts are extracted, what a root built from a context is delivered
   as, what no-op spans do, how adapter polls bracket their body. *)
From Coq Require Import List Arith NArith Bool Lia.
From FT Require Import Model.Base Model.Local Model.LocalProg Model.Records Model.Spsc Model.Collector
     Model.System Proofs.LocalProofs Proofs.RecordsProofs.
Import ListNotations.
Open Scope N_scope.

(* ---------------------------------------------------------------- C11: contexts *)
Definition ctx_of_span (sp : span_inner) : option ctx :=
  match sp_token sp with
  | [] => None
  | it :: _ => Some (ti_trace it, r_id (sp_raw sp), ti_sampled it)
  end.

Lemma from_span_spec s th e h sp :
  get_span s h = Some (Some sp) ->
  exec_call s th e (KFromSpan h) = COk s th e [] (RCtx (ctx_of_span sp)).
Proof.
  intros H. unfold exec_call. rewrite H. unfold ctx_of_span, issue_token.
  destruct (sp_token sp); reflexivity.
Qed.

Lemma from_span_noop s th e h :
  get_span s h = Some None -> exec_call s th e (KFromSpan h) = COk s th e [] (RCtx None).
Proof. intros H. unfold exec_call. rewrite H. reflexivity. Qed.

(* current_local_parent: the first item of the innermost scope's token, with the innermost
   open local span (if any) as span id *)
Lemma cur_local_spec s th e l ls it rest :
  st_lines (th_stack th) = l :: ls -> l_token l = Some (it :: rest) ->
  exec_call s th e KCurLocal =
  COk s th e [] (RCtx (Some (ti_trace it, odefault (ti_parent it) (q_next (l_q l)), ti_sampled it))).
Proof.
  intros Hl Ht. unfold exec_call, s_cur_token. rewrite Hl. unfold l_cur_token. rewrite Ht. reflexivity.
Qed.

Lemma cur_local_none_no_scope s th e :
  st_lines (th_stack th) = [] -> exec_call s th e KCurLocal = COk s th e [] (RCtx None).
Proof. intros Hl. unfold exec_call, s_cur_token. rewrite Hl. reflexivity. Qed.

Lemma cur_local_none_collector_scope s th e l ls :
  st_lines (th_stack th) = l :: ls -> l_token l = None ->
  exec_call s th e KCurLocal = COk s th e [] (RCtx None).
Proof. intros Hl Ht. unfold exec_call, s_cur_token. rewrite Hl. unfold l_cur_token. rewrite Ht. reflexivity. Qed.

(* Span::root copies trace id / span id / sampled from the context *)
Lemma root_spec s th e h name tr spn sa :
  s_ready s = true -> amem h (s_spans s) = false ->
  exists s' e' out sp,
    exec_call s th e (KRoot h name tr spn sa) = COk s' th e' out RUnit /\
    get_span s' h = Some (Some sp) /\
    r_id (sp_raw sp) = fst (next_id e) /\ r_kind (sp_raw sp) = KSpan /\ r_name (sp_raw sp) = name /\
    exists cid, sp_token sp = [mkTok tr spn cid true sa] /\ sp_cid sp = Some cid /\
                out = (if sa then [(true, CStart cid)] else []).
Proof.
  intros Hr Hm. unfold exec_call. rewrite Hm, Hr. cbn [negb].
  unfold new_span. destruct (next_id e) as [id e1] eqn:En. destruct (now e1) as [t0 e2].
  destruct sa; eexists; eexists; eexists; eexists;
    (split; [reflexivity|]);
    (split; [unfold get_span; simpl; rewrite N.eqb_refl; reflexivity|]);
    simpl; repeat split; eauto.
Qed.

(* a child's token items name the parent span as parent *)
Lemma issue_token_parent sp it : In it (issue_token sp) -> ti_parent it = r_id (sp_raw sp).
Proof.
  unfold issue_token. intros H. apply in_map_iff in H. destruct H as [x [<- _]]. reflexivity.
Qed.

Lemma issue_token_trace sp :
  map (fun it => (ti_trace it, ti_collect it, ti_sampled it)) (issue_token sp) =
  map (fun it => (ti_trace it, ti_collect it, ti_sampled it)) (sp_token sp).
Proof. unfold issue_token. rewrite map_map. reflexivity. Qed.

(* finishing a span whose token has a sampled item submits it once, then commits a root *)
Lemma drop_span_spec sp e :
  drop_span (Some sp) e =
  (submit (SSpan (raw_set_end (fst (now e)) (sp_raw sp))) (sp_token sp)
   ++ match sp_cid sp with Some c => [(true, CCommit c)] | None => [] end, snd (now e)).
Proof. unfold drop_span. destruct (now e). reflexivity. Qed.

Lemma submit_one s tk :
  filter ti_sampled tk <> [] -> submit s tk = [(false, CSubmit s (filter ti_sampled tk))].
Proof. unfold submit. destruct (filter ti_sampled tk); [congruence|reflexivity]. Qed.

Lemma submit_none s tk : filter ti_sampled tk = [] -> submit s tk = [].
Proof. unfold submit. intros ->. reflexivity. Qed.

(* C11 remote child: the record of a root built from context (tr, spn) has that trace id and
   that parent id, in any collector cycle that processes it *)
Theorem root_record_fields conv name tr spn id b e d :
  exists r d', postprocess conv [mkColl (SSpan (mkRaw id 0 b name None KSpan e)) tr spn] d = ([r], d') /\
               rc_trace r = tr /\ rc_parent r = spn /\ rc_id r = id /\ rc_name r = name.
Proof.
  destruct (span_record conv (mkRaw id 0 b name None KSpan e) tr spn d eq_refl) as (r & d' & E & C).
  exists r, d'. split; auto. unfold core in C. inversion C; subst. auto.
Qed.

(* ---------------------------------------------------------------- C16: no-op spans *)
Theorem noop_span_inert s th e h :
  get_span s h = Some None ->
  (forall ps, exec_call s th e (KSWithProps h ps) = COk s th e [] (RBool false)) /\
  (forall ps, exec_call s th e (KSAddProps h ps) = COk s th e [] (RBool false)) /\
  (forall name ps, exec_call s th e (KSAddEvent h name ps) = COk s th e [] RUnit) /\
  exec_call s th e (KCancel h) = COk s th e [] RUnit /\
  exec_call s th e (KElapsed h) = COk s th e [] (RBool false) /\
  exec_call s th e (KFromSpan h) = COk s th e [] (RCtx None) /\
  (forall ls v, alookup ls (s_lsets s) = Some v -> exec_call s th e (KPushChild h ls) = COk s th e [] RUnit).
Proof.
  intros H. unfold exec_call. rewrite H. repeat split; auto.
  intros ls [rs en] Hl. rewrite Hl. reflexivity.
Qed.

(* a child of a no-op span is a no-op span; so is a span whose parents are all no-op *)
Lemma child_of_noop s th e h name p :
  amem h (s_spans s) = false -> get_span s p = Some None ->
  exec_call s th e (KChild h name p) = COk (s_set_spans s ((h, None) :: s_spans s)) th e [] RUnit.
Proof. intros Hm H. unfold exec_call. rewrite Hm, H. reflexivity. Qed.

Lemma drop_noop s th e h :
  get_span s h = Some None ->
  exec_call s th e (KDropSpan h) = COk (s_set_spans s (aremove h (s_spans s))) th e [] RUnit.
Proof. intros H. unfold exec_call. rewrite H. reflexivity. Qed.

Lemma set_local_noop s th e g h :
  scoped_id_free g (th_scoped th) = true -> get_span s h = Some None ->
  exec_call s th e (KSetLocal g h) =
  COk s (th_set_scoped (th_set_stack th (th_stack th)) (ScGuard g None :: th_scoped th)) e [] RUnit.
Proof. intros Hf H. unfold exec_call. rewrite Hf, H. reflexivity. Qed.

(* before a reporter is installed every root is a no-op span and nothing is sent *)
Theorem root_before_reporter s th e h name tr spn sa :
  s_ready s = false -> amem h (s_spans s) = false ->
  exec_call s th e (KRoot h name tr spn sa) = COk (s_set_spans s ((h, None) :: s_spans s)) th e [] RUnit.
Proof. intros Hr Hm. unfold exec_call. rewrite Hm, Hr. reflexivity. Qed.

(* with no local parent in scope local operations record nothing and invoke no closure *)
Theorem no_local_parent_inert s th e :
  st_lines (th_stack th) = [] ->
  (forall ps, exec_call s th e (KLAddProps ps) = COk s th e [] (RBool false)) /\
  (forall name ps, exists th', exec_call s th e (KLAddEvent name ps) = COk s th' e [] RUnit /\
                               th_stack th' = th_stack th) /\
  (forall l name, scoped_id_free l (th_scoped th) = true ->
                  exec_call s th e (KLEnter l name) =
                  COk s (th_set_scoped th (ScLocal l None :: th_scoped th)) e [] RUnit) /\
  (forall h name, amem h (s_spans s) = false ->
                  exec_call s th e (KChildLocal h name) =
                  COk (s_set_spans s ((h, None) :: s_spans s)) th e [] RUnit) /\
  exec_call s th e KCurLocal = COk s th e [] (RCtx None).
Proof.
  intros Hl. unfold exec_call. repeat split.
  - intros ps. unfold s_is_current_recording. rewrite Hl. reflexivity.
  - intros name ps. unfold s_add_event. rewrite Hl. eexists. split; reflexivity.
  - intros l name Hf. rewrite Hf. unfold s_enter. rewrite Hl. reflexivity.
  - intros h name Hm. rewrite Hm. unfold s_cur_token. rewrite Hl. reflexivity.
  - unfold s_cur_token. rewrite Hl. reflexivity.
Qed.

(* a local span that is not recording (no scope, unsampled scope, or refused by a limit)
   never invokes its property closure *)
Lemma lwith_not_recording s th e l ps :
  find_local l (th_scoped th) = Some None ->
  exec_call s th e (KLWithProps l ps) = COk s th e [] (RBool false).
Proof. intros H. unfold exec_call. rewrite H. reflexivity. Qed.

(* ---------------------------------------------------------------- C13 / C14: adapters *)
Theorem takes_spec :
  (forall r, takes MFut r = match r with RPending => false | _ => true end) /\
  (forall r, takes MNext r = match r with RFinal => true | _ => false end) /\
  (forall r, takes MClose r = match r with RPending => false | _ => true end) /\
  (forall r, takes MReady r = false) /\ (forall r, takes MStart r = false) /\
  (forall r, takes MFlush r = false).
Proof. repeat split; intros []; reflexivity. Qed.

(* the local parent during a poll is the adapter's span: the scope opened by the poll carries
   the span's issued token (unless the span is a no-op or the scope limit is hit) *)
Lemma set_local_line sp st :
  st_cap st <=? lenN (st_lines st) = false ->
  exists ep, set_local (Some sp) st =
    (Some (Some ep), mkStack (l_new (st_qcap st) ep (Some (issue_token sp)) :: st_lines st)
                             (st_cap st) ((ep + 1) mod two64) (st_qcap st)).
Proof. intros H. unfold set_local, lc_new, s_register. rewrite H. eexists. reflexivity. Qed.

(* a poll (set local parent; any well-nested body; drop the guard) leaves the thread's
   local context as it found it *)
Theorem poll_restores_context dbg osp st e p inner st1 st2 e2 out st3 e3 :
  nz st -> e_prefix e <> 0 ->
  set_local osp st = (inner, st1) ->
  exec dbg p st1 e = Ok (st2, e2) ->
  drop_guard dbg inner st2 e2 = Ok (out, st3, e3) ->
  lctx st3 = lctx st.
Proof.
  intros Hnz Hpre Hs Hb Hd.
  assert (Hreg : forall tk oep st1', s_register st tk = (oep, st1') ->
            exec dbg p st1' e = Ok (st2, e2) ->
            forall r st3', s_unregister dbg st2 (match oep with Some ep => ep | None => 0 end) = Ok (r, st3') ->
            oep <> None -> lctx st3' = lctx st).
  { intros tk oep st1' Hr Hb' r st3' Hu Hne. unfold s_register in Hr.
    destruct (st_cap st <=? lenN (st_lines st)); inversion Hr; subst; [congruence|].
    assert (Hnz1 : nz (mkStack (l_new (st_qcap st) (st_next_epoch st) tk :: st_lines st) (st_cap st)
                               ((st_next_epoch st + 1) mod two64) (st_qcap st))).
    { unfold nz; simpl. constructor; auto. unfold line_nz, l_new; simpl. discriminate. }
    destruct (exec_good dbg p _ e Hnz1 Hpre) as (st2' & e2' & E2 & X2 & _ & _).
    rewrite Hb' in E2. inversion E2; subst st2' e2'.
    destruct X2 as (F2 & _ & _). simpl in F2. inversion F2 as [|? l2 ? ls2 Hl2 Hls2]; subst.
    unfold s_unregister in Hu. rewrite <- H1 in Hu.
    destruct (dbg && negb (l_epoch l2 =? st_next_epoch st)); [discriminate|].
    inversion Hu; subst. unfold lctx; simpl.
    clear - Hls2. induction Hls2; simpl; auto.
    destruct H as (E1 & E2 & E3 & _ & E5 & _). rewrite E1, E2, E3, E5, IHHls2. reflexivity. }
  unfold set_local in Hs. destruct osp as [sp|].
  - unfold lc_new in Hs. destruct (s_register st (Some (issue_token sp))) as [oep st1'] eqn:Hr.
    inversion Hs; subst inner st1'. unfold drop_guard in Hd.
    destruct oep as [ep|].
    + unfold lc_collect in Hd. destruct (s_unregister dbg st2 ep) as [[r st3']|] eqn:Hu; simpl in Hd; [|discriminate].
      assert (st3 = st3').
      { destruct (now e2) as [t e2']. destruct r as [[spans tk]|]; simpl in Hd.
        - destruct tk; inversion Hd; reflexivity.
        - inversion Hd; reflexivity. }
      subst st3'. eapply (Hreg _ (Some ep)); eauto. discriminate.
    + (* the scope limit refused the scope: nothing was opened *)
      unfold s_register in Hr. destruct (st_cap st <=? lenN (st_lines st)); inversion Hr; subst.
      unfold lc_collect in Hd. destruct (now e2) as [t e2']. simpl in Hd. inversion Hd; subst.
      eapply frame; eauto.
  - inversion Hs; subst. simpl in Hd. inversion Hd; subst. eapply frame; eauto.
Qed.

(* the end of a poll pushes what the guard submits before what the span's finish pushes *)
Theorem pollend_guard_before_span s th e a m r s' th' e' out res :
  exec_call s th e (KPollEnd a m r) = COk s' th' e' out res ->
  exists g inner rest fr held out1 st1 e1,
    th_scoped th = ScGuard g inner :: rest /\ th_frames th = FPoll a :: fr /\
    alookup a (s_adapters s) = Some held /\
    drop_guard (s_dbg s) inner (th_stack th) e = Ok (out1, st1, e1) /\
    out = out1 ++ match held, takes m r with
                  | Some osp, true => fst (drop_span osp e1)
                  | _, _ => []
                  end.
Proof.
  unfold exec_call.
  destruct (th_frames th) as [|[| | | |a'] fr]; try discriminate.
  destruct (th_scoped th) as [|[g inner| |] rest]; try discriminate.
  destruct (alookup a (s_adapters s)) as [held|]; [|discriminate].
  destruct (a =? a') eqn:Ea; simpl; [|discriminate]. apply N.eqb_eq in Ea; subst a'.
  destruct (drop_guard (s_dbg s) inner (th_stack th) e) as [[[out1 st1] e1]|] eqn:D; [|discriminate].
  intros X. exists g, inner, rest, fr, held, out1, st1, e1. repeat split; auto.
  destruct held as [osp|]; [destruct (takes m r)|].
  - destruct (drop_span osp e1) as [out2 e2]. inversion X; subst. reflexivity.
  - inversion X; subst. rewrite app_nil_r. reflexivity.
  - inversion X; subst. rewrite app_nil_r. destruct (takes m r); reflexivity.
Qed.

(* the span is taken exactly when the table says, and afterwards the adapter holds none *)
Lemma pollend_takes s th e a m r s' th' e' out res :
  exec_call s th e (KPollEnd a m r) = COk s' th' e' out res ->
  forall osp, alookup a (s_adapters s) = Some (Some osp) ->
  alookup a (s_adapters s') = Some (if takes m r then None else Some osp).
Proof.
  unfold exec_call.
  destruct (th_frames th) as [|[| | | |a'] fr]; try discriminate.
  destruct (th_scoped th) as [|[g inner| |] rest]; try discriminate.
  destruct (alookup a (s_adapters s)) as [held|] eqn:Ea; [|discriminate].
  destruct (a =? a'); simpl; [|discriminate].
  destruct (drop_guard (s_dbg s) inner (th_stack th) e) as [[[out1 st1] e1]|]; [|discriminate].
  intros X osp Ho. inversion Ho; subst held.
  destruct (takes m r).
  - destruct (drop_span osp e1) as [out2 e2]. inversion X; subst. simpl.
    unfold aset; simpl. rewrite N.eqb_refl. reflexivity.
  - inversion X; subst. exact Ea.
Qed.
