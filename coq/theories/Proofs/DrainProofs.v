(* C01, the drain: every command that is in the ring of a registered thread when a collector
   cycle begins is in the batch that cycle processes -- whatever the threads do meanwhile
   (calls, further pushes, exits) and however the drain's pops are interleaved with them. *)
From Coq Require Import List Arith NArith Bool Lia.
From FT Require Import Model.Base Model.Local Model.Records Model.Spsc Model.Collector Model.System.
Import ListNotations.
Open Scope N_scope.

Definition in_batch (c : command) (b : batch) : Prop :=
  match c with
  | CStart i => In i (b_start b)
  | CDrop i => In i (b_drop b)
  | CCommit i => In i (b_commit b)
  | CSubmit s tk => In (s, tk) (b_submit b)
  end.

Lemma in_batch_add_same c b : in_batch c (batch_add b c).
Proof. destruct c; simpl; apply in_app_iff; right; left; reflexivity. Qed.

Lemma in_batch_add_keep c c' b : in_batch c b -> in_batch c (batch_add b c').
Proof. destruct c, c'; simpl; auto; intros H; apply in_app_iff; left; exact H. Qed.

(* what is owed: for every thread still to be drained, the commands that were in its ring when
   the cycle began and have not been popped yet; they are a prefix of its ring *)
Definition owed_t := list (N * list command).

Definition rings_ok (s : sys) (owed : owed_t) : Prop :=
  forall t o, In (t, o) owed -> forall th, get_thread s t = Some th ->
    exists extra, ch_ring (th_chan th) = o ++ extra.

Definition covered (I : list (N * command)) (s : sys) (owed : owed_t) : Prop :=
  forall t c, In (t, c) I -> in_batch c (s_batch s) \/ exists o, In (t, o) owed /\ In c o.

Definition shape (s : sys) (owed : owed_t) : Prop :=
  match s_pc s with
  | PDrain todo kept cur => map fst owed = cur :: todo
  | PEmpty todo kept cur => map fst owed = cur :: todo /\ (forall o rest, owed = (cur, o) :: rest -> o = [])
  | PDrained => owed = []
  | PIdle => False
  end.

Definition drain_inv (I : list (N * command)) (s : sys) (owed : owed_t) : Prop :=
  covered I s owed /\ shape s owed /\ rings_ok s owed /\ NoDup (map fst owed).

(* ---------------------------------------------------------------- association lists *)
Lemma alookup_aupdate_eq {A} t (f : A -> A) (l : list (N * A)) t' :
  alookup t' (aupdate t f l) = if t' =? t then option_map f (alookup t' l) else alookup t' l.
Proof.
  induction l as [|[k v] l IH]; simpl.
  - destruct (t' =? t); reflexivity.
  - destruct (t =? k) eqn:E; simpl.
    + apply N.eqb_eq in E; subst k. destruct (t' =? t) eqn:E2; simpl; auto.
    + destruct (t' =? k) eqn:E2; simpl.
      * apply N.eqb_eq in E2; subst k. replace (t' =? t) with false; auto.
        symmetry. apply N.eqb_neq. intros ->. rewrite N.eqb_refl in E. discriminate.
      * exact IH.
Qed.

Lemma get_put_thread s t th' t' :
  get_thread (put_thread s t th') t' =
  if t' =? t then option_map (fun _ => th') (get_thread s t') else get_thread s t'.
Proof. unfold get_thread, put_thread; simpl. apply alookup_aupdate_eq. Qed.

(* ---------------------------------------------------------------- invariant transport *)
(* a step that leaves the collector fields alone and only lets rings grow at the end *)
Lemma inv_grow I s s' owed :
  drain_inv I s owed ->
  s_pc s' = s_pc s -> s_batch s' = s_batch s ->
  (forall t o, In (t, o) owed -> forall th', get_thread s' t = Some th' ->
     exists th more, get_thread s t = Some th /\ ch_ring (th_chan th') = ch_ring (th_chan th) ++ more) ->
  drain_inv I s' owed.
Proof.
  intros (C & S & R & N) Hpc Hb Hg. unfold drain_inv. split; [|split; [|split]]; auto.
  - unfold covered in *. rewrite Hb. exact C.
  - unfold shape in *. rewrite Hpc. exact S.
  - intros t o Hin th' Hth'. destruct (Hg t o Hin th' Hth') as (th & more & Hth & Hr).
    destruct (R t o Hin th Hth) as [extra He]. exists (extra ++ more). rewrite Hr, He, app_assoc. reflexivity.
Qed.

Lemma tick_get s t : get_thread (s_tick s) t = get_thread s t.
Proof. reflexivity. Qed.

Lemma exec_call_chan s th e c s1 th1 e1 out r :
  exec_call s th e c = COk s1 th1 e1 out r ->
  th_chan th1 = th_chan th /\ s_threads s1 = s_threads s /\ s_pc s1 = s_pc s /\ s_batch s1 = s_batch s /\
  s_registry s1 = s_registry s.
Proof.
  intros Ex. unfold exec_call in Ex.
  destruct c; cbv beta iota zeta in Ex;
    repeat match type of Ex with
           | context [match ?x with _ => _ end] => destruct x eqn:?; try discriminate
           | context [if ?x then _ else _] => destruct x eqn:?; try discriminate
           end; inversion Ex; subst; simpl; auto.
Qed.

Lemma push_step_grows (c : chan command) f v :
  exists more, ch_ring (fst (push_step c f v)) = ch_ring c ++ more.
Proof.
  unfold push_step. destruct (ch_pending c); destruct (ch_room c); try destruct f; simpl;
    try (eexists; reflexivity); exists []; rewrite app_nil_r; reflexivity.
Qed.

Lemma drop_step_grows (c : chan command) : exists more, ch_ring (drop_step c) = ch_ring c ++ more.
Proof.
  unfold drop_step. destruct (ch_pending c); try destruct (ch_room c); simpl;
    try (eexists; reflexivity); exists []; rewrite app_nil_r; reflexivity.
Qed.

(* replacing thread t by one whose ring extends the old ring *)
Lemma inv_put_grow I s owed t th th' more :
  drain_inv I s owed -> get_thread s t = Some th ->
  ch_ring (th_chan th') = ch_ring (th_chan th) ++ more ->
  drain_inv I (put_thread s t th') owed.
Proof.
  intros Hi Hg Hr. eapply inv_grow; eauto.
  intros t0 o0 _ th0 H0. rewrite get_put_thread in H0. destruct (t0 =? t) eqn:E.
  - apply N.eqb_eq in E; subst t0. rewrite Hg in H0. simpl in H0. inversion H0; subst th0.
    exists th, more. auto.
  - exists th0, []. rewrite app_nil_r. auto.
Qed.

Lemma inv_set_collector_same I s owed reg :
  drain_inv I s owed -> drain_inv I (s_set_collector s reg (s_pc s) (s_batch s) (s_active s)) owed.
Proof.
  intros Hi. eapply inv_grow; eauto. intros t o _ th' H. exists th', []. rewrite app_nil_r. auto.
Qed.

(* ---------------------------------------------------------------- the pops *)
Lemma owed_head_key (owed : owed_t) cur todo :
  map fst owed = cur :: todo -> exists o rest, owed = (cur, o) :: rest /\ map fst rest = todo.
Proof. destruct owed as [|[k o] rest]; simpl; intros H; inversion H; subst. eauto. Qed.

(* popping one command of cur *)
Lemma inv_pop I s owed todo kept cur th c ch' :
  drain_inv I s owed -> (s_pc s = PDrain todo kept cur \/ s_pc s = PEmpty todo kept cur) ->
  get_thread s cur = Some th -> pop_step (th_chan th) = (Some c, ch') ->
  exists owed',
    drain_inv I (s_set_collector (put_thread s cur (th_set_chan th ch')) (s_registry s)
                                 (PDrain todo kept cur) (batch_add (s_batch s) c) (s_active s)) owed'.
Proof.
  intros (C & S & R & N) Hpc Hg Hp.
  assert (Hk : map fst owed = cur :: todo).
  { unfold shape in S. destruct Hpc as [E|E]; rewrite E in S; [exact S | exact (proj1 S)]. }
  destruct (owed_head_key _ _ _ Hk) as (o & rest & -> & Hrest).
  unfold pop_step in Hp. destruct (ch_ring (th_chan th)) as [|x r] eqn:Er; [discriminate|].
  inversion Hp; subst x ch'; clear Hp.
  destruct (R cur o (or_introl eq_refl) th Hg) as [extra He]. rewrite Er in He.
  (* the popped command is the head of what is owed, or there is nothing owed *)
  set (o' := match o with [] => [] | _ :: o2 => o2 end).
  exists ((cur, o') :: rest).
  simpl in N. apply NoDup_cons_iff in N. destruct N as [Hnin Nrest].
  split; [|split; [|split]].
  - (* covered *)
    intros t c0 Hin. cbn [s_batch s_set_collector]. destruct (C t c0 Hin) as [Hb|(o0 & Ho0 & Hc0)].
    + left. apply in_batch_add_keep. exact Hb.
    + destruct Ho0 as [E|Ho0].
      * inversion E; subst t o0. destruct o as [|c1 o2]; [contradiction|].
        simpl in He. inversion He; subst c1. destruct Hc0 as [->|Hc0].
        -- left. apply in_batch_add_same.
        -- right. exists o2. split; [left; reflexivity | exact Hc0].
      * right. exists o0. split; [right; exact Ho0 | exact Hc0].
  - unfold shape. cbn [s_pc s_set_collector]. simpl. f_equal; exact Hrest.
  - (* rings *)
    intros t o0 Hin th0 H0. cbn [get_thread] in H0.
    change (get_thread (put_thread s cur (th_set_chan th (mkChan r (ch_cap (th_chan th)) (ch_pending (th_chan th))
               (ch_dropping (th_chan th)) (ch_abandoned (th_chan th))))) t = Some th0) in H0.
    rewrite get_put_thread in H0. destruct Hin as [E|Hin].
    + inversion E; subst t o0. rewrite N.eqb_refl, Hg in H0. simpl in H0. inversion H0; subst th0. simpl.
      destruct o as [|c1 o2]; simpl in *.
      * exists r. reflexivity.
      * inversion He; subst. exists extra. reflexivity.
    + destruct (t =? cur) eqn:E.
      * apply N.eqb_eq in E; subst t. exfalso. apply Hnin. apply in_map_iff. exists (cur, o0). auto.
      * apply (R t o0 (or_intror Hin) th0 H0).
  - simpl. constructor; auto.
Qed.

(* an empty pop: nothing is owed by cur *)
Lemma inv_pop_none I s owed todo kept cur th ch' :
  drain_inv I s owed -> s_pc s = PDrain todo kept cur ->
  get_thread s cur = Some th -> pop_step (th_chan th) = (None, ch') ->
  drain_inv I (s_set_collector s (s_registry s) (PEmpty todo kept cur) (s_batch s) (s_active s)) owed.
Proof.
  intros (C & S & R & N) Hpc Hg Hp.
  unfold shape in S. rewrite Hpc in S.
  unfold pop_step in Hp. destruct (ch_ring (th_chan th)) eqn:Er; [|discriminate].
  split; [|split; [|split]]; auto.
  - unfold shape. cbn [s_pc s_set_collector]. split; auto.
    intros o rest ->. destruct (R cur o (or_introl eq_refl) th Hg) as [extra He]. rewrite Er in He.
    destruct o; [reflexivity|discriminate].
Qed.

(* moving on to the next thread, or finishing the drain *)
Lemma inv_advance I s owed todo kept cur kept' :
  drain_inv I s owed -> s_pc s = PEmpty todo kept cur ->
  forall pc oreg, advance todo kept' = (pc, oreg) ->
  exists owed',
    drain_inv I (s_set_collector s (match oreg with Some reg => reg | None => s_registry s end) pc
                                 (s_batch s) (s_active s)) owed'.
Proof.
  intros (C & S & R & N) Hpc pc oreg Ha.
  unfold shape in S. rewrite Hpc in S. destruct S as [Hk Hnil].
  destruct (owed_head_key _ _ _ Hk) as (o & rest & -> & Hrest).
  specialize (Hnil o rest eq_refl). subst o.
  exists rest. unfold advance in Ha.
  simpl in N. apply NoDup_cons_iff in N. destruct N as [Hnin Nrest].
  assert (Cov : covered I s rest).
  { intros t c0 Hin. destruct (C t c0 Hin) as [Hb|(o0 & Ho0 & Hc0)]; auto.
    destruct Ho0 as [E|Ho0]; [inversion E; subst; contradiction|]. right. eauto. }
  assert (Rr : rings_ok s rest) by (intros t o0 Hin; apply R; right; exact Hin).
  destruct todo as [|n todo']; inversion Ha; subst; clear Ha.
  - destruct rest; [|discriminate]. split; [|split; [|split]]; auto.
    unfold shape. cbn [s_pc s_set_collector]. reflexivity.
  - split; [|split; [|split]]; auto.
Qed.

(* ---------------------------------------------------------------- one step inside a cycle *)
Theorem step_drain_inv I s owed a :
  drain_inv I s owed -> a <> ACProcess ->
  exists owed', drain_inv I (fst (step s a)) owed'.
Proof.
  intros Hi Hna.
  assert (Hi' : drain_inv I (s_tick s) owed).
  { eapply inv_grow; eauto. intros t o _ th' H. exists th', []. rewrite app_nil_r. auto. }
  assert (Hnidle : s_pc (s_tick s) <> PIdle).
  { destruct Hi' as (_ & S & _). unfold shape in S. intros E. rewrite E in S. exact S. }
  unfold step. destruct a; cbv beta iota zeta.
  - (* install: refused inside a cycle *)
    destruct (s_pc (s_tick s)) eqn:Epc; [contradiction| | |]; simpl; eauto.
  - (* spawn: refused inside a drain; once drained nothing is owed *)
    destruct (amem t (s_threads (s_tick s)) || in_drain (s_pc (s_tick s))) eqn:Eb; simpl; [eauto|].
    apply orb_false_iff in Eb. destruct Eb as [_ Ed].
    destruct Hi' as (C & S & R & N). unfold shape in S.
    destruct (s_pc (s_tick s)) eqn:Epc; simpl in Ed; try discriminate; try contradiction.
    subst owed. exists []. split; [|split; [|split]].
    + intros t0 c0 Hin. destruct (C t0 c0 Hin) as [Hb|(o & [] & _)]. left. exact Hb.
    + unfold shape. cbn [s_pc s_set_collector]. simpl. simpl in Epc. rewrite Epc. reflexivity.
    + intros t0 o [].
    + constructor.
  - (* call *)
    destruct (get_thread (s_tick s) t) as [th|] eqn:Eg; [|simpl; eauto].
    destruct (th_outbox th); [|simpl; eauto].
    destruct (ch_dropping (th_chan th)); [simpl; eauto|].
    destruct (exec_call (s_tick s) th _ c) as [s1 th1 e1 out r|code|site] eqn:Ex; [|simpl; eauto..].
    destruct (exec_call_chan _ _ _ _ _ _ _ _ _ Ex) as (Hc & Ht & Hpc & Hb & _).
    simpl. exists owed. eapply inv_grow; [exact Hi'| exact Hpc | exact Hb |].
    intros t0 o0 _ th0 H0. rewrite get_put_thread in H0.
    assert (Hg1 : get_thread s1 t0 = get_thread (s_tick s) t0) by (unfold get_thread; rewrite Ht; reflexivity).
    rewrite Hg1 in H0. destruct (t0 =? t) eqn:E.
    + apply N.eqb_eq in E; subst t0. rewrite Eg in H0. simpl in H0. inversion H0; subst th0.
      exists th, []. rewrite app_nil_r. simpl. rewrite Hc. auto.
    + exists th0, []. rewrite app_nil_r. auto.
  - (* push *)
    destruct (get_thread (s_tick s) t) as [th|] eqn:Eg; [|simpl; eauto].
    destruct (ch_dropping (th_chan th)).
    + destruct (ch_abandoned (th_chan th)); simpl; [eauto|].
      destruct (drop_step_grows (th_chan th)) as [more Hm].
      exists owed. eapply inv_put_grow; eauto.
    + destruct (th_outbox th) as [|[f cmd] rest]; [simpl; eauto|].
      destruct (push_step_grows (th_chan th) f cmd) as [more Hm].
      destruct (push_step (th_chan th) f cmd) as [ch' fin]. simpl in Hm. simpl.
      exists owed. eapply inv_put_grow; eauto.
  - (* exit *)
    destruct (get_thread (s_tick s) t) as [th|] eqn:Eg; [|simpl; eauto].
    destruct (th_outbox th), (th_scoped th), (th_frames th); try (simpl; eauto; fail).
    destruct (ch_dropping (th_chan th)); simpl; [eauto|].
    exists owed. eapply inv_put_grow with (more := []); eauto. simpl. rewrite app_nil_r. reflexivity.
  - (* cycle begin: refused inside a cycle *)
    destruct (s_pc (s_tick s)) eqn:Epc; [contradiction| | |]; simpl; eauto.
  - (* pop *)
    destruct (s_pc (s_tick s)) eqn:Epc; try (simpl; eauto; fail).
    destruct (get_thread (s_tick s) cur) as [th|] eqn:Eg; [|simpl; eauto].
    destruct (pop_step (th_chan th)) as [[c|] ch'] eqn:Ep.
    + cbn [fst]. eapply inv_pop; eauto.
    + cbn [fst]. exists owed. eapply inv_pop_none; eauto.
  - (* check *)
    destruct (s_pc (s_tick s)) eqn:Epc; try (simpl; eauto; fail).
    destruct (get_thread (s_tick s) cur) as [th|] eqn:Eg; [|simpl; eauto].
    destruct (ch_abandoned (th_chan th)).
    + destruct (pop_step (th_chan th)) as [[c|] ch'] eqn:Ep.
      * cbn [fst]. eapply inv_pop; eauto.
      * destruct (advance todo kept) as [pc oreg] eqn:Ea.
        destruct (inv_advance I _ owed todo kept cur kept Hi' Epc pc oreg Ea) as [owed' H'].
        destruct oreg; cbn [fst]; eauto.
    + destruct (advance todo (kept ++ [cur])) as [pc oreg] eqn:Ea.
      destruct (inv_advance I _ owed todo kept cur (kept ++ [cur]) Hi' Epc pc oreg Ea) as [owed' H'].
      destruct oreg; cbn [fst]; eauto.
  - contradiction.
Qed.

(* ---------------------------------------------------------------- a whole cycle *)
Definition no_process (h : list action) : Prop := Forall (fun a => a <> ACProcess) h.

Lemma run_drain_inv I h : forall s owed,
  drain_inv I s owed -> no_process h -> exists owed', drain_inv I (fst (run s h)) owed'.
Proof.
  induction h as [|a h IH]; intros s owed Hi Hn; simpl; [eauto|].
  inversion Hn as [|? ? Ha Hn']; subst.
  destruct (step_drain_inv I s owed a Hi Ha) as [owed1 H1].
  destruct (step s a) as [s1 o1]. cbn [fst] in H1.
  destruct (IH s1 owed1 H1 Hn') as [owed2 H2]. destruct (run s1 h) as [s2 os]. cbn [fst] in *. eauto.
Qed.

(* the commands in the rings of the registered threads *)
Definition ring_commands (s : sys) : list (N * command) :=
  flat_map (fun t => match get_thread s t with
                     | Some th => map (fun c => (t, c)) (ch_ring (th_chan th))
                     | None => []
                     end) (s_registry s).

Definition owed_init (s : sys) : owed_t :=
  map (fun t => (t, match get_thread s t with Some th => ch_ring (th_chan th) | None => [] end)) (s_registry s).

Lemma begin_inv s :
  s_pc s = PIdle -> s_installed s = true -> NoDup (s_registry s) ->
  exists owed, drain_inv (ring_commands s) (fst (step s ACBegin)) owed.
Proof.
  intros Hpc Hin Hnd. unfold step. cbv beta iota zeta.
  change (s_pc (s_tick s)) with (s_pc s). change (s_installed (s_tick s)) with (s_installed s).
  rewrite Hpc, Hin. change (s_registry (s_tick s)) with (s_registry s).
  assert (Hcov : forall t c, In (t, c) (ring_commands s) -> exists o, In (t, o) (owed_init s) /\ In c o).
  { unfold ring_commands, owed_init. intros t c Hin'. apply in_flat_map in Hin'. destruct Hin' as (t' & Ht' & Hc).
    destruct (get_thread s t') as [th|] eqn:Eg; [|contradiction].
    apply in_map_iff in Hc. destruct Hc as (c' & E & Hc'). inversion E; subst t' c'.
    exists (ch_ring (th_chan th)). split; auto. apply in_map_iff. exists t. rewrite Eg. auto. }
  assert (Hkeys : map fst (owed_init s) = s_registry s).
  { unfold owed_init. rewrite map_map. simpl. apply map_id. }
  assert (Hrings : forall s', (forall t, get_thread s' t = get_thread s t) -> rings_ok s' (owed_init s)).
  { intros s' Hs' t o Hin' th Hth. unfold owed_init in Hin'. apply in_map_iff in Hin'. destruct Hin' as (t' & E & _).
    inversion E; subst t' o. rewrite Hs' in Hth. rewrite Hth. exists []. rewrite app_nil_r. reflexivity. }
  destruct (s_registry s) as [|t todo] eqn:Er; simpl.
  - exists []. split; [|split; [|split]].
    + intros t c Hin'. unfold ring_commands in Hin'. rewrite Er in Hin'. contradiction.
    + unfold shape. simpl. reflexivity.
    + intros t o [].
    + constructor.
  - exists (owed_init s). split; [|split; [|split]].
    + intros t0 c Hin'. right. apply Hcov. exact Hin'.
    + unfold shape. simpl. rewrite Hkeys. reflexivity.
    + apply Hrings. intros t0. reflexivity.
    + rewrite Hkeys. exact Hnd.
Qed.

(* C01: whatever was in the ring of a registered thread when the cycle began is in the batch
   when the drain is over -- for every interleaving of the drain with the threads *)
Theorem cycle_drains_every_ring s h :
  s_pc s = PIdle -> s_installed s = true -> NoDup (s_registry s) -> no_process h ->
  s_pc (fst (run s (ACBegin :: h))) = PDrained ->
  forall t c, In (t, c) (ring_commands s) -> in_batch c (s_batch (fst (run s (ACBegin :: h)))).
Proof.
  intros Hpc Hin Hnd Hn Hend t c Hc. cbn [run] in *.
  destruct (begin_inv s Hpc Hin Hnd) as [owed0 H0].
  destruct (step s ACBegin) as [s1 o1]. cbn [fst] in H0.
  destruct (run_drain_inv _ h s1 owed0 H0 Hn) as [owed1 H1].
  destruct (run s1 h) as [s2 os]. cbn [fst] in *.
  destruct H1 as (C & S & _). unfold shape in S. rewrite Hend in S. subst owed1.
  destruct (C t c Hc) as [Hb|(o & [] & _)]. exact Hb.
Qed.


(* ---------------------------------------------------------------- the registry *)
(* the registry never lists a thread twice and only lists threads that exist: an invariant of
   every reachable state, so the hypothesis of the theorem above is always met *)
Definition keys (s : sys) : list N := map fst (s_threads s).

Definition reg_inv (s : sys) : Prop :=
  NoDup (s_registry s) /\ incl (s_registry s) (keys s) /\
  match s_pc s with
  | PDrain todo kept cur | PEmpty todo kept cur =>
      NoDup (kept ++ cur :: todo) /\ incl (kept ++ cur :: todo) (keys s)
  | _ => True
  end.

Lemma keys_aupdate' t (f : thread -> thread) (l : list (N * thread)) : map fst (aupdate t f l) = map fst l.
Proof.
  induction l as [|[k v] l IH]; simpl; auto.
  destruct (t =? k); simpl; [reflexivity | rewrite IH; reflexivity].
Qed.

Lemma amem_keys t (l : list (N * thread)) : amem t l = false -> ~ In t (map fst l).
Proof.
  unfold amem. induction l as [|[k v] l IH]; simpl; [tauto|].
  destruct (t =? k) eqn:E; [discriminate|]. intros H [Hk|Hin]; [subst; rewrite N.eqb_refl in E; discriminate|].
  apply IH; auto.
Qed.

Lemma nodup_remove_mid {A} (a : list A) x b : NoDup (a ++ x :: b) -> NoDup (a ++ b).
Proof. apply NoDup_remove_1. Qed.

Lemma incl_remove_mid {A} (a : list A) x b l : incl (a ++ x :: b) l -> incl (a ++ b) l.
Proof.
  intros H y Hy. apply H. apply in_app_iff in Hy. apply in_app_iff. destruct Hy; [left|right; right]; auto.
Qed.

Lemma reg_inv_same s s' :
  reg_inv s -> s_registry s' = s_registry s -> s_pc s' = s_pc s -> keys s' = keys s -> reg_inv s'.
Proof. unfold reg_inv. intros H E1 E2 E3. rewrite E1, E2, E3. exact H. Qed.

Lemma reg_inv_advance s todo (kept' : list N) pc oreg :
  NoDup (s_registry s) -> incl (s_registry s) (keys s) ->
  NoDup (kept' ++ todo) -> incl (kept' ++ todo) (keys s) ->
  advance todo kept' = (pc, oreg) ->
  reg_inv (s_set_collector s (match oreg with Some reg => reg | None => s_registry s end) pc (s_batch s) (s_active s)).
Proof.
  intros N1 I1 N2 I2 Ha. unfold advance in Ha. destruct todo as [|n todo']; inversion Ha; subst; clear Ha.
  - rewrite app_nil_r in *. unfold reg_inv; simpl. repeat split; auto.
  - unfold reg_inv; simpl. repeat split; auto.
Qed.

Lemma nodup_snoc {A} (l : list A) x : NoDup l -> ~ In x l -> NoDup (l ++ [x]).
Proof.
  induction l as [|y l IH]; simpl; intros N H.
  - constructor; auto.
  - inversion N as [|? ? Hy Nl]; subst. constructor.
    + intros Hin. apply in_app_iff in Hin. destruct Hin as [Hin|[E|[]]]; [auto|subst; apply H; left; reflexivity].
    + apply IH; auto.
Qed.

Theorem step_reg_inv s a : reg_inv s -> reg_inv (fst (step s a)).
Proof.
  intros Hi.
  assert (Ht : reg_inv (s_tick s)) by (eapply reg_inv_same; eauto).
  unfold step. destruct a; cbv beta iota zeta.
  - (* install *)
    destruct (s_pc (s_tick s)) eqn:Epc; cbn [fst]; auto.
    destruct Ht as (A & B & _). unfold reg_inv; simpl. repeat split; auto.
  - (* spawn *)
    destruct (amem t (s_threads (s_tick s)) || in_drain (s_pc (s_tick s))) eqn:Eb; cbn [fst]; auto.
    apply orb_false_iff in Eb. destruct Eb as [Em Ed].
    destruct Ht as (A & B & C). apply amem_keys in Em.
    assert (Hk : keys (s_set_collector (s_set_threads (s_tick s) (s_threads (s_tick s) ++ [(t, mkThread (st_new (s_stackcap (s_tick s)) (s_qcap (s_tick s))) [] [] prefix suffix (ch_new (s_ringcap (s_tick s))) [])]))
                       (s_registry (s_tick s) ++ [t]) (s_pc (s_tick s)) (s_batch (s_tick s)) (s_active (s_tick s)))
                 = keys (s_tick s) ++ [t]).
    { unfold keys; simpl. rewrite map_app. reflexivity. }
    unfold reg_inv. rewrite Hk. cbn [s_registry s_pc s_set_collector].
    split; [|split].
    + apply nodup_snoc; auto.
    + intros x Hx. apply in_app_iff in Hx. apply in_app_iff. destruct Hx as [Hx|Hx]; [left; apply B; exact Hx | right; exact Hx].
    + destruct (s_pc (s_tick s)); simpl in Ed; try discriminate; exact I.
  - (* call *)
    destruct (get_thread (s_tick s) t) as [th|] eqn:Eg; [|cbn [fst]; auto].
    destruct (th_outbox th); [|cbn [fst]; auto].
    destruct (ch_dropping (th_chan th)); [cbn [fst]; auto|].
    destruct (exec_call (s_tick s) th _ c) as [s1 th1 e1 out r|code|site] eqn:Ex; [|cbn [fst]; auto..].
    destruct (exec_call_chan _ _ _ _ _ _ _ _ _ Ex) as (_ & Hth & Hpc & _ & Hreg).
    cbn [fst]. eapply reg_inv_same; [exact Ht| | |].
    + simpl. exact Hreg.
    + simpl. exact Hpc.
    + unfold keys, put_thread; simpl. rewrite keys_aupdate', Hth. reflexivity.
  - (* push *)
    destruct (get_thread (s_tick s) t) as [th|] eqn:Eg; [|cbn [fst]; auto].
    destruct (ch_dropping (th_chan th)).
    + destruct (ch_abandoned (th_chan th)); cbn [fst]; auto.
      eapply reg_inv_same; [exact Ht| reflexivity | reflexivity |]. unfold keys, put_thread; simpl. apply keys_aupdate'.
    + destruct (th_outbox th) as [|[f cmd] rest]; [cbn [fst]; auto|].
      destruct (push_step (th_chan th) f cmd) as [ch' fin]. cbn [fst].
      eapply reg_inv_same; [exact Ht| reflexivity | reflexivity |]. unfold keys, put_thread; simpl. apply keys_aupdate'.
  - (* exit *)
    destruct (get_thread (s_tick s) t) as [th|] eqn:Eg; [|cbn [fst]; auto].
    destruct (th_outbox th), (th_scoped th), (th_frames th); try (cbn [fst]; auto; fail).
    destruct (ch_dropping (th_chan th)); cbn [fst]; auto.
    eapply reg_inv_same; [exact Ht| reflexivity | reflexivity |]. unfold keys, put_thread; simpl. apply keys_aupdate'.
  - (* cycle begin *)
    destruct Ht as (A & B & C).
    destruct (s_pc (s_tick s)) eqn:Epc, (s_installed (s_tick s)); try (cbn [fst]; unfold reg_inv; rewrite Epc; auto; fail).
    destruct (s_registry (s_tick s)) as [|t todo] eqn:Er; cbn [fst]; unfold reg_inv; simpl.
    + repeat split; auto.
    + try rewrite Er. repeat split; auto.
  - (* pop *)
    destruct Ht as (A & B & C).
    destruct (s_pc (s_tick s)) eqn:Epc; try (cbn [fst]; unfold reg_inv; rewrite Epc; auto; fail).
    destruct (get_thread (s_tick s) cur) as [th|] eqn:Eg; [|cbn [fst]; unfold reg_inv; rewrite Epc; auto].
    destruct (pop_step (th_chan th)) as [[c|] ch']; cbn [fst]; unfold reg_inv; simpl.
    + unfold keys, put_thread; simpl. rewrite keys_aupdate'. auto.
    + auto.
  - (* check *)
    destruct Ht as (A & B & C).
    destruct (s_pc (s_tick s)) eqn:Epc; try (cbn [fst]; unfold reg_inv; rewrite Epc; auto; fail).
    destruct C as [C1 C2].
    destruct (get_thread (s_tick s) cur) as [th|] eqn:Eg; [|cbn [fst]; unfold reg_inv; rewrite Epc; auto].
    destruct (ch_abandoned (th_chan th)).
    + destruct (pop_step (th_chan th)) as [[c|] ch']; cbn [fst].
      * unfold reg_inv; simpl. unfold keys, put_thread; simpl. rewrite keys_aupdate'. auto.
      * destruct (advance todo kept) as [pc oreg] eqn:Ea.
        pose proof (reg_inv_advance (s_tick s) todo kept pc oreg A B
                     (nodup_remove_mid _ _ _ C1) (incl_remove_mid _ _ _ _ C2) Ea) as H.
        destruct oreg; exact H.
    + destruct (advance todo (kept ++ [cur])) as [pc oreg] eqn:Ea. cbn [fst].
      assert (E : (kept ++ [cur]) ++ todo = kept ++ cur :: todo) by (rewrite <- app_assoc; reflexivity).
      pose proof (reg_inv_advance (s_tick s) todo (kept ++ [cur]) pc oreg A B) as H.
      rewrite E in H. specialize (H C1 C2 Ea). destruct oreg; exact H.
  - (* process *)
    destruct Ht as (A & B & C).
    destruct (s_pc (s_tick s)) eqn:Epc; try (cbn [fst]; unfold reg_inv; rewrite Epc; auto; fail).
    destruct (process _ _ _ _) as [am recs]. cbn [fst]. unfold reg_inv; simpl. auto.
Qed.

Lemma run_reg_inv h : forall s, reg_inv s -> reg_inv (fst (run s h)).
Proof.
  induction h as [|a h IH]; intros s Hi; simpl; auto.
  pose proof (step_reg_inv s a Hi) as H1. destruct (step s a) as [s1 o]. cbn [fst] in H1.
  specialize (IH s1 H1). destruct (run s1 h) as [s2 os]. exact IH.
Qed.

Lemma reg_inv_init dbg ringcap stackcap qcap : reg_inv (sys_init dbg ringcap stackcap qcap).
Proof. unfold reg_inv, sys_init; simpl. repeat split; auto. constructor. intros x []. Qed.

(* the drain theorem for every reachable state *)
Theorem reachable_cycle_drains_every_ring dbg ringcap stackcap qcap h0 h :
  let s := fst (run (sys_init dbg ringcap stackcap qcap) h0) in
  s_pc s = PIdle -> s_installed s = true -> no_process h ->
  s_pc (fst (run s (ACBegin :: h))) = PDrained ->
  forall t c, In (t, c) (ring_commands s) -> in_batch c (s_batch (fst (run s (ACBegin :: h)))).
Proof.
  intros s Hpc Hin Hn Hend. apply cycle_drains_every_ring; auto.
  pose proof (run_reg_inv h0 _ (reg_inv_init dbg ringcap stackcap qcap)) as (A & _). exact A.
Qed.

Theorem reachable_reg_inv dbg ringcap stackcap qcap h :
  reg_inv (fst (run (sys_init dbg ringcap stackcap qcap) h)).
Proof. apply run_reg_inv. apply reg_inv_init. Qed.
