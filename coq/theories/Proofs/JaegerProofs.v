(* C20: the datagram splitter of JaegerReporter::try_report, for every batch and every size
   function (no monotonicity assumed): it terminates, every emitted batch is below the limit
   and non-empty, and the emitted batches are the input in order minus exactly the spans
   that were found too large ALONE.
   C19 (Jaeger part): zig-zag / varint are injective encodings; convert loses nothing but
   sub-microsecond digits. *)
From Coq Require Import List Arith NArith Bool Lia.
From FT Require Import Model.Jaeger Proofs.SpscProofs.
Import ListNotations.

Section Split.
Context {A : Type}.
Variable size : list A -> nat.
Variable MAX : nat.

Definition too_big (s : A) : bool := Nat.leb MAX (size [s]).

(* what the loop guarantees, stated for an arbitrary accumulator *)
Lemma split_loop_spec fuel : forall spb rem out res,
  (length rem + spb < fuel)%nat -> (1 <= spb)%nat ->
  split_loop size MAX fuel spb rem out = res ->
  exists more, res = Some (out ++ more) /\
    Forall (fun b => (size b < MAX)%nat /\ b <> []) more /\
    thinned too_big rem (concat more).
Proof.
  induction fuel as [|fuel IH]; intros spb rem out res Hf Hs Hr; [lia|].
  simpl in Hr. destruct rem as [|x rem'].
  - exists []. subst. rewrite app_nil_r. repeat split; constructor.
  - set (rem := x :: rem') in *.
    set (bs := Nat.min spb (length rem)) in *.
    assert (Hbs1 : (1 <= bs)%nat) by (unfold bs, rem; simpl; lia).
    assert (Hbsl : (bs <= length rem)%nat) by (unfold bs; lia).
    destruct (Nat.leb MAX (size (firstn bs rem))) eqn:Ebig.
    + destruct (Nat.leb bs 1) eqn:E1.
      * (* a single span that does not fit: skipped *)
        apply Nat.leb_le in E1. assert (bs = 1%nat) by lia.
        assert (Hx : too_big x = true).
        { unfold too_big. rewrite H in Ebig. unfold rem in Ebig. simpl in Ebig. exact Ebig. }
        destruct (IH spb rem' out res) as (more & Hres & Hall & Hth); auto.
        { unfold rem in Hf; simpl in Hf. lia. }
        exists more. repeat split; auto. unfold rem. apply th_drop; auto.
      * (* halve the window *)
        apply Nat.leb_gt in E1.
        assert (Hspb2 : (2 <= spb)%nat) by (unfold bs in E1; lia).
        destruct (IH (Nat.div spb 2) rem out res) as (more & Hres & Hall & Hth); auto.
        { assert (Nat.div spb 2 < spb)%nat by (apply Nat.div_lt; lia). lia. }
        { apply Nat.div_le_lower_bound; lia. }
        exists more. auto.
    + (* the window fits: emitted *)
      apply Nat.leb_gt in Ebig.
      destruct (IH spb (skipn bs rem) (out ++ [firstn bs rem]) res) as (more & Hres & Hall & Hth); auto.
      { rewrite skipn_length. lia. }
      exists (firstn bs rem :: more). repeat split.
      * rewrite Hres, <- app_assoc. reflexivity.
      * constructor; auto. split; auto. intros Hnil.
        assert (length (firstn bs rem) = bs) by (apply firstn_length_le; auto). rewrite Hnil in H. simpl in H. lia.
      * simpl. rewrite <- (firstn_skipn bs rem) at 1.
        apply thinned_app; auto. apply thinned_refl.
Qed.

(* C20 *)
Theorem splitter_spec spans :
  exists out, try_report size MAX spans = Some out /\
    Forall (fun b => (size b < MAX)%nat /\ b <> []) out /\
    thinned too_big spans (concat out).
Proof.
  unfold try_report. destruct spans as [|x spans'].
  - exists []. simpl. repeat split; constructor.
  - set (spans := x :: spans') in *.
    destruct (split_loop_spec (2 * length spans + 1) (length spans) spans []
                              (split_loop size MAX (2 * length spans + 1) (length spans) spans []))
      as (more & Hres & Hall & Hth); auto.
    + lia.
    + unfold spans; simpl; lia.
    + exists more. auto.
Qed.

(* consequences in the words of the property: nothing is duplicated or reordered, and a span
   that fits alone is never dropped *)
Lemma thinned_keeps drop (l l' : list A) x :
  thinned drop l l' -> In x l -> drop x = false -> In x l'.
Proof.
  induction 1; simpl; auto.
  - intros [->|H1] Hd; auto.
  - intros [->|H1] Hd; auto. congruence.
Qed.

Corollary fitting_span_is_sent spans out x :
  try_report size MAX spans = Some out -> In x spans -> (size [x] < MAX)%nat -> In x (concat out).
Proof.
  intros Hr Hin Hfit. destruct (splitter_spec spans) as (out' & Hr' & _ & Hth).
  rewrite Hr in Hr'. inversion Hr'; subst. eapply thinned_keeps; eauto.
  unfold too_big. apply Nat.leb_gt. exact Hfit.
Qed.

Lemma thinned_length drop (l l' : list A) : thinned drop l l' -> (length l' <= length l)%nat.
Proof. induction 1; simpl; lia. Qed.

End Split.

(* ---------------------------------------------------------------- C19: number encodings *)
Open Scope N_scope.

Definition unzigzag64 (z : N) : N :=
  if N.even z then z / 2 else two64j - (z + 1) / 2.

Lemma zigzag64_inv v : v < two64j -> unzigzag64 (zigzag64 v) = v.
Proof.
  unfold zigzag64, unzigzag64, two63, two64j. intros Hv.
  destruct (v <? 9223372036854775808) eqn:E.
  - assert (He : N.even (2 * v) = true) by (rewrite N.even_mul; reflexivity).
    rewrite He. replace (2 * v) with (v * 2) by lia. apply N.div_mul. discriminate.
  - apply N.ltb_ge in E.
    assert (Hodd : N.even (2 * (18446744073709551616 - v) - 1) = false).
    { replace (2 * (18446744073709551616 - v) - 1) with (2 * (18446744073709551616 - v - 1) + 1) by lia.
      rewrite N.even_add, N.even_mul. reflexivity. }
    rewrite Hodd.
    replace (2 * (18446744073709551616 - v) - 1 + 1) with ((18446744073709551616 - v) * 2) by lia.
    rewrite N.div_mul by discriminate. lia.
Qed.

Lemma zigzag64_bound v : v < two64j -> zigzag64 v < two64j.
Proof.
  unfold zigzag64, two63, two64j. intros Hv. destruct (v <? 9223372036854775808) eqn:E.
  - apply N.ltb_lt in E. lia.
  - apply N.ltb_ge in E. lia.
Qed.

(* reading a varint back *)
Fixpoint unvarint_fuel (fuel : nat) (l : list N) : option (N * list N) :=
  match fuel, l with
  | _, [] => None
  | O, b :: rest => Some (b, rest)
  | S fuel', b :: rest =>
      if b <? 128 then Some (b, rest)
      else match unvarint_fuel fuel' rest with
           | Some (hi, rest') => Some (b - 128 + 128 * hi, rest')
           | None => None
           end
  end.

Lemma varint_inv fuel : forall n rest,
  n < 128 ^ N.of_nat (S fuel) ->
  unvarint_fuel fuel (varint_fuel fuel n ++ rest) = Some (n, rest).
Proof.
  induction fuel as [|fuel IH]; intros n rest Hn.
  - simpl in *. rewrite N.mod_small by lia. reflexivity.
  - cbn [varint_fuel]. destruct (n <? 128) eqn:E.
    + simpl. rewrite E. reflexivity.
    + apply N.ltb_ge in E. cbn [app unvarint_fuel].
      assert (Hm : n mod 128 < 128) by (apply N.mod_upper_bound; discriminate).
      assert (Hf : (n mod 128 + 128 <? 128) = false) by (apply N.ltb_ge; apply N.le_add_l).
      rewrite Hf. rewrite IH.
      * f_equal. f_equal. pose proof (N.div_mod n 128 ltac:(discriminate)) as Hd.
        generalize dependent (n mod 128); generalize dependent (n / 128); intros; lia.
      * rewrite Nnat.Nat2N.inj_succ, N.pow_succ_r' in Hn.
        apply N.div_lt_upper_bound; [discriminate|]. exact Hn.
Qed.

(* every 64-bit value survives varint *)
Theorem varint64_roundtrip n rest : n < two64j -> unvarint_fuel 10 (varint n ++ rest) = Some (n, rest).
Proof.
  intros Hn. unfold varint. apply varint_inv. unfold two64j in Hn.
  eapply N.lt_trans; [exact Hn|]. reflexivity.
Qed.

Theorem i64_field_roundtrip v rest :
  v < two64j ->
  match unvarint_fuel 10 (enc_i64 v ++ rest) with
  | Some (z, rest') => unzigzag64 z = v /\ rest' = rest
  | None => False
  end.
Proof.
  intros Hv. unfold enc_i64. rewrite varint64_roundtrip by (apply zigzag64_bound; auto).
  split; [apply zigzag64_inv; auto | reflexivity].
Qed.

(* convert: ids are transmitted exactly (the 128-bit trace id as two halves), times and
   durations in whole microseconds, name / tags / log fields unchanged and in order *)
Theorem convert_faithful r :
  let s := convert r in
  j_trace_high s * two64j + j_trace_low s = jr_trace r /\
  j_span s = jr_id r /\ j_parent s = jr_parent r /\ j_name s = jr_name r /\
  j_start s = jr_begin r / 1000 /\ j_dur s = jr_dur r / 1000 /\
  j_tags s = jr_props r /\
  map (fun l => (jl_ts l, jl_fields l)) (j_logs s) =
  map (fun ev => (je_ts ev / 1000, (name_key, je_name ev) :: je_props ev)) (jr_events r).
Proof.
  simpl. repeat split; auto.
  - rewrite N.mul_comm. symmetry. apply N.div_mod. discriminate.
  - rewrite map_map. reflexivity.
Qed.

Theorem convert_microseconds t : 1000 * (t / 1000) <= t /\ t < 1000 * (t / 1000) + 1000.
Proof.
  pose proof (N.div_mod t 1000 ltac:(discriminate)) as Hd.
  pose proof (N.mod_upper_bound t 1000 ltac:(discriminate)) as Hm.
  generalize dependent (t mod 1000); generalize dependent (t / 1000); intros; lia.
Qed.
