(* C10: the representation of the scope stamp ("span line epoch").  The code keeps a
   per-thread counter of some machine width (wrapping), stamps every scope it opens with the
   counter's value, copies the stamp into the handle of every local span opened in that
   scope, and honours a handle iff its stamp equals the stamp of the scope on top of the
   stack.  The model (Model/Local.v) uses unbounded numbers and plain equality.  This file
   relates the two: with handle and counter of the same width the machine test IS the model's
   test for any two scopes opened fewer than 2^width openings apart; with a narrower handle it
   is not (a scope opened after 2^handle-width openings does not honour its own handles). *)
From Coq Require Import NArith Lia Bool.
Open Scope N_scope.

Definition trunc (w x : N) : N := x mod 2 ^ w.

(* the machine test: stamp of the current scope (counter width wc) against the stamp a handle
   stored at creation (counter value truncated to the handle's width wh, widened again) *)
Definition honoured (wc wh scope_stamp creation_stamp : N) : bool :=
  trunc wc scope_stamp =? trunc wh (trunc wc creation_stamp).

Lemma pow2_pos w : 0 < 2 ^ w.
Proof. apply N.neq_0_lt_0. apply N.pow_nonzero. discriminate. Qed.

Lemma mod_eq_close m a b : 0 < m -> a <= b -> b - a < m -> b mod m = a mod m -> a = b.
Proof.
  intros Hm Hab Hd He.
  assert (Hm0 : m <> 0) by lia.
  pose proof (N.div_mod a m Hm0) as Ea. pose proof (N.div_mod b m Hm0) as Eb.
  pose proof (N.div_le_mono a b m Hm0 Hab) as Hq.
  rewrite He in Eb.
  destruct (N.eq_dec (a / m) (b / m)) as [Eq|Nq].
  - rewrite Eq in Ea. lia.
  - assert (H1 : a / m + 1 <= b / m) by lia.
    pose proof (N.mul_le_mono_l _ _ m H1) as H2. lia.
Qed.

Theorem same_width_exact w a b :
  a <= b -> b - a < 2 ^ w -> honoured w w b a = (a =? b).
Proof.
  intros Hab Hd. unfold honoured, trunc.
  rewrite N.mod_mod by (apply N.pow_nonzero; discriminate).
  destruct (N.eqb_spec a b) as [->|Hne].
  - apply N.eqb_refl.
  - apply N.eqb_neq. intros He. apply Hne. apply (mod_eq_close (2 ^ w)); auto. apply pow2_pos.
Qed.

(* a scope always honours the handles created in it *)
Corollary same_width_own_handles w e : honoured w w e e = true.
Proof. rewrite same_width_exact; [apply N.eqb_refl|lia|]. rewrite N.sub_diag. apply pow2_pos. Qed.

(* a handle narrower than the counter: the scope opened after 2^wh openings does not honour
   its own handles (its local spans never finish, their properties are dropped) *)
Theorem narrow_handle_refuted wc wh :
  wh < wc -> exists e, e < 2 ^ wc /\ honoured wc wh e e = false.
Proof.
  intros Hw. exists (2 ^ wh).
  assert (Hlt : 2 ^ wh < 2 ^ wc) by (apply N.pow_lt_mono_r; [reflexivity|exact Hw]).
  split; [exact Hlt|].
  unfold honoured, trunc. rewrite (N.mod_small (2 ^ wh) (2 ^ wc) Hlt).
  rewrite N.mod_same by (apply N.pow_nonzero; discriminate).
  apply N.eqb_neq. pose proof (pow2_pos wh). lia.
Qed.
