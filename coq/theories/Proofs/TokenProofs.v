(* Where token items come from (C02 / C05 / C11): a system-wide invariant over all histories
   and all schedules.  [P] is any predicate on token items that looks only at the trace id
   and the sampling flag; if every root is created with an item satisfying P then every item
   anywhere in the system -- spans, adapters, scopes, closures in progress, outboxes, rings,
   overflow lists, the collector's batch -- satisfies P, and every buffered collection and
   every reported record carries the trace id of a SAMPLED item satisfying P. *)
From Coq Require Import List Arith NArith Bool Lia.
From FT Require Import Model.Base Model.Local Model.Records Model.Spsc Model.Collector Model.System
     Proofs.RecordsProofs.
Import ListNotations.
Open Scope N_scope.

Section Prov.
(* the set of (trace id, sampled) pairs of the roots created so far, as a predicate *)
Variable R : N -> bool -> Prop.

Definition okit (it : tok_item) : Prop := R (ti_trace it) (ti_sampled it).
Definition oktok (tk : token) : Prop := Forall okit tk.

Lemma okit_set_parent p it : okit it -> okit (tok_set_parent p it).
Proof. unfold okit; destruct it; simpl; auto. Qed.

Lemma oktok_filter tk : oktok tk -> oktok (filter ti_sampled tk).
Proof.
  unfold oktok. intros H. apply Forall_forall. intros x Hx. apply filter_In in Hx.
  destruct Hx as [Hx _]. eapply Forall_forall in H; eauto.
Qed.

Definition okspan (osp : option span_inner) : Prop :=
  match osp with Some sp => oktok (sp_token sp) | None => True end.

Lemma issue_token_ok sp : oktok (sp_token sp) -> oktok (issue_token sp).
Proof.
  unfold oktok, issue_token. intros H. apply Forall_forall. intros x Hx.
  apply in_map_iff in Hx. destruct Hx as [it [Heq Hit]]. subst x.
  assert (Ho : okit it) by (eapply Forall_forall in H; eauto).
  unfold okit in *; simpl; exact Ho.
Qed.

(* a command is fine when its token is fine and, for span sets, all its items are sampled *)
Definition okcmd (c : command) : Prop :=
  match c with
  | CSubmit _ tk => oktok tk /\ Forall (fun it => ti_sampled it = true) tk
  | _ => True
  end.
Definition okout (o : list (bool * command)) : Prop := Forall (fun fc => okcmd (snd fc)) o.

Lemma submit_ok s tk : oktok tk -> okout (submit s tk).
Proof.
  intros H. unfold submit, okout. destruct (filter ti_sampled tk) eqn:E; constructor; auto.
  simpl. rewrite <- E. split; [apply oktok_filter; auto|].
  apply Forall_forall. intros x Hx. apply filter_In in Hx. tauto.
Qed.

Lemma okout_app a b : okout a -> okout b -> okout (a ++ b).
Proof. unfold okout. intros; apply Forall_app; auto. Qed.

(* ---------------------------------------------------------------- thread-local layer *)
Definition okline (l : sline) : Prop := match l_token l with Some tk => oktok tk | None => True end.
Definition okstack (st : stack) : Prop := Forall okline (st_lines st).

Lemma l_cur_token_ok l tk : okline l -> l_cur_token l = Some tk -> oktok tk.
Proof.
  unfold okline, l_cur_token. destruct (l_token l) as [t|]; [|discriminate].
  intros H E. inversion E; subst. unfold oktok in *. apply Forall_forall. intros x Hx.
  apply in_map_iff in Hx. destruct Hx as [it [Heq Hit]]. subst x. apply okit_set_parent.
  eapply Forall_forall in H; eauto.
Qed.

Lemma s_cur_token_ok st tk : okstack st -> s_cur_token st = Some tk -> oktok tk.
Proof.
  unfold okstack, s_cur_token. destruct (st_lines st) as [|l ls]; [discriminate|].
  intros H. inversion H; subst. apply l_cur_token_ok; auto.
Qed.

Lemma okline_set_q l q : okline l -> okline (l_set_q l q).
Proof. unfold okline, l_set_q; simpl; auto. Qed.

Lemma okstack_top_q st l ls q :
  st_lines st = l :: ls -> okstack st -> okstack (st_set_lines st (l_set_q l q :: ls)).
Proof.
  unfold okstack; simpl. intros E H. rewrite E in H. inversion H; subst.
  constructor; auto; try (apply okline_set_q; auto).
Qed.

Lemma s_enter_ok st name e h st' e' : okstack st -> s_enter st name e = (Some (h, st'), e') -> okstack st'.
Proof.
  unfold s_enter. destruct (st_lines st) as [|l ls] eqn:E; [discriminate|].
  unfold l_start. destruct (negb (l_sampled l)); [discriminate|].
  destruct (q_start (l_q l) name e) as [[[idx q']|] e1]; [|discriminate].
  intros H X. inversion X; subst. eapply okstack_top_q; eauto.
Qed.

Lemma s_exit_ok dbg st h e st' e' : okstack st -> s_exit dbg st h e = Ok (st', e') -> okstack st'.
Proof.
  unfold s_exit. destruct (st_lines st) as [|l ls] eqn:E.
  - intros H X; inversion X; subst; auto.
  - destruct (dbg && negb (l_epoch l =? fst h)); [discriminate|].
    unfold l_finish. destruct (l_epoch l =? fst h).
    + destruct (q_finish dbg (l_q l) (snd h) e) as [[q' e1]|]; simpl; [|discriminate].
      intros H X. inversion X; subst. eapply okstack_top_q; eauto.
    + simpl. intros H X. inversion X; subst.
      unfold okstack in *; simpl. rewrite E in H. exact H.
Qed.

Lemma s_add_event_ok st name ps e : okstack st -> okstack (fst (s_add_event st name ps e)).
Proof.
  unfold s_add_event. destruct (st_lines st) as [|l ls] eqn:E; simpl; auto.
  unfold l_add_event. destruct (negb (l_sampled l)); simpl.
  - intros H. unfold okstack in *; simpl. rewrite E in H. exact H.
  - destruct (q_add_event (l_q l) name ps e) as [q' e1]; simpl. intros H. eapply okstack_top_q; eauto.
Qed.

Lemma s_add_props_ok st ps e : okstack st -> okstack (fst (s_add_props st ps e)).
Proof.
  unfold s_add_props. destruct (st_lines st) as [|l ls] eqn:E; simpl; auto.
  unfold l_add_props. destruct (negb (l_sampled l)); simpl.
  - intros H. unfold okstack in *; simpl. rewrite E in H. exact H.
  - destruct (q_add_props (l_q l) ps e) as [q' e1]; simpl. intros H. eapply okstack_top_q; eauto.
Qed.

Lemma s_with_props_ok dbg st h ps st' : okstack st -> s_with_props dbg st h ps = Ok st' -> okstack st'.
Proof.
  unfold s_with_props. destruct (st_lines st) as [|l ls] eqn:E.
  - destruct dbg; [discriminate|]. intros H X; inversion X; subst; auto.
  - destruct (dbg && negb (l_epoch l =? fst h)); [discriminate|].
    unfold l_with_props. destruct (negb (l_sampled l)).
    + simpl. intros H X; inversion X; subst. unfold okstack in *; simpl. rewrite E in H; exact H.
    + destruct (l_epoch l =? fst h).
      * destruct (q_with_props (l_q l) (snd h) ps) as [q'|]; simpl; [|discriminate].
        intros H X; inversion X; subst. eapply okstack_top_q; eauto.
      * simpl. intros H X; inversion X; subst. unfold okstack in *; simpl. rewrite E in H; exact H.
Qed.

Lemma s_register_ok st tk oep st' :
  okstack st -> match tk with Some t => oktok t | None => True end ->
  s_register st tk = (oep, st') -> okstack st'.
Proof.
  unfold s_register. destruct (st_cap st <=? lenN (st_lines st)).
  - intros H _ X; inversion X; subst; auto.
  - intros H Ht X; inversion X; subst. unfold okstack; simpl. constructor; auto.
Qed.

Lemma s_unregister_ok dbg st ep r st' :
  okstack st -> s_unregister dbg st ep = Ok (r, st') ->
  okstack st' /\ match r with Some (_, Some tk) => oktok tk | _ => True end.
Proof.
  unfold s_unregister. destruct (st_lines st) as [|l ls] eqn:E.
  - destruct dbg; [discriminate|]. intros H X; inversion X; subst; auto.
  - destruct (dbg && negb (l_epoch l =? ep)); [discriminate|].
    intros H X; inversion X; subst. unfold okstack in *; simpl. rewrite E in H. inversion H; subst.
    split; auto. unfold l_collect. destruct (l_epoch l =? ep); auto.
    all: try (unfold okline in H2; destruct (l_token l); auto).
Qed.

Lemma lc_collect_ok dbg st oep e spans endt otk st' e' :
  okstack st -> lc_collect dbg st oep e = Ok ((spans, endt, otk), st', e') ->
  okstack st' /\ match otk with Some tk => oktok tk | None => True end.
Proof.
  unfold lc_collect. destruct oep as [ep|].
  - destruct (s_unregister dbg st ep) as [[r st1]|] eqn:U; simpl; [|discriminate].
    intros H X. destruct (s_unregister_ok dbg st ep r st1 H U) as [H1 H2].
    destruct r as [[sp tk]|]; inversion X; subst; auto.
  - intros H X; inversion X; subst; auto.
Qed.

Lemma lc_drop_ok dbg st oep st' : okstack st -> lc_drop dbg st oep = Ok st' -> okstack st'.
Proof.
  unfold lc_drop. destruct oep as [ep|].
  - destruct (s_unregister dbg st ep) as [[r st1]|] eqn:U; simpl; [|discriminate].
    intros H X; inversion X; subst. eapply s_unregister_ok; eauto.
  - intros H X; inversion X; subst; auto.
Qed.

Lemma set_local_ok osp st inner st' : okspan osp -> okstack st -> set_local osp st = (inner, st') -> okstack st'.
Proof.
  unfold set_local. destruct osp as [sp|].
  - unfold lc_new. destruct (s_register st (Some (issue_token sp))) as [oep st1] eqn:Rg.
    intros Hs H X; inversion X; subst. eapply s_register_ok; eauto. apply issue_token_ok; auto.
  - intros _ H X; inversion X; subst; auto.
Qed.

Lemma drop_guard_ok dbg inner st e out st' e' :
  okstack st -> drop_guard dbg inner st e = Ok (out, st', e') -> okstack st' /\ okout out.
Proof.
  unfold drop_guard. destruct inner as [oep|].
  - destruct (lc_collect dbg st oep e) as [[[[[spans endt] otk] st1] e1]|] eqn:C; simpl; [|discriminate].
    intros H X. destruct (lc_collect_ok _ _ _ _ _ _ _ _ _ H C) as [H1 H2].
    destruct otk as [tk|]; inversion X; subst; split; auto.
    + apply submit_ok; auto.
    + constructor.
  - intros H X; inversion X; subst; split; auto. constructor.
Qed.

Lemma drop_span_ok osp e out e' : okspan osp -> drop_span osp e = (out, e') -> okout out.
Proof.
  unfold drop_span. destruct osp as [sp|].
  - destruct (now e) as [t1 e1]. intros H X; inversion X; subst.
    apply okout_app; [apply submit_ok; auto|]. destruct (sp_cid sp); repeat constructor.
  - intros _ X; inversion X; subst. constructor.
Qed.

Lemma new_span_ok name tk cid e sp e' : oktok tk -> new_span name tk cid e = (sp, e') -> okspan (Some sp).
Proof.
  unfold new_span. destruct (next_id e) as [id e1]. destruct (now e1) as [t0 e2].
  intros H X; inversion X; subst. exact H.
Qed.

(* ---------------------------------------------------------------- one API call *)
Definition okspans (l : list (N * option span_inner)) : Prop := Forall (fun kv => okspan (snd kv)) l.
Definition okadapters (l : list (N * option (option span_inner))) : Prop :=
  Forall (fun kv => match snd kv with Some osp => okspan osp | None => True end) l.
Definition okframe (f : frame) : Prop := match f with FSAdd _ tk _ => oktok tk | _ => True end.
Definition okframes (l : list frame) : Prop := Forall okframe l.

(* what exec_call can see *)
Definition okview (s : sys) (th : thread) : Prop :=
  okspans (s_spans s) /\ okadapters (s_adapters s) /\ okstack (th_stack th) /\ okframes (th_frames th).

Lemma okspans_lookup l h osp : okspans l -> alookup h l = Some osp -> okspan osp.
Proof.
  unfold okspans. induction l as [|[k v] l IH]; simpl; [discriminate|].
  intros H X. inversion H as [|? ? H2 H3]; subst. destruct (h =? k).
  - inversion X; subst. simpl in H2. exact H2.
  - apply IH; assumption.
Qed.

Lemma okspans_aremove l h : okspans l -> okspans (aremove h l).
Proof.
  unfold okspans. induction l as [|[k v] l IH]; simpl; auto.
  intros H; inversion H; subst. destruct (h =? k); auto.
Qed.

Lemma okspans_cons l h osp : okspans l -> okspan osp -> okspans ((h, osp) :: l).
Proof. unfold okspans. intros; constructor; auto. Qed.

Lemma okadapters_lookup l a held : okadapters l -> alookup a l = Some held ->
  match held with Some osp => okspan osp | None => True end.
Proof.
  unfold okadapters. induction l as [|[k v] l IH]; simpl; [discriminate|].
  intros H X. inversion H as [|? ? H2 H3]; subst. destruct (a =? k).
  - inversion X; subst. simpl in H2. exact H2.
  - apply IH; assumption.
Qed.

Lemma okadapters_aremove l a : okadapters l -> okadapters (aremove a l).
Proof.
  unfold okadapters. induction l as [|[k v] l IH]; simpl; auto.
  intros H; inversion H; subst. destruct (a =? k); auto.
Qed.

Lemma flat_map_issue_ok (s : sys) ps :
  okspans (s_spans s) ->
  oktok (flat_map (fun p => match get_span s p with Some (Some psp) => issue_token psp | _ => [] end) ps).
Proof.
  intros H. unfold oktok. induction ps as [|p ps IH]; simpl; [constructor|].
  apply Forall_app; split; auto.
  unfold get_span. destruct (alookup p (s_spans s)) as [[psp|]|] eqn:E; try constructor.
  apply issue_token_ok. exact (okspans_lookup _ _ _ H E).
Qed.

Lemma okview_intro s th :
  okspans (s_spans s) -> okadapters (s_adapters s) -> okstack (th_stack th) -> okframes (th_frames th) ->
  okview s th.
Proof. unfold okview; auto. Qed.

Lemma okframes_cons f fr : okframe f -> okframes fr -> okframes (f :: fr).
Proof. unfold okframes; intros; constructor; auto. Qed.

Lemma okadapters_cons l a held :
  okadapters l -> match held with Some osp => okspan osp | None => True end -> okadapters ((a, held) :: l).
Proof. unfold okadapters; intros; constructor; auto. Qed.

Lemma okout_nil : okout [].
Proof. constructor. Qed.

Lemma okout_forced c : match c with CSubmit _ _ => False | _ => True end -> okout [(true, c)].
Proof. intros H. constructor; [|constructor]. destruct c; simpl; auto; contradiction. Qed.

Lemma s_add_event_ok' st name ps e st1 e1 : okstack st -> s_add_event st name ps e = (st1, e1) -> okstack st1.
Proof. intros H A. change st1 with (fst (st1, e1)). rewrite <- A. apply s_add_event_ok; auto. Qed.

Lemma s_add_props_ok' st ps e st1 e1 : okstack st -> s_add_props st ps e = (st1, e1) -> okstack st1.
Proof. intros H A. change st1 with (fst (st1, e1)). rewrite <- A. apply s_add_props_ok; auto. Qed.

Lemma lc_collect_ok1 dbg st oep e spans endt otk st' e' :
  okstack st -> lc_collect dbg st oep e = Ok ((spans, endt, otk), st', e') -> okstack st'.
Proof. intros H C. eapply lc_collect_ok; eauto. Qed.

Lemma drop_guard_ok1 dbg inner st e out st' e' :
  okstack st -> drop_guard dbg inner st e = Ok (out, st', e') -> okstack st'.
Proof. intros H D. eapply drop_guard_ok; eauto. Qed.

Lemma drop_guard_ok2 dbg inner st e out st' e' :
  okstack st -> drop_guard dbg inner st e = Ok (out, st', e') -> okout out.
Proof. intros H D. eapply drop_guard_ok; eauto. Qed.

Lemma s_register_none_ok st oep st' : okstack st -> s_register st None = (oep, st') -> okstack st'.
Proof. intros H Rg. eapply s_register_ok; eauto. simpl; auto. Qed.

Lemma okspan_none : okspan None.
Proof. exact I. Qed.

Create HintDb okdb.
#[local] Hint Resolve okspans_cons okspans_aremove okadapters_aremove okadapters_cons okframes_cons
  okout_app okout_nil okspan_none submit_ok issue_token_ok : okdb.

Arguments new_span : simpl never.
Arguments drop_span : simpl never.
Arguments submit : simpl never.
Arguments set_local : simpl never.
Arguments drop_guard : simpl never.
Arguments issue_token : simpl never.
Arguments s_enter : simpl never.
Arguments s_exit : simpl never.
Arguments s_add_event : simpl never.
Arguments s_add_props : simpl never.
Arguments s_with_props : simpl never.
Arguments s_register : simpl never.
Arguments s_cur_token : simpl never.
Arguments s_is_recording : simpl never.
Arguments s_is_current_recording : simpl never.
Arguments lc_collect : simpl never.
Arguments lc_drop : simpl never.
Arguments lc_new : simpl never.
Arguments to_span_records : simpl never.
Arguments find_local : simpl never.
Arguments scoped_id_free : simpl never.
Arguments takes : simpl never.
Arguments split_locals : simpl never.

Ltac okv := apply okview_intro; simpl; auto 4 with okdb.
Ltac fin := split; [okv | simpl; auto 4 with okdb].

Theorem exec_call_ok s th e c s' th' e' out r :
  okview s th ->
  (forall h name tr sp sa, c = KRoot h name tr sp sa -> R tr sa) ->
  exec_call s th e c = COk s' th' e' out r ->
  okview s' th' /\ okout out.
Proof.
  intros V Hroot X. destruct V as (Vs & Va & Vst & Vf).
  destruct c; unfold exec_call in X; cbv beta iota zeta in X.
  - (* root *)
    destruct (amem h (s_spans s)); [discriminate|].
    destruct (negb (s_ready s)).
    + inversion X; subst. fin.
    + match type of X with context [new_span ?a ?b ?c ?d] =>
        destruct (new_span a b c d) as [sp e1] eqn:N end.
      assert (Hsp : okspan (Some sp)).
      { eapply new_span_ok; eauto. constructor; [|constructor]. unfold okit; simpl. eapply Hroot; eauto. }
      inversion X; subst. split.
      * destruct sampled; okv.
      * destruct sampled; [apply okout_forced; exact I | apply okout_nil].
  - (* noop *)
    destruct (amem h (s_spans s)); [discriminate|]. inversion X; subst. fin.
  - (* child *)
    destruct (amem h (s_spans s)); [discriminate|].
    unfold get_span in X. destruct (alookup p (s_spans s)) as [[psp|]|] eqn:E; [| |discriminate].
    + pose proof (issue_token_ok psp (okspans_lookup _ _ _ Vs E)) as Hi.
      destruct (issue_token psp) as [|it tk] eqn:Ei.
      * inversion X; subst. fin.
      * destruct (new_span name (it :: tk) None e) as [sp e1] eqn:N.
        pose proof (new_span_ok _ _ _ _ _ _ Hi N) as Hsp. inversion X; subst. fin.
    + inversion X; subst. fin.
  - (* child many *)
    destruct (amem h (s_spans s)); [discriminate|].
    destruct (negb (forallb (fun p => amem p (s_spans s)) ps)); [discriminate|].
    pose proof (flat_map_issue_ok s ps Vs) as Hi.
    destruct (flat_map _ ps) as [|it tk] eqn:Ef.
    + inversion X; subst. fin.
    + destruct (new_span name (it :: tk) None e) as [sp e1] eqn:N.
      pose proof (new_span_ok _ _ _ _ _ _ Hi N) as Hsp. inversion X; subst. fin.
  - (* child local *)
    destruct (amem h (s_spans s)); [discriminate|].
    destruct (s_cur_token (th_stack th)) as [tk|] eqn:Ec.
    + destruct (new_span name tk None e) as [sp e1] eqn:N.
      pose proof (new_span_ok _ _ _ _ _ _ (s_cur_token_ok _ _ Vst Ec) N) as Hsp. inversion X; subst. fin.
    + inversion X; subst. fin.
  - (* set local *)
    destruct (negb (scoped_id_free g (th_scoped th))); [discriminate|].
    unfold get_span in X. destruct (alookup h (s_spans s)) as [osp|] eqn:E; [|discriminate].
    destruct (set_local osp (th_stack th)) as [inner st1] eqn:S.
    pose proof (set_local_ok _ _ _ _ (okspans_lookup _ _ _ Vs E) Vst S) as Hst1. inversion X; subst. fin.
  - (* drop guard *)
    destruct (th_scoped th) as [|[g' inner|?|?] rest]; try discriminate.
    destruct (negb (g =? g')); [discriminate|].
    destruct (drop_guard (s_dbg s) inner (th_stack th) e) as [[[o st1] e1]|] eqn:D; [|discriminate].
    destruct (drop_guard_ok _ _ _ _ _ _ _ Vst D) as [Hst1 Ho]. inversion X; subst. fin.
  - (* local enter *)
    destruct (negb (scoped_id_free l (th_scoped th))); [discriminate|].
    destruct (s_enter (th_stack th) name e) as [[[hh st1]|] e1] eqn:En.
    + pose proof (s_enter_ok _ _ _ _ _ _ Vst En) as Hst1. inversion X; subst. fin.
    + inversion X; subst. fin.
  - (* local exit *)
    destruct (th_scoped th) as [|[?|l' oh|?] rest]; try discriminate.
    destruct (negb (l =? l')); [discriminate|].
    destruct oh as [hh|].
    + destruct (s_exit (s_dbg s) (th_stack th) hh e) as [[st1 e1]|] eqn:Ex; [|discriminate].
      pose proof (s_exit_ok _ _ _ _ _ _ Vst Ex) as Hst1. inversion X; subst. fin.
    + inversion X; subst. fin.
  - (* local with props *)
    destruct (find_local l (th_scoped th)) as [[hh|]|]; [| |discriminate].
    + destruct (s_is_recording (th_stack th) hh); inversion X; subst; fin; try (apply okframes_cons; simpl; auto).
    + inversion X; subst. fin.
  - (* local add props *)
    destruct (s_is_current_recording (th_stack th)); inversion X; subst; fin; try (apply okframes_cons; simpl; auto).
  - (* local add event *)
    destruct (s_add_event (th_stack th) name ps e) as [st1 e1] eqn:A.
    pose proof (s_add_event_ok' _ _ _ _ _ _ Vst A) as Hst1. inversion X; subst. fin.
  - (* lc start *)
    destruct (negb (scoped_id_free lc (th_scoped th))); [discriminate|].
    unfold lc_new in X. destruct (s_register (th_stack th) None) as [oep st1] eqn:Rg.
    pose proof (s_register_none_ok _ _ _ Vst Rg) as Hst1. inversion X; subst. fin.
  - (* lc collect *)
    destruct (amem ls (s_lsets s)); [discriminate|].
    destruct (split_locals (th_scoped th)) as [open_locals [|[?|?|lc' oep] rest]]; try discriminate.
    destruct (negb (lc =? lc')); [discriminate|].
    destruct (lc_collect (s_dbg s) (th_stack th) oep e) as [[[[[spans endt] otk] st1] e1]|] eqn:C; [|discriminate].
    pose proof (lc_collect_ok1 _ _ _ _ _ _ _ _ _ Vst C) as Hst1. inversion X; subst. fin.
  - (* lc drop *)
    destruct (th_scoped th) as [|[?|?|lc' oep] rest]; try discriminate.
    destruct (negb (lc =? lc')); [discriminate|].
    destruct (lc_drop (s_dbg s) (th_stack th) oep) as [st1|] eqn:D; [|discriminate].
    pose proof (lc_drop_ok _ _ _ _ Vst D) as Hst1. inversion X; subst. fin.
  - (* push child *)
    unfold get_span in X. destruct (alookup h (s_spans s)) as [osp|] eqn:E; [|discriminate].
    destruct (alookup ls (s_lsets s)) as [[rs endt]|]; [|discriminate].
    destruct osp as [sp|].
    + pose proof (issue_token_ok sp (okspans_lookup _ _ _ Vs E)) as Hi.
      destruct rs; inversion X; subst; fin.
    + inversion X; subst. fin.
  - (* to records *)
    destruct (alookup ls (s_lsets s)) as [[rs endt]|]; [|discriminate]. inversion X; subst. fin.
  - (* span with props *)
    unfold get_span in X. destruct (alookup h (s_spans s)) as [[sp|]|]; inversion X; subst; fin; try (apply okframes_cons; simpl; auto).
  - (* span add props *)
    unfold get_span in X. destruct (alookup h (s_spans s)) as [[sp|]|] eqn:E; [| |discriminate].
    + pose proof (issue_token_ok sp (okspans_lookup _ _ _ Vs E)) as Hi.
      destruct (issue_token sp) as [|it tk] eqn:Ei.
      * inversion X; subst. fin.
      * destruct (new_span 0 (it :: tk) None e) as [nsp e1] eqn:N. inversion X; subst. fin; try (apply okframes_cons; simpl; auto).
    + inversion X; subst. fin.
  - (* span add event *)
    unfold get_span in X. destruct (alookup h (s_spans s)) as [[sp|]|] eqn:E; [| |discriminate].
    + pose proof (issue_token_ok sp (okspans_lookup _ _ _ Vs E)) as Hi.
      destruct (issue_token sp) as [|it tk] eqn:Ei.
      * inversion X; subst. fin.
      * destruct (new_span name (it :: tk) None e) as [nsp e1] eqn:N. inversion X; subst. fin.
    + inversion X; subst. fin.
  - (* cancel *)
    unfold get_span in X. destruct (alookup h (s_spans s)) as [[sp|]|]; inversion X; subst; fin.
    destruct (sp_cid sp); [apply okout_forced; exact I | apply okout_nil].
  - (* drop span *)
    unfold get_span in X. destruct (alookup h (s_spans s)) as [osp|] eqn:E; [|discriminate].
    destruct (drop_span osp e) as [o e1] eqn:D.
    pose proof (drop_span_ok _ _ _ _ (okspans_lookup _ _ _ Vs E) D) as Ho. inversion X; subst. fin.
  - (* elapsed *)
    unfold get_span in X. destruct (alookup h (s_spans s)); inversion X; subst. fin.
  - (* from span *)
    unfold get_span in X. destruct (alookup h (s_spans s)) as [[sp|]|]; inversion X; subst; fin.
  - (* current local parent *)
    destruct (s_cur_token (th_stack th)) as [[|it tk]|]; inversion X; subst; fin.
  - (* closure return *)
    destruct (th_frames th) as [|[h ps|rw tk ps|l ps|ps|a] fr] eqn:Ef; try discriminate;
      inversion Vf as [|? ? Vf1 Vf2]; subst.
    + unfold get_span in X. destruct (alookup h (s_spans s)) as [[sp|]|] eqn:E; try discriminate.
      inversion X; subst. pose proof (okspans_lookup _ _ _ Vs E) as Hsp. fin.
      unfold aset. apply okspans_cons; [apply okspans_aremove; auto | exact Hsp].
    + inversion X; subst. simpl in Vf1. fin.
    + destruct (find_local l (th_scoped th)) as [[hh|]|]; try discriminate.
      destruct (s_is_recording (th_stack th) hh).
      * destruct (s_with_props (s_dbg s) (th_stack th) hh ps) as [st1|] eqn:W; [|discriminate].
        pose proof (s_with_props_ok _ _ _ _ _ Vst W) as Hst1. inversion X; subst. fin.
      * inversion X; subst. fin.
    + destruct (s_add_props (th_stack th) ps e) as [st1 e1] eqn:A.
      pose proof (s_add_props_ok' _ _ _ _ _ Vst A) as Hst1. inversion X; subst. fin.
  - (* adapter new *)
    destruct (amem a (s_adapters s)); [discriminate|].
    unfold get_span in X. destruct (alookup h (s_spans s)) as [osp|] eqn:E; [|discriminate].
    inversion X; subst. pose proof (okspans_lookup _ _ _ Vs E) as Hsp. fin.
  - (* poll begin *)
    destruct (negb (scoped_id_free g (th_scoped th))); [discriminate|].
    destruct (alookup a (s_adapters s)) as [held|] eqn:E; [|discriminate].
    pose proof (okadapters_lookup _ _ _ Va E) as Hh.
    destruct held as [osp|].
    + destruct (set_local osp (th_stack th)) as [inner st1] eqn:S.
      pose proof (set_local_ok _ _ _ _ Hh Vst S) as Hst1. inversion X; subst. fin; try (apply okframes_cons; simpl; auto).
    + inversion X; subst. fin; try (apply okframes_cons; simpl; auto).
  - (* poll end *)
    destruct (th_frames th) as [|[| | | |a'] fr] eqn:Ef; try discriminate.
    destruct (th_scoped th) as [|[g inner| |] rest]; try discriminate.
    destruct (alookup a (s_adapters s)) as [held|] eqn:E; [|discriminate].
    destruct (negb (a =? a')); [discriminate|].
    destruct (drop_guard (s_dbg s) inner (th_stack th) e) as [[[o1 st1] e1]|] eqn:D; [|discriminate].
    destruct (drop_guard_ok _ _ _ _ _ _ _ Vst D) as [Hst1 Ho1].
    pose proof (okadapters_lookup _ _ _ Va E) as Hh. inversion Vf as [|? ? Vf1 Vf2]; subst.
    destruct held as [osp|]; [destruct (takes m r0)|].
    + destruct (drop_span osp e1) as [o2 e2] eqn:DS.
      pose proof (drop_span_ok _ _ _ _ Hh DS) as Ho2. inversion X; subst. fin.
      unfold aset. apply okadapters_cons; simpl; auto. apply okadapters_aremove; auto.
    + inversion X; subst. fin.
    + inversion X; subst. fin.
  - (* adapter drop *)
    destruct (alookup a (s_adapters s)) as [held|] eqn:E; [|discriminate].
    pose proof (okadapters_lookup _ _ _ Va E) as Hh.
    destruct held as [osp|].
    + destruct (drop_span osp e) as [o e1] eqn:DS.
      pose proof (drop_span_ok _ _ _ _ Hh DS) as Ho. inversion X; subst. fin.
    + inversion X; subst. fin.
Qed.

End Prov.
