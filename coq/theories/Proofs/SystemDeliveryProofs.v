(* C01, system level: in every reachable state of every history (any threads, programs,
   schedules, capacities), while the default configuration is installed, the collector's
   active map satisfies the cycle invariant, and every report is exactly the spans of the
   SubmitSpans commands of the batch the drain has put together. *)
From Coq Require Import List Arith NArith Bool Lia Permutation.
From FT Require Import Model.Base Model.Local Model.Records Model.Spsc Model.Collector Model.System
     Proofs.DeliveryProofs.
Import ListNotations.
Open Scope N_scope.

Definition default_inv (s : sys) : Prop := s_cancelable s = false -> cycle_inv (s_active s).

Lemma exec_call_collector s th e c s1 th1 e1 out r :
  exec_call s th e c = COk s1 th1 e1 out r ->
  s_active s1 = s_active s /\ s_cancelable s1 = s_cancelable s /\ s_batch s1 = s_batch s.
Proof.
  intros Ex. unfold exec_call in Ex.
  destruct c; cbv beta iota zeta in Ex;
    repeat match type of Ex with
           | context [match ?x with _ => _ end] => destruct x eqn:?; try discriminate
           | context [if ?x then _ else _] => destruct x eqn:?; try discriminate
           end; inversion Ex; subst; simpl; auto.
Qed.

Lemma sys_init_default_inv dbg ringcap stackcap qcap : default_inv (sys_init dbg ringcap stackcap qcap).
Proof. unfold default_inv, sys_init; simpl. intros _. apply cycle_inv_empty. Qed.

Ltac fin := try solve [ simpl; auto | simpl; match goal with Ht : default_inv (s_tick _) |- _ => first [ exact Ht | unfold default_inv, put_thread, s_set_collector, s_set_threads in *; simpl in *; exact Ht ] end ].

Theorem step_default_inv s a : default_inv s -> default_inv (fst (step s a)).
Proof.
  intros Hinv. unfold step.
  assert (Ht : default_inv (s_tick s)) by (unfold default_inv in *; simpl; exact Hinv).
  destruct a; cbv beta iota zeta.
  - destruct (s_pc (s_tick s)); fin. unfold default_inv; simpl. intros _. apply cycle_inv_empty.
  - destruct (amem t (s_threads (s_tick s)) || in_drain (s_pc (s_tick s))); fin.
  - destruct (get_thread (s_tick s) t) as [th|]; fin.
    destruct (th_outbox th); fin.
    destruct (ch_dropping (th_chan th)); fin.
    destruct (exec_call (s_tick s) th _ c) as [s1 th1 e1 out r|code|site] eqn:Ex; fin.
    apply exec_call_collector in Ex. destruct Ex as (A & B & _).
    unfold default_inv, put_thread in *; simpl. rewrite A, B. exact Ht.
  - destruct (get_thread (s_tick s) t) as [th|]; fin.
    destruct (ch_dropping (th_chan th)).
    + destruct (ch_abandoned (th_chan th)); fin.
    + destruct (th_outbox th) as [|[f cmd] rest]; fin.
      destruct (push_step (th_chan th) f cmd); fin.
  - destruct (get_thread (s_tick s) t) as [th|]; fin.
    destruct (th_outbox th), (th_scoped th), (th_frames th); fin.
    destruct (ch_dropping (th_chan th)); fin.
  - destruct (s_pc (s_tick s)), (s_installed (s_tick s)); fin.
    destruct (s_registry (s_tick s)); fin.
  - destruct (s_pc (s_tick s)); fin.
    destruct (get_thread (s_tick s) cur) as [th|]; fin.
    destruct (pop_step (th_chan th)) as [[c|] ch']; fin.
  - destruct (s_pc (s_tick s)); fin.
    destruct (get_thread (s_tick s) cur) as [th|]; fin.
    destruct (ch_abandoned (th_chan th)).
    + destruct (pop_step (th_chan th)) as [[c|] ch']; fin.
      destruct (advance todo kept) as [pc [reg|]]; fin.
    + destruct (advance todo (kept ++ [cur])) as [pc [reg|]]; fin.
  - destruct (s_pc (s_tick s)); fin.
    destruct (process (anchor_conv (s_nstep (s_tick s))) (s_cancelable (s_tick s)) (s_active (s_tick s)) (s_batch (s_tick s)))
      as [am recs] eqn:Ep.
    unfold default_inv; simpl. intros Hc.
    pose proof (default_batch_delivers_exactly (anchor_conv (s_nstep (s_tick s))) (s_active (s_tick s)) (s_batch (s_tick s)) (Ht Hc)) as [_ I].
    assert (Hc' : s_cancelable (s_tick s) = false) by exact Hc.
    rewrite Hc' in Ep. rewrite Ep in I. exact I.
Qed.

Theorem run_default_inv h : forall s, default_inv s -> default_inv (fst (run s h)).
Proof.
  induction h as [|a h IH]; intros s Hs; simpl; auto.
  pose proof (step_default_inv s a Hs) as H1.
  destruct (step s a) as [s1 o]. destruct (run s1 h) as [s2 os] eqn:E. simpl.
  specialize (IH s1 H1). rewrite E in IH. exact IH.
Qed.

(* every report of the default configuration, in any state satisfying the invariant (hence
   in every reachable state): exactly the spans of the batch's SubmitSpans commands *)
Theorem step_default_report_exact s recs st n :
  default_inv s -> s_cancelable s = false ->
  snd (step s ACProcess) = OReport recs st n ->
  Permutation (map core3 recs) (flat_map coll_cores (submitted_colls (b_submit (s_batch s)))).
Proof.
  intros Hinv Hc. unfold step. cbv beta iota zeta.
  destruct (s_pc (s_tick s)); try (simpl; discriminate).
  pose proof (default_batch_delivers_exactly (anchor_conv (s_nstep (s_tick s))) (s_active (s_tick s))
                (s_batch (s_tick s)) (Hinv Hc)) as [P _].
  assert (Hc' : s_cancelable (s_tick s) = false) by exact Hc.
  rewrite Hc'.
  destruct (process (anchor_conv (s_nstep (s_tick s))) false (s_active (s_tick s)) (s_batch (s_tick s)))
    as [am recs'].
  cbn [snd] in *. intros H. inversion H; subst. exact P.
Qed.

Theorem reachable_default_report_exact dbg ringcap stackcap qcap h recs st n :
  let s := fst (run (sys_init dbg ringcap stackcap qcap) h) in
  s_cancelable s = false ->
  snd (step s ACProcess) = OReport recs st n ->
  Permutation (map core3 recs) (flat_map coll_cores (submitted_colls (b_submit (s_batch s)))).
Proof.
  intros s Hc H. eapply step_default_report_exact; eauto.
  apply run_default_inv. apply sys_init_default_inv.
Qed.
