(* C07, system level, part 1: the well-formedness relation between the objects a thread holds
   (guards, local collectors, local spans, in creation order) and its span stack, and how the
   operations of the thread-local layer act on it.
   [chain_ok spans hs next]: hs are the queue indices of the open local spans of a line,
   innermost first; the innermost one is the queue's next parent, each one's recorded parent
   is the next one out, the outermost has none; ids are non-zero.
   [wf_sc sc lines acc]: walking down the objects (newest first) alongside the lines (top
   first): a local span with a handle sits on the current line; a guard / collector that
   registered a line owns the current line, the local spans seen since ([acc]) are exactly
   its open chain, and the walk continues on the line below; objects without a line (no-op
   span, refused registration, refused local span) are skipped. *)
From Coq Require Import List Arith NArith Bool Lia.
From FT Require Import Model.Base Model.Local Model.Records Model.Spsc Model.Collector Model.System.
Import ListNotations.
Open Scope N_scope.

Fixpoint chain_ok (spans : list raw) (hs : list N) (next : option N) : Prop :=
  match hs with
  | [] => next = None
  | idx :: rest =>
      exists sp, nth_error spans (N.to_nat idx) = Some sp /\ next = Some (r_id sp) /\ r_id sp <> 0 /\
                 chain_ok spans rest (if r_parent sp =? 0 then None else Some (r_parent sp))
  end.

Lemma chain_app spans more hs next : chain_ok spans hs next -> chain_ok (spans ++ more) hs next.
Proof.
  revert next; induction hs as [|idx hs IH]; intros next; simpl; auto.
  intros (sp & Hn & Hx & Hz & Hc). exists sp. repeat split; auto.
  rewrite nth_error_app1; auto. apply nth_error_Some. congruence.
Qed.

Lemma nth_error_list_update {A} (f : A -> A) (l : list A) i j :
  nth_error (list_update i f l) j =
  if Nat.eqb j i then option_map f (nth_error l j) else nth_error l j.
Proof.
  revert i j; induction l as [|x l IH]; intros i j; simpl.
  - destruct i, j; simpl; try reflexivity; destruct (Nat.eqb j i); reflexivity.
  - destruct i, j; simpl; auto.
Qed.

Lemma chain_update f i spans hs next :
  (forall r, r_id (f r) = r_id r /\ r_parent (f r) = r_parent r) ->
  chain_ok spans hs next -> chain_ok (list_update i f spans) hs next.
Proof.
  intros Hf. revert next; induction hs as [|idx hs IH]; intros next; simpl; auto.
  intros (sp & Hn & Hx & Hz & Hc).
  rewrite nth_error_list_update.
  destruct (Nat.eqb (N.to_nat idx) i).
  - exists (f sp). rewrite Hn. simpl. destruct (Hf sp) as [E1 E2]. rewrite E1, E2. repeat split; auto.
  - exists sp. repeat split; auto.
Qed.

Lemma chain_in spans hs next idx :
  chain_ok spans hs next -> In idx hs -> exists sp, nth_error spans (N.to_nat idx) = Some sp.
Proof.
  revert next; induction hs as [|i hs IH]; intros next; simpl; [tauto|].
  intros (sp & Hn & _ & _ & Hc) [->|Hin]; eauto.
Qed.

Lemma chain_some_nz spans hs p : chain_ok spans hs (Some p) -> p <> 0.
Proof. destruct hs; simpl; [discriminate|]. intros (sp & _ & Hx & Hz & _). congruence. Qed.

Lemma chain_odefault spans hs next :
  chain_ok spans hs next -> (if odefault 0 next =? 0 then None else Some (odefault 0 next)) = next.
Proof.
  destruct next as [p|]; simpl; auto. intros H. apply chain_some_nz in H.
  destruct (p =? 0) eqn:E; auto. apply N.eqb_eq in E. contradiction.
Qed.

Lemma nth_error_app_len {A} (l : list A) x : nth_error (l ++ [x]) (length l) = Some x.
Proof. induction l; simpl; auto. Qed.

Lemma lenN_nat' {A} (l : list A) : N.to_nat (lenN l) = length l.
Proof. unfold lenN. apply Nnat.Nat2N.id. Qed.

(* opening a local span *)
Lemma chain_enter spans tail next id t name :
  id <> 0 -> chain_ok spans tail next ->
  chain_ok (spans ++ [mkRaw id (odefault 0 next) t name None KSpan 0]) (lenN spans :: tail) (Some id).
Proof.
  intros Hid Hc. simpl. eexists. rewrite lenN_nat', nth_error_app_len. split; [reflexivity|].
  simpl. repeat split; auto.
  rewrite (chain_odefault _ _ _ Hc). apply chain_app. exact Hc.
Qed.

(* ---------------------------------------------------------------- the walk *)
Inductive ekind := ENone | ELoc (h : lhandle) | EReg (ep : N).

Definition kind_of (x : scoped) : ekind :=
  match x with
  | ScLocal _ (Some h) => ELoc h
  | ScGuard _ (Some (Some ep)) => EReg ep
  | ScColl _ (Some ep) => EReg ep
  | _ => ENone
  end.

Fixpoint wf_sc (sc : list scoped) (lines : list sline) (acc : list N) : Prop :=
  match sc with
  | [] => lines = [] /\ acc = []
  | x :: rest =>
      match kind_of x with
      | ENone => wf_sc rest lines acc
      | ELoc h =>
          match lines with
          | l :: _ => l_epoch l = fst h /\ wf_sc rest lines (acc ++ [snd h])
          | [] => False
          end
      | EReg ep =>
          match lines with
          | l :: ls => l_epoch l = ep /\ chain_ok (q_spans (l_q l)) acc (q_next (l_q l)) /\ wf_sc rest ls []
          | [] => False
          end
      end
  end.

(* replacing the top line by one with the same epoch whose chain facts follow *)
Lemma wf_top_update sc l l' ls acc acc' :
  l_epoch l' = l_epoch l ->
  (forall tail, chain_ok (q_spans (l_q l)) (acc ++ tail) (q_next (l_q l)) ->
                chain_ok (q_spans (l_q l')) (acc' ++ tail) (q_next (l_q l'))) ->
  wf_sc sc (l :: ls) acc -> wf_sc sc (l' :: ls) acc'.
Proof.
  intros He. revert acc acc'. induction sc as [|x sc IH]; intros acc acc' Hc; simpl.
  - intros [H _]. discriminate.
  - destruct (kind_of x) as [|h|ep].
    + apply IH. exact Hc.
    + intros [E W]. split; [congruence|]. eapply IH; [|exact W].
      intros tail. rewrite <- !app_assoc. apply Hc.
    + intros (E & C & W). split; [congruence|]. split; auto.
      specialize (Hc []). rewrite !app_nil_r in Hc. auto.
Qed.

(* the open chain of the top line exists *)
Lemma wf_top_chain sc l ls acc :
  wf_sc sc (l :: ls) acc -> exists tail, chain_ok (q_spans (l_q l)) (acc ++ tail) (q_next (l_q l)).
Proof.
  revert acc; induction sc as [|x sc IH]; intros acc; simpl.
  - intros [H _]; discriminate.
  - destruct (kind_of x) as [|h|ep].
    + apply IH.
    + intros [_ W]. apply IH in W. destruct W as [tail W]. rewrite <- app_assoc in W. eauto.
    + intros (_ & C & _). exists []. rewrite app_nil_r. exact C.
Qed.

(* with an empty stack nothing that has a handle or a line is held *)
Lemma wf_nil_lines sc acc : wf_sc sc [] acc -> acc = [] /\ Forall (fun x => kind_of x = ENone) sc.
Proof.
  revert acc; induction sc as [|x sc IH]; intros acc; simpl.
  - intros [_ H]; auto.
  - destruct (kind_of x) eqn:K; try tauto.
    intros W. apply IH in W. destruct W as [A F]. split; auto.
Qed.

(* strictly decreasing epochs below a bound *)
Fixpoint desc (lines : list sline) (bound : N) : Prop :=
  match lines with
  | [] => True
  | l :: ls => l_epoch l < bound /\ desc ls (l_epoch l)
  end.

Lemma desc_weaken lines b b' : desc lines b -> b <= b' -> desc lines b'.
Proof. destruct lines; simpl; auto. intros [H D] Hb. split; auto. lia. Qed.

Lemma desc_in lines b l : desc lines b -> In l lines -> l_epoch l < b.
Proof.
  revert b; induction lines as [|x lines IH]; intros b; simpl; [tauto|].
  intros [H D] [->|Hin]; auto. pose proof (IH _ D Hin). lia.
Qed.

(* where a local span found by its handle number lives *)
Lemma find_local_wf sc lines acc lid h :
  wf_sc sc lines acc -> find_local lid sc = Some (Some h) ->
  match lines with
  | [] => False
  | l :: ls =>
      (fst h = l_epoch l /\
       exists full, chain_ok (q_spans (l_q l)) full (q_next (l_q l)) /\ In (snd h) full) \/
      (exists l', In l' ls /\ fst h = l_epoch l')
  end.
Proof.
  revert lines acc; induction sc as [|x sc IH]; intros lines acc; [simpl; discriminate|].
  cbn [wf_sc find_local].
  destruct x as [g inner|l0 oh|lc oh]; cbn [kind_of].
  - (* guard *)
    destruct inner as [[ep|]|].
    + destruct lines as [|l ls]; [tauto|]. intros (E & C & W) F.
      specialize (IH ls [] W F). destruct ls as [|l2 ls2]; [contradiction|].
      right. destruct IH as [[E2 _]|[l' [Hin E2]]]; [exists l2; simpl; auto | exists l'; simpl; auto].
    + intros W F. exact (IH lines acc W F).
    + intros W F. exact (IH lines acc W F).
  - (* local *)
    destruct (lid =? l0) eqn:El.
    + intros W F. inversion F; subst oh. cbn [kind_of] in W.
      destruct lines as [|l ls]; [tauto|]. destruct W as [E W]. left. split; [congruence|].
      apply wf_top_chain in W. destruct W as [tail W]. exists ((acc ++ [snd h]) ++ tail). split; auto.
      apply in_app_iff. left. apply in_app_iff. right. left. reflexivity.
    + destruct oh as [h0|]; cbn [kind_of].
      * destruct lines as [|l ls]; [tauto|]. intros [E W] F. exact (IH (l :: ls) _ W F).
      * intros W F. exact (IH lines acc W F).
  - (* collector *)
    destruct oh as [ep|].
    + destruct lines as [|l ls]; [tauto|]. intros (E & C & W) F.
      specialize (IH ls [] W F). destruct ls as [|l2 ls2]; [contradiction|].
      right. destruct IH as [[E2 _]|[l' [Hin E2]]]; [exists l2; simpl; auto | exists l'; simpl; auto].
    + intros W F. exact (IH lines acc W F).
Qed.

Lemma find_local_top_valid sc l ls b lid h :
  wf_sc sc (l :: ls) [] -> desc (l :: ls) b -> find_local lid sc = Some (Some h) ->
  l_epoch l = fst h -> exists sp, nth_error (q_spans (l_q l)) (N.to_nat (snd h)) = Some sp.
Proof.
  intros W D F E. pose proof (find_local_wf _ _ _ _ _ W F) as H. simpl in H.
  destruct H as [[_ (full & C & Hin)]|[l' [Hin E2]]].
  - eapply chain_in; eauto.
  - exfalso. simpl in D. destruct D as [_ D]. pose proof (desc_in _ _ _ D Hin). lia.
Qed.

(* ---------------------------------------------------------------- the stack invariant *)
Definition tok_ok (l : sline) : Prop := l_token l <> Some [].

Definition st_inv (sc : list scoped) (st : stack) (b : N) : Prop :=
  wf_sc sc (st_lines st) [] /\ desc (st_lines st) (st_next_epoch st) /\ st_next_epoch st <= b /\
  Forall tok_ok (st_lines st).

Lemma st_inv_bound sc st b b' : st_inv sc st b -> b <= b' -> st_inv sc st b'.
Proof. unfold st_inv. intros (W & D & B & T) H. repeat split; auto. lia. Qed.

Lemma st_inv_none x sc st b : kind_of x = ENone -> st_inv sc st b -> st_inv (x :: sc) st b.
Proof. unfold st_inv. intros K (W & D & B & T). repeat split; auto. simpl. rewrite K. exact W. Qed.

Lemma st_inv_none_inv x sc st b : kind_of x = ENone -> st_inv (x :: sc) st b -> st_inv sc st b.
Proof. unfold st_inv. intros K (W & D & B & T). repeat split; auto. simpl in W. rewrite K in W. exact W. Qed.

Lemma next_id_nz e : e_prefix e <> 0 -> fst (next_id e) <> 0.
Proof.
  unfold next_id; cbn [fst]. intros H.
  generalize ((e_suffix e + 1) mod two32); intros s.
  assert (0 < e_prefix e * two32) by (apply N.mul_pos_pos; [lia | reflexivity]).
  lia.
Qed.

(* --- enter *)
Lemma s_enter_inv sc st b name e h st' e' lid :
  st_inv sc st b -> e_prefix e <> 0 ->
  s_enter st name e = (Some (h, st'), e') ->
  st_inv (ScLocal lid (Some h) :: sc) st' b /\ e_prefix e' = e_prefix e.
Proof.
  intros (W & D & B & T) Hp. unfold s_enter.
  destruct (st_lines st) as [|l ls] eqn:El; [discriminate|].
  unfold l_start. destruct (l_sampled l); cbn [negb]; [|discriminate].
  unfold q_start. destruct (q_full (l_q l)); [discriminate|].
  cbn -[next_id]. pose proof (next_id_nz e Hp) as Hid.
  destruct (next_id e) as [id e1] eqn:En. cbn [fst] in Hid. cbn.
  intros H. inversion H; subst; clear H. split.
  - unfold st_inv. cbn [st_lines st_set_lines st_next_epoch kind_of wf_sc fst snd l_epoch l_set_q].
    repeat split; auto.
    + cbn [app]. eapply wf_top_update; [| |exact W].
      * reflexivity.
      * intros tail Hc. cbn [l_q l_set_q q_spans q_next app] in *. apply chain_enter; auto.
    + apply D.
    + apply D.
    + inversion T; subst. constructor; auto.
  - unfold next_id in En. inversion En; subst. reflexivity.
Qed.

(* --- exit of the newest object, a local span with a handle *)
Lemma s_exit_inv dbg rest st b lid h e :
  st_inv (ScLocal lid (Some h) :: rest) st b ->
  exists st' e', s_exit dbg st h e = Ok (st', e') /\ st_inv rest st' b /\ e_prefix e' = e_prefix e.
Proof.
  intros (W & D & B & T). cbn [wf_sc kind_of] in W.
  destruct (st_lines st) as [|l ls] eqn:El; [contradiction|]. destruct W as [E W]. cbn [app] in W.
  unfold s_exit. rewrite El.
  replace (l_epoch l =? fst h) with true by (symmetry; apply N.eqb_eq; exact E).
  cbn [negb andb]. rewrite andb_false_r.
  unfold l_finish. replace (l_epoch l =? fst h) with true by (symmetry; apply N.eqb_eq; exact E).
  unfold q_finish.
  destruct (wf_top_chain _ _ _ _ W) as [tail C]. cbn [app chain_ok] in C.
  destruct C as (sp & Hn & Hx & Hz & Hc). rewrite Hn, Hx, N.eqb_refl. cbn [negb andb]. rewrite andb_false_r.
  cbn. eexists. eexists. split; [reflexivity|]. split; [|reflexivity].
  unfold st_inv. cbn [st_lines st_set_lines st_next_epoch].
  repeat split; auto; try apply D; try (inversion T; subst; constructor; auto; fail).
  eapply wf_top_update; [| |exact W]; [reflexivity|].
  intros tail' Hc'. cbn [l_q l_set_q q_spans q_next app chain_ok] in *.
  destruct Hc' as (sp' & Hn' & Hx' & Hz' & Hc'). rewrite Hn in Hn'. inversion Hn'; subst sp'.
  apply chain_update; auto; try (intros r; split; reflexivity).
Qed.

(* --- replacing the top line by one with the same epoch, token and chain facts *)
Lemma st_inv_top_update sc st b l ls l' :
  st_lines st = l :: ls -> st_inv sc st b ->
  l_epoch l' = l_epoch l -> l_token l' = l_token l ->
  (forall tail, chain_ok (q_spans (l_q l)) tail (q_next (l_q l)) ->
                chain_ok (q_spans (l_q l')) tail (q_next (l_q l'))) ->
  st_inv sc (st_set_lines st (l' :: ls)) b.
Proof.
  intros El (W & D & B & T) He Ht Hc. rewrite El in *.
  unfold st_inv. cbn [st_lines st_set_lines st_next_epoch]. split; [|split; [|split]]; auto.
  - eapply wf_top_update; [exact He| |exact W]. intros tail. cbn [app]. apply Hc.
  - simpl in *. rewrite He. exact D.
  - inversion T; subst. constructor; auto. unfold tok_ok in *. congruence.
Qed.

Lemma st_set_lines_same st : st_set_lines st (st_lines st) = st.
Proof. destruct st; reflexivity. Qed.

(* --- events / properties on the current line *)
Lemma s_add_event_inv sc st b name ps e :
  st_inv sc st b -> st_inv sc (fst (s_add_event st name ps e)) b /\
  e_prefix (snd (s_add_event st name ps e)) = e_prefix e.
Proof.
  intros I. unfold s_add_event.
  destruct (st_lines st) as [|l ls] eqn:El; cbn [fst snd]; [split; auto|].
  unfold l_add_event. destruct (l_sampled l); cbn [negb fst snd].
  - unfold q_add_event. destruct (q_full (l_q l)); cbn [fst snd]; (split; [|reflexivity]).
    + eapply st_inv_top_update; eauto.
    + eapply st_inv_top_update; eauto. intros tail Hc. cbn. apply chain_app. exact Hc.
  - split; auto. eapply st_inv_top_update; eauto.
Qed.

Lemma s_add_props_inv sc st b ps e :
  st_inv sc st b -> st_inv sc (fst (s_add_props st ps e)) b /\
  e_prefix (snd (s_add_props st ps e)) = e_prefix e.
Proof.
  intros I. unfold s_add_props.
  destruct (st_lines st) as [|l ls] eqn:El; cbn [fst snd]; [split; auto|].
  unfold l_add_props. destruct (l_sampled l); cbn [negb fst snd].
  - unfold q_add_props. destruct (q_full (l_q l)); cbn [fst snd]; (split; [|reflexivity]).
    + eapply st_inv_top_update; eauto.
    + eapply st_inv_top_update; eauto. intros tail Hc. cbn. apply chain_app. exact Hc.
  - split; auto. eapply st_inv_top_update; eauto.
Qed.

(* --- with_properties on a span found by its number, when it is recording *)
Lemma s_with_props_inv dbg sc st b lid h ps :
  st_inv sc st b -> find_local lid sc = Some (Some h) -> s_is_recording st h = true ->
  exists st', s_with_props dbg st h ps = Ok st' /\ st_inv sc st' b.
Proof.
  intros I F R. unfold s_is_recording in R. unfold s_with_props.
  destruct (st_lines st) as [|l ls] eqn:El; [discriminate|].
  unfold l_is_recording in R. apply andb_true_iff in R. destruct R as [Rs Re].
  rewrite Re. cbn [negb andb]. rewrite andb_false_r.
  unfold l_with_props. rewrite Rs, Re. cbn [negb].
  apply N.eqb_eq in Re.
  pose proof I as (W & D & B & T). rewrite El in W, D.
  destruct (find_local_top_valid _ _ _ _ _ _ W D F Re) as [sp Hn].
  unfold q_with_props. rewrite Hn. cbn [bind].
  eexists. split; [reflexivity|].
  eapply st_inv_top_update; eauto. intros tail Hc. cbn.
  apply chain_update; auto; try (intros r; split; reflexivity).
Qed.

(* --- registering a line *)
Lemma s_register_inv sc st b tk x :
  st_inv sc st b -> b + 1 < two64 -> tk <> Some [] ->
  match s_register st tk with
  | (Some ep, st') => kind_of x = EReg ep -> st_inv (x :: sc) st' (b + 1)
  | (None, st') => st' = st
  end.
Proof.
  intros (W & D & B & T) Hb Htk. unfold s_register.
  destruct (st_cap st <=? lenN (st_lines st)); auto.
  intros K. unfold st_inv. cbn [st_lines st_next_epoch wf_sc]. rewrite K.
  assert (Hm : (st_next_epoch st + 1) mod two64 = st_next_epoch st + 1) by (apply N.mod_small; lia).
  rewrite Hm. split; [|split; [|split]].
  - unfold l_new; cbn. repeat split; auto.
  - cbn [desc]. split; [unfold l_new; cbn; lia | unfold l_new; cbn; exact D].
  - lia.
  - constructor; auto.
Qed.

(* --- unregistering the line of the newest object *)
Lemma s_unregister_inv dbg x rest st b ep :
  kind_of x = EReg ep -> st_inv (x :: rest) st b ->
  exists r st', s_unregister dbg st ep = Ok (r, st') /\ st_inv rest st' b.
Proof.
  intros K (W & D & B & T). cbn [wf_sc] in W. rewrite K in W.
  destruct (st_lines st) as [|l ls] eqn:El; [contradiction|]. destruct W as (E & C & W).
  unfold s_unregister. rewrite El.
  replace (l_epoch l =? ep) with true by (symmetry; apply N.eqb_eq; exact E).
  cbn [negb andb]. rewrite andb_false_r.
  eexists. eexists. split; [reflexivity|].
  unfold st_inv; cbn [st_lines st_set_lines st_next_epoch]. split; [|split; [|split]]; auto.
  - simpl in D. destruct D as [D1 D2]. apply desc_weaken with (b := l_epoch l); auto. lia.
  - inversion T; auto.
Qed.
