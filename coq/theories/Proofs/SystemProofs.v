(* System-wide consequences of the token invariant (C05, C02): for every history and every
   schedule, every record handed to the reporter carries the trace id of a root that was
   created SAMPLED; nothing derived from unsampled roots only is ever reported. *)
From Coq Require Import List Arith NArith Bool Lia.
From FT Require Import Model.Base Model.Local Model.Records Model.Spsc Model.Collector Model.System
     Proofs.RecordsProofs Proofs.CollectorProofs Proofs.TokenProofs.
Import ListNotations.
Open Scope N_scope.

Section Sys.
Variable R : N -> bool -> Prop.

Notation okcmd := (okcmd R).
Notation okout := (okout R).
Notation oktok := (oktok R).

Definition okchan (c : chan command) : Prop := Forall okcmd (ch_ring c) /\ Forall okcmd (ch_pending c).

Definition okthread (th : thread) : Prop :=
  okstack R (th_stack th) /\ okframes R (th_frames th) /\ okout (th_outbox th) /\ okchan (th_chan th).

Definition oksub (st : span_set * token) : Prop :=
  oktok (snd st) /\ Forall (fun it => ti_sampled it = true) (snd st).
Definition okbatch (b : batch) : Prop := Forall oksub (b_submit b).

Definition okcoll (cl : collection) : Prop := R (cl_trace cl) true.
Definition okactive (am : active_map) : Prop := Forall (fun ka => Forall okcoll (a_colls (snd ka))) am.

Definition oksys (s : sys) : Prop :=
  okspans R (s_spans s) /\ okadapters R (s_adapters s) /\
  Forall (fun kt => okthread (snd kt)) (s_threads s) /\
  okbatch (s_batch s) /\ okactive (s_active s).

(* ---------------------------------------------------------------- records come from collections *)
Section Conv.
Variable conv : N -> N.

Lemma amend_collection_traces c recs d :
  forall r, In r (fst (amend_collection conv c (recs, d))) -> In r recs \/ rc_trace r = cl_trace c.
Proof.
  intros r. unfold amend_collection. destruct (cl_set c) as [sp|rs en|rs en].
  - rewrite amend_span_spec. destruct (r_kind sp); simpl; auto.
    rewrite in_app_iff. intros [H|[H|[]]]; auto. subst; auto.
  - rewrite amend_local_spec. simpl. rewrite in_app_iff. intros [H|H]; auto.
    apply in_map_iff in H. destruct H as [sp [<- _]]. auto.
  - rewrite amend_local_spec. simpl. rewrite in_app_iff. intros [H|H]; auto.
    apply in_map_iff in H. destruct H as [sp [<- _]]. auto.
Qed.

Lemma fold_amend_traces cs acc :
  forall r, In r (fst (fold_left (fun a c => amend_collection conv c a) cs acc)) ->
            In r (fst acc) \/ exists c, In c cs /\ rc_trace r = cl_trace c.
Proof.
  revert acc. induction cs as [|c cs IH]; intros [recs d] r; simpl; auto.
  intros H. apply IH in H. destruct H as [H|[c' [Hc Ht]]].
  - destruct (amend_collection conv c (recs, d)) as [recs' d'] eqn:E.
    assert (H' : In r (fst (amend_collection conv c (recs, d)))) by (rewrite E; exact H).
    apply amend_collection_traces in H'. destruct H'; eauto.
  - eauto.
Qed.

Lemma mount_traces recs d r :
  In r (fst (mount_danglings recs d)) -> exists r0, In r0 recs /\ rc_trace r = rc_trace r0.
Proof.
  intros H. pose proof (mount_core recs d) as Hc.
  apply (in_map core) in H. rewrite Hc in H. apply in_map_iff in H.
  destruct H as [r0 [Heq Hin]]. exists r0. split; auto.
  unfold core in Heq. congruence.
Qed.

Lemma postprocess_traces cs d r :
  In r (fst (postprocess conv cs d)) -> exists c, In c cs /\ rc_trace r = cl_trace c.
Proof.
  unfold postprocess.
  destruct (fold_left (fun a c => amend_collection conv c a) cs ([], d)) as [recs d1] eqn:E.
  intros H. apply mount_traces in H. destruct H as [r0 [Hin Ht]].
  assert (H' : In r0 (fst (fold_left (fun a c => amend_collection conv c a) cs ([], d)))) by (rewrite E; exact Hin).
  apply fold_amend_traces in H'. destruct H' as [[]|[c [Hc Hc']]]. exists c. split; auto. congruence.
Qed.

Lemma postprocess_ok cs d r : Forall okcoll cs -> In r (fst (postprocess conv cs d)) -> R (rc_trace r) true.
Proof.
  intros Hcs H. apply postprocess_traces in H. destruct H as [c [Hc Ht]].
  rewrite Ht. eapply Forall_forall in Hcs; eauto.
Qed.

(* ---------------------------------------------------------------- the batch *)
Lemma okactive_lookup am c a : okactive am -> alookup c am = Some a -> Forall okcoll (a_colls a).
Proof.
  unfold okactive. induction am as [|[k v] am IH]; simpl; [discriminate|].
  intros H X. inversion H as [|? ? H2 H3]; subst. destruct (c =? k).
  - inversion X; subst. exact H2.
  - apply IH; auto.
Qed.

Lemma okactive_aremove am c : okactive am -> okactive (aremove c am).
Proof.
  unfold okactive. induction am as [|[k v] am IH]; simpl; auto.
  intros H. inversion H; subst. destruct (c =? k); auto.
Qed.

Lemma okactive_aupdate am c f :
  okactive am -> (forall a, Forall okcoll (a_colls a) -> Forall okcoll (a_colls (f a))) ->
  okactive (aupdate c f am).
Proof.
  unfold okactive. intros H Hf. induction am as [|[k v] am IH]; simpl; auto.
  inversion H; subst. destruct (c =? k); constructor; simpl; auto.
Qed.

Lemma do_starts_ok am l : okactive am -> okactive (do_starts am l).
Proof.
  unfold do_starts. revert am. induction l as [|c l IH]; intros am H; simpl; auto.
  apply IH. unfold aset. constructor; simpl; [constructor|]. apply okactive_aremove; auto.
Qed.

Lemma do_drops_ok cb am l : okactive am -> okactive (do_drops cb am l).
Proof.
  unfold do_drops. destruct cb; auto. revert am. induction l as [|c l IH]; intros am H; simpl; auto.
  apply IH. apply okactive_aremove; auto.
Qed.

Definition okstale (l : list (N * collection)) : Prop := Forall (fun cc => okcoll (snd cc)) l.

Lemma submit_item_ok cb s st it :
  okactive (fst st) -> okstale (snd st) -> okit R it -> ti_sampled it = true ->
  okactive (fst (submit_item cb s st it)) /\ okstale (snd (submit_item cb s st it)).
Proof.
  destruct st as [am stale]; simpl. intros Ha Hs Hi Hsa.
  assert (Hc : okcoll (mkColl s (ti_trace it) (ti_parent it))).
  { unfold okcoll; simpl. unfold okit in Hi. rewrite Hsa in Hi. exact Hi. }
  unfold submit_item. destruct (amem (ti_collect it) am); simpl.
  - split; auto. apply okactive_aupdate; auto. intros a Hfa. simpl. apply Forall_app; split; auto.
  - destruct cb; simpl; split; auto. unfold okstale. apply Forall_app; split; auto.
Qed.

Lemma fold_submit_item_ok cb s tk st :
  okactive (fst st) -> okstale (snd st) -> oktok tk -> Forall (fun it => ti_sampled it = true) tk ->
  okactive (fst (fold_left (submit_item cb s) tk st)) /\ okstale (snd (fold_left (submit_item cb s) tk st)).
Proof.
  revert st. induction tk as [|it tk IH]; intros st Ha Hs Ht Hsa; simpl; auto.
  inversion Ht; subst. inversion Hsa; subst.
  destruct (submit_item_ok cb s st it Ha Hs H1 H3) as [Ha' Hs']. apply IH; auto.
Qed.

Lemma do_submits_ok cb am l :
  okactive am -> Forall oksub l ->
  okactive (fst (do_submits cb am l)) /\ okstale (snd (do_submits cb am l)).
Proof.
  unfold do_submits.
  assert (H : forall st, okactive (fst st) -> okstale (snd st) -> Forall oksub l ->
            okactive (fst (fold_left (fun st sub => fold_left (submit_item cb (fst sub)) (snd sub) st) l st)) /\
            okstale (snd (fold_left (fun st sub => fold_left (submit_item cb (fst sub)) (snd sub) st) l st))).
  { induction l as [|sub l IH]; intros st Ha Hs Hl; simpl; auto.
    inversion Hl as [|? ? [Ht Hsa] Hl']; subst.
    destruct (fold_submit_item_ok cb (fst sub) (snd sub) st Ha Hs Ht Hsa). apply IH; auto. }
  intros Ha Hl. apply (H (am, [])); simpl; auto. unfold okstale; constructor.
Qed.

Definition okrecs (l : list (N * record)) : Prop := Forall (fun cr => R (rc_trace (snd cr)) true) l.

Lemma tag_ok c recs : Forall (fun r => R (rc_trace r) true) recs -> okrecs (tag c recs).
Proof.
  unfold okrecs, tag. intros H. apply Forall_forall. intros x Hx. apply in_map_iff in Hx.
  destruct Hx as [r [<- Hr]]. simpl. eapply Forall_forall in H; eauto.
Qed.

Lemma postprocess_all_ok cs d : Forall okcoll cs -> Forall (fun r => R (rc_trace r) true) (fst (postprocess conv cs d)).
Proof. intros H. apply Forall_forall. intros r Hr. eapply postprocess_ok; eauto. Qed.

Lemma do_commits_ok am l :
  okactive am -> okactive (fst (do_commits conv am l)) /\ okrecs (snd (do_commits conv am l)).
Proof.
  unfold do_commits.
  assert (H : forall st, okactive (fst st) -> okrecs (snd st) ->
            okactive (fst (fold_left (commit_step conv) l st)) /\ okrecs (snd (fold_left (commit_step conv) l st))).
  { induction l as [|c l IH]; intros [am0 rs0] Ha Hr; simpl; auto.
    apply IH; unfold commit_step; simpl in *; destruct (alookup c am0) as [a|] eqn:E; simpl; auto.
    - apply okactive_aremove; auto.
    - unfold okrecs. apply Forall_app; split; auto. apply tag_ok. apply postprocess_all_ok.
      eapply okactive_lookup; eauto. }
  intros Ha. apply (H (am, [])); simpl; auto. unfold okrecs; constructor.
Qed.

Lemma flush_active_ok am :
  okactive am -> okactive (fst (flush_active conv am)) /\ okrecs (snd (flush_active conv am)).
Proof.
  unfold flush_active.
  assert (H : forall st, okactive (fst st) -> okrecs (snd st) -> okactive am ->
     okactive (fst (fold_left (fun st ka =>
               let (recs, d) := postprocess conv (a_colls (snd ka)) (a_dang (snd ka)) in
               (fst st ++ [(fst ka, mkActive [] d)], snd st ++ tag (fst ka) recs)) am st)) /\
     okrecs (snd (fold_left (fun st ka =>
               let (recs, d) := postprocess conv (a_colls (snd ka)) (a_dang (snd ka)) in
               (fst st ++ [(fst ka, mkActive [] d)], snd st ++ tag (fst ka) recs)) am st))).
  { induction am as [|[k a] am IH]; intros [acc rs] Ha Hr Ham; simpl; auto.
    inversion Ham as [|? ? Hk Ham']; subst. simpl in Hk.
    pose proof (postprocess_all_ok (a_colls a) (a_dang a) Hk) as Hp.
    destruct (postprocess conv (a_colls a) (a_dang a)) as [recs d]; simpl in *.
    apply IH; simpl; auto.
    - unfold okactive. apply Forall_app; split; auto. constructor; simpl; constructor.
    - unfold okrecs. apply Forall_app; split; auto. apply tag_ok; auto. }
  intros Ha. apply (H ([], [])); simpl; auto; try (unfold okactive; constructor); try (unfold okrecs; constructor).
Qed.

Lemma do_stale_ok stale : okstale stale -> okrecs (do_stale conv stale).
Proof.
  unfold do_stale, okrecs. intros H. apply Forall_forall. intros x Hx. apply in_flat_map in Hx.
  destruct Hx as [[c cl] [Hin Hx]]. simpl in Hx. unfold tag in Hx. apply in_map_iff in Hx.
  destruct Hx as [r [Heq Hr]]. subst x. simpl.
  apply (postprocess_ok [cl] []); [|exact Hr].
  constructor; [|constructor]. unfold okstale in H. eapply Forall_forall in H; [|exact Hin]. exact H.
Qed.

Theorem process_owned_ok cb am b :
  okactive am -> okbatch b ->
  okactive (fst (process_owned conv cb am b)) /\ okrecs (snd (process_owned conv cb am b)).
Proof.
  intros Ha Hb. unfold process_owned.
  pose proof (do_submits_ok cb (do_drops cb (do_starts am (b_start b)) (b_drop b)) (b_submit b)
                (do_drops_ok cb _ _ (do_starts_ok am _ Ha)) Hb) as [H3 Hst].
  destruct (do_submits cb (do_drops cb (do_starts am (b_start b)) (b_drop b)) (b_submit b)) as [am3 stale].
  simpl in H3, Hst.
  pose proof (do_commits_ok am3 (b_commit b) H3) as [H4 Hc].
  destruct (do_commits conv am3 (b_commit b)) as [am4 committed]. simpl in H4, Hc.
  pose proof (do_stale_ok stale Hst) as Hs.
  destruct cb; simpl.
  - split; auto. unfold okrecs. apply Forall_app; split; auto.
  - pose proof (flush_active_ok am4 H4) as [H5 Hf].
    destruct (flush_active conv am4) as [am5 fl]. simpl in *. split; auto.
    unfold okrecs. apply Forall_app; split; auto. apply Forall_app; split; auto.
Qed.

End Conv.

(* ---------------------------------------------------------------- channel steps *)
Lemma push_step_ok c f v :
  okchan c -> okcmd v -> okchan (fst (push_step c f v)).
Proof.
  unfold okchan, push_step. intros [Hr Hp] Hv.
  destruct (ch_pending c) as [|p ps] eqn:E; destruct (ch_room c); destruct f; simpl; rewrite ?E; auto;
    try (split; auto; apply Forall_app; split; auto; fail).
  - inversion Hp; subst. split; auto. apply Forall_app; split; auto.
  - inversion Hp; subst. split; auto. apply Forall_app; split; auto.
  - inversion Hp; subst. split; auto. constructor; auto. apply Forall_app; split; auto.
Qed.

Lemma drop_step_ok c : okchan c -> okchan (drop_step c).
Proof.
  unfold okchan, drop_step. intros [Hr Hp].
  destruct (ch_pending c) as [|p ps] eqn:E; simpl; auto.
  inversion Hp; subst. destruct (ch_room c); simpl; split; auto. apply Forall_app; split; auto.
Qed.

Lemma pop_step_ok c x c' : okchan c -> pop_step c = (Some x, c') -> okcmd x /\ okchan c'.
Proof.
  unfold okchan, pop_step. intros [Hr Hp]. destruct (ch_ring c) as [|y r] eqn:E; [discriminate|].
  intros X; inversion X; subst. inversion Hr; subst. simpl. auto.
Qed.

Lemma batch_add_ok b c : okbatch b -> okcmd c -> okbatch (batch_add b c).
Proof.
  unfold okbatch, batch_add. intros Hb Hc. destruct c; simpl; auto.
  apply Forall_app; split; auto; try (constructor; auto).
Qed.

(* ---------------------------------------------------------------- threads in the table *)
Lemma okthreads_lookup ths t th :
  Forall (fun kt => okthread (snd kt)) ths -> alookup t ths = Some th -> okthread th.
Proof.
  induction ths as [|[k v] ths IH]; simpl; [discriminate|].
  intros H X. inversion H as [|? ? H2 H3]; subst. destruct (t =? k).
  - inversion X; subst. exact H2.
  - apply IH; auto.
Qed.

Lemma okthreads_update ths t th :
  Forall (fun kt => okthread (snd kt)) ths -> okthread th ->
  Forall (fun kt => okthread (snd kt)) (aupdate t (fun _ => th) ths).
Proof.
  induction ths as [|[k v] ths IH]; simpl; auto.
  intros H Ht. inversion H; subst. destruct (t =? k); constructor; auto.
Qed.

(* ---------------------------------------------------------------- one scheduled action *)
Definition root_ok (a : action) : Prop :=
  forall t h name tr sp sa, a = ACall t (KRoot h name tr sp sa) -> R tr sa.

Definition obs_ok (o : obs) : Prop :=
  match o with
  | OReport recs _ _ => Forall (fun r => R (rc_trace r) true) recs
  | OCall (RCtx (Some c)) => R (fst (fst c)) (snd c)     (* an extracted context: trace and sampled flag of a root *)
  | _ => True
  end.

(* the contexts exec_call hands out come from token items *)
Lemma exec_call_ctx_ok s th e c s1 th1 e1 out tr id sa :
  okview R s th ->
  exec_call s th e c = COk s1 th1 e1 out (RCtx (Some (tr, id, sa))) -> R tr sa.
Proof.
  intros (Vs & Va & Vst & Vf) Ex. unfold exec_call in Ex.
  destruct c; cbv beta iota zeta in Ex;
    try (repeat match type of Ex with
                | context [match ?x with _ => _ end] => destruct x eqn:?; try discriminate
                | context [if ?x then _ else _] => destruct x eqn:?; try discriminate
                end; inversion Ex; fail).
  - (* from_span *)
    unfold get_span in Ex. destruct (alookup h (s_spans s)) as [[sp|]|] eqn:El; try discriminate.
    pose proof (okspans_lookup R _ _ _ Vs El) as Hsp. simpl in Hsp. apply (issue_token_ok R) in Hsp.
    destruct (issue_token sp) as [|it tk]; inversion Ex; subst.
    inversion Hsp as [|? ? Hit _]; subst. exact Hit.
  - (* current local parent *)
    destruct (s_cur_token (th_stack th)) as [[|it tk]|] eqn:Ec; try discriminate.
    pose proof (s_cur_token_ok R _ _ Vst Ec) as Htk. inversion Ex; subst.
    inversion Htk as [|? ? Hit _]; subst. exact Hit.
Qed.

Lemma okrecs_erase l : okrecs l -> Forall (fun r => R (rc_trace r) true) (map snd l).
Proof.
  unfold okrecs. intros H. apply Forall_forall. intros r Hr. apply in_map_iff in Hr.
  destruct Hr as [[c r'] [Heq Hin]]. subst r. eapply Forall_forall in H; [|exact Hin]. exact H.
Qed.

Ltac sys_split := unfold oksys; simpl; repeat split; auto.

Theorem step_ok s a :
  oksys s -> root_ok a -> oksys (fst (step s a)) /\ obs_ok (snd (step s a)).
Proof.
  intros (Hsp & Had & Hth & Hb & Ham) Hroot.
  unfold step. destruct a; cbv beta iota zeta.
  - (* install *)
    destruct (s_pc (s_tick s)); simpl; split; auto; sys_split; try constructor.
  - (* spawn *)
    destruct (amem t (s_threads (s_tick s)) || in_drain (s_pc (s_tick s))); simpl; split; auto; sys_split.
    apply Forall_app; split; auto. constructor; [|constructor]. unfold okthread; simpl.
    repeat split; constructor.
  - (* call *)
    unfold get_thread. destruct (alookup t (s_threads (s_tick s))) as [th|] eqn:Et; [|simpl; split; auto; sys_split].
    simpl in Et. pose proof (okthreads_lookup _ _ _ Hth Et) as (Tst & Tfr & Tout & Tch).
    destruct (th_outbox th) eqn:Eo; [|simpl; split; auto; sys_split].
    destruct (ch_dropping (th_chan th)); [simpl; split; auto; sys_split|].
    destruct (exec_call (s_tick s) th _ c) as [s1 th1 e1 out r|code|site] eqn:Ex; [|simpl; split; auto; sys_split..].
    assert (V : okview R (s_tick s) th) by (unfold okview; simpl; auto).
    destruct (exec_call_ok R _ _ _ _ _ _ _ _ _ V (fun h name tr sp sa Hc => Hroot t h name tr sp sa (f_equal (ACall t) Hc)) Ex)
      as [(V1 & V2 & V3 & V4) Vout].
    (* exec_call leaves threads, batch and active untouched *)
    assert (Hsame : s_threads s1 = s_threads (s_tick s) /\ s_batch s1 = s_batch (s_tick s) /\ s_active s1 = s_active (s_tick s) /\ th_chan th1 = th_chan th).
    { clear - Ex. unfold exec_call in Ex.
      destruct c; cbv beta iota zeta in Ex;
        repeat match type of Ex with
               | context [match ?x with _ => _ end] => destruct x eqn:?; try discriminate
               | context [if ?x then _ else _] => destruct x eqn:?; try discriminate
               end; inversion Ex; subst; simpl; auto. }
    destruct Hsame as (S1 & S2 & S3 & S4).
    assert (Hobs : obs_ok (OCall r)).
    { destruct r as [|[[[tr id] sa]|]| |]; simpl; auto. eapply exec_call_ctx_ok; eauto. }
    simpl. split; [|exact Hobs]. unfold oksys, put_thread; simpl. rewrite S1, S2, S3. simpl.
    repeat split; auto. apply okthreads_update; auto.
    unfold okthread; simpl. rewrite S4. repeat split; auto; apply Tch.
  - (* push *)
    unfold get_thread. destruct (alookup t (s_threads (s_tick s))) as [th|] eqn:Et; [|simpl; split; auto; sys_split].
    simpl in Et. pose proof (okthreads_lookup _ _ _ Hth Et) as (Tst & Tfr & Tout & Tch).
    destruct (ch_dropping (th_chan th)).
    + destruct (ch_abandoned (th_chan th)); simpl; split; auto; sys_split.
      apply okthreads_update; auto. unfold okthread; simpl. repeat split; auto; apply drop_step_ok; auto.
    + destruct (th_outbox th) as [|[f cmd] rest] eqn:Eo; [simpl; split; auto; sys_split|].
      inversion Tout as [|? ? Hc Hrest]; subst. simpl in Hc.
      pose proof (push_step_ok (th_chan th) f cmd Tch Hc) as Hps.
      destruct (push_step (th_chan th) f cmd) as [ch' fin]. simpl in Hps.
      simpl. split; auto. sys_split. apply okthreads_update; auto.
      unfold okthread; simpl. repeat split; auto; try apply Hps.
      destruct fin; auto; try (constructor; auto).
  - (* exit *)
    unfold get_thread. destruct (alookup t (s_threads (s_tick s))) as [th|] eqn:Et; [|simpl; split; auto; sys_split].
    simpl in Et. pose proof (okthreads_lookup _ _ _ Hth Et) as (Tst & Tfr & Tout & Tch).
    destruct (th_outbox th) eqn:Eo; [|simpl; split; auto; sys_split].
    destruct (th_scoped th) eqn:Es; [|simpl; split; auto; sys_split].
    destruct (th_frames th) eqn:Ef; [|simpl; split; auto; sys_split].
    destruct (ch_dropping (th_chan th)); simpl; split; auto; sys_split.
    apply okthreads_update; auto. unfold okthread; simpl. rewrite Eo, Ef. repeat split; auto; apply Tch.
  - (* cycle begin *)
    destruct (s_pc (s_tick s)); destruct (s_installed (s_tick s)); try (simpl; split; auto; sys_split; fail).
    destruct (s_registry (s_tick s)); simpl; split; auto; sys_split.
  - (* pop *)
    destruct (s_pc (s_tick s)) as [|todo kept cur| |]; try (simpl; split; auto; sys_split; fail).
    unfold get_thread. destruct (alookup cur (s_threads (s_tick s))) as [th|] eqn:Et; [|simpl; split; auto; sys_split].
    simpl in Et. pose proof (okthreads_lookup _ _ _ Hth Et) as (Tst & Tfr & Tout & Tch).
    destruct (pop_step (th_chan th)) as [[x|] ch'] eqn:Ep; [|simpl; split; auto; sys_split].
    destruct (pop_step_ok _ _ _ Tch Ep) as [Hx Hch].
    simpl. split; auto. sys_split.
    + apply okthreads_update; auto. unfold okthread; simpl. repeat split; auto; apply Hch.
    + apply batch_add_ok; auto.
  - (* check *)
    destruct (s_pc (s_tick s)) as [| |todo kept cur|]; try (simpl; split; auto; sys_split; fail).
    unfold get_thread. destruct (alookup cur (s_threads (s_tick s))) as [th|] eqn:Et; [|simpl; split; auto; sys_split].
    simpl in Et. pose proof (okthreads_lookup _ _ _ Hth Et) as (Tst & Tfr & Tout & Tch).
    destruct (ch_abandoned (th_chan th)).
    + destruct (pop_step (th_chan th)) as [[x|] ch'] eqn:Ep.
      * destruct (pop_step_ok _ _ _ Tch Ep) as [Hx Hch].
        simpl. split; auto. sys_split.
        -- apply okthreads_update; auto. unfold okthread; simpl. repeat split; auto; apply Hch.
        -- apply batch_add_ok; auto.
      * destruct (advance todo kept) as [pc [reg|]]; simpl; split; auto; sys_split.
    + destruct (advance todo (kept ++ [cur])) as [pc [reg|]]; simpl; split; auto; sys_split.
  - (* process *)
    destruct (s_pc (s_tick s)); try (simpl; split; auto; sys_split; fail).
    unfold process.
    pose proof (process_owned_ok (anchor_conv (s_nstep (s_tick s))) (s_cancelable (s_tick s)) (s_active (s_tick s)) (s_batch (s_tick s)) Ham Hb)
      as [Ha' Hr'].
    destruct (process_owned (anchor_conv (s_nstep (s_tick s))) (s_cancelable (s_tick s)) (s_active (s_tick s)) (s_batch (s_tick s)))
      as [am' recs]. simpl in Ha', Hr'.
    simpl. split.
    + sys_split. constructor.
    + apply okrecs_erase; auto.
Qed.

Lemma sys_init_ok dbg rc sc qc : oksys (sys_init dbg rc sc qc).
Proof. unfold oksys, sys_init; simpl. repeat split; constructor. Qed.

(* every history, every schedule *)
Theorem run_ok h : forall s,
  oksys s -> Forall root_ok h -> oksys (fst (run s h)) /\ Forall obs_ok (snd (run s h)).
Proof.
  induction h as [|a h IH]; intros s Hs Hh; simpl.
  - split; auto.
  - inversion Hh; subst. pose proof (step_ok s a Hs H1) as [Hs1 Ho].
    destruct (step s a) as [s1 o]. simpl in *.
    destruct (IH s1 Hs1 H2) as [Hs2 Hos]. destruct (run s1 h) as [s2 os]. simpl in *. split; auto.
Qed.

End Sys.

(* ---------------------------------------------------------------- the C05 statement *)
(* the (trace id, sampled) pairs of the roots a history creates *)
Fixpoint roots_of (h : list action) : list (N * bool) :=
  match h with
  | [] => []
  | ACall _ (KRoot _ _ tr _ sa) :: h' => (tr, sa) :: roots_of h'
  | _ :: h' => roots_of h'
  end.

Lemma roots_of_ok h : Forall (root_ok (fun tr sa => In (tr, sa) (roots_of h))) h.
Proof.
  assert (H : forall pre h, Forall (root_ok (fun tr sa => In (tr, sa) (roots_of (pre ++ h)))) h).
  { intros pre h0; revert pre. induction h0 as [|a h0 IH]; intros pre; constructor.
    - unfold root_ok. intros t hh name tr sp sa ->. clear IH. induction pre as [|x pre IHp]; simpl.
      + left; reflexivity.
      + destruct x; simpl; auto. destruct c; simpl; auto.
    - replace (pre ++ a :: h0) with ((pre ++ [a]) ++ h0) by (rewrite <- app_assoc; reflexivity). apply IH. }
  apply (H [] h).
Qed.

(* C05: in every history, under every schedule, every reported record carries the trace id
   of some root that was created with sampled = true *)
Theorem reported_only_sampled_traces dbg rc sc qc h :
  Forall (fun o => match o with
                   | OReport recs _ _ => Forall (fun r => In (rc_trace r, true) (roots_of h)) recs
                   | _ => True
                   end) (snd (run (sys_init dbg rc sc qc) h)).
Proof.
  pose proof (run_ok (fun tr sa => In (tr, sa) (roots_of h)) h (sys_init dbg rc sc qc)
                     (sys_init_ok _ dbg rc sc qc) (roots_of_ok h)) as [_ H].
  eapply Forall_impl; [|exact H]. intros o Ho. destruct o; auto.
Qed.

(* C05 / C11: every context the API hands out (from_span, current_local_parent), in every
   history and under every schedule, carries the trace id and the sampling decision of a root
   the program created: a context with sampled = true names a trace with a sampled root, and
   (contrapositive) the contexts of a trace whose roots are all unsampled carry sampled = false *)
Theorem extracted_contexts_from_roots dbg rc sc qc h :
  Forall (fun o => match o with
                   | OCall (RCtx (Some c)) => In (fst (fst c), snd c) (roots_of h)
                   | _ => True
                   end) (snd (run (sys_init dbg rc sc qc) h)).
Proof.
  pose proof (run_ok (fun tr sa => In (tr, sa) (roots_of h)) h (sys_init dbg rc sc qc)
                     (sys_init_ok _ dbg rc sc qc) (roots_of_ok h)) as [_ H].
  eapply Forall_impl; [|exact H]. intros o Ho. destruct o as [|r| | |]; auto.
Qed.

Corollary unsampled_traces_silent dbg rc sc qc h tr :
  ~ In (tr, true) (roots_of h) ->
  Forall (fun o => match o with
                   | OReport recs _ _ => Forall (fun r => rc_trace r <> tr) recs
                   | _ => True
                   end) (snd (run (sys_init dbg rc sc qc) h)).
Proof.
  intros Hn. pose proof (reported_only_sampled_traces dbg rc sc qc h) as H.
  eapply Forall_impl; [|exact H]. intros o Ho. destruct o; auto.
  eapply Forall_impl; [|exact Ho]. intros r Hr Heq. simpl in Hr. rewrite Heq in Hr. contradiction.
Qed.
