(* C15: unescape_format_string against what format!() does with the same string *)
From Coq Require Import List NArith Bool Lia Arith Wf_nat.
From FT Require Import Model.FormatStr.
Import ListNotations.
Open Scope N_scope.

Lemma rep_pair p w t : rep p w (p :: p :: t) = w ++ rep p w t.
Proof. simpl. rewrite N.eqb_refl. reflexivity. Qed.

Lemma rep_other p w x r : x <> p -> rep p w (x :: r) = x :: rep p w r.
Proof.
  intros H. destruct r as [|y t]; [reflexivity|].
  change (rep p w (x :: y :: t)) with (if (x =? p) && (y =? p) then w ++ rep p w t else x :: rep p w (y :: t)).
  apply N.eqb_neq in H. rewrite H. reflexivity.
Qed.

Lemma rep_single p w x : rep p w [x] = [x].
Proof. reflexivity. Qed.

(* a lone p in front of something else stays *)
Lemma rep_lone p w y t : y <> p -> rep p w (p :: y :: t) = p :: rep p w (y :: t).
Proof.
  intros H.
  change (rep p w (p :: y :: t)) with (if (p =? p) && (y =? p) then w ++ rep p w t else p :: rep p w (y :: t)).
  rewrite N.eqb_refl. apply N.eqb_neq in H. rewrite H. reflexivity.
Qed.

Lemma has_cons c x s : has c (x :: s) = (c =? x) || has c s.
Proof. reflexivity. Qed.

(* replacing pairs of p never removes or adds another character c (when w has none) *)
Lemma has_rep_other c p w s : c <> p -> has c w = false -> has c (rep p w s) = has c s.
Proof.
  intros Hc Hw. remember (length s) as n eqn:Hn. revert s Hn.
  induction n as [n IH] using lt_wf_ind. intros s Hn.
  destruct s as [|x [|y t]]; [reflexivity|reflexivity|].
  change (rep p w (x :: y :: t)) with (if (x =? p) && (y =? p) then w ++ rep p w t else x :: rep p w (y :: t)).
  destruct ((x =? p) && (y =? p)) eqn:E.
  - apply andb_true_iff in E. destruct E as [Ex Ey]. apply N.eqb_eq in Ex, Ey. subst x y.
    unfold has at 1. rewrite existsb_app. fold (has c w) (has c (rep p w t)). rewrite Hw. simpl.
    rewrite (IH (length t)); [|subst n; simpl; lia|reflexivity].
    assert (Hcp : (c =? p) = false) by (apply N.eqb_neq; exact Hc). rewrite Hcp. reflexivity.
  - rewrite (has_cons c x (rep p w (y :: t))), (has_cons c x (y :: t)). f_equal.
    apply (IH (length (y :: t))); [subst n; simpl; lia|reflexivity].
Qed.

Lemma LB_neq_RB : LB <> RB. Proof. discriminate. Qed.
Lemma RB_neq_LB : RB <> LB. Proof. discriminate. Qed.

Definition brace (x : N) : bool := (x =? LB) || (x =? RB).

(* ---------------------------------------------------------------- literals *)
Lemma scan_fuel_lit n : forall s u, (length s < n)%nat -> scan_fuel n s = Lit u ->
  rep RB [RB] (rep LB [LB] s) = u /\
  has LB (rep RB [] (rep LB [] s)) = false /\ has RB (rep RB [] (rep LB [] s)) = false.
Proof.
  induction n as [|n IH]; intros s u Hl Hs; [lia|].
  destruct s as [|x r]; cbn [scan_fuel] in Hs.
  - inversion Hs; subst. repeat split.
  - destruct (N.eqb_spec x LB) as [->|HxL].
    + destruct r as [|y t]; [discriminate|].
      destruct (N.eqb_spec y LB) as [->|]; [|discriminate].
      destruct (scan_fuel n t) as [u'| |] eqn:Et; try discriminate. inversion Hs; subst u.
      destruct (IH t u') as (A & B & C); [simpl in Hl; lia|exact Et|].
      rewrite !rep_pair. cbn [app].
      rewrite (rep_other RB [RB] LB _ LB_neq_RB). rewrite A. repeat split; assumption.
    + destruct (N.eqb_spec x RB) as [->|HxR].
      * destruct r as [|y t]; [discriminate|].
        destruct (N.eqb_spec y RB) as [->|]; [|discriminate].
        destruct (scan_fuel n t) as [u'| |] eqn:Et; try discriminate. inversion Hs; subst u.
        destruct (IH t u') as (A & B & C); [simpl in Hl; lia|exact Et|].
        rewrite (rep_other LB [LB] RB _ RB_neq_LB), (rep_other LB [LB] RB _ RB_neq_LB).
        rewrite (rep_other LB [] RB _ RB_neq_LB), (rep_other LB [] RB _ RB_neq_LB).
        rewrite !rep_pair. cbn [app]. rewrite A. repeat split; assumption.
      * destruct (scan_fuel n r) as [u'| |] eqn:Et; try discriminate. inversion Hs; subst u.
        destruct (IH r u') as (A & B & C); [simpl in Hl; lia|exact Et|].
        rewrite (rep_other LB [LB] x _ HxL), (rep_other RB [RB] x _ HxR).
        rewrite (rep_other LB [] x _ HxL), (rep_other RB [] x _ HxR).
        rewrite A, !has_cons, B, C.
        assert (E1 : (LB =? x) = false) by (apply N.eqb_neq; auto).
        assert (E2 : (RB =? x) = false) by (apply N.eqb_neq; auto).
        rewrite E1, E2. repeat split.
Qed.

(* a string without arguments: the macro records exactly what format!() would print *)
Theorem unescape_literal s u : scan s = Lit u -> unescape s = (u, false).
Proof.
  intros H. destruct (scan_fuel_lit (S (length s)) s u) as (A & B & C); [lia|exact H|].
  unfold unescape. rewrite B, C. simpl. rewrite A. reflexivity.
Qed.

(* ---------------------------------------------------------------- arguments *)
Lemma scan_fuel_open n : forall s, (length s < n)%nat -> scan_fuel n s = Open ->
  has LB (rep LB [] s) = true.
Proof.
  induction n as [|n IH]; intros s Hl Hs; [lia|].
  destruct s as [|x r]; cbn [scan_fuel] in Hs; [discriminate|].
  destruct (N.eqb_spec x LB) as [->|HxL].
  - destruct r as [|y t]; [reflexivity|].
    destruct (N.eqb_spec y LB) as [->|Hy].
    + destruct (scan_fuel n t) as [u'| |] eqn:Et; try discriminate.
      rewrite rep_pair. cbn [app]. apply IH; [simpl in Hl; lia|exact Et].
    + rewrite (rep_lone LB [] y t Hy). reflexivity.
  - destruct (N.eqb_spec x RB) as [->|HxR].
    + destruct r as [|y t]; [discriminate|].
      destruct (N.eqb_spec y RB) as [->|]; [|discriminate].
      destruct (scan_fuel n t) as [u'| |] eqn:Et; try discriminate.
      rewrite (rep_other LB [] RB _ RB_neq_LB), (rep_other LB [] RB _ RB_neq_LB), !has_cons.
      rewrite (IH t); [apply orb_true_r| |exact Et]. simpl in Hl; lia.
    + destruct (scan_fuel n r) as [u'| |] eqn:Et; try discriminate.
      rewrite (rep_other LB [] x _ HxL), has_cons.
      rewrite (IH r); [apply orb_true_r| |exact Et]. simpl in Hl; lia.
Qed.

(* a string whose first unescaped brace opens an argument goes to format!() unchanged *)
Theorem unescape_argument s : scan s = Open -> unescape s = (s, true).
Proof.
  intros H. pose proof (scan_fuel_open (S (length s)) s (Nat.lt_succ_diag_r _) H) as A.
  unfold unescape. rewrite (has_rep_other LB RB [] _ LB_neq_RB eq_refl), A. reflexivity.
Qed.

(* the text is returned unchanged whenever it is flagged for format!(), and the literal never
   contains more bytes than the text *)
Theorem unescape_flagged_is_verbatim s : snd (unescape s) = true -> fst (unescape s) = s.
Proof. unfold unescape. destruct (has LB _ || has RB _); [reflexivity|discriminate]. Qed.
