(* C09 at the system level: the control commands of a thread (StartCollect, DropCollect,
   CommitCollect -- everything but SubmitSpans) are neither dropped nor reordered on their way
   from the calls to the collector while the thread lives, whatever the capacity of its ring
   and however calls, single pushes and collector pops of any threads are interleaved.
   [flight]: what the thread's sender still holds, oldest first: ring, then the commands parked
   behind a full ring, then what the current call has not handed over yet. *)
From Coq Require Import List Arith NArith Bool Lia.
From FT Require Import Model.Base Model.Local Model.Records Model.Spsc Model.Collector Model.System.
From FT Require Import Proofs.SpscProofs Proofs.DrainProofs Proofs.EndToEndProofs Proofs.HistoryProofs.
Import ListNotations.
Open Scope N_scope.

Definition is_ctl (c : command) : bool := match c with CSubmit _ _ => false | _ => true end.
Definition ctl (l : list command) : list command := filter is_ctl l.

Definition flight (th : thread) : list command :=
  ch_ring (th_chan th) ++ ch_pending (th_chan th) ++ map snd (th_outbox th).

Definition flags_ok (o : list (bool * command)) : Prop := Forall (fun fc => fst fc = is_ctl (snd fc)) o.

Lemma ctl_app a b : ctl (a ++ b) = ctl a ++ ctl b.
Proof. unfold ctl. apply filter_app. Qed.

Lemma submit_flags s tk : flags_ok (submit s tk).
Proof. unfold submit. destruct (filter ti_sampled tk); constructor; [reflexivity|constructor]. Qed.

Lemma drop_span_flags osp e : flags_ok (fst (drop_span osp e)).
Proof.
  unfold drop_span. destruct osp as [sp|]; [|constructor].
  destruct (now e) as [t1 e1]. cbn [fst]. apply Forall_app. split; [apply submit_flags|].
  destruct (sp_cid sp); constructor; [reflexivity|constructor].
Qed.

Lemma drop_guard_flags dbg inner st e out st' e' :
  drop_guard dbg inner st e = Ok (out, st', e') -> flags_ok out.
Proof.
  unfold drop_guard. destruct inner as [oep|]; [|intros H; inversion H; constructor].
  unfold bind. destruct (lc_collect dbg st oep e) as [[[[[spans endt] otk] st1] e1]|]; [|discriminate].
  destruct otk; intros H; inversion H; subst; [apply submit_flags|constructor].
Qed.

(* every call hands over commands whose "forced" flag is exactly "control command" *)
Lemma exec_call_flags s th e c s1 th1 e1 out r :
  exec_call s th e c = COk s1 th1 e1 out r -> flags_ok out.
Proof.
  intros Ex. unfold exec_call in Ex.
  destruct c; cbv beta iota zeta in Ex;
    repeat match type of Ex with
           | context [let (_, _) := drop_span ?o ?e in _] =>
               let H := fresh "Hd" in pose proof (drop_span_flags o e) as H; destruct (drop_span o e) eqn:?; cbn [fst] in H
           | context [match ?x with _ => _ end] => destruct x eqn:?; try discriminate
           | context [if ?x then _ else _] => destruct x eqn:?; try discriminate
           end; inversion Ex; subst; try assumption;
    repeat (first [apply Forall_nil | apply Forall_cons; [reflexivity|] | apply Forall_app; split | apply submit_flags | assumption
                  | match goal with H : drop_guard _ _ _ _ = Ok (?o, _, _) |- flags_ok ?o => exact (drop_guard_flags _ _ _ _ _ _ _ H) end
                  | match goal with H : drop_guard _ _ _ _ = Ok (?o, _, _) |- Forall _ ?o => exact (drop_guard_flags _ _ _ _ _ _ _ H) end]).
  all: match goal with
       | H : match ?h with Some osp => drop_span osp ?e | None => _ end = (?o, _) |- flags_ok ?o =>
           destruct h as [osp0|];
           [ let Hf := fresh in pose proof (drop_span_flags osp0 e) as Hf; rewrite H in Hf; exact Hf
           | inversion H; constructor ]
       end.
Qed.

(* ---------------------------------------------------------------- one step *)
Definition cur_of (s : sys) : N :=
  match s_pc s with PDrain _ _ cur | PEmpty _ _ cur => cur | _ => 0 end.

(* what thread t hands to its sender in this step / what the collector pops out of t's ring *)
Definition emit1 (t : N) (s : sys) (a : action) : list command :=
  match a with
  | ACall t' _ =>
      if t' =? t then
        match get_thread s t, get_thread (fst (step s a)) t with
        | Some th, Some th' => match th_outbox th with [] => map snd (th_outbox th') | _ => [] end
        | _, _ => []
        end
      else []
  | _ => []
  end.

Definition pop1 (t : N) (s : sys) (a : action) : list command :=
  match popped_cmd s a with
  | Some c => if cur_of s =? t then [c] else []
  | None => []
  end.

Definition alive (t : N) (s : sys) : Prop :=
  exists th, get_thread s t = Some th /\ ch_dropping (th_chan th) = false /\ flags_ok (th_outbox th).

Definition flight_of (t : N) (s : sys) : list command :=
  match get_thread s t with Some th => flight th | None => [] end.

Lemma alive_same t s s' :
  get_thread s' t = get_thread s t -> alive t s -> alive t s' /\ flight_of t s' = flight_of t s.
Proof. intros E (th & G & D & F). unfold alive, flight_of. rewrite E. split; [exists th; auto|reflexivity]. Qed.

Lemma pop1_none t s a : popped_cmd s a = None -> pop1 t s a = [].
Proof. unfold pop1. intros ->. reflexivity. Qed.

Theorem step_fifo t s a :
  alive t s -> a <> AExit t ->
  alive t (fst (step s a)) /\
  ctl (flight_of t s) ++ ctl (emit1 t s a) = ctl (pop1 t s a) ++ ctl (flight_of t (fst (step s a))).
Proof.
  intros Hal Hne.
  assert (Same : get_thread (fst (step s a)) t = get_thread s t -> popped_cmd s a = None ->
                 (forall t' c, a = ACall t' c -> t' <> t \/ get_thread s t = None \/ (exists th, get_thread s t = Some th /\ (th_outbox th <> [] \/ th_outbox th = []))) ->
                 emit1 t s a = [] ->
                 alive t (fst (step s a)) /\
                 ctl (flight_of t s) ++ ctl (emit1 t s a) = ctl (pop1 t s a) ++ ctl (flight_of t (fst (step s a)))).
  { intros E Hp _ He. destruct (alive_same t s _ E Hal) as [A F]. split; [exact A|].
    rewrite He, (pop1_none t s a Hp), F. simpl. rewrite app_nil_r. reflexivity. }
  destruct Hal as (th & G & D & F).
  destruct a.
  - (* install *) apply Same; [|reflexivity|intros; discriminate|reflexivity].
    unfold step. cbv beta iota zeta. destruct (s_pc (s_tick s)); reflexivity.
  - (* spawn *) apply Same; [|reflexivity|intros; discriminate|reflexivity].
    unfold step. cbv beta iota zeta.
    destruct (amem t0 (s_threads (s_tick s)) || in_drain (s_pc (s_tick s))) eqn:Eb; [reflexivity|].
    apply orb_false_iff in Eb. destruct Eb as [Em _]. apply amem_false_lookup in Em.
    cbn [fst]. unfold get_thread. cbn [s_threads s_set_collector s_set_threads].
    destruct (N.eq_dec t t0) as [->|Hn].
    + unfold get_thread in G. change (s_threads (s_tick s)) with (s_threads s) in Em. rewrite Em in G. discriminate.
    + apply alookup_snoc_other. exact Hn.
  - (* call *)
    destruct (N.eq_dec t0 t) as [->|Hn].
    + (* by t itself *)
      unfold emit1, pop1, popped_cmd. rewrite N.eqb_refl, G.
      unfold step. cbv beta iota zeta. change (get_thread (s_tick s) t) with (get_thread s t). rewrite G.
      destruct (th_outbox th) as [|x o] eqn:Eo.
      * rewrite D.
        destruct (exec_call (s_tick s) th _ c) as [s1 th1 e1 out r|code|site] eqn:Ex; cbn [fst].
        -- destruct (exec_call_chan _ _ _ _ _ _ _ _ _ Ex) as (Hch & Hth & _).
           set (X := th_set_outbox (th_set_suffix th1 (e_suffix e1)) out).
           assert (Hg' : get_thread (put_thread s1 t X) t = Some X).
           { rewrite get_put_thread, N.eqb_refl. unfold get_thread. rewrite Hth.
             change (alookup t (s_threads (s_tick s))) with (get_thread s t). rewrite G. reflexivity. }
           rewrite Hg'.
           split.
           ++ exists X. split; [exact Hg'|]. unfold X. simpl. rewrite Hch. split; [exact D|exact (exec_call_flags _ _ _ _ _ _ _ _ _ Ex)].
           ++ unfold flight_of. rewrite G, Hg'. unfold flight, X. simpl. rewrite Hch, Eo. simpl.
              rewrite !ctl_app. simpl. rewrite !app_nil_r, <- !app_assoc. reflexivity.
        -- change (get_thread (s_tick s) t) with (get_thread s t). rewrite G, Eo.
           split; [exists th; rewrite Eo; auto|]. unfold flight_of. change (get_thread (s_tick s) t) with (get_thread s t). rewrite G. simpl. rewrite app_nil_r. reflexivity.
        -- change (get_thread (s_tick s) t) with (get_thread s t). rewrite G, Eo.
           split; [exists th; rewrite Eo; auto|]. unfold flight_of. change (get_thread (s_tick s) t) with (get_thread s t). rewrite G. simpl. rewrite app_nil_r. reflexivity.
      * cbn [fst]. change (get_thread (s_tick s) t) with (get_thread s t). rewrite G.
        split; [exists th; rewrite Eo; auto|]. unfold flight_of. change (get_thread (s_tick s) t) with (get_thread s t). rewrite G. simpl. rewrite app_nil_r. reflexivity.
    + (* by another thread *)
      apply Same; [|reflexivity|intros; left; congruence|].
      * unfold step. cbv beta iota zeta.
        destruct (get_thread (s_tick s) t0) as [th0|] eqn:Eg; [|reflexivity].
        destruct (th_outbox th0); [|reflexivity].
        destruct (ch_dropping (th_chan th0)); [reflexivity|].
        destruct (exec_call (s_tick s) th0 _ c) as [s1 th1 e1 out r|code|site] eqn:Ex; [|reflexivity..].
        destruct (exec_call_chan _ _ _ _ _ _ _ _ _ Ex) as (_ & Hth & _).
        cbn [fst]. rewrite get_put_thread. assert (E : (t =? t0) = false) by (apply N.eqb_neq; auto). rewrite E.
        unfold get_thread. rewrite Hth. reflexivity.
      * unfold emit1. assert (E : (t0 =? t) = false) by (apply N.eqb_neq; auto). rewrite E. reflexivity.
  - (* push *)
    destruct (N.eq_dec t0 t) as [->|Hn].
    + unfold emit1, pop1, popped_cmd. unfold step. cbv beta iota zeta.
      change (get_thread (s_tick s) t) with (get_thread s t). rewrite G, D.
      destruct (th_outbox th) as [|[f cmd] rest] eqn:Eo.
      * cbn [fst]. split; [exists th; rewrite Eo; auto|]. simpl. rewrite app_nil_r. reflexivity.
      * inversion F as [|? ? Hf Frest]; subst. cbn [fst snd] in Hf.
        unfold push_step. destruct (ch_pending (th_chan th)) as [|p ps] eqn:Ep; destruct (ch_room (th_chan th)) eqn:Er; try destruct f eqn:Ef; cbn [fst snd].
        all: assert (Gt : get_thread (s_tick s) t = Some th) by exact G.
        all: split; [eexists; split; [rewrite get_put_thread, N.eqb_refl, Gt; reflexivity|]; simpl; split; [exact D|first [exact Frest | exact F | constructor; [exact Hf|exact Frest]]]|].
        all: unfold flight_of; rewrite G, get_put_thread, N.eqb_refl, Gt; cbn [option_map]; unfold flight; simpl; rewrite ?Ep, ?Eo; simpl;
             rewrite ?ctl_app; simpl; rewrite ?app_nil_r, <- ?app_assoc; simpl;
             try reflexivity.
        all: try (symmetry in Hf; unfold ctl; simpl; rewrite <- Hf; simpl; rewrite ?filter_app; simpl; rewrite <- ?app_assoc; reflexivity).
        all: try (unfold ctl; simpl; rewrite <- Hf; simpl; rewrite ?filter_app; simpl; rewrite <- ?app_assoc; reflexivity).
        all: unfold ctl in *; cbn [filter]; rewrite ?filter_app; cbn [filter];
             destruct (is_ctl p); destruct (is_ctl cmd) eqn:Ec; cbn [app]; rewrite <- ?app_assoc; cbn [app];
             try reflexivity; try congruence.
    + apply Same; [|reflexivity|intros; discriminate|reflexivity].
      unfold step. cbv beta iota zeta.
      destruct (get_thread (s_tick s) t0) as [th0|] eqn:Eg; [|reflexivity].
      assert (E : (t =? t0) = false) by (apply N.eqb_neq; auto).
      destruct (ch_dropping (th_chan th0)).
      * destruct (ch_abandoned (th_chan th0)); [reflexivity|]. cbn [fst]. rewrite get_put_thread, E. reflexivity.
      * destruct (th_outbox th0) as [|[f cmd] rest]; [reflexivity|].
        destruct (push_step (th_chan th0) f cmd) as [ch' fin]. cbn [fst]. rewrite get_put_thread, E. reflexivity.
  - (* exit of another thread *)
    assert (Hn : t0 <> t) by (intros ->; apply Hne; reflexivity).
    apply Same; [|reflexivity|intros; discriminate|reflexivity].
    unfold step. cbv beta iota zeta.
    destruct (get_thread (s_tick s) t0) as [th0|] eqn:Eg; [|reflexivity].
    destruct (th_outbox th0), (th_scoped th0), (th_frames th0); try reflexivity.
    destruct (ch_dropping (th_chan th0)); [reflexivity|]. cbn [fst].
    rewrite get_put_thread. assert (E : (t =? t0) = false) by (apply N.eqb_neq; auto). rewrite E. reflexivity.
  - (* begin *) apply Same; [|reflexivity|intros; discriminate|reflexivity].
    unfold step. cbv beta iota zeta. destruct (s_pc (s_tick s)); try reflexivity.
    destruct (s_installed (s_tick s)); try reflexivity. destruct (s_registry (s_tick s)); reflexivity.
  - (* pop *)
    unfold emit1, pop1, popped_cmd, cur_of. unfold step. cbv beta iota zeta.
    change (s_pc (s_tick s)) with (s_pc s). change (get_thread (s_tick s)) with (get_thread s).
    destruct (s_pc s) eqn:Epc; try (cbn [fst]; split; [exists th; auto|simpl; rewrite app_nil_r; reflexivity]).
    destruct (get_thread s cur) as [th0|] eqn:Eg; [|cbn [fst]; split; [exists th; auto|simpl; rewrite app_nil_r; reflexivity]].
    destruct (pop_step (th_chan th0)) as [[c0|] ch'] eqn:Ep; cbn [fst].
    + unfold pop_step in Ep. destruct (ch_ring (th_chan th0)) as [|x r] eqn:Er; inversion Ep; subst c0 ch'.
      destruct (N.eqb_spec cur t) as [->|Hn].
      * rewrite G in Eg. inversion Eg; subst th0.
        assert (Hg' : get_thread (s_set_collector (put_thread (s_tick s) t (th_set_chan th (mkChan r (ch_cap (th_chan th)) (ch_pending (th_chan th)) (ch_dropping (th_chan th)) (ch_abandoned (th_chan th)))))
                        (s_registry (s_tick s)) (PDrain todo kept t) (batch_add (s_batch (s_tick s)) x) (s_active (s_tick s))) t
                      = Some (th_set_chan th (mkChan r (ch_cap (th_chan th)) (ch_pending (th_chan th)) (ch_dropping (th_chan th)) (ch_abandoned (th_chan th))))).
        { unfold get_thread. cbn [s_threads s_set_collector].
          change (alookup t (s_threads (put_thread (s_tick s) t ?X))) with (get_thread (put_thread (s_tick s) t X) t).
          rewrite get_put_thread, N.eqb_refl. change (get_thread (s_tick s) t) with (get_thread s t). rewrite G. reflexivity. }
        split; [eexists; split; [exact Hg'|simpl; auto]|].
        unfold flight_of. rewrite G, Hg'. unfold flight. simpl. rewrite Er. simpl.
        rewrite app_nil_r. unfold ctl. simpl. destruct (is_ctl x); reflexivity.
      * assert (Hg' : get_thread (s_set_collector (put_thread (s_tick s) cur (th_set_chan th0 (mkChan r (ch_cap (th_chan th0)) (ch_pending (th_chan th0)) (ch_dropping (th_chan th0)) (ch_abandoned (th_chan th0)))))
                        (s_registry (s_tick s)) (PDrain todo kept cur) (batch_add (s_batch (s_tick s)) x) (s_active (s_tick s))) t
                      = Some th).
        { unfold get_thread. cbn [s_threads s_set_collector].
          change (alookup t (s_threads (put_thread (s_tick s) cur ?X))) with (get_thread (put_thread (s_tick s) cur X) t).
          rewrite get_put_thread. assert (E : (t =? cur) = false) by (apply N.eqb_neq; auto). rewrite E. exact G. }
        split; [exists th; auto|]. unfold flight_of. rewrite G, Hg'. simpl. rewrite app_nil_r. reflexivity.
    + split; [exists th; auto|]. unfold flight_of. cbn [s_threads s_set_collector get_thread]. change (alookup t (s_threads (s_tick s))) with (get_thread s t).
      simpl. rewrite app_nil_r. reflexivity.
  - (* check *)
    unfold emit1, pop1, popped_cmd, cur_of. unfold step. cbv beta iota zeta.
    change (s_pc (s_tick s)) with (s_pc s). change (get_thread (s_tick s)) with (get_thread s).
    destruct (s_pc s) eqn:Epc; try (cbn [fst]; split; [exists th; auto|simpl; rewrite app_nil_r; reflexivity]).
    destruct (get_thread s cur) as [th0|] eqn:Eg; [|cbn [fst]; split; [exists th; auto|simpl; rewrite app_nil_r; reflexivity]].
    destruct (ch_abandoned (th_chan th0)) eqn:Eab.
    + destruct (pop_step (th_chan th0)) as [[c0|] ch'] eqn:Ep; cbn [fst].
      * unfold pop_step in Ep. destruct (ch_ring (th_chan th0)) as [|x r] eqn:Er; inversion Ep; subst c0 ch'.
        destruct (N.eqb_spec cur t) as [->|Hn].
        -- rewrite G in Eg. inversion Eg; subst th0.
           assert (Hg' : get_thread (s_set_collector (put_thread (s_tick s) t (th_set_chan th (mkChan r (ch_cap (th_chan th)) (ch_pending (th_chan th)) (ch_dropping (th_chan th)) (ch_abandoned (th_chan th)))))
                           (s_registry (s_tick s)) (PDrain todo kept t) (batch_add (s_batch (s_tick s)) x) (s_active (s_tick s))) t
                         = Some (th_set_chan th (mkChan r (ch_cap (th_chan th)) (ch_pending (th_chan th)) (ch_dropping (th_chan th)) (ch_abandoned (th_chan th))))).
           { unfold get_thread. cbn [s_threads s_set_collector].
             change (alookup t (s_threads (put_thread (s_tick s) t ?X))) with (get_thread (put_thread (s_tick s) t X) t).
             rewrite get_put_thread, N.eqb_refl. change (get_thread (s_tick s) t) with (get_thread s t). rewrite G. reflexivity. }
           split; [eexists; split; [exact Hg'|simpl; auto]|].
           unfold flight_of. rewrite G, Hg'. unfold flight. simpl. rewrite Er. simpl.
           rewrite app_nil_r. unfold ctl. simpl. destruct (is_ctl x); reflexivity.
        -- assert (Hg' : get_thread (s_set_collector (put_thread (s_tick s) cur (th_set_chan th0 (mkChan r (ch_cap (th_chan th0)) (ch_pending (th_chan th0)) (ch_dropping (th_chan th0)) (ch_abandoned (th_chan th0)))))
                           (s_registry (s_tick s)) (PDrain todo kept cur) (batch_add (s_batch (s_tick s)) x) (s_active (s_tick s))) t
                         = Some th).
           { unfold get_thread. cbn [s_threads s_set_collector].
             change (alookup t (s_threads (put_thread (s_tick s) cur ?X))) with (get_thread (put_thread (s_tick s) cur X) t).
             rewrite get_put_thread. assert (E : (t =? cur) = false) by (apply N.eqb_neq; auto). rewrite E. exact G. }
           split; [exists th; auto|]. unfold flight_of. rewrite G, Hg'. simpl. rewrite app_nil_r. reflexivity.
      * destruct (advance todo kept) as [pc [reg|]]; cbn [fst]; (split; [exists th; auto|]);
          unfold flight_of; cbn [s_threads s_set_collector get_thread]; change (alookup t (s_threads (s_tick s))) with (get_thread s t);
          simpl; rewrite app_nil_r; reflexivity.
    + destruct (advance todo (kept ++ [cur])) as [pc [reg|]]; cbn [fst]; (split; [exists th; auto|]);
        unfold flight_of; cbn [s_threads s_set_collector get_thread]; change (alookup t (s_threads (s_tick s))) with (get_thread s t);
        simpl; rewrite app_nil_r; reflexivity.
  - (* process *) apply Same; [|reflexivity|intros; discriminate|reflexivity].
    unfold step. cbv beta iota zeta. destruct (s_pc (s_tick s)); try reflexivity.
    destruct (process _ _ _ _); reflexivity.
Qed.

(* ---------------------------------------------------------------- whole histories *)
Fixpoint emitted (t : N) (s : sys) (h : list action) : list command :=
  match h with [] => [] | a :: h' => emit1 t s a ++ emitted t (fst (step s a)) h' end.

Fixpoint popped_from (t : N) (s : sys) (h : list action) : list command :=
  match h with [] => [] | a :: h' => pop1 t s a ++ popped_from t (fst (step s a)) h' end.

Definition never_exits (t : N) (h : list action) : Prop := Forall (fun a => a <> AExit t) h.

(* C09: along any history in which thread t does not exit, the control commands the collector
   has popped out of t's ring, followed by those still in flight, are exactly those that were
   in flight at the beginning followed by those t's calls have emitted since -- same commands,
   same order, none missing, none twice -- for every ring capacity and every interleaving *)
Theorem run_fifo t h : forall s,
  alive t s -> never_exits t h ->
  alive t (fst (run s h)) /\
  ctl (flight_of t s) ++ ctl (emitted t s h) =
  ctl (popped_from t s h) ++ ctl (flight_of t (fst (run s h))).
Proof.
  induction h as [|a h IH]; intros s Hal Hn.
  - simpl. split; [exact Hal|]. rewrite app_nil_r. reflexivity.
  - inversion Hn as [|? ? Ha Hn']; subst.
    destruct (step_fifo t s a Hal Ha) as [Hal1 E1].
    cbn [run emitted popped_from]. destruct (step s a) as [s1 o] eqn:Es. cbn [fst] in *.
    destruct (IH s1 Hal1 Hn') as [Hal2 E2].
    destruct (run s1 h) as [s2 os]. cbn [fst] in *.
    split; [exact Hal2|].
    rewrite !ctl_app. rewrite app_assoc, E1, <- app_assoc, E2, app_assoc. reflexivity.
Qed.

(* a thread right after it was spawned *)
Lemma spawned_alive s t prefix suffix :
  amem t (s_threads s) = false -> in_drain (s_pc s) = false ->
  alive t (fst (step s (ASpawn t prefix suffix))) /\ flight_of t (fst (step s (ASpawn t prefix suffix))) = [].
Proof.
  intros Hm Hd. unfold step. cbv beta iota zeta.
  change (s_threads (s_tick s)) with (s_threads s). change (s_pc (s_tick s)) with (s_pc s).
  rewrite Hm, Hd. cbn [orb fst]. apply amem_false_lookup in Hm.
  unfold alive, flight_of, get_thread. cbn [s_threads s_set_collector s_set_threads].
  change (s_threads (s_tick s)) with (s_threads s). rewrite (alookup_snoc_same _ _ _ Hm).
  split; [eexists; split; [reflexivity|simpl; split; [reflexivity|constructor]]|reflexivity].
Qed.
