(* C04, the call itself: cancel() yields exactly one forced DropCollect for a root span and
   nothing at all for any other span; only roots carry a collect id. *)
From Coq Require Import List NArith Bool.
From FT Require Import Model.Base Model.Local Model.Records Model.Spsc Model.Collector Model.System.
Import ListNotations.
Open Scope N_scope.

Theorem cancel_spec s th e h :
  exec_call s th e (KCancel h) =
  match get_span s h with
  | None => CBad 2
  | Some None => COk s th e [] RUnit
  | Some (Some sp) => COk s th e (match sp_cid sp with Some c => [(true, CDrop c)] | None => [] end) RUnit
  end.
Proof. reflexivity. Qed.

(* no-op span, or a span that is not a root: no command, no state change *)
Theorem cancel_non_root_changes_nothing s th e h :
  (get_span s h = Some None \/ exists sp, get_span s h = Some (Some sp) /\ sp_cid sp = None) ->
  exec_call s th e (KCancel h) = COk s th e [] RUnit.
Proof.
  rewrite cancel_spec. intros [H|(sp & H & Hc)]; rewrite H; [reflexivity|]. rewrite Hc. reflexivity.
Qed.

(* a root: exactly one command, DropCollect of its own collect id, sent with force_send (never
   dropped at a full queue: the channel theorems of C09 apply to forced messages) *)
Theorem cancel_root_is_one_forced_drop s th e h sp c :
  get_span s h = Some (Some sp) -> sp_cid sp = Some c ->
  exec_call s th e (KCancel h) = COk s th e [(true, CDrop c)] RUnit.
Proof. intros H Hc. rewrite cancel_spec, H, Hc. reflexivity. Qed.

(* spans created from parents (explicit, several, local) never carry a collect id: cancel()
   on them is the previous theorem *)
Theorem children_have_no_collect_id name tk e : sp_cid (fst (new_span name tk None e)) = None.
Proof. reflexivity. Qed.

Theorem child_calls_use_no_collect_id s th e c s' th' e' out r h sp :
  (exists name p, c = KChild h name p) \/ (exists name ps, c = KChildMany h name ps) \/ (exists name, c = KChildLocal h name) ->
  exec_call s th e c = COk s' th' e' out r ->
  alookup h (s_spans s') = Some (Some sp) -> sp_cid sp = None.
Proof.
  intros Hc Ex Hl.
  destruct Hc as [(name & p & ->)|[(name & ps & ->)|(name & ->)]]; cbv beta iota zeta delta [exec_call] in Ex.
  - destruct (amem h (s_spans s)); [discriminate|].
    unfold get_span in Ex. destruct (alookup p (s_spans s)) as [[psp|]|]; try discriminate.
    + destruct (issue_token psp) as [|it tk]; inversion Ex; subst; simpl in Hl; rewrite N.eqb_refl in Hl; inversion Hl; reflexivity.
    + inversion Ex; subst; simpl in Hl; rewrite N.eqb_refl in Hl; discriminate.
  - destruct (amem h (s_spans s)); [discriminate|].
    destruct (negb (forallb (fun p => amem p (s_spans s)) ps)); [discriminate|].
    destruct (flat_map _ ps) as [|it tk]; inversion Ex; subst; simpl in Hl; rewrite N.eqb_refl in Hl; inversion Hl; reflexivity.
  - destruct (amem h (s_spans s)); [discriminate|].
    destruct (s_cur_token (th_stack th)) as [tk|]; inversion Ex; subst; simpl in Hl; rewrite N.eqb_refl in Hl; inversion Hl; reflexivity.
Qed.
