(* C19, Datadog: the whole request body reads back to the spans it was made from.
   rd_dd_body (enc_dd_body spans) = Some spans for every list of spans whose strings are
   shorter than 2^32 bytes and whose integers fit 64 bits (what the Rust types guarantee). *)
From Coq Require Import List Arith NArith Bool Lia.
From FT Require Import Model.Jaeger Model.Reporters Proofs.ReportersProofs.
Import ListNotations.
Open Scope N_scope.

Definition two32 : N := 4294967296.

Lemma beqb_refl a : beqb a a = true.
Proof. induction a as [|x a IH]; simpl; auto. rewrite N.eqb_refl, IH. reflexivity. Qed.

Ltac closed_tests :=
  repeat match goal with
         | |- context [N.ltb ?a ?b] => let c := eval vm_compute in (N.ltb a b) in change (N.ltb a b) with c
         | |- context [N.leb ?a ?b] => let c := eval vm_compute in (N.leb a b) in change (N.leb a b) with c
         | |- context [N.eqb ?a ?b] => let c := eval vm_compute in (N.eqb a b) in change (N.eqb a b) with c
         end.

(* signed integers (as the 64 bits of the i64) of every size class, both signs *)
Theorem rd_sint_roundtrip v rest : v < two64j -> rd_int (mp_sint v ++ rest) = Some (v, rest).
Proof.
  intros Hv. unfold mp_sint.
  destruct (v <? two63) eqn:E0; [apply rd_uint_roundtrip; exact Hv|].
  apply N.ltb_ge in E0. unfold two63, two64j in *.
  set (m := 18446744073709551616 - v).
  assert (Hm : 0 < m /\ m <= 9223372036854775808) by (unfold m; lia).
  assert (Hvm : v = 18446744073709551616 - m) by (unfold m; lia).
  destruct (m <=? 32) eqn:E1.
  - apply N.leb_le in E1. cbn [app rd_int].
    replace (256 - m <? 128) with false by (symmetry; apply N.ltb_ge; lia).
    replace (224 <=? 256 - m) with true by (symmetry; apply N.leb_le; lia).
    f_equal. f_equal. unfold two64j. lia.
  - apply N.leb_gt in E1.
    destruct (m <=? 128) eqn:E2; [|destruct (m <=? 32768) eqn:E3; [|destruct (m <=? 2147483648) eqn:E4]];
      cbn [app]; unfold rd_int; closed_tests; cbv iota;
      rewrite take_be, be_roundtrip; unfold two64j;
      try (apply N.leb_le in E2); try (apply N.leb_le in E3); try (apply N.leb_le in E4);
      try (apply N.leb_gt in E2); try (apply N.leb_gt in E3); try (apply N.leb_gt in E4);
      try (f_equal; f_equal; lia); try (simpl; lia).
Qed.

Lemma rd_hdr_roundtrip fix16 m16 m32 n rest :
  n < two32 -> fix16 + 16 <= m16 -> m16 <> m32 -> fix16 + 16 <= m32 ->
  rd_hdr fix16 m16 m32
    ((if n <? 16 then [fix16 + n] else if n <? 65536 then m16 :: be_bytes 2 n else m32 :: be_bytes 4 n) ++ rest)
  = Some (n, rest).
Proof.
  unfold two32. intros Hn H16 Hne H32. unfold rd_hdr.
  destruct (n <? 16) eqn:E1.
  - apply N.ltb_lt in E1. cbn [app].
    replace (fix16 <=? fix16 + n) with true by (symmetry; apply N.leb_le; lia).
    replace (fix16 + n <? fix16 + 16) with true by (symmetry; apply N.ltb_lt; lia).
    cbn [andb]. f_equal. f_equal. lia.
  - apply N.ltb_ge in E1. destruct (n <? 65536) eqn:E2; cbn [app].
    + replace ((fix16 <=? m16) && (m16 <? fix16 + 16)) with false
        by (symmetry; apply andb_false_iff; right; apply N.ltb_ge; lia).
      rewrite N.eqb_refl, take_be, be_roundtrip; auto. apply N.ltb_lt in E2. exact E2.
    + replace ((fix16 <=? m32) && (m32 <? fix16 + 16)) with false
        by (symmetry; apply andb_false_iff; right; apply N.ltb_ge; lia).
      replace (m32 =? m16) with false by (symmetry; apply N.eqb_neq; congruence).
      rewrite N.eqb_refl, take_be, be_roundtrip; auto.
Qed.

Lemma rd_array_hdr_roundtrip n rest :
  n < two32 -> rd_array_hdr (mp_array_hdr n ++ rest) = Some (n, rest).
Proof. intros H. apply (rd_hdr_roundtrip 144 220 221); auto; try lia; discriminate. Qed.

Lemma rd_map_hdr_roundtrip n rest :
  n < two32 -> rd_map_hdr (mp_map_hdr n ++ rest) = Some (n, rest).
Proof. intros H. apply (rd_hdr_roundtrip 128 222 223); auto; try lia; discriminate. Qed.

Definition str_ok (s : bytes) : Prop := N.of_nat (length s) < two32.

Lemma rd_key_roundtrip k rest : str_ok k -> rd_key k (mp_str k ++ rest) = Some rest.
Proof. intros H. unfold rd_key. rewrite rd_str_roundtrip by exact H. rewrite beqb_refl. reflexivity. Qed.

Lemma rd_kv_str_roundtrip k s rest :
  str_ok k -> str_ok s -> rd_kv_str k (mp_str k ++ mp_str s ++ rest) = Some (s, rest).
Proof.
  intros Hk Hs. unfold rd_kv_str. rewrite rd_key_roundtrip by exact Hk. cbn [obind].
  apply rd_str_roundtrip. exact Hs.
Qed.

Lemma rd_kv_sint_roundtrip k v rest :
  str_ok k -> v < two64j -> rd_kv_int k (mp_str k ++ mp_sint v ++ rest) = Some (v, rest).
Proof.
  intros Hk Hv. unfold rd_kv_int. rewrite rd_key_roundtrip by exact Hk. cbn [obind].
  apply rd_sint_roundtrip. exact Hv.
Qed.

Lemma rd_kv_uint_roundtrip k v rest :
  str_ok k -> v < two64j -> rd_kv_int k (mp_str k ++ mp_uint v ++ rest) = Some (v, rest).
Proof.
  intros Hk Hv. unfold rd_kv_int. rewrite rd_key_roundtrip by exact Hk. cbn [obind].
  apply rd_uint_roundtrip. exact Hv.
Qed.

Definition pair_ok (kv : bytes * bytes) : Prop := str_ok (fst kv) /\ str_ok (snd kv).

Lemma rd_pairs_roundtrip m rest :
  Forall pair_ok m ->
  rd_pairs (length m) (flat_map (fun kv => mp_str (fst kv) ++ mp_str (snd kv)) m ++ rest) = Some (m, rest).
Proof.
  induction m as [|[k v] m IH]; intros Hm; [reflexivity|].
  inversion Hm as [|? ? [Hk Hv] Hm']; subst. cbn [length flat_map rd_pairs fst snd].
  rewrite <- !app_assoc. rewrite rd_str_roundtrip by exact Hk. rewrite rd_str_roundtrip by exact Hv.
  rewrite IH by exact Hm'. reflexivity.
Qed.

Definition dd_ok (s : ddspan) : Prop :=
  str_ok (dd_name s) /\ str_ok (dd_service s) /\ str_ok (dd_type s) /\ str_ok (dd_resource s) /\
  dd_start s < two64j /\ dd_duration s < two64j /\
  dd_span_id s < two64j /\ dd_trace_id s < two64j /\ dd_parent_id s < two64j /\
  match dd_meta s with
  | Some m => N.of_nat (length m) < two32 /\ Forall pair_ok m
  | None => True
  end.

Lemma key_ok_name : str_ok k_name. Proof. unfold str_ok, two32; simpl; lia. Qed.
Lemma key_ok_service : str_ok k_service. Proof. unfold str_ok, two32; simpl; lia. Qed.
Lemma key_ok_type : str_ok k_type. Proof. unfold str_ok, two32; simpl; lia. Qed.
Lemma key_ok_resource : str_ok k_resource. Proof. unfold str_ok, two32; simpl; lia. Qed.
Lemma key_ok_start : str_ok k_start. Proof. unfold str_ok, two32; simpl; lia. Qed.
Lemma key_ok_duration : str_ok k_duration. Proof. unfold str_ok, two32; simpl; lia. Qed.
Lemma key_ok_meta : str_ok k_meta. Proof. unfold str_ok, two32; simpl; lia. Qed.
Lemma key_ok_error_code : str_ok k_error_code. Proof. unfold str_ok, two32; simpl; lia. Qed.
Lemma key_ok_span_id : str_ok k_span_id. Proof. unfold str_ok, two32; simpl; lia. Qed.
Lemma key_ok_trace_id : str_ok k_trace_id. Proof. unfold str_ok, two32; simpl; lia. Qed.
Lemma key_ok_parent_id : str_ok k_parent_id. Proof. unfold str_ok, two32; simpl; lia. Qed.

Lemma rd_meta_some m rest :
  N.of_nat (length m) < two32 -> Forall pair_ok m ->
  rd_meta 11 (mp_str k_meta ++ mp_map_hdr (N.of_nat (length m)) ++
              flat_map (fun kv => mp_str (fst kv) ++ mp_str (snd kv)) m ++ rest) = Some (Some m, rest).
Proof.
  intros Hl Hm. unfold rd_meta. rewrite N.eqb_refl.
  rewrite rd_key_roundtrip by exact key_ok_meta.
  rewrite rd_map_hdr_roundtrip by exact Hl. rewrite Nnat.Nat2N.id.
  rewrite rd_pairs_roundtrip by exact Hm. reflexivity.
Qed.

Theorem rd_ddspan_roundtrip s rest : dd_ok s -> rd_ddspan (enc_ddspan s ++ rest) = Some (s, rest).
Proof.
  destruct s as [name service ty resource start dur meta sid tid pid].
  unfold dd_ok; cbn [dd_name dd_service dd_type dd_resource dd_start dd_duration dd_meta dd_span_id dd_trace_id dd_parent_id].
  intros (Hn & Hs & Ht & Hr & Hst & Hd & Hsi & Hti & Hpi & Hm).
  unfold rd_ddspan, enc_ddspan;
    cbn [dd_name dd_service dd_type dd_resource dd_start dd_duration dd_meta dd_span_id dd_trace_id dd_parent_id].
  rewrite <- !app_assoc.
  rewrite rd_map_hdr_roundtrip by (unfold two32; destruct meta; lia).
  rewrite (rd_kv_str_roundtrip k_name) by (exact key_ok_name || assumption).
  rewrite (rd_kv_str_roundtrip k_service) by (exact key_ok_service || assumption).
  rewrite (rd_kv_str_roundtrip k_type) by (exact key_ok_type || assumption).
  rewrite (rd_kv_str_roundtrip k_resource) by (exact key_ok_resource || assumption).
  rewrite (rd_kv_sint_roundtrip k_start) by (exact key_ok_start || assumption).
  rewrite (rd_kv_sint_roundtrip k_duration) by (exact key_ok_duration || assumption).
  assert (Hz : 0 < two64j) by (unfold two64j; lia).
  destruct meta as [m|].
  - destruct Hm as [Hl Hm]. rewrite <- !app_assoc.
    rewrite rd_meta_some by assumption.
    rewrite (rd_kv_sint_roundtrip k_error_code) by (exact key_ok_error_code || assumption).
    cbn [N.eqb negb].
    rewrite (rd_kv_uint_roundtrip k_span_id) by (exact key_ok_span_id || assumption).
    rewrite (rd_kv_uint_roundtrip k_trace_id) by (exact key_ok_trace_id || assumption).
    replace (mp_str k_parent_id ++ mp_uint pid ++ rest) with (mp_str k_parent_id ++ mp_uint pid ++ rest) by reflexivity.
    rewrite (rd_kv_uint_roundtrip k_parent_id) by (exact key_ok_parent_id || assumption).
    reflexivity.
  - cbn [app]. unfold rd_meta at 1. cbn [N.eqb Pos.eqb].
    rewrite (rd_kv_sint_roundtrip k_error_code) by (exact key_ok_error_code || assumption).
    cbn [N.eqb negb].
    rewrite (rd_kv_uint_roundtrip k_span_id) by (exact key_ok_span_id || assumption).
    rewrite (rd_kv_uint_roundtrip k_trace_id) by (exact key_ok_trace_id || assumption).
    rewrite (rd_kv_uint_roundtrip k_parent_id) by (exact key_ok_parent_id || assumption).
    reflexivity.
Qed.

Lemma rd_ddspans_roundtrip spans rest :
  Forall dd_ok spans -> rd_ddspans (length spans) (flat_map enc_ddspan spans ++ rest) = Some (spans, rest).
Proof.
  induction spans as [|s spans IH]; intros H; [reflexivity|].
  inversion H as [|? ? Hs Hss]; subst. cbn [length flat_map rd_ddspans].
  rewrite <- app_assoc, rd_ddspan_roundtrip by exact Hs. rewrite IH by exact Hss. reflexivity.
Qed.

(* the whole body *)
Theorem rd_dd_body_roundtrip spans :
  N.of_nat (length spans) < two32 -> Forall dd_ok spans ->
  rd_dd_body (enc_dd_body spans) = Some spans.
Proof.
  intros Hl Hs. unfold rd_dd_body, enc_dd_body. cbn [app].
  rewrite rd_array_hdr_roundtrip by exact Hl. rewrite Nnat.Nat2N.id.
  rewrite <- (app_nil_r (flat_map enc_ddspan spans)).
  rewrite rd_ddspans_roundtrip by exact Hs. reflexivity.
Qed.

(* hence the encoding is injective on well-formed span lists: two different batches never
   produce the same body *)
Corollary enc_dd_body_injective a b :
  N.of_nat (length a) < two32 -> Forall dd_ok a ->
  N.of_nat (length b) < two32 -> Forall dd_ok b ->
  enc_dd_body a = enc_dd_body b -> a = b.
Proof.
  intros Ha1 Ha2 Hb1 Hb2 E.
  pose proof (rd_dd_body_roundtrip a Ha1 Ha2) as Ra.
  pose proof (rd_dd_body_roundtrip b Hb1 Hb2) as Rb.
  rewrite E in Ra. congruence.
Qed.

(* what convert produces is well-formed whenever the record's strings are short and its
   integers fit: the theorem above applies to every body the reporter builds *)
Lemma dd_convert_ok service resource ty r m :
  str_ok service -> str_ok resource -> str_ok ty -> str_ok (jr_name r) ->
  jr_begin r < two64j -> jr_dur r < two64j -> jr_id r < two64j -> jr_parent r < two64j ->
  N.of_nat (length m) < two32 -> Forall pair_ok m ->
  dd_ok (dd_convert service resource ty r m).
Proof.
  intros. unfold dd_ok, dd_convert; simpl. repeat split; auto.
  - apply N.mod_lt. discriminate.
  - destruct (jr_props r); auto.
Qed.
