(* C19, Datadog and OpenTelemetry parts: the msgpack primitives the Datadog body is made of
   read back to what was written (integers of every size class, strings of every size
   class), whatever follows them; the conversions keep every field. *)
From Coq Require Import List Arith NArith Bool Lia.
From FT Require Import Model.Jaeger Model.Reporters.
Import ListNotations.
Open Scope N_scope.

Lemma be_val_app l b : be_val (l ++ [b]) = be_val l * 256 + b.
Proof. unfold be_val. rewrite fold_left_app. reflexivity. Qed.

Lemma be_bytes_length k n : length (be_bytes k n) = k.
Proof. revert n; induction k as [|k IH]; intros n; simpl; auto. rewrite app_length, IH. simpl. lia. Qed.

Lemma be_roundtrip k : forall n, n < 256 ^ N.of_nat k -> be_val (be_bytes k n) = n.
Proof.
  induction k as [|k IH]; intros n Hn.
  - simpl in *. assert (n = 0) by lia. subst. reflexivity.
  - cbn [be_bytes]. rewrite be_val_app, IH.
    + pose proof (N.div_mod n 256 ltac:(discriminate)) as Hd.
      generalize dependent (n mod 256); generalize dependent (n / 256); intros; lia.
    + rewrite Nnat.Nat2N.inj_succ, N.pow_succ_r' in Hn.
      apply N.div_lt_upper_bound; [discriminate|exact Hn].
Qed.

Lemma take_n_app (a rest : bytes) : take_n (length a) (a ++ rest) = Some (a, rest).
Proof. induction a as [|x a IH]; simpl; auto. rewrite IH. reflexivity. Qed.

Lemma take_be k n rest : take_n k (be_bytes k n ++ rest) = Some (be_bytes k n, rest).
Proof. rewrite <- (be_bytes_length k n) at 1. apply take_n_app. Qed.

(* unsigned integers of every size class *)
Theorem rd_uint_roundtrip n rest : n < two64j -> rd_int (mp_uint n ++ rest) = Some (n, rest).
Proof.
  unfold two64j, mp_uint. intros Hn.
  destruct (n <? 128) eqn:E1.
  - simpl. rewrite E1. reflexivity.
  - apply N.ltb_ge in E1.
    destruct (n <? 256) eqn:E2; [|destruct (n <? 65536) eqn:E3; [|destruct (n <? 4294967296) eqn:E4]];
      cbn [app rd_int N.ltb N.leb N.eqb]; simpl (_ <? 128); simpl (224 <=? _); simpl (_ =? _);
      rewrite take_be, be_roundtrip; auto;
      try (apply N.ltb_lt in E2; exact E2); try (apply N.ltb_lt in E3; exact E3);
      try (apply N.ltb_lt in E4; exact E4); try exact Hn.
Qed.

(* strings of every size class *)
Theorem rd_str_roundtrip s rest :
  N.of_nat (length s) < 4294967296 -> rd_str (mp_str s ++ rest) = Some (s, rest).
Proof.
  unfold mp_str. intros Hl. set (n := N.of_nat (length s)) in *.
  assert (Hn : N.to_nat n = length s) by (unfold n; apply Nnat.Nat2N.id).
  destruct (n <? 32) eqn:E1.
  - apply N.ltb_lt in E1. cbn [app rd_str].
    replace (160 <=? 160 + n) with true by (symmetry; apply N.leb_le; lia).
    replace (160 + n <? 192) with true by (symmetry; apply N.ltb_lt; lia).
    cbn [andb]. replace (160 + n - 160) with n by lia. rewrite Hn. apply take_n_app.
  - apply N.ltb_ge in E1.
    destruct (n <? 256) eqn:E2; [|destruct (n <? 65536) eqn:E3];
      cbn [app rd_str N.leb N.ltb N.eqb andb]; simpl (_ <=? _); simpl (_ <? 192); simpl (_ =? _); cbn [andb];
      rewrite <- app_assoc, take_be, be_roundtrip; try (rewrite Hn; apply take_n_app).
    + apply N.ltb_lt in E2. exact E2.
    + apply N.ltb_lt in E3. exact E3.
    + exact Hl.
Qed.

(* DatadogReporter::convert keeps name, ids (the low 64 bits of the trace id), times and the
   property set; the service / resource / type are the reporter's *)
Theorem dd_convert_faithful service resource ty r m :
  let s := dd_convert service resource ty r m in
  dd_name s = jr_name r /\ dd_service s = service /\ dd_resource s = resource /\ dd_type s = ty /\
  dd_start s = jr_begin r /\ dd_duration s = jr_dur r /\
  dd_span_id s = jr_id r /\ dd_parent_id s = jr_parent r /\ dd_trace_id s = jr_trace r mod two64j /\
  (jr_props r = [] -> dd_meta s = None) /\ (jr_props r <> [] -> dd_meta s = Some m).
Proof.
  simpl. repeat split; auto; unfold dd_convert; simpl; destruct (jr_props r); auto; congruence.
Qed.

(* the property map: one entry per key, the value of the LAST property with that key *)
Lemma last_wins_in k v (m : list (bytes * bytes)) :
  In (k, v) (last_wins m) -> In (k, v) m.
Proof.
  induction m as [|[k' v'] m IH]; simpl; auto.
  destruct (existsb (fun kv => beqb k' (fst kv)) m); simpl; intros H; auto.
  destruct H as [H|H]; auto.
Qed.

(* OpenTelemetryReporter::convert is the identity on every listed field, end = start + duration *)
Theorem otel_convert_faithful r :
  let s := otel_convert r in
  os_trace s = jr_trace r /\ os_span s = jr_id r /\ os_parent s = jr_parent r /\ os_name s = jr_name r /\
  os_start s = jr_begin r /\ os_end s = jr_begin r + jr_dur r /\ os_attrs s = jr_props r /\
  map (fun e => (oe_name e, oe_time e, oe_attrs e)) (os_events s) =
  map (fun e => (je_name e, je_ts e, je_props e)) (jr_events r).
Proof. simpl. repeat split; auto. rewrite map_map. reflexivity. Qed.
