(* C03, the "hold" half over the scheduler.  Along any history of thread calls, pushes, exits,
   spawns and collector drain steps (no process step, no new reporter) the commits in the
   collector's batch are exactly those the batch held before followed by the CommitCollect
   commands the collector POPPED from command channels along the way, in order.  Hence, in the
   cancelable configuration, a record of collect id c is in a cycle's report only if the cycle
   popped the commit of c (the root's finish) from some thread's channel during its own drain:
   no span of a trace reaches the reporter in a cycle that has not received the root's commit,
   however pushes of other threads, exits and the drain interleave; and a cycle that pops no
   commit at all reports nothing. *)
From Coq Require Import List Arith NArith Bool Lia.
From FT Require Import Model.Base Model.Local Model.Records Model.Spsc Model.Collector Model.System.
From FT Require Import Proofs.CollectorProofs Proofs.DeliveryProofs Proofs.SystemDeliveryProofs Proofs.DrainProofs Proofs.EndToEndProofs
     Proofs.HistoryProofs Proofs.WholeProofs.
Import ListNotations.
Open Scope N_scope.

Definition commit_of (oc : option command) : list N :=
  match oc with Some (CCommit c) => [c] | _ => [] end.

(* the collect ids of all CommitCollect commands popped along a history *)
Fixpoint popped_commits (s : sys) (h : list action) : list N :=
  match h with
  | [] => []
  | a :: h' => commit_of (popped_cmd s a) ++ popped_commits (fst (step s a)) h'
  end.

Lemma b_commit_add b c : b_commit (batch_add b c) = b_commit b ++ commit_of (Some c).
Proof. destruct c; simpl; rewrite ?app_nil_r; reflexivity. Qed.

(* one step other than process / install *)
Lemma step_commits s a :
  a <> ACProcess -> (forall cb, a <> AInstall cb) ->
  b_commit (s_batch (fst (step s a))) = b_commit (s_batch s) ++ commit_of (popped_cmd s a) /\
  s_cancelable (fst (step s a)) = s_cancelable s.
Proof.
  intros Hnp Hni.
  assert (Same : forall s', s_batch s' = s_batch s -> s_cancelable s' = s_cancelable s ->
            b_commit (s_batch s') = b_commit (s_batch s) ++ commit_of None /\
            s_cancelable s' = s_cancelable s).
  { intros s' E1 E2. rewrite E1, E2. cbn [commit_of]. rewrite app_nil_r. split; reflexivity. }
  unfold popped_cmd. unfold step. destruct a; cbv beta iota zeta.
  - exfalso. apply (Hni cancelable). reflexivity.
  - destruct (amem t (s_threads (s_tick s)) || in_drain (s_pc (s_tick s))); cbn [fst snd]; apply Same; reflexivity.
  - destruct (get_thread (s_tick s) t) as [th|] eqn:Eg; [|cbn [fst snd]; apply Same; reflexivity].
    destruct (th_outbox th); [|cbn [fst snd]; apply Same; reflexivity].
    destruct (ch_dropping (th_chan th)); [cbn [fst snd]; apply Same; reflexivity|].
    destruct (exec_call (s_tick s) th _ c) as [s1 th1 e1 out r|code|site] eqn:Ex; cbn [fst snd]; try (apply Same; reflexivity).
    destruct (exec_call_collector _ _ _ _ _ _ _ _ _ Ex) as (_ & A2 & A3). apply Same; simpl; assumption.
  - destruct (get_thread (s_tick s) t) as [th|] eqn:Eg; [|cbn [fst snd]; apply Same; reflexivity].
    destruct (ch_dropping (th_chan th)).
    + destruct (ch_abandoned (th_chan th)); cbn [fst snd]; apply Same; reflexivity.
    + destruct (th_outbox th) as [|[f cmd] rest]; [cbn [fst snd]; apply Same; reflexivity|].
      destruct (push_step (th_chan th) f cmd) as [ch' fin]. cbn [fst snd]. apply Same; reflexivity.
  - destruct (get_thread (s_tick s) t) as [th|] eqn:Eg; [|cbn [fst snd]; apply Same; reflexivity].
    destruct (th_outbox th), (th_scoped th), (th_frames th); try (cbn [fst snd]; apply Same; reflexivity).
    destruct (ch_dropping (th_chan th)); cbn [fst snd]; apply Same; reflexivity.
  - destruct (s_pc (s_tick s)) eqn:Epc; try (cbn [fst snd]; apply Same; reflexivity).
    destruct (s_installed (s_tick s)); try (cbn [fst snd]; apply Same; reflexivity).
    destruct (s_registry (s_tick s)); cbn [fst snd]; apply Same; reflexivity.
  - (* pop *)
    change (s_pc (s_tick s)) with (s_pc s). change (get_thread (s_tick s)) with (get_thread s).
    destruct (s_pc s) eqn:Epc; try (cbn [fst snd]; apply Same; reflexivity).
    destruct (get_thread s cur) as [th|] eqn:Eg; [|cbn [fst snd]; apply Same; reflexivity].
    destruct (pop_step (th_chan th)) as [[c0|] ch'] eqn:Ep; cbn [fst snd].
    + cbn [s_batch s_set_collector s_cancelable]. change (s_batch (s_tick s)) with (s_batch s).
      rewrite b_commit_add. split; reflexivity.
    + apply Same; reflexivity.
  - (* check *)
    change (s_pc (s_tick s)) with (s_pc s). change (get_thread (s_tick s)) with (get_thread s).
    destruct (s_pc s) eqn:Epc; try (cbn [fst snd]; apply Same; reflexivity).
    destruct (get_thread s cur) as [th|] eqn:Eg; [|cbn [fst snd]; apply Same; reflexivity].
    destruct (ch_abandoned (th_chan th)).
    + destruct (pop_step (th_chan th)) as [[c0|] ch'] eqn:Ep; cbn [fst snd].
      * cbn [s_batch s_set_collector s_cancelable]. change (s_batch (s_tick s)) with (s_batch s).
        rewrite b_commit_add. split; reflexivity.
      * destruct (advance todo kept) as [pc [reg|]]; cbn [fst snd]; apply Same; reflexivity.
    + destruct (advance todo (kept ++ [cur])) as [pc [reg|]]; cbn [fst snd]; apply Same; reflexivity.
  - exfalso. apply Hnp. reflexivity.
Qed.

(* any history without a process step or a new reporter *)
Theorem run_commits h : forall s,
  no_process_no_install h ->
  b_commit (s_batch (fst (run s h))) = b_commit (s_batch s) ++ popped_commits s h /\
  s_cancelable (fst (run s h)) = s_cancelable s.
Proof.
  induction h as [|a h IH]; intros s Hn.
  - cbn [run popped_commits fst]. rewrite app_nil_r. split; reflexivity.
  - inversion Hn as [|? ? [Ha1 Ha2] Hn']; subst.
    destruct (step_commits s a Ha1 Ha2) as [E1 E2].
    cbn [run popped_commits]. destruct (step s a) as [s1 o] eqn:Es. cbn [fst snd] in *.
    destruct (IH s1 Hn') as [I1 I2].
    destruct (run s1 h) as [s2 os]. cbn [fst snd] in *.
    rewrite I1, E1, I2, E2, app_assoc. split; reflexivity.
Qed.

(* the process step of a cycle: a reported record of c needs the commit of c in the batch *)
Theorem step_reports_only_committed s recs st n r :
  s_cancelable s = true -> snd (step s ACProcess) = OReport recs st n -> In r recs ->
  exists c, In c (b_commit (s_batch s)) /\
            In (c, r) (snd (process_owned (anchor_conv (s_nstep (s_tick s))) true (s_active s) (s_batch s))).
Proof.
  intros Hcb. unfold step. cbv beta iota zeta. change (s_pc (s_tick s)) with (s_pc s).
  destruct (s_pc s) eqn:Epc; cbn [snd]; try discriminate.
  change (s_cancelable (s_tick s)) with (s_cancelable s). rewrite Hcb.
  change (s_active (s_tick s)) with (s_active s). change (s_batch (s_tick s)) with (s_batch s).
  unfold process.
  destruct (process_owned (anchor_conv (s_nstep (s_tick s))) true (s_active s) (s_batch s)) as [am owned] eqn:Epo.
  cbn [snd]. intros Ho Hr. injection Ho as Er _ _. subst recs.
  apply in_map_iff in Hr. destruct Hr as [[c r'] [E Hin]]. cbn [snd] in E. subst r'.
  exists c. split; [|exact Hin].
  apply (cancelable_reports_only_committed (anchor_conv (s_nstep (s_tick s))) (s_active s) (s_batch s) c r).
  rewrite Epo. exact Hin.
Qed.

(* over the scheduler: from a state whose batch holds no commit (an idle collector: the batch
   is empty), through any history of threads and drain steps, a record in the report of the
   process step belongs to a collect id whose commit was popped along that history *)
Theorem reported_only_after_commit_popped s h recs st n r :
  no_process_no_install h -> s_cancelable s = true -> b_commit (s_batch s) = [] ->
  let s1 := fst (run s h) in
  snd (step s1 ACProcess) = OReport recs st n -> In r recs ->
  exists c, In c (popped_commits s h) /\
            In (c, r) (snd (process_owned (anchor_conv (s_nstep (s_tick s1))) true (s_active s1) (s_batch s1))).
Proof.
  intros Hn Hcb Hb s1 Ho Hr.
  destruct (run_commits h s Hn) as [E1 E2]. fold s1 in E1, E2.
  assert (Hcb1 : s_cancelable s1 = true) by (rewrite E2; exact Hcb).
  destruct (step_reports_only_committed s1 recs st n r Hcb1 Ho Hr) as [c [Hc Hin]].
  exists c. split; [|exact Hin]. rewrite E1, Hb in Hc. exact Hc.
Qed.

(* a cycle that pops no commit reports nothing *)
Theorem no_commit_popped_nothing_reported s h recs st n :
  no_process_no_install h -> s_cancelable s = true -> b_commit (s_batch s) = [] ->
  popped_commits s h = [] ->
  snd (step (fst (run s h)) ACProcess) = OReport recs st n -> recs = [].
Proof.
  intros Hn Hcb Hb Hp Ho.
  destruct recs as [|r recs]; [reflexivity|].
  destruct (reported_only_after_commit_popped s h (r :: recs) st n r Hn Hcb Hb Ho (or_introl eq_refl)) as [c [Hc _]].
  rewrite Hp in Hc. destruct Hc.
Qed.

(* reachable idle states have an empty batch, so the premise above is met at every cycle begin *)
Theorem idle_batch_has_no_commit dbg ringcap stackcap qcap h0 :
  let s := fst (run (sys_init dbg ringcap stackcap qcap) h0) in
  s_pc s = PIdle -> b_commit (s_batch s) = [].
Proof.
  intros s Hpc.
  pose proof (run_tracked h0 (sys_init dbg ringcap stackcap qcap) (tracked_init _ _ _ _)) as Ht.
  fold s in Ht. destruct Ht as (_ & B & _). rewrite (B Hpc). reflexivity.
Qed.

(* ================================================================ the batch is what was popped *)
(* the same for the whole batch: through any history without a process step or a new reporter,
   the collector's batch is the batch it held before with the commands POPPED along the
   history added in pop order -- nothing enters a batch except by a pop from a command channel,
   nothing popped is left out, nothing is reordered *)
Definition cmd_of (oc : option command) : list command :=
  match oc with Some c => [c] | None => [] end.

Fixpoint popped_cmds (s : sys) (h : list action) : list command :=
  match h with
  | [] => []
  | a :: h' => cmd_of (popped_cmd s a) ++ popped_cmds (fst (step s a)) h'
  end.

Lemma step_batch s a :
  a <> ACProcess -> (forall cb, a <> AInstall cb) ->
  s_batch (fst (step s a)) = fold_left batch_add (cmd_of (popped_cmd s a)) (s_batch s).
Proof.
  intros Hnp Hni.
  assert (Same : forall s', s_batch s' = s_batch s ->
            s_batch s' = fold_left batch_add (cmd_of None) (s_batch s)).
  { intros s' E1. rewrite E1. reflexivity. }
  unfold popped_cmd. unfold step. destruct a; cbv beta iota zeta.
  - exfalso. apply (Hni cancelable). reflexivity.
  - destruct (amem t (s_threads (s_tick s)) || in_drain (s_pc (s_tick s))); cbn [fst snd]; apply Same; reflexivity.
  - destruct (get_thread (s_tick s) t) as [th|] eqn:Eg; [|cbn [fst snd]; apply Same; reflexivity].
    destruct (th_outbox th); [|cbn [fst snd]; apply Same; reflexivity].
    destruct (ch_dropping (th_chan th)); [cbn [fst snd]; apply Same; reflexivity|].
    destruct (exec_call (s_tick s) th _ c) as [s1 th1 e1 out r|code|site] eqn:Ex; cbn [fst snd]; try (apply Same; reflexivity).
    destruct (exec_call_collector _ _ _ _ _ _ _ _ _ Ex) as (_ & A2 & A3). apply Same; simpl; assumption.
  - destruct (get_thread (s_tick s) t) as [th|] eqn:Eg; [|cbn [fst snd]; apply Same; reflexivity].
    destruct (ch_dropping (th_chan th)).
    + destruct (ch_abandoned (th_chan th)); cbn [fst snd]; apply Same; reflexivity.
    + destruct (th_outbox th) as [|[f cmd] rest]; [cbn [fst snd]; apply Same; reflexivity|].
      destruct (push_step (th_chan th) f cmd) as [ch' fin]. cbn [fst snd]. apply Same; reflexivity.
  - destruct (get_thread (s_tick s) t) as [th|] eqn:Eg; [|cbn [fst snd]; apply Same; reflexivity].
    destruct (th_outbox th), (th_scoped th), (th_frames th); try (cbn [fst snd]; apply Same; reflexivity).
    destruct (ch_dropping (th_chan th)); cbn [fst snd]; apply Same; reflexivity.
  - destruct (s_pc (s_tick s)) eqn:Epc; try (cbn [fst snd]; apply Same; reflexivity).
    destruct (s_installed (s_tick s)); try (cbn [fst snd]; apply Same; reflexivity).
    destruct (s_registry (s_tick s)); cbn [fst snd]; apply Same; reflexivity.
  - (* pop *)
    change (s_pc (s_tick s)) with (s_pc s). change (get_thread (s_tick s)) with (get_thread s).
    destruct (s_pc s) eqn:Epc; try (cbn [fst snd]; apply Same; reflexivity).
    destruct (get_thread s cur) as [th|] eqn:Eg; [|cbn [fst snd]; apply Same; reflexivity].
    destruct (pop_step (th_chan th)) as [[c0|] ch'] eqn:Ep; cbn [fst snd].
    + cbn [s_batch s_set_collector cmd_of fold_left]. reflexivity.
    + apply Same; reflexivity.
  - (* check *)
    change (s_pc (s_tick s)) with (s_pc s). change (get_thread (s_tick s)) with (get_thread s).
    destruct (s_pc s) eqn:Epc; try (cbn [fst snd]; apply Same; reflexivity).
    destruct (get_thread s cur) as [th|] eqn:Eg; [|cbn [fst snd]; apply Same; reflexivity].
    destruct (ch_abandoned (th_chan th)).
    + destruct (pop_step (th_chan th)) as [[c0|] ch'] eqn:Ep; cbn [fst snd].
      * cbn [s_batch s_set_collector cmd_of fold_left]. reflexivity.
      * destruct (advance todo kept) as [pc [reg|]]; cbn [fst snd]; apply Same; reflexivity.
    + destruct (advance todo (kept ++ [cur])) as [pc [reg|]]; cbn [fst snd]; apply Same; reflexivity.
  - exfalso. apply Hnp. reflexivity.
Qed.

Theorem run_batch h : forall s,
  no_process_no_install h ->
  s_batch (fst (run s h)) = fold_left batch_add (popped_cmds s h) (s_batch s).
Proof.
  induction h as [|a h IH]; intros s Hn.
  - reflexivity.
  - inversion Hn as [|? ? [Ha1 Ha2] Hn']; subst.
    pose proof (step_batch s a Ha1 Ha2) as E1.
    cbn [run popped_cmds]. destruct (step s a) as [s1 o] eqn:Es. cbn [fst snd] in *.
    pose proof (IH s1 Hn') as I1.
    destruct (run s1 h) as [s2 os]. cbn [fst snd] in *.
    rewrite I1, E1, fold_left_app. reflexivity.
Qed.

(* a whole cycle from a reachable idle state: the batch handed to the process step is built
   from the empty batch by exactly the commands this cycle popped, in pop order *)
Theorem cycle_batch_is_the_popped_commands dbg ringcap stackcap qcap h0 h :
  let s := fst (run (sys_init dbg ringcap stackcap qcap) h0) in
  s_pc s = PIdle -> no_process_no_install h ->
  s_batch (fst (run s h)) = fold_left batch_add (popped_cmds s h) batch_empty.
Proof.
  intros s Hpc Hn.
  pose proof (run_tracked h0 (sys_init dbg ringcap stackcap qcap) (tracked_init _ _ _ _)) as Ht.
  fold s in Ht. destruct Ht as (_ & B & _). rewrite <- (B Hpc). apply run_batch. exact Hn.
Qed.
