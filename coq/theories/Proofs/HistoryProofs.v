(* C01 over whole histories, default configuration: the records of ALL reports of a history
   are, as a multiset, exactly the spans of the SubmitSpans commands the collector popped out
   of the rings and processed -- one record per span per token item, nothing twice, nothing
   else -- for every history of the system model (any threads, programs, schedules). *)
From Coq Require Import List Arith NArith Bool Lia Permutation.
From FT Require Import Model.Base Model.Local Model.Records Model.Spsc Model.Collector Model.System.
From FT Require Import Proofs.DeliveryProofs Proofs.SystemDeliveryProofs Proofs.DrainProofs Proofs.EndToEndProofs.
Import ListNotations.
Open Scope N_scope.

Definition cores_of (l : list (span_set * token)) : list (N * N * N) :=
  flat_map coll_cores (submitted_colls l).

Lemma cores_of_app a b : cores_of (a ++ b) = cores_of a ++ cores_of b.
Proof. unfold cores_of, submitted_colls. rewrite !flat_map_app. reflexivity. Qed.

(* the command a step pops out of a ring, if any *)
Definition popped_cmd (s : sys) (a : action) : option command :=
  match a with
  | ACPop =>
      match s_pc s with
      | PDrain _ _ cur => match get_thread s cur with
                          | Some th => fst (pop_step (th_chan th))
                          | None => None
                          end
      | _ => None
      end
  | ACCheck =>
      match s_pc s with
      | PEmpty _ _ cur => match get_thread s cur with
                          | Some th => if ch_abandoned (th_chan th) then fst (pop_step (th_chan th)) else None
                          | None => None
                          end
      | _ => None
      end
  | _ => None
  end.

Definition submit_of (oc : option command) : list (span_set * token) :=
  match oc with Some (CSubmit sp tk) => [(sp, tk)] | _ => [] end.

Definition reported_of (o : obs) : list (N * N * N) :=
  match o with OReport recs _ _ => map core3 recs | _ => [] end.

(* all SubmitSpans popped / all records reported along a history *)
Fixpoint popped_submits (s : sys) (h : list action) : list (span_set * token) :=
  match h with
  | [] => []
  | a :: h' => submit_of (popped_cmd s a) ++ popped_submits (fst (step s a)) h'
  end.

Definition reported (os : list obs) : list (N * N * N) := flat_map reported_of os.

Definition default_only (h : list action) : Prop := Forall (fun a => a <> AInstall true) h.

Lemma b_submit_add b c : b_submit (batch_add b c) = b_submit b ++ submit_of (Some c).
Proof. destruct c; simpl; rewrite ?app_nil_r; reflexivity. Qed.

(* one step *)
Lemma step_accounts s a :
  tracked s -> default_inv s -> s_cancelable s = false -> a <> AInstall true ->
  Permutation (reported_of (snd (step s a)) ++ cores_of (b_submit (s_batch (fst (step s a)))))
              (cores_of (b_submit (s_batch s)) ++ cores_of (submit_of (popped_cmd s a))) /\
  s_cancelable (fst (step s a)) = false.
Proof.
  intros Ht Hd Hc Hna.
  assert (Same : forall s', s_batch s' = s_batch s -> s_cancelable s' = s_cancelable s ->
            Permutation ([] ++ cores_of (b_submit (s_batch s'))) (cores_of (b_submit (s_batch s)) ++ cores_of []) /\
            s_cancelable s' = false).
  { intros s' E1 E2. rewrite E1, E2. split; [|exact Hc]. cbn [app]. unfold cores_of at 3. simpl. rewrite app_nil_r. apply Permutation_refl. }
  pose proof (step_default_report_exact s) as Hex.
  unfold popped_cmd. revert Hex. unfold step. destruct a; cbv beta iota zeta; intros Hex.
  - (* install (default) *)
    destruct cancelable; [exfalso; apply Hna; reflexivity|].
    destruct (s_pc (s_tick s)) eqn:Epc; cbn [fst snd reported_of]; try (apply Same; reflexivity).
    destruct Ht as (_ & B & _). rewrite (B Epc). split; [|reflexivity]. simpl. apply Permutation_refl.
  - destruct (amem t (s_threads (s_tick s)) || in_drain (s_pc (s_tick s))); cbn [fst snd reported_of]; apply Same; reflexivity.
  - destruct (get_thread (s_tick s) t) as [th|] eqn:Eg; [|cbn [fst snd reported_of]; apply Same; reflexivity].
    destruct (th_outbox th); [|cbn [fst snd reported_of]; apply Same; reflexivity].
    destruct (ch_dropping (th_chan th)); [cbn [fst snd reported_of]; apply Same; reflexivity|].
    destruct (exec_call (s_tick s) th _ c) as [s1 th1 e1 out r|code|site] eqn:Ex; cbn [fst snd reported_of]; try (apply Same; reflexivity).
    destruct (exec_call_collector _ _ _ _ _ _ _ _ _ Ex) as (_ & A2 & A3). apply Same; simpl; assumption.
  - destruct (get_thread (s_tick s) t) as [th|] eqn:Eg; [|cbn [fst snd reported_of]; apply Same; reflexivity].
    destruct (ch_dropping (th_chan th)).
    + destruct (ch_abandoned (th_chan th)); cbn [fst snd reported_of]; apply Same; reflexivity.
    + destruct (th_outbox th) as [|[f cmd] rest]; [cbn [fst snd reported_of]; apply Same; reflexivity|].
      destruct (push_step (th_chan th) f cmd) as [ch' fin]. cbn [fst snd reported_of]. apply Same; reflexivity.
  - destruct (get_thread (s_tick s) t) as [th|] eqn:Eg; [|cbn [fst snd reported_of]; apply Same; reflexivity].
    destruct (th_outbox th), (th_scoped th), (th_frames th); try (cbn [fst snd reported_of]; apply Same; reflexivity).
    destruct (ch_dropping (th_chan th)); cbn [fst snd reported_of]; apply Same; reflexivity.
  - destruct (s_pc (s_tick s)) eqn:Epc; try (cbn [fst snd reported_of]; apply Same; reflexivity).
    destruct (s_installed (s_tick s)); try (cbn [fst snd reported_of]; apply Same; reflexivity).
    destruct (s_registry (s_tick s)); cbn [fst snd reported_of]; apply Same; reflexivity.
  - (* pop *)
    change (s_pc (s_tick s)) with (s_pc s). change (get_thread (s_tick s)) with (get_thread s).
    destruct (s_pc s) eqn:Epc; try (cbn [fst snd reported_of]; apply Same; reflexivity).
    destruct (get_thread s cur) as [th|] eqn:Eg; [|cbn [fst snd reported_of]; apply Same; reflexivity].
    destruct (pop_step (th_chan th)) as [[c0|] ch'] eqn:Ep; cbn [fst snd reported_of submit_of].
    + cbn [s_batch s_set_collector s_cancelable]. change (s_batch (s_tick s)) with (s_batch s).
      rewrite b_submit_add, cores_of_app. split; [apply Permutation_refl|exact Hc].
    + apply Same; reflexivity.
  - (* check *)
    change (s_pc (s_tick s)) with (s_pc s). change (get_thread (s_tick s)) with (get_thread s).
    destruct (s_pc s) eqn:Epc; try (cbn [fst snd reported_of]; apply Same; reflexivity).
    destruct (get_thread s cur) as [th|] eqn:Eg; [|cbn [fst snd reported_of]; apply Same; reflexivity].
    destruct (ch_abandoned (th_chan th)).
    + destruct (pop_step (th_chan th)) as [[c0|] ch'] eqn:Ep; cbn [fst snd reported_of submit_of].
      * cbn [s_batch s_set_collector s_cancelable]. change (s_batch (s_tick s)) with (s_batch s).
        rewrite b_submit_add, cores_of_app. split; [apply Permutation_refl|exact Hc].
      * destruct (advance todo kept) as [pc [reg|]]; cbn [fst snd reported_of]; apply Same; reflexivity.
    + destruct (advance todo (kept ++ [cur])) as [pc [reg|]]; cbn [fst snd reported_of]; apply Same; reflexivity.
  - (* process *)
    change (s_pc (s_tick s)) with (s_pc s) in *.
    destruct (s_pc s) eqn:Epc; try (cbn [fst snd reported_of]; apply Same; reflexivity).
    destruct (process _ _ _ _) as [am recs] eqn:Epr. cbn [fst snd reported_of] in *.
    specialize (Hex recs (stats_of am) (lenN (s_registry (s_tick s))) Hd Hc eq_refl).
    cbn [s_batch s_set_collector s_cancelable]. split; [|exact Hc].
    unfold cores_of at 1 3. simpl. rewrite !app_nil_r. exact Hex.
Qed.

Theorem history_accounts h : forall s,
  tracked s -> default_inv s -> s_cancelable s = false -> default_only h ->
  Permutation (reported (snd (run s h)) ++ cores_of (b_submit (s_batch (fst (run s h)))))
              (cores_of (b_submit (s_batch s)) ++ cores_of (popped_submits s h)).
Proof.
  induction h as [|a h IH]; intros s Ht Hd Hc Ho.
  - simpl. unfold cores_of at 3. simpl. rewrite app_nil_r. apply Permutation_refl.
  - inversion Ho as [|? ? Ha Ho']; subst.
    destruct (step_accounts s a Ht Hd Hc Ha) as [P1 Hc1].
    pose proof (step_tracked s a Ht) as Ht1. pose proof (step_default_inv s a Hd) as Hd1.
    cbn [run popped_submits]. destruct (step s a) as [s1 o] eqn:Es. cbn [fst snd] in *.
    specialize (IH s1 Ht1 Hd1 Hc1 Ho').
    destruct (run s1 h) as [s2 os]. cbn [fst snd] in *.
    unfold reported. cbn [flat_map]. fold (reported os).
    rewrite cores_of_app, <- app_assoc.
    (* reported_of o ++ (reported os ++ B2)  ~  B0 ++ P ++ Ps *)
    eapply Permutation_trans; [apply Permutation_app_head; exact IH|].
    rewrite !app_assoc. apply Permutation_app_tail. exact P1.
Qed.

(* from the initial state: everything reported so far plus what the batch still holds is
   exactly what has been popped so far *)
Theorem reachable_history_accounts dbg ringcap stackcap qcap h :
  default_only h ->
  let r := run (sys_init dbg ringcap stackcap qcap) h in
  Permutation (reported (snd r) ++ cores_of (b_submit (s_batch (fst r))))
              (cores_of (popped_submits (sys_init dbg ringcap stackcap qcap) h)).
Proof.
  intros Ho r.
  pose proof (history_accounts h (sys_init dbg ringcap stackcap qcap) (tracked_init _ _ _ _)
                (sys_init_default_inv _ _ _ _) eq_refl Ho) as P.
  exact P.
Qed.
