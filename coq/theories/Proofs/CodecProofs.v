From Coq Require Import List NArith ZArith Bool Lia ZifyBool ZifyN ZifyNat Arith.
From FT Require Import Model.Codec.
Import ListNotations.
Open Scope N_scope.
Ltac Zify.zify_post_hook ::= Z.div_mod_to_equations.

Lemma str_eqb_eq a b : str_eqb a b = true <-> a = b.
Proof.
  revert b; induction a as [|x a IH]; intros [|y b]; cbn; try (split; congruence).
  rewrite andb_true_iff, N.eqb_eq, IH. split; [intros [-> ->]; reflexivity|intros [= -> ->]; auto].
Qed.

Lemma hexval_hexdigit d : d < 16 -> hexval (hexdigit d) = Some d.
Proof.
  intros H. unfold hexdigit, hexval.
  destruct (d <? 10) eqn:E.
  - assert (48 <=? 48 + d = true) as -> by lia.
    assert (48 + d <=? 57 = true) as -> by lia. cbn [andb]. f_equal; lia.
  - assert ((48 <=? 87 + d) && (87 + d <=? 57) = false) as -> by lia.
    assert (97 <=? 87 + d = true) as -> by lia.
    assert (87 + d <=? 102 = true) as -> by lia. cbn [andb]. f_equal; lia.
Qed.

Lemma hexval_lt c d : hexval c = Some d -> d < 16.
Proof.
  unfold hexval.
  destruct ((48 <=? c) && (c <=? 57)) eqn:E1; [intros [= <-]; lia|].
  destruct ((97 <=? c) && (c <=? 102)) eqn:E2; [intros [= <-]; lia|].
  destruct ((65 <=? c) && (c <=? 70)) eqn:E3; [intros [= <-]; lia|discriminate].
Qed.

Lemma hexdigit_not_dash d : d < 16 -> hexdigit d <> 45.
Proof. unfold hexdigit; destruct (d <? 10) eqn:E; lia. Qed.

Lemma hexdigit_is_hexdigit d : d < 16 -> is_hexdigit (hexdigit d) = true.
Proof. intros H; unfold is_hexdigit; rewrite hexval_hexdigit; auto. Qed.

(* lowercase: the digit is 0-9 or a-f *)
Lemma hexdigit_lower d : d < 16 ->
  (48 <= hexdigit d <= 57) \/ (97 <= hexdigit d <= 102).
Proof. unfold hexdigit; destruct (d <? 10) eqn:E; lia. Qed.

Lemma to_hex_fixed_length w n : length (to_hex_fixed w n) = w.
Proof.
  revert n; induction w as [|w IH]; intros n; cbn [to_hex_fixed]; [reflexivity|].
  rewrite app_length, IH; cbn; lia.
Qed.

Lemma to_hex_fixed_all (P : N -> Prop) w n :
  (forall d, d < 16 -> P (hexdigit d)) -> Forall P (to_hex_fixed w n).
Proof.
  intros HP; revert n; induction w as [|w IH]; intros n; cbn [to_hex_fixed]; [constructor|].
  apply Forall_app; split; [apply IH|]. constructor; [|constructor].
  apply HP. apply N.mod_lt; lia.
Qed.

Lemma parse_digits_app bound acc l1 l2 :
  parse_digits bound acc (l1 ++ l2) =
  match parse_digits bound acc l1 with
  | Some a => parse_digits bound a l2
  | None => None
  end.
Proof.
  revert acc; induction l1 as [|c l1 IH]; intros acc; cbn [app parse_digits]; [reflexivity|].
  destruct (hexval c); [|reflexivity].
  destruct (_ <? _); [apply IH|reflexivity].
Qed.

Lemma pow16_S w : 16 ^ N.of_nat (S w) = 16 * 16 ^ N.of_nat w.
Proof. rewrite Nat2N.inj_succ, N.pow_succ_r'; reflexivity. Qed.

Lemma mod_pow16_S n w :
  n mod 16 ^ N.of_nat (S w) = 16 * ((n / 16) mod 16 ^ N.of_nat w) + n mod 16.
Proof.
  rewrite pow16_S. rewrite N.mod_mul_r by (try apply N.pow_nonzero; lia). lia.
Qed.

Lemma parse_digits_to_hex_fixed bound w : forall n acc,
  acc * 16 ^ N.of_nat w + n mod 16 ^ N.of_nat w < bound ->
  parse_digits bound acc (to_hex_fixed w n) = Some (acc * 16 ^ N.of_nat w + n mod 16 ^ N.of_nat w).
Proof.
  induction w as [|w IH]; intros n acc H.
  - cbn [to_hex_fixed parse_digits]. f_equal. cbn. rewrite N.mod_1_r. lia.
  - cbn [to_hex_fixed]. rewrite parse_digits_app.
    rewrite mod_pow16_S in *. rewrite pow16_S in *.
    assert (Hp : 0 < 16 ^ N.of_nat w) by (apply N.neq_0_lt_0, N.pow_nonzero; lia).
    set (P := 16 ^ N.of_nat w) in *.
    set (q := (n / 16) mod P) in *.
    assert (Hr : n mod 16 < 16) by (apply N.mod_lt; lia).
    rewrite IH by (fold P; fold q; nia).
    fold P; fold q. cbn [parse_digits].
    rewrite hexval_hexdigit by exact Hr.
    assert ((acc * P + q) * 16 + n mod 16 <? bound = true) as -> by nia.
    f_equal. nia.
Qed.

Lemma hexlen_spec n : n < 16 ^ N.of_nat (hexlen n).
Proof.
  unfold hexlen. destruct n as [|p]; [reflexivity|].
  set (s := N.size (N.pos p)).
  assert (Hs : N.pos p < 2 ^ s) by (apply N.size_gt).
  assert (H16 : forall k, 16 ^ k = 2 ^ (4 * k)).
  { intros k. rewrite N.pow_mul_r. reflexivity. }
  rewrite H16. eapply N.lt_le_trans; [exact Hs|].
  apply N.pow_le_mono_r; [lia|].
  assert (N.of_nat ((N.to_nat s + 3) / 4) = (s + 3) / 4) as ->.
  { rewrite Nat2N.inj_div. rewrite Nat2N.inj_add, N2Nat.id. reflexivity. }
  lia.
Qed.

Lemma fmt_hex_fits w n : (1 <= w)%nat -> n < 16 ^ N.of_nat w -> fmt_hex w n = to_hex_fixed w n.
Proof.
  intros Hw H. unfold fmt_hex.
  assert (hexlen n <= w)%nat as Hle; [|rewrite Nat.max_l by exact Hle; reflexivity].
  unfold hexlen. destruct n as [|p].
  - exact Hw.
  - set (s := N.size (N.pos p)).
    assert (Hs : 2 ^ (N.pred s) <= N.pos p).
    { unfold s.
      rewrite N.size_log2 by lia. rewrite N.pred_succ.
      apply N.log2_spec; lia. }
    assert (H16 : 16 ^ N.of_nat w = 2 ^ (4 * N.of_nat w)) by (rewrite N.pow_mul_r; reflexivity).
    rewrite H16 in H.
    assert (N.pred s < 4 * N.of_nat w).
    { apply (N.pow_lt_mono_r_iff 2); [lia|]. eapply N.le_lt_trans; eassumption. }
    assert (0 < s) by (unfold s; rewrite N.size_log2 by lia; lia).
    lia.
Qed.

Lemma parse_fmt_fixed bits w n :
  n < 16 ^ N.of_nat w -> n < 2 ^ bits ->
  parse_digits (2 ^ bits) 0 (to_hex_fixed w n) = Some n.
Proof.
  intros H1 H2. rewrite parse_digits_to_hex_fixed; rewrite N.mod_small by exact H1; [f_equal|]; lia.
Qed.

Lemma to_hex_fixed_S_head w n :
  exists c rest, to_hex_fixed (S w) n = c :: rest /\ is_hexdigit c = true /\ c <> 43.
Proof.
  pose proof (to_hex_fixed_all (fun c => is_hexdigit c = true /\ c <> 43) (S w) n) as H.
  destruct (to_hex_fixed (S w) n) as [|c rest] eqn:E.
  - pose proof (to_hex_fixed_length (S w) n) as L. rewrite E in L. discriminate.
  - exists c, rest. split; [reflexivity|].
    assert (Hall : Forall (fun c => is_hexdigit c = true /\ c <> 43) (c :: rest)).
    { apply H. intros d Hd. split; [apply hexdigit_is_hexdigit; exact Hd|].
      unfold hexdigit; destruct (d <? 10) eqn:?; lia. }
    inversion Hall; subst; assumption.
Qed.

Lemma from_str_radix16_fixed bits w n :
  n < 16 ^ N.of_nat (S w) -> n < 2 ^ bits ->
  from_str_radix16 bits (to_hex_fixed (S w) n) = Some n.
Proof.
  intros H1 H2. destruct (to_hex_fixed_S_head w n) as (c & rest & E & _ & Hc).
  unfold from_str_radix16. rewrite E.
  assert (c =? 43 = false) as -> by lia. rewrite <- E. apply parse_fmt_fixed; assumption.
Qed.

(* ---- split_dash ---- *)

Definition nodash (s : str) : Prop := Forall (fun c => c <> 45) s.

Lemma split_dash_nonempty s : split_dash s <> [].
Proof.
  induction s as [|c s IH]; cbn; [discriminate|].
  destruct (c =? 45); [discriminate|]. destruct (split_dash s); discriminate.
Qed.

Lemma split_dash_nodash s : nodash s -> split_dash s = [s].
Proof.
  induction 1 as [|c s Hc Hs IH]; cbn; [reflexivity|].
  assert (c =? 45 = false) as -> by lia. rewrite IH. reflexivity.
Qed.

Lemma split_dash_app a b : nodash a -> split_dash (a ++ 45 :: b) = a :: split_dash b.
Proof.
  induction 1 as [|c a Hc Ha IH]; cbn [app split_dash].
  - rewrite N.eqb_refl. reflexivity.
  - assert (c =? 45 = false) as -> by lia. rewrite IH. reflexivity.
Qed.

Lemma split_dash_app' a b : nodash a -> split_dash (a ++ [45] ++ b) = a :: split_dash b.
Proof. apply split_dash_app. Qed.

Lemma nodash_00 : nodash [48; 48].
Proof. repeat constructor; lia. Qed.

(* exact inverse: the fields of a split, joined by dashes, are the input *)
Fixpoint join_dash (fs : list str) : str :=
  match fs with
  | [] => []
  | [f] => f
  | f :: fs' => f ++ 45 :: join_dash fs'
  end.

Lemma split_dash_fields_nodash s : Forall nodash (split_dash s).
Proof.
  induction s as [|c s IH]; cbn.
  - repeat constructor.
  - destruct (c =? 45) eqn:E.
    + constructor; [constructor|exact IH].
    + destruct (split_dash s) as [|f fs]; [repeat constructor; lia|].
      inversion IH; subst. constructor; [constructor; [lia|assumption]|assumption].
Qed.

Lemma join_split_dash s : join_dash (split_dash s) = s.
Proof.
  induction s as [|c s IH]; cbn; [reflexivity|].
  destruct (c =? 45) eqn:E.
  - apply N.eqb_eq in E; subst c.
    pose proof (split_dash_nonempty s) as Hn.
    destruct (split_dash s) as [|f fs]; [congruence|].
    cbn [join_dash app]. cbn [join_dash] in IH. rewrite IH. reflexivity.
  - pose proof (split_dash_nonempty s) as Hn.
    destruct (split_dash s) as [|f fs]; [congruence|].
    cbn [join_dash] in *. destruct fs; cbn [app]; rewrite <- IH; reflexivity.
Qed.

Lemma split_join_dash fs : fs <> [] -> Forall nodash fs -> split_dash (join_dash fs) = fs.
Proof.
  induction fs as [|f fs IH]; [congruence|]. intros _ H. inversion H as [|? ? Hf Hfs]; subst.
  destruct fs as [|g fs].
  - cbn. apply split_dash_nodash; assumption.
  - change (join_dash (f :: g :: fs)) with (f ++ 45 :: join_dash (g :: fs)).
    rewrite split_dash_app by assumption. rewrite IH; [reflexivity|discriminate|assumption].
Qed.

(* ---- value of a digit string ---- *)

Fixpoint digits_value (acc : N) (s : str) : option N :=
  match s with
  | [] => Some acc
  | c :: s' => match hexval c with
               | None => None
               | Some d => digits_value (acc * 16 + d) s'
               end
  end.

Lemma digits_value_mono acc s v : digits_value acc s = Some v -> acc <= v.
Proof.
  revert acc; induction s as [|c s IH]; intros acc; cbn; [intros [= <-]; lia|].
  destruct (hexval c) as [d|]; [|discriminate]. intros H. apply IH in H. lia.
Qed.

Lemma parse_digits_spec bound acc s v :
  parse_digits bound acc s = Some v <->
  (digits_value acc s = Some v /\ (s = [] \/ v < bound)).
Proof.
  revert acc; induction s as [|c s IH]; intros acc; cbn.
  - split; [intros [= <-]; auto|intros [[= <-] _]; reflexivity].
  - destruct (hexval c) as [d|]; [|split; [discriminate|intros [? _]; discriminate]].
    destruct (acc * 16 + d <? bound) eqn:E.
    + rewrite IH. split.
      * intros [H1 H2]. split; [exact H1|]. right. destruct H2 as [-> | H2]; [|exact H2].
        cbn in H1. injection H1 as <-. lia.
      * intros [H1 [H2|H2]]; [discriminate|]. split; [exact H1|]. right; exact H2.
    + split; [discriminate|]. intros [H1 [H2|H2]]; [discriminate|].
      apply digits_value_mono in H1. lia.
Qed.

Lemma digits_value_is_hex acc s v : digits_value acc s = Some v -> forallb is_hexdigit s = true.
Proof.
  revert acc; induction s as [|c s IH]; intros acc; cbn; [reflexivity|].
  unfold is_hexdigit at 1. destruct (hexval c); [|discriminate]. intros H; cbn. eauto.
Qed.

Lemma is_hex_digits_value acc s : forallb is_hexdigit s = true -> exists v, digits_value acc s = Some v.
Proof.
  revert acc; induction s as [|c s IH]; intros acc; cbn; [eauto|].
  unfold is_hexdigit at 1. destruct (hexval c) eqn:E; [|discriminate]. cbn. intros H. apply IH, H.
Qed.

(* "s is a hexadecimal number that fits in [bits] bits and denotes v" *)
Definition hexnum (bits : N) (s : str) (v : N) : Prop :=
  s <> [] /\ digits_value 0 s = Some v /\ v < 2 ^ bits.

Lemma plus_not_hex : is_hexdigit 43 = false.
Proof. reflexivity. Qed.

Lemma from_str_radix16_strict bits s v :
  forallb is_hexdigit s = true ->
  (from_str_radix16 bits s = Some v <-> hexnum bits s v).
Proof.
  intros Hh. unfold from_str_radix16, hexnum. destruct s as [|c rest].
  - split; [discriminate|intros [H _]; congruence].
  - cbn [forallb] in Hh. apply andb_true_iff in Hh as [Hc Hrest].
    assert (c =? 43 = false) as ->.
    { destruct (c =? 43) eqn:E; [|reflexivity]. apply N.eqb_eq in E; subst c. discriminate. }
    rewrite parse_digits_spec. split.
    + intros [H1 [H2|H2]]; [discriminate|]. repeat split; [discriminate|exact H1|exact H2].
    + intros (_ & H1 & H2). split; [exact H1|right; exact H2].
Qed.

(* ---- encode / decode ---- *)

Lemma pow16_32 : 16 ^ N.of_nat 32 = 2 ^ 128. Proof. reflexivity. Qed.
Lemma pow16_16 : 16 ^ N.of_nat 16 = 2 ^ 64. Proof. reflexivity. Qed.

Lemma to_hex_fixed_nodash w n : nodash (to_hex_fixed w n).
Proof. apply to_hex_fixed_all. intros d Hd. apply hexdigit_not_dash, Hd. Qed.

Lemma to_hex_fixed_is_hex w n : forallb is_hexdigit (to_hex_fixed w n) = true.
Proof.
  apply forallb_forall. apply Forall_forall.
  apply to_hex_fixed_all. intros d Hd. apply hexdigit_is_hexdigit, Hd.
Qed.

Definition flag_of (b : bool) : N := if b then 1 else 0.

Lemma encode_fixed c : wf_ctx c ->
  encode_traceparent c =
  [48; 48] ++ [45] ++ to_hex_fixed 32 (c_trace c) ++ [45] ++ to_hex_fixed 16 (c_span c)
  ++ [45] ++ to_hex_fixed 2 (flag_of (c_sampled c)).
Proof.
  intros [Ht Hs]. unfold encode_traceparent, dash.
  rewrite (fmt_hex_fits 32) by (try rewrite pow16_32; try exact Ht; lia).
  rewrite (fmt_hex_fits 16) by (try rewrite pow16_16; try exact Hs; lia).
  rewrite (fmt_hex_fits 2) by (try lia; destruct (c_sampled c); reflexivity).
  reflexivity.
Qed.

Lemma split_encode c : wf_ctx c ->
  split_dash (encode_traceparent c) =
  [[48; 48]; to_hex_fixed 32 (c_trace c); to_hex_fixed 16 (c_span c);
   to_hex_fixed 2 (flag_of (c_sampled c))].
Proof.
  intros H. rewrite encode_fixed by exact H.
  rewrite split_dash_app' by apply nodash_00.
  rewrite split_dash_app' by apply to_hex_fixed_nodash.
  rewrite split_dash_app' by apply to_hex_fixed_nodash.
  rewrite split_dash_nodash by apply to_hex_fixed_nodash.
  reflexivity.
Qed.

Lemma decode_encode c : wf_ctx c -> decode_traceparent (encode_traceparent c) = Some c.
Proof.
  intros H. unfold decode_traceparent. rewrite split_encode by exact H.
  destruct H as [Ht Hs].
  rewrite !to_hex_fixed_is_hex. cbn [str_eqb N.eqb Pos.eqb andb].
  rewrite (from_str_radix16_fixed 128 31) by (try rewrite pow16_32; exact Ht).
  rewrite (from_str_radix16_fixed 64 15) by (try rewrite pow16_16; exact Hs).
  rewrite (from_str_radix16_fixed 8 1) by (destruct (c_sampled c); cbn; lia).
  destruct c as [t s b]; cbn. f_equal. f_equal. destruct b; reflexivity.
Qed.

Lemma encode_length c : wf_ctx c -> length (encode_traceparent c) = 55%nat.
Proof.
  intros H. rewrite encode_fixed by exact H.
  rewrite !app_length, !to_hex_fixed_length. reflexivity.
Qed.

Definition lower_hex (c : N) : Prop := (48 <= c <= 57) \/ (97 <= c <= 102).

Lemma to_hex_fixed_lower w n : Forall lower_hex (to_hex_fixed w n).
Proof. apply to_hex_fixed_all. intros d Hd. apply hexdigit_lower, Hd. Qed.

Lemma encode_shape c : wf_ctx c ->
  exists a b f,
    encode_traceparent c = [48; 48] ++ [45] ++ a ++ [45] ++ b ++ [45] ++ f /\
    length a = 32%nat /\ length b = 16%nat /\ length f = 2%nat /\
    Forall lower_hex a /\ Forall lower_hex b /\ Forall lower_hex f.
Proof.
  intros H. eexists _, _, _. split; [apply encode_fixed, H|].
  rewrite !to_hex_fixed_length. repeat split; apply to_hex_fixed_lower.
Qed.

(* exact characterisation of the accepted language *)
Lemma decode_some_iff s c :
  decode_traceparent s = Some c <->
  exists a b f fl,
    s = [48; 48] ++ [45] ++ a ++ [45] ++ b ++ [45] ++ f /\
    nodash a /\ nodash b /\ nodash f /\
    hexnum 128 a (c_trace c) /\ hexnum 64 b (c_span c) /\ hexnum 8 f fl /\
    c_sampled c = N.odd fl.
Proof.
  unfold decode_traceparent. split.
  - intros H. pose proof (join_split_dash s) as J. pose proof (split_dash_fields_nodash s) as ND.
    destruct (split_dash s) as [|v [|a [|b [|f [|? ?]]]]]; try discriminate.
    destruct (str_eqb v [48; 48]) eqn:Ev; [|discriminate]. apply str_eqb_eq in Ev; subst v.
    destruct (forallb is_hexdigit a) eqn:Ha; [|discriminate].
    destruct (forallb is_hexdigit b) eqn:Hb; [|discriminate].
    destruct (forallb is_hexdigit f) eqn:Hf; [|discriminate].
    cbn [andb] in H.
    destruct (from_str_radix16 128 a) as [t|] eqn:Et; [|discriminate].
    destruct (from_str_radix16 64 b) as [sp|] eqn:Es; [|discriminate].
    destruct (from_str_radix16 8 f) as [fl|] eqn:Ef; [|discriminate].
    injection H as <-. cbn [c_trace c_span c_sampled].
    apply from_str_radix16_strict in Et, Es, Ef; try assumption.
    pose proof (Forall_inv_tail ND) as ND1. pose proof (Forall_inv ND1) as Na.
    pose proof (Forall_inv_tail ND1) as ND2. pose proof (Forall_inv ND2) as Nb.
    pose proof (Forall_inv_tail ND2) as ND3. pose proof (Forall_inv ND3) as Nf.
    exists a, b, f, fl. split; [rewrite <- J; reflexivity|].
    repeat (split; [assumption|]). reflexivity.
  - intros (a & b & f & fl & -> & Na & Nb & Nf & Ha & Hb & Hf & Hs).
    rewrite split_dash_app' by apply nodash_00.
    rewrite !split_dash_app' by assumption. rewrite split_dash_nodash by assumption.
    assert (Xa := Ha). assert (Xb := Hb). assert (Xf := Hf).
    destruct Xa as (_ & Xa & _). destruct Xb as (_ & Xb & _). destruct Xf as (_ & Xf & _).
    apply digits_value_is_hex in Xa, Xb, Xf. rewrite Xa, Xb, Xf.
    cbn [str_eqb N.eqb Pos.eqb andb].
    apply from_str_radix16_strict in Ha, Hb, Hf; try assumption.
    rewrite Ha, Hb, Hf. destruct c as [t sp sm]; cbn in *. rewrite Hs. reflexivity.
Qed.

(* the rejection clauses of the property, as corollaries *)
Lemma decode_none_fields s : length (split_dash s) <> 4%nat -> decode_traceparent s = None.
Proof.
  unfold decode_traceparent. intros H.
  destruct (split_dash s) as [|v [|a [|b [|f [|? ?]]]]]; try reflexivity. cbn in H; congruence.
Qed.

Lemma decode_none_version s v rest :
  split_dash s = v :: rest -> v <> [48; 48] -> decode_traceparent s = None.
Proof.
  unfold decode_traceparent. intros -> H.
  destruct rest as [|a [|b [|f [|? ?]]]]; try reflexivity.
  destruct (str_eqb v [48; 48]) eqn:E; [apply str_eqb_eq in E; congruence|reflexivity].
Qed.

Lemma decode_none_field_not_hexnum s v a b f :
  split_dash s = [v; a; b; f] ->
  (~ exists x, hexnum 128 a x) \/ (~ exists x, hexnum 64 b x) \/ (~ exists x, hexnum 8 f x) ->
  decode_traceparent s = None.
Proof.
  intros Hs H. destruct (decode_traceparent s) as [c|] eqn:E; [|reflexivity]. exfalso.
  apply decode_some_iff in E as (a' & b' & f' & fl & -> & Na & Nb & Nf & Ha & Hb & Hf & _).
  rewrite split_dash_app' in Hs by apply nodash_00.
  rewrite !split_dash_app' in Hs by assumption. rewrite split_dash_nodash in Hs by assumption.
  injection Hs as <- <- <- <-. destruct H as [H|[H|H]]; apply H; eauto.
Qed.

(* Display / FromStr / serde *)
Lemma fromstr_display_trace t : t < 2 ^ 128 -> from_str_trace (display_trace t) = Some t.
Proof.
  intros H. unfold from_str_trace, display_trace. rewrite fmt_hex_fits by (try rewrite pow16_32; try exact H; lia).
  apply (from_str_radix16_fixed 128 31); [rewrite pow16_32|]; exact H.
Qed.

Lemma fromstr_display_span s : s < 2 ^ 64 -> from_str_span (display_span s) = Some s.
Proof.
  intros H. unfold from_str_span, display_span. rewrite fmt_hex_fits by (try rewrite pow16_16; try exact H; lia).
  apply (from_str_radix16_fixed 64 15); [rewrite pow16_16|]; exact H.
Qed.

Lemma display_trace_shape t : t < 2 ^ 128 ->
  length (display_trace t) = 32%nat /\ Forall lower_hex (display_trace t).
Proof.
  intros H. unfold display_trace. rewrite fmt_hex_fits by (try rewrite pow16_32; try exact H; lia).
  split; [apply to_hex_fixed_length|apply to_hex_fixed_lower].
Qed.

Lemma display_span_shape s : s < 2 ^ 64 ->
  length (display_span s) = 16%nat /\ Forall lower_hex (display_span s).
Proof.
  intros H. unfold display_span. rewrite fmt_hex_fits by (try rewrite pow16_16; try exact H; lia).
  split; [apply to_hex_fixed_length|apply to_hex_fixed_lower].
Qed.

(* F9: what the pinned tree accepted *)
Lemma lenient_accepts_plus :
  decode_traceparent_lenient [48;48;45;43;49;45;43;50;45;43;49]
  = Some {| c_trace := 1; c_span := 2; c_sampled := true |}
  /\ decode_traceparent [48;48;45;43;49;45;43;50;45;43;49] = None.
Proof. split; vm_compute; reflexivity. Qed.
