(* GENERATED from /repo by lib/srcconsts.py on every run -- do not edit *)
From Coq Require Import List NArith.
From FT Require Import Model.Codec.
Import ListNotations.
Open Scope N_scope.

Definition src_codec_consts : codec_consts :=
  {| cc_version_enc := [48; 48]; cc_version_dec := [48; 48];
     cc_w_trace := 32; cc_w_span := 16; cc_w_flags := 2;
     cc_radix_trace := 16; cc_radix_span := 16; cc_radix_flags := 16;
     cc_bits_trace := 128; cc_bits_span := 64; cc_bits_flags := 8;
     cc_flag_mask := 1;
     cc_w_display_trace := 32; cc_w_display_span := 16;
     cc_w_serde_trace := 32; cc_w_serde_span := 16 |}.
Definition src_max_udp : N := 8000.
Definition src_jaeger_divs : list N := [1000; 1000; 1000].
Definition src_size_cmp_ge : bool := true.
Definition src_single_le : N := 1.
Definition src_halving : N := 2.
Definition src_epoch_bits_counter : N := 64.
Definition src_epoch_bits_stamp : N := 64.
Definition src_epoch_bits_handle : N := 64.
Definition src_epoch_bits_line_handle : N := 64.
Definition src_epoch_casts : N := 0.
