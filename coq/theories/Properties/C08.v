(* C08 -- The collector keeps state only for unfinished traces and live threads.
   Only pinned statements, closed by [exact lemma], with Print Assumptions. *)
From Coq Require Import List NArith Bool.
From FT Require Import Model.Base Model.Local Model.Records Model.Spsc Model.Collector Model.System
     Proofs.CollectorProofs Proofs.SpscProofs Proofs.DrainProofs Proofs.EndToEndProofs Proofs.WholeProofs.
Import ListNotations.
Open Scope N_scope.

Theorem C08_commit_removes :
  forall conv cb am b c, In c (b_commit b) -> amem c (fst (process_owned conv cb am b)) = false.
Proof. exact commit_removes. Qed.

Theorem C08_cancel_removes :
  forall conv am b c, In c (b_drop b) -> amem c (fst (process_owned conv true am b)) = false.
Proof. exact drop_removes. Qed.

(* the retained set grows only by the traces started in the batch *)
Theorem C08_active_only_started :
  forall conv cb am b c,
    amem c (fst (process_owned conv cb am b)) = true -> amem c am = true \/ In c (b_start b).
Proof. exact active_only_started. Qed.

(* default configuration: no span set stays buffered across a cycle *)
Theorem C08_default_nothing_buffered :
  forall conv am b c a, In (c, a) (fst (process_owned conv false am b)) -> a_colls a = [].
Proof. exact default_nothing_buffered. Qed.

(* a receiver is given up only on a pop that found the ring empty *)
Theorem C08_receiver_removed_only_when_empty :
  forall (A : Type) (c c' : chan A), pop_step c = (None, c') -> ch_ring c = [].
Proof. exact @pop_none_empty. Qed.

(* OVER THE SCHEDULER: in any reachable state, a commit -- or, cancelable, a cancel -- that
   is in a registered thread's ring when a cycle begins: after that cycle (its drain
   interleaved in any way with any threads) the collector retains nothing for that trace. *)
Theorem C08_finished_trace_is_forgotten :
  forall dbg ringcap stackcap qcap h0 h c,
    let s := fst (run (sys_init dbg ringcap stackcap qcap) h0) in
    let s1 := fst (run s (ACBegin :: h)) in
    s_pc s = PIdle -> s_installed s = true -> no_process h -> s_pc s1 = PDrained ->
    (exists t, In (t, CCommit c) (ring_commands s)) \/
    (s_cancelable s1 = true /\ exists t, In (t, CDrop c) (ring_commands s)) ->
    amem c (s_active (fst (step s1 ACProcess))) = false.
Proof. exact finished_trace_is_forgotten. Qed.

(* a process step adds an entry only for a StartCollect of its batch *)
Theorem C08_retained_only_grows_by_starts :
  forall s c,
    s_pc s = PDrained ->
    amem c (s_active (fst (step s ACProcess))) = true ->
    amem c (s_active s) = true \/ In c (b_start (s_batch s)).
Proof. exact retained_only_grows_by_starts. Qed.

(* and no other step (but the installation of a reporter, which starts afresh) touches it *)
Theorem C08_other_steps_keep_the_retained_set :
  forall s a, a <> ACProcess -> (forall cb, a <> AInstall cb) -> s_active (fst (step s a)) = s_active s.
Proof. exact step_keeps_active. Qed.

(* a reporter installed again (set_reporter replaces the collector): nothing is retained from
   before, nothing drained is kept; threads, rings, spans and the registry are untouched.  With
   C04_cancelled_stays_silent: in the cancelable configuration a trace opened under the old
   collector is reported by the new one only if it is started again *)
Theorem C08_reinstall_starts_afresh :
  forall s cb,
    s_pc s = PIdle ->
    let s' := fst (step s (AInstall cb)) in
    s_active s' = [] /\ s_batch s' = batch_empty /\ s_cancelable s' = cb /\ s_installed s' = true /\
    s_pc s' = PIdle /\ s_registry s' = s_registry s /\ s_threads s' = s_threads s /\ s_spans s' = s_spans s.
Proof. exact reinstall_starts_afresh. Qed.

Print Assumptions C08_commit_removes.
Print Assumptions C08_cancel_removes.
Print Assumptions C08_active_only_started.
Print Assumptions C08_default_nothing_buffered.
Print Assumptions C08_receiver_removed_only_when_empty.
Print Assumptions C08_finished_trace_is_forgotten.
Print Assumptions C08_retained_only_grows_by_starts.
Print Assumptions C08_other_steps_keep_the_retained_set.
Print Assumptions C08_reinstall_starts_afresh.
