(* C08 -- The collector keeps state only for unfinished traces and live threads.
   Only pinned statements, closed by [exact lemma], with Print Assumptions. *)
From Coq Require Import List NArith Bool.
From FT Require Import Model.Base Model.Records Model.Spsc Model.Collector
     Proofs.CollectorProofs Proofs.SpscProofs.
Import ListNotations.
Open Scope N_scope.

Theorem C08_commit_removes :
  forall conv cb am b c, In c (b_commit b) -> amem c (fst (process_owned conv cb am b)) = false.
Proof. exact commit_removes. Qed.

Theorem C08_cancel_removes :
  forall conv am b c, In c (b_drop b) -> amem c (fst (process_owned conv true am b)) = false.
Proof. exact drop_removes. Qed.

(* the retained set grows only by the traces started in the batch *)
Theorem C08_active_only_started :
  forall conv cb am b c,
    amem c (fst (process_owned conv cb am b)) = true -> amem c am = true \/ In c (b_start b).
Proof. exact active_only_started. Qed.

(* default configuration: no span set stays buffered across a cycle *)
Theorem C08_default_nothing_buffered :
  forall conv am b c a, In (c, a) (fst (process_owned conv false am b)) -> a_colls a = [].
Proof. exact default_nothing_buffered. Qed.

(* a receiver is given up only on a pop that found the ring empty *)
Theorem C08_receiver_removed_only_when_empty :
  forall (A : Type) (c c' : chan A), pop_step c = (None, c') -> ch_ring c = [].
Proof. exact @pop_none_empty. Qed.

Print Assumptions C08_commit_removes.
Print Assumptions C08_cancel_removes.
Print Assumptions C08_active_only_started.
Print Assumptions C08_default_nothing_buffered.
Print Assumptions C08_receiver_removed_only_when_empty.
