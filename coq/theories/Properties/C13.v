(* C13 -- Future adapters scope spans to polls and completion.
   Only pinned statements, closed by [exact lemma], with Print Assumptions. *)
From Coq Require Import List NArith Bool.
From FT Require Import Model.Base Model.Local Model.LocalProg Model.Records Model.Collector Model.System
     Model.Spsc Proofs.LocalProofs Proofs.ApiProofs Proofs.DrainProofs Proofs.EndToEndProofs Proofs.WholeProofs.
Import ListNotations.
Open Scope N_scope.

(* during the poll the adapter's span is the local parent: the scope opened by the poll
   carries the token the span issues (parent id = the span's id) *)
Theorem C13_parent_during_poll :
  forall sp st, st_cap st <=? lenN (st_lines st) = false ->
    exists ep, set_local (Some sp) st =
      (Some (Some ep), mkStack (l_new (st_qcap st) ep (Some (issue_token sp)) :: st_lines st)
                               (st_cap st) ((ep + 1) mod two64) (st_qcap st)).
Proof. exact set_local_line. Qed.

(* a poll -- set local parent, any well-nested body (including enter_on_poll's local span and
   nested adapters), drop the guard -- restores the thread's local context exactly *)
Theorem C13_poll_restores_context :
  forall dbg osp st e p inner st1 st2 e2 out st3 e3,
    nz st -> e_prefix e <> 0 ->
    set_local osp st = (inner, st1) ->
    exec dbg p st1 e = Ok (st2, e2) ->
    drop_guard dbg inner st2 e2 = Ok (out, st3, e3) ->
    lctx st3 = lctx st.
Proof. exact poll_restores_context. Qed.

(* the span is finished exactly on a non-Pending result (future), end of stream, or a
   completed close, and on no other call *)
Theorem C13_takes_table :
  (forall r, takes MFut r = match r with RPending => false | _ => true end) /\
  (forall r, takes MNext r = match r with RFinal => true | _ => false end) /\
  (forall r, takes MClose r = match r with RPending => false | _ => true end) /\
  (forall r, takes MReady r = false) /\ (forall r, takes MStart r = false) /\
  (forall r, takes MFlush r = false).
Proof. exact takes_spec. Qed.

Theorem C13_span_taken_exactly_then :
  forall s th e a m r s' th' e' out res,
    exec_call s th e (KPollEnd a m r) = COk s' th' e' out res ->
    forall osp, alookup a (s_adapters s) = Some (Some osp) ->
    alookup a (s_adapters s') = Some (if takes m r then None else Some osp).
Proof. exact pollend_takes. Qed.

(* everything recorded during the final poll is pushed BEFORE the span's own submit and
   commit (with C09's FIFO it is popped no later, so it is in the delivered trace even for a
   root in cancelable mode) *)
Theorem C13_final_poll_in_trace :
  forall s th e a m r s' th' e' out res,
    exec_call s th e (KPollEnd a m r) = COk s' th' e' out res ->
    exists g inner rest fr held out1 st1 e1,
      th_scoped th = ScGuard g inner :: rest /\ th_frames th = FPoll a :: fr /\
      alookup a (s_adapters s) = Some held /\
      drop_guard (s_dbg s) inner (th_stack th) e = Ok (out1, st1, e1) /\
      out = out1 ++ match held, takes m r with
                    | Some osp, true => fst (drop_span osp e1)
                    | _, _ => []
                    end.
Proof. exact pollend_guard_before_span. Qed.

(* OVER THE SCHEDULER.  The completing poll (or close) of an adapter, made while the thread's
   sender is idle and its ring has room: what the guard submits (the local spans of this poll)
   comes first in what the call hands over, then the span's own submit and, for a root, its
   commit (above); and after ANY history in which the thread only pushes while all other
   threads and the collector do what they like, all of it has landed -- in that order (C09:
   control commands and the thread's ring are FIFO).  With C03_landed_trace_is_reported_whole /
   C01_landed_command_is_reported_within_two_cycles: what was recorded during the final poll is
   reported with the trace, also when the span is the root and the configuration cancelable. *)
Theorem C13_final_poll_lands_whole :
  forall s t a m r th s1 th1 e1 out res h,
    tracked s ->
    get_thread s t = Some th -> th_outbox th = [] ->
    ch_pending (th_chan th) = [] -> ch_dropping (th_chan th) = false ->
    exec_call (s_tick s) th (mkEnv (th_prefix th) (th_suffix th) (clock_of_step (s_nstep (s_tick s)))) (KPollEnd a m r)
      = COk s1 th1 e1 out res ->
    lenN (ch_ring (th_chan th)) + lenN out <= ch_cap (th_chan th) ->
    all_quiet t h ->
    let s' := fst (run s (ACall t (KPollEnd a m r) :: h)) in
    (forall th', get_thread s' t = Some th' -> th_outbox th' = []) ->
    forall cmd, In cmd (map snd out) -> landed t cmd s'.
Proof. intros s t a m r. exact (call_commands_land s t (KPollEnd a m r)). Qed.

Print Assumptions C13_parent_during_poll.
Print Assumptions C13_poll_restores_context.
Print Assumptions C13_takes_table.
Print Assumptions C13_span_taken_exactly_then.
Print Assumptions C13_final_poll_in_trace.
Print Assumptions C13_final_poll_lands_whole.
