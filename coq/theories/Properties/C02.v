(* C02 -- Delivered records reproduce the program's span tree.
   Only pinned statements, closed by [exact lemma], with Print Assumptions. *)
From Coq Require Import List NArith Bool.
From FT Require Import Model.Base Model.Local Model.Records Model.Collector Model.System
     Proofs.RecordsProofs Proofs.IdsProofs Proofs.SystemProofs Proofs.ApiProofs Proofs.DeliveryProofs.
Import ListNotations.
Open Scope N_scope.

(* trace ids: in every history and schedule a reported record carries a trace id supplied
   with a (sampled) root *)
Theorem C02_trace_id_from_a_root :
  forall dbg rc sc qc h,
    Forall (fun o => match o with
                     | OReport recs _ _ => Forall (fun r => In (rc_trace r, true) (roots_of h)) recs
                     | _ => True
                     end) (snd (run (sys_init dbg rc sc qc) h)).
Proof. exact reported_only_sampled_traces. Qed.

(* a root's token carries the supplied trace id and remote parent id; its record shows them *)
Theorem C02_root_token :
  forall s th e h name tr spn sa,
    s_ready s = true -> amem h (s_spans s) = false ->
    exists s' e' out sp,
      exec_call s th e (KRoot h name tr spn sa) = COk s' th e' out RUnit /\
      get_span s' h = Some (Some sp) /\
      r_id (sp_raw sp) = fst (next_id e) /\ r_kind (sp_raw sp) = KSpan /\ r_name (sp_raw sp) = name /\
      exists cid, sp_token sp = [mkTok tr spn cid true sa] /\ sp_cid sp = Some cid /\
                  out = (if sa then [(true, CStart cid)] else []).
Proof. exact root_spec. Qed.

Theorem C02_span_record :
  forall conv sp trace parent d,
    r_kind sp = KSpan ->
    exists r d', postprocess conv [mkColl (SSpan sp) trace parent] d = ([r], d') /\
      core r = (trace, r_id sp, parent, conv (r_begin sp), conv (r_end sp) - conv (r_begin sp), r_name sp).
Proof. exact span_record. Qed.

(* every token item issued by a span names that span as parent and keeps trace, collect id
   and sampling flag: one item (hence one delivered copy) per parent *)
Theorem C02_child_parent : forall sp it, In it (issue_token sp) -> ti_parent it = r_id (sp_raw sp).
Proof. exact issue_token_parent. Qed.
Theorem C02_child_traces :
  forall sp, map (fun it => (ti_trace it, ti_collect it, ti_sampled it)) (issue_token sp) =
             map (fun it => (ti_trace it, ti_collect it, ti_sampled it)) (sp_token sp).
Proof. exact issue_token_trace. Qed.

(* local spans: delivered in the trace of the token item, the roots of the set under the
   token's parent, every other span under its recorded parent *)
Theorem C02_local_set_records :
  forall conv rs end_time trace parent d,
    map (fun r => (rc_trace r, rc_id r, rc_parent r))
        (fst (postprocess conv [mkColl (SShared rs end_time) trace parent] d)) =
    map (fun sp => (trace, r_id sp, eff_parent parent sp)) (filter is_kspan rs).
Proof. exact copy_trace_and_parents. Qed.

(* span ids: the first n < 2^32 ids of a thread are pairwise distinct, non-zero when the
   thread's prefix is non-zero, and differ from the ids of threads with another prefix *)
Theorem C02_ids_distinct :
  forall n e, e_suffix e < two32 -> N.of_nat n < two32 -> NoDup (fst (draw n e)).
Proof. exact ids_distinct. Qed.
Theorem C02_ids_nonzero : forall e k, e_prefix e <> 0 -> nth_id e k <> 0.
Proof. exact ids_nonzero. Qed.
Theorem C02_ids_differ_across_threads :
  forall e1 e2 i j, e_prefix e1 <> e_prefix e2 -> nth_id e1 i <> nth_id e2 j.
Proof. exact ids_differ_across_threads. Qed.

(* K3 (known finding): the unbounded claim is false -- the 32-bit counter wraps *)
Theorem C02_ids_wrap_refuted : forall e k, nth_id e (k + two32) = nth_id e k.
Proof. exact ids_wrap_refuted. Qed.
Theorem C02_id_zero_with_prefix_zero : forall s, s < two32 -> nth_id (mkEnv 0 s 0) (two32 - s) = 0.
Proof. exact id_zero_with_prefix_zero. Qed.

(* what reaches the reporter, default configuration, for EVERY batch and every active map
   satisfying the cycle invariant: a record is reported if and only if its (trace, span id,
   parent) is that of a raw span of a submitted set under one of the set's token items -- the
   item's trace; the item's parent for the roots of a local set, the recorded (innermost open
   local span's) parent for the others.  With [C02_child_parent] / [C02_root_token] (the
   token item names the issuing span) this is the span tree of the program. *)
Theorem C02_reported_core_is_submitted :
  forall conv am b r,
    cycle_inv am -> In r (snd (process conv false am b)) ->
    In (core3 r) (flat_map coll_cores (submitted_colls (b_submit b))).
Proof. exact default_reported_core_is_submitted. Qed.

Theorem C02_submitted_core_is_reported :
  forall conv am b x,
    cycle_inv am -> In x (flat_map coll_cores (submitted_colls (b_submit b))) ->
    exists r, In r (snd (process conv false am b)) /\ core3 r = x.
Proof. exact default_submitted_core_is_reported. Qed.

Print Assumptions C02_trace_id_from_a_root.
Print Assumptions C02_root_token.
Print Assumptions C02_span_record.
Print Assumptions C02_child_parent.
Print Assumptions C02_child_traces.
Print Assumptions C02_local_set_records.
Print Assumptions C02_ids_distinct.
Print Assumptions C02_ids_nonzero.
Print Assumptions C02_ids_differ_across_threads.
Print Assumptions C02_ids_wrap_refuted.
Print Assumptions C02_id_zero_with_prefix_zero.
Print Assumptions C02_reported_core_is_submitted.
Print Assumptions C02_submitted_core_is_reported.
