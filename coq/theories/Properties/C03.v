(* C03 -- Cancelable mode holds a trace until its root finishes, then delivers it whole.
   Only pinned statements, closed by [exact lemma], with Print Assumptions. *)
From Coq Require Import List NArith Bool.
From FT Require Import Model.Base Model.Local Model.Records Model.Spsc Model.Collector Model.System Proofs.CollectorProofs Proofs.DeliveryProofs
     Proofs.DrainProofs Proofs.EndToEndProofs Proofs.HistoryProofs Proofs.WholeProofs Proofs.HoldProofs.
Import ListNotations.
Open Scope N_scope.

(* hold: whatever the collector state and whatever the batch, in cancelable mode every record
   handed to the reporter belongs to a collect id whose CommitCollect is in this very batch *)
Theorem C03_hold :
  forall conv am b c r,
    In (c, r) (snd (process_owned conv true am b)) -> In c (b_commit b).
Proof. exact cancelable_reports_only_committed. Qed.

Theorem C03_no_commit_no_report :
  forall conv am b, b_commit b = [] -> snd (process conv true am b) = [].
Proof. exact cancelable_no_commit_no_report. Qed.

(* nothing afterwards: a trace that is no longer active (its commit was processed) and is not
   started again -- collect ids are never reused -- is never reported again *)
Theorem C03_nothing_afterwards :
  forall conv am b c r,
    amem c am = false -> ~ In c (b_start b) ->
    ~ In (c, r) (snd (process_owned conv true am b)).
Proof. exact inactive_stays_silent. Qed.

Theorem C03_commit_deactivates :
  forall conv cb am b c, In c (b_commit b) -> amem c (fst (process_owned conv cb am b)) = false.
Proof. exact commit_removes. Qed.

(* delivered WHOLE, at the collector: when the commit of collect id c is processed and c was
   not cancelled, the single report call of that cycle carries for c exactly the spans of
   everything the collector had been given for c in earlier cycles ([a_colls a]) followed by
   everything submitted for c in this very batch ([items_for c]), in order, each once; and c
   is inactive afterwards.  (What "had reached the collector" means across threads is the
   cut of the drain: known finding K1.) *)
Theorem C03_commit_delivers_whole :
  forall conv am b c a,
    alookup c (do_drops true (do_starts am (b_start b)) (b_drop b)) = Some a ->
    In c (b_commit b) ->
    map core3 (tagged c (snd (process_owned conv true am b))) =
    flat_map coll_cores (a_colls a ++ items_for c (b_submit b)) /\
    amem c (fst (process_owned conv true am b)) = false.
Proof. exact cancelable_commit_delivers_whole. Qed.

Example C03_commit_delivers_whole_example :
  let held := mkActive [mkColl (SSpan (mkRaw 5 0 10 1 None KSpan 20)) 7 4] [] in
  let b := mkBatch [] [] [0] [(SSpan (mkRaw 4 0 5 2 None KSpan 30), [mkTok 7 100 0 true true]);
                              (SSpan (mkRaw 9 0 6 3 None KSpan 8), [mkTok 8 1 1 false true])] in
  map core3 (tagged 0 (snd (process_owned (fun x => x) true [(0, held); (1, mkActive [] [])] b)))
  = [(7, 5, 4); (7, 4, 100)].
Proof. vm_compute. reflexivity. Qed.

(* OVER THE SCHEDULER.  In any reachable state of the system model, cancelable configuration:
   when a cycle begins (collector idle, reporter installed) and runs to the end of its drain,
   interleaved in any way with calls, pushes and exits of any threads, and the commit of c
   was in a registered thread's ring at the beginning (c active, or its start in a ring as
   well; c not cancelled in this batch): the ONE report of that cycle contains the record of
   every span of every SubmitSpans for c that was in any registered thread's ring at the
   beginning, and c is gone afterwards.  A trace whose spans and root were all finished
   (and pushed) before a cycle begins is delivered whole, in one report, by that cycle. *)
Theorem C03_whole_trace_in_rings_is_reported_in_one_report :
  forall dbg ringcap stackcap qcap h0 h c,
    let s := fst (run (sys_init dbg ringcap stackcap qcap) h0) in
    let s1 := fst (run s (ACBegin :: h)) in
    s_pc s = PIdle -> s_installed s = true -> no_process h ->
    s_pc s1 = PDrained -> s_cancelable s1 = true ->
    (exists tc, In (tc, CCommit c) (ring_commands s)) ->
    amem c (s_active s1) = true \/ (exists ts, In (ts, CStart c) (ring_commands s)) ->
    ~ In c (b_drop (s_batch s1)) ->
    exists recs st n,
      snd (step s1 ACProcess) = OReport recs st n /\
      amem c (s_active (fst (step s1 ACProcess))) = false /\
      forall t sp tk it, In (t, CSubmit sp tk) (ring_commands s) -> In it tk -> ti_collect it = c ->
        incl (coll_cores (mkColl sp (ti_trace it) (ti_parent it))) (map core3 recs).
Proof. exact whole_trace_in_rings_is_reported_in_one_report. Qed.

(* the same from the threads' side: [landed t c s] -- thread t has pushed c (it is in t's ring,
   or already in the batch).  In any reachable idle state, once the commit of c has landed: the
   cycle that begins now reports, in its one report, every span of every SubmitSpans for c that
   has landed, from whatever thread.  (That a finished span's commands land is
   C01_commands_of_a_call_land.) *)
Theorem C03_landed_trace_is_reported_whole :
  forall dbg ringcap stackcap qcap h0 h c,
    let s := fst (run (sys_init dbg ringcap stackcap qcap) h0) in
    let s1 := fst (run s (ACBegin :: h)) in
    s_pc s = PIdle -> s_installed s = true -> no_process h ->
    s_pc s1 = PDrained -> s_cancelable s1 = true ->
    (exists tc, landed tc (CCommit c) s) ->
    amem c (s_active s1) = true \/ (exists ts, landed ts (CStart c) s) ->
    ~ In c (b_drop (s_batch s1)) ->
    exists recs st n,
      snd (step s1 ACProcess) = OReport recs st n /\
      amem c (s_active (fst (step s1 ACProcess))) = false /\
      forall t sp tk it, landed t (CSubmit sp tk) s -> In it tk -> ti_collect it = c ->
        incl (coll_cores (mkColl sp (ti_trace it) (ti_parent it))) (map core3 recs).
Proof. exact landed_trace_is_reported_whole. Qed.

(* ACROSS CYCLES.  A SubmitSpans for c processed by one cycle (c active or started, neither
   cancelled nor committed in that batch) is held by the collector -- through any history
   without a process step or a new reporter, whatever threads and drains do -- and the cycle
   whose batch carries the commit of c (c not started again, not cancelled) reports its spans
   and forgets c.  With C03_hold (nothing of c is reported before its commit) this is "held
   until the root finishes, then delivered" for everything that reached the collector. *)
Theorem C03_held_submit_is_reported_with_the_commit :
  forall s1 h s2 c sp tk it,
    s_pc s1 = PDrained -> s_cancelable s1 = true ->
    amem c (s_active s1) = true \/ In c (b_start (s_batch s1)) ->
    ~ In c (b_drop (s_batch s1)) -> ~ In c (b_commit (s_batch s1)) ->
    In (sp, tk) (b_submit (s_batch s1)) -> In it tk -> ti_collect it = c ->
    no_process_no_install h ->
    s2 = fst (run (fst (step s1 ACProcess)) h) ->
    s_pc s2 = PDrained -> s_cancelable s2 = true ->
    ~ In c (b_start (s_batch s2)) -> ~ In c (b_drop (s_batch s2)) -> In c (b_commit (s_batch s2)) ->
    exists recs st n,
      snd (step s2 ACProcess) = OReport recs st n /\
      incl (coll_cores (mkColl sp (ti_trace it) (ti_parent it))) (map core3 recs) /\
      amem c (s_active (fst (step s2 ACProcess))) = false.
Proof. exact held_submit_is_reported_with_the_commit. Qed.

Theorem C03_held_after_process :
  forall conv am b c,
    amem c am = true \/ In c (b_start b) -> ~ In c (b_drop b) -> ~ In c (b_commit b) ->
    colls_at c (fst (process conv true am b)) =
    colls_at c (do_drops true (do_starts am (b_start b)) (b_drop b)) ++ items_for c (b_submit b) /\
    amem c (fst (process conv true am b)) = true.
Proof. exact held_after_process. Qed.

(* non-vacuity: a root and a child on one thread.  (1) everything pushed before the cycle:
   one report with both records.  (2) the child's submit drained by a first cycle (nothing
   reported, one collection held), the root finished afterwards: the second cycle reports both *)
Example C03_whole_examples :
  let pre := [AInstall true; ASpawn 1 1 0; ACall 1 (KRoot 1 2 77 5 true); APush 1; ACall 1 (KChild 2 3 1);
              ACall 1 (KDropSpan 2); APush 1] in
  let s := fst (run (sys_init false 8 16 16) (pre ++ [ACall 1 (KDropSpan 1); APush 1; APush 1])) in
  let s1 := fst (run s [ACBegin; ACPop; ACPop; ACPop; ACPop; ACPop; ACCheck]) in
  let t1 := fst (run (sys_init false 8 16 16) (pre ++ [ACBegin; ACPop; ACPop; ACPop; ACCheck])) in
  let t2 := fst (run (fst (step t1 ACProcess)) [ACall 1 (KDropSpan 1); APush 1; APush 1; ACBegin; ACPop; ACPop; ACPop; ACCheck]) in
  (s_pc s, s_installed s, s_pc s1, s_cancelable s1, b_drop (s_batch s1), b_commit (s_batch s1)) = (PIdle, true, PDrained, true, [], [0]) /\
  match snd (step s1 ACProcess) with OReport recs _ _ => map core3 recs | _ => [] end
    = [(77, 4294967298, 4294967297); (77, 4294967297, 5)] /\
  (s_pc t1, b_start (s_batch t1), b_commit (s_batch t1), s_pc t2, b_start (s_batch t2), b_commit (s_batch t2))
    = (PDrained, [0], [], PDrained, [], [0]) /\
  match snd (step t1 ACProcess) with OReport recs held _ => (map core3 recs, held) | _ => ([], []) end = ([], [(0, 1, 0)]) /\
  match snd (step t2 ACProcess) with OReport recs _ _ => map core3 recs | _ => [] end
    = [(77, 4294967298, 4294967297); (77, 4294967297, 5)].
Proof. vm_compute. repeat split; reflexivity. Qed.

(* HOLD, OVER THE SCHEDULER.  Through any history of calls, pushes, exits, spawns and drain
   steps of any threads (no process step, no new reporter), the commits in the collector's batch
   are those it held before followed by the CommitCollect commands POPPED along the history,
   in order.  Hence, cancelable configuration, starting from a state whose batch holds no
   commit (every reachable idle state: C03_idle_batch_has_no_commit): a record of collect id c
   is in the cycle's report only if this cycle popped the commit of c -- the root's finish --
   from some thread's channel during its own drain; a cycle that pops no commit reports
   nothing.  No interleaving makes a span of a trace reach the reporter before the collector
   has received the root's commit. *)
Theorem C03_batch_commits_are_the_popped_commits :
  forall h s, no_process_no_install h ->
    b_commit (s_batch (fst (run s h))) = b_commit (s_batch s) ++ popped_commits s h /\
    s_cancelable (fst (run s h)) = s_cancelable s.
Proof. exact run_commits. Qed.

Theorem C03_reported_only_after_commit_popped :
  forall s h recs st n r,
    no_process_no_install h -> s_cancelable s = true -> b_commit (s_batch s) = [] ->
    let s1 := fst (run s h) in
    snd (step s1 ACProcess) = OReport recs st n -> In r recs ->
    exists c, In c (popped_commits s h) /\
              In (c, r) (snd (process_owned (anchor_conv (s_nstep (s_tick s1))) true (s_active s1) (s_batch s1))).
Proof. exact reported_only_after_commit_popped. Qed.

Theorem C03_no_commit_popped_nothing_reported :
  forall s h recs st n,
    no_process_no_install h -> s_cancelable s = true -> b_commit (s_batch s) = [] ->
    popped_commits s h = [] ->
    snd (step (fst (run s h)) ACProcess) = OReport recs st n -> recs = [].
Proof. exact no_commit_popped_nothing_reported. Qed.

Theorem C03_idle_batch_has_no_commit :
  forall dbg ringcap stackcap qcap h0,
    let s := fst (run (sys_init dbg ringcap stackcap qcap) h0) in
    s_pc s = PIdle -> b_commit (s_batch s) = [].
Proof. exact idle_batch_has_no_commit. Qed.

(* non-vacuity: a root with a finished child whose submit is drained while the root is still
   open: the cycle popped no commit and reports nothing although it holds the child's span;
   after the root's finish the next cycle pops commit 0 and reports both *)
Example C03_hold_example :
  let pre := [AInstall true; ASpawn 1 1 0; ACall 1 (KRoot 1 2 77 5 true); APush 1; ACall 1 (KChild 2 3 1);
              ACall 1 (KDropSpan 2); APush 1] in
  let s := fst (run (sys_init false 8 16 16) pre) in
  let h := [ACBegin; ACPop; ACPop; ACPop; ACCheck] in
  let s' := fst (run (fst (step (fst (run s h)) ACProcess)) [ACall 1 (KDropSpan 1); APush 1; APush 1]) in
  let h' := [ACBegin; ACPop; ACPop; ACPop; ACCheck] in
  (s_pc s, s_cancelable s, b_commit (s_batch s), popped_commits s h) = (PIdle, true, [], []) /\
  snd (step (fst (run s h)) ACProcess) = OReport [] [(0, 1, 0)] 1 /\
  (s_pc s', popped_commits s' h') = (PIdle, [0]) /\
  match snd (step (fst (run s' h')) ACProcess) with OReport recs _ _ => map core3 recs | _ => [] end
    = [(77, 4294967298, 4294967297); (77, 4294967297, 5)].
Proof. vm_compute. repeat split; reflexivity. Qed.

Print Assumptions C03_hold.
Print Assumptions C03_no_commit_no_report.
Print Assumptions C03_nothing_afterwards.
Print Assumptions C03_commit_deactivates.
Print Assumptions C03_commit_delivers_whole.
Print Assumptions C03_whole_trace_in_rings_is_reported_in_one_report.
Print Assumptions C03_held_submit_is_reported_with_the_commit.
Print Assumptions C03_held_after_process.
Print Assumptions C03_landed_trace_is_reported_whole.
Print Assumptions C03_batch_commits_are_the_popped_commits.
Print Assumptions C03_reported_only_after_commit_popped.
Print Assumptions C03_no_commit_popped_nothing_reported.
Print Assumptions C03_idle_batch_has_no_commit.
