(* C03 -- Cancelable mode holds a trace until its root finishes, then delivers it whole.
   Only pinned statements, closed by [exact lemma], with Print Assumptions. *)
From Coq Require Import List NArith Bool.
From FT Require Import Model.Base Model.Records Model.Collector Proofs.CollectorProofs.
Import ListNotations.
Open Scope N_scope.

(* hold: whatever the collector state and whatever the batch, in cancelable mode every record
   handed to the reporter belongs to a collect id whose CommitCollect is in this very batch *)
Theorem C03_hold :
  forall conv am b c r,
    In (c, r) (snd (process_owned conv true am b)) -> In c (b_commit b).
Proof. exact cancelable_reports_only_committed. Qed.

Theorem C03_no_commit_no_report :
  forall conv am b, b_commit b = [] -> snd (process conv true am b) = [].
Proof. exact cancelable_no_commit_no_report. Qed.

(* nothing afterwards: a trace that is no longer active (its commit was processed) and is not
   started again -- collect ids are never reused -- is never reported again *)
Theorem C03_nothing_afterwards :
  forall conv am b c r,
    amem c am = false -> ~ In c (b_start b) ->
    ~ In (c, r) (snd (process_owned conv true am b)).
Proof. exact inactive_stays_silent. Qed.

Theorem C03_commit_deactivates :
  forall conv cb am b c, In c (b_commit b) -> amem c (fst (process_owned conv cb am b)) = false.
Proof. exact commit_removes. Qed.

Print Assumptions C03_hold.
Print Assumptions C03_no_commit_no_report.
Print Assumptions C03_nothing_afterwards.
Print Assumptions C03_commit_deactivates.
