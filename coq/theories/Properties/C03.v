(* C03 -- Cancelable mode holds a trace until its root finishes, then delivers it whole.
   Only pinned statements, closed by [exact lemma], with Print Assumptions. *)
From Coq Require Import List NArith Bool.
From FT Require Import Model.Base Model.Records Model.Collector Proofs.CollectorProofs Proofs.DeliveryProofs.
Import ListNotations.
Open Scope N_scope.

(* hold: whatever the collector state and whatever the batch, in cancelable mode every record
   handed to the reporter belongs to a collect id whose CommitCollect is in this very batch *)
Theorem C03_hold :
  forall conv am b c r,
    In (c, r) (snd (process_owned conv true am b)) -> In c (b_commit b).
Proof. exact cancelable_reports_only_committed. Qed.

Theorem C03_no_commit_no_report :
  forall conv am b, b_commit b = [] -> snd (process conv true am b) = [].
Proof. exact cancelable_no_commit_no_report. Qed.

(* nothing afterwards: a trace that is no longer active (its commit was processed) and is not
   started again -- collect ids are never reused -- is never reported again *)
Theorem C03_nothing_afterwards :
  forall conv am b c r,
    amem c am = false -> ~ In c (b_start b) ->
    ~ In (c, r) (snd (process_owned conv true am b)).
Proof. exact inactive_stays_silent. Qed.

Theorem C03_commit_deactivates :
  forall conv cb am b c, In c (b_commit b) -> amem c (fst (process_owned conv cb am b)) = false.
Proof. exact commit_removes. Qed.

(* delivered WHOLE, at the collector: when the commit of collect id c is processed and c was
   not cancelled, the single report call of that cycle carries for c exactly the spans of
   everything the collector had been given for c in earlier cycles ([a_colls a]) followed by
   everything submitted for c in this very batch ([items_for c]), in order, each once; and c
   is inactive afterwards.  (What "had reached the collector" means across threads is the
   cut of the drain: known finding K1.) *)
Theorem C03_commit_delivers_whole :
  forall conv am b c a,
    alookup c (do_drops true (do_starts am (b_start b)) (b_drop b)) = Some a ->
    In c (b_commit b) ->
    map core3 (tagged c (snd (process_owned conv true am b))) =
    flat_map coll_cores (a_colls a ++ items_for c (b_submit b)) /\
    amem c (fst (process_owned conv true am b)) = false.
Proof. exact cancelable_commit_delivers_whole. Qed.

Example C03_commit_delivers_whole_example :
  let held := mkActive [mkColl (SSpan (mkRaw 5 0 10 1 None KSpan 20)) 7 4] [] in
  let b := mkBatch [] [] [0] [(SSpan (mkRaw 4 0 5 2 None KSpan 30), [mkTok 7 100 0 true true]);
                              (SSpan (mkRaw 9 0 6 3 None KSpan 8), [mkTok 8 1 1 false true])] in
  map core3 (tagged 0 (snd (process_owned (fun x => x) true [(0, held); (1, mkActive [] [])] b)))
  = [(7, 5, 4); (7, 4, 100)].
Proof. vm_compute. reflexivity. Qed.

Print Assumptions C03_hold.
Print Assumptions C03_no_commit_no_report.
Print Assumptions C03_nothing_afterwards.
Print Assumptions C03_commit_deactivates.
Print Assumptions C03_commit_delivers_whole.
