(* C05 -- Unsampled traces are never delivered and the decision propagates.
   Only pinned statements, closed by [exact lemma], with Print Assumptions. *)
From Coq Require Import List NArith Bool.
From FT Require Import Model.Base Model.Local Model.Records Model.Collector Model.System
     Proofs.TokenProofs Proofs.SystemProofs Proofs.ApiProofs.
Import ListNotations.
Open Scope N_scope.

(* For every history -- any number of threads, any program over the span API, any schedule of
   ring pushes, thread exits and collector micro-steps, either configuration, any
   capacities -- every record handed to the reporter carries the trace id of some root that
   the history created with sampled = true. *)
Theorem C05_reported_only_sampled_traces :
  forall dbg rc sc qc h,
    Forall (fun o => match o with
                     | OReport recs _ _ => Forall (fun r => In (rc_trace r, true) (roots_of h)) recs
                     | _ => True
                     end) (snd (run (sys_init dbg rc sc qc) h)).
Proof. exact reported_only_sampled_traces. Qed.

(* Hence a trace id that was only ever given to unsampled roots produces no reporter output
   at all: no root, descendant, local span, event, property or attached set. *)
Theorem C05_unsampled_traces_silent :
  forall dbg rc sc qc h tr,
    ~ In (tr, true) (roots_of h) ->
    Forall (fun o => match o with
                     | OReport recs _ _ => Forall (fun r => rc_trace r <> tr) recs
                     | _ => True
                     end) (snd (run (sys_init dbg rc sc qc) h)).
Proof. exact unsampled_traces_silent. Qed.

(* every span set that is sent carries sampled items only: submit_spans filters *)
Theorem C05_submit_filters :
  forall (R : N -> bool -> Prop) s tk, oktok R tk -> okout R (submit s tk).
Proof. exact submit_ok. Qed.

(* extracted contexts carry the sampling flag and trace id of the first token item *)
Theorem C05_from_span_flag :
  forall s th e h sp, get_span s h = Some (Some sp) ->
    exec_call s th e (KFromSpan h) = COk s th e [] (RCtx (ctx_of_span sp)).
Proof. exact from_span_spec. Qed.

(* non-vacuity: one sampled and one unsampled root, a child under both, finished and
   collected; only the sampled trace (7) is reported, twice (root and child copy) *)
Example C05_example :
  let h := [AInstall false; ASpawn 0 1 0;
            ACall 0 (KRoot 1 10 7 0 true); APush 0; ACall 0 (KRoot 2 11 8 0 false);
            ACall 0 (KChildMany 3 12 [1; 2]); ACall 0 (KDropSpan 3); APush 0;
            ACall 0 (KDropSpan 2); APush 0; ACall 0 (KDropSpan 1); APush 0; APush 0;
            ACBegin; ACPop; ACPop; ACPop; ACPop; ACPop; ACPop; ACCheck; ACProcess] in
  match last (snd (run (sys_init true 8 8 8) h)) ONone with
  | OReport recs _ _ => map rc_trace recs = [7; 7]
  | _ => False
  end.
Proof. vm_compute. reflexivity. Qed.

(* every context the API hands out (from_span, current_local_parent), in every history and
   under every schedule, carries the trace id and the sampling decision of a root the program
   created: sampled = true only for a trace with a sampled root; the contexts of a trace whose
   roots are all unsampled carry sampled = false *)
Theorem C05_extracted_contexts_from_roots :
  forall dbg rc sc qc h,
    Forall (fun o => match o with
                     | OCall (RCtx (Some c)) => In (fst (fst c), snd c) (roots_of h)
                     | _ => True
                     end) (snd (run (sys_init dbg rc sc qc) h)).
Proof. exact extracted_contexts_from_roots. Qed.

Print Assumptions C05_reported_only_sampled_traces.
Print Assumptions C05_unsampled_traces_silent.
Print Assumptions C05_submit_filters.
Print Assumptions C05_from_span_flag.
Print Assumptions C05_extracted_contexts_from_roots.
