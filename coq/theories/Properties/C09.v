(* C09 -- Overload degrades by omission only.
   Only pinned statements, closed by [exact lemma], with Print Assumptions. *)
From Coq Require Import List NArith Bool.
From FT Require Import Model.Base Model.Local Model.Records Model.Spsc Model.Collector Model.System Proofs.SpscProofs Proofs.LimitProofs
     Proofs.HistoryProofs Proofs.FifoProofs.
Import ListNotations.
Open Scope N_scope.

(* For every capacity, every sequence of messages handed to send/force_send and every
   interleaving of the producer's ring pushes with the consumer's pops: the forced messages
   (start, commit, drop) that have been popped, are in the ring, in the overflow list or still
   to be sent are exactly the forced messages given, in the order given -- none dropped,
   none reordered, none duplicated, while the thread lives. *)
Theorem C09_forced_fifo_no_loss :
  forall (A : Type) (forced : A -> bool) (s : pstate) (ms : list mstep),
    filter forced (line (run_micro forced s ms)) = filter forced (line s).
Proof. exact @forced_line_invariant. Qed.

Theorem C09_forced_popped_prefix :
  forall (A : Type) (forced : A -> bool) (c : chan A) (out : list A) (ms : list mstep),
    ch_ring c = [] -> ch_pending c = [] ->
    let s := run_micro forced (mkP c out []) ms in
    exists rest, filter forced out = filter forced (p_popped s) ++ rest /\
                 rest = filter forced (ch_ring (p_chan s) ++ ch_pending (p_chan s) ++ p_out s).
Proof. exact @forced_popped_prefix. Qed.

(* Unforced messages (span sets) are either kept, in order, or dropped: everything the
   consumer ever sees is a thinning of what was sent that removes unforced messages only. *)
Theorem C09_omission_only :
  forall (A : Type) (forced : A -> bool) (c : chan A) (out : list A) (ms : list mstep),
    ch_ring c = [] -> ch_pending c = [] ->
    let s := run_micro forced (mkP c out []) ms in
    thinned (unforced forced) out
            (p_popped s ++ ch_ring (p_chan s) ++ ch_pending (p_chan s) ++ p_out s).
Proof. exact @popped_thinned. Qed.

(* A send returns after at most |overflow list| + 1 ring operations: a push that does not end
   the call strictly shortens the overflow list. *)
Theorem C09_send_bounded :
  forall (A : Type) (c : chan A) (f : bool) (v : A) (c' : chan A),
    push_step c f v = (c', false) -> (length (ch_pending c') < length (ch_pending c))%nat.
Proof. exact @push_step_progress. Qed.

(* The ring never holds more than its capacity. *)
Theorem C09_ring_bounded :
  forall (A : Type) (forced : A -> bool) (s : pstate) (m : mstep),
    ring_bounded s -> ring_bounded (micro forced s m).
Proof. exact @micro_ring_bounded. Qed.

(* non-vacuity: a ring of capacity 1, three forced and one unforced message, a pop in the
   middle: the forced ones come out in order, the unforced one sent while full is dropped *)
Example C09_example :
  let forced := fun x : N => negb (x =? 9) in
  let s := run_micro forced (mkP (ch_new 1) [1; 2; 9; 3; 4] [])
                     [MPush; MPush; MPush; MPop; MPush; MPush; MPop; MPush; MPush; MPop] in
  p_popped s = [1; 2; 3] /\ p_out s = [] /\ ch_pending (p_chan s) = [4].
Proof. vm_compute. repeat split; reflexivity. Qed.

Check (C09_forced_fifo_no_loss :
  forall (A : Type) (forced : A -> bool) (s : pstate) (ms : list mstep),
    filter forced (line (run_micro forced s ms)) = filter forced (line s)).

(* the per-scope span limit: once a scope's span queue is full, opening a local span, an event
   and properties are skipped with no effect at all -- nothing already recorded is touched, no
   id is drawn, the current parent does not move -- so the recorded spans keep their parents;
   and the scope stays full (finishing recorded spans makes no room) *)
Theorem C09_full_scope_skips_spans :
  forall st name e, top_full st -> s_enter st name e = (None, e).
Proof. exact full_enter_skipped. Qed.

Theorem C09_full_scope_skips_events :
  forall st name ps e, top_full st -> s_add_event st name ps e = (st, e).
Proof. exact full_event_skipped. Qed.

Theorem C09_full_scope_skips_properties :
  forall st ps e, top_full st -> s_add_props st ps e = (st, e).
Proof. exact full_props_skipped. Qed.

Theorem C09_full_scope_stays_full :
  forall dbg st h e st' e', top_full st -> s_exit dbg st h e = Ok (st', e') -> top_full st'.
Proof. exact full_stays_full_after_exit. Qed.

(* AT THE SYSTEM LEVEL.  Control commands = StartCollect, DropCollect, CommitCollect (finish
   and cancel signals; everything but SubmitSpans).  [flight_of t s]: what thread t's sender
   holds, oldest first (ring, then what is parked behind a full ring, then what the current
   call has not handed over yet); [emitted t s h] / [popped_from t s h]: what t's calls hand to
   the sender / what the collector pops out of t's ring along the history h.  For EVERY state
   in which t lives, every history in which t does not exit -- any ring capacity, any calls,
   single pushes and exits of other threads, collector pops placed anywhere: popped ++ still
   in flight = in flight at the beginning ++ emitted since, as SEQUENCES of control commands.
   No finish or cancel signal is dropped, duplicated or reordered while the thread lives. *)
Theorem C09_control_commands_fifo_over_histories :
  forall t h s,
    alive t s -> never_exits t h ->
    alive t (fst (run s h)) /\
    ctl (flight_of t s) ++ ctl (emitted t s h) =
    ctl (popped_from t s h) ++ ctl (flight_of t (fst (run s h))).
Proof. exact run_fifo. Qed.

(* a freshly spawned thread is alive with nothing in flight *)
Theorem C09_spawned_thread_is_alive :
  forall s t prefix suffix,
    amem t (s_threads s) = false -> in_drain (s_pc s) = false ->
    alive t (fst (step s (ASpawn t prefix suffix))) /\ flight_of t (fst (step s (ASpawn t prefix suffix))) = [].
Proof. exact spawned_alive. Qed.

(* every call marks exactly its control commands as forced *)
Theorem C09_forced_flag_is_control_command :
  forall s th e c s1 th1 e1 out r, exec_call s th e c = COk s1 th1 e1 out r -> flags_ok out.
Proof. exact exec_call_flags. Qed.

(* non-vacuity, ring capacity 1: a root started and finished (its span set does not fit and is
   dropped, its commit is parked and replayed), a second root started and cancelled; three
   cycles.  1 = start, 2 = cancel, 3 = commit, 4 = span set *)
Example C09_fifo_example :
  let s0 := fst (run (sys_init false 1 16 16) [AInstall true; ASpawn 1 1 0]) in
  let h := [ACall 1 (KRoot 1 2 77 5 true); APush 1; ACall 1 (KDropSpan 1); APush 1; APush 1;
            ACBegin; ACPop; ACPop; ACCheck; ACProcess;
            ACall 1 (KRoot 2 2 78 5 true); APush 1; APush 1; APush 1; ACall 1 (KCancel 2); APush 1; APush 1;
            ACBegin; ACPop; ACPop; ACCheck; ACProcess; ACBegin; ACPop; ACPop; ACCheck; ACProcess] in
  let kind := fun c => match c with CStart i => (1, i) | CDrop i => (2, i) | CCommit i => (3, i) | CSubmit _ _ => (4, 0) end in
  map kind (emitted 1 s0 h) = [(1, 0); (4, 0); (3, 0); (1, 1); (2, 1)] /\
  map kind (popped_from 1 s0 h) = [(1, 0); (3, 0)] /\
  map kind (flight_of 1 (fst (run s0 h))) = [(1, 1); (2, 1)].
Proof. vm_compute. repeat split; reflexivity. Qed.

Print Assumptions C09_forced_fifo_no_loss.
Print Assumptions C09_forced_popped_prefix.
Print Assumptions C09_omission_only.
Print Assumptions C09_send_bounded.
Print Assumptions C09_ring_bounded.
Print Assumptions C09_full_scope_skips_spans.
Print Assumptions C09_full_scope_skips_events.
Print Assumptions C09_full_scope_skips_properties.
Print Assumptions C09_full_scope_stays_full.
Print Assumptions C09_control_commands_fifo_over_histories.
Print Assumptions C09_spawned_thread_is_alive.
Print Assumptions C09_forced_flag_is_control_command.
