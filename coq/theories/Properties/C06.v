(* C06 -- Properties and events are delivered on the span they were attached to.
   Only pinned statements, closed by [exact lemma], with Print Assumptions. *)
From Coq Require Import List NArith Bool.
From FT Require Import Model.Base Model.Records Proofs.RecordsProofs Proofs.AttachProofs.
Import ListNotations.
Open Scope N_scope.

(* an attachment (pseudo-span of kind Properties / Event) submitted under span id p produces
   no record and is parked under p behind what is already parked there *)
Theorem C06_attachment_parked :
  forall conv sp trace p d,
    r_kind sp <> KSpan ->
    exists it, postprocess conv [mkColl (SSpan sp) trace p] d = ([], dang_push p it d) /\
      match r_kind sp with
      | KEvent => it = DEvent (mkEv (r_name sp) (conv (r_begin sp)) (oprops (r_props sp)))
      | KProps => it = DProps (oprops (r_props sp))
      | KSpan => False
      end.
Proof. exact attachment_parked. Qed.

Theorem C06_parked_in_order :
  forall k it (d : danglings),
    alookup k (dang_push k it d) = Some (match alookup k d with Some v => v ++ [it] | None => [it] end).
Proof. exact alookup_dang_push_same. Qed.

Theorem C06_other_buckets_untouched :
  forall k k' it (d : danglings), k <> k' -> alookup k (dang_push k' it d) = alookup k d.
Proof. exact alookup_dang_push_other. Qed.

(* when the span is processed -- in this cycle or any later one, the bucket persists with the
   trace -- it takes the whole bucket: its own properties first, then the attached ones in
   the order they were parked; events likewise; the bucket is consumed (exactly once) *)
Theorem C06_span_takes_bucket :
  forall conv sp trace parent d items,
    r_kind sp = KSpan -> alookup (r_id sp) d = Some items ->
    exists r, postprocess conv [mkColl (SSpan sp) trace parent] d = ([r], aremove (r_id sp) d) /\
      rc_props r = oprops (r_props sp) ++ add_props_of items /\
      rc_events r = add_events_of items.
Proof. exact span_takes_bucket. Qed.

(* records whose id has no bucket are delivered exactly as recorded *)
Theorem C06_no_bucket_no_change :
  forall recs d, (forall r, In r recs -> alookup (rc_id r) d = None) -> mount_danglings recs d = (recs, d).
Proof. exact mount_untouched. Qed.

(* mounting never changes ids, parents, times or names *)
Theorem C06_mount_preserves_core :
  forall recs d, map core (fst (mount_danglings recs d)) = map core recs.
Proof. exact mount_core. Qed.

(* THE WHOLE REPORT.  For records with pairwise distinct span ids (distinct spans have distinct
   ids: C02; the exception is K2), mounting gives every record exactly its own bucket and no
   record anything else; the buckets of the ids present are consumed, every other bucket stays
   (for a span that finishes later) *)
Theorem C06_every_record_takes_exactly_its_bucket :
  forall recs d,
    NoDup (map rc_id recs) ->
    mount_danglings recs d = (map (with_bucket d) recs, remove_ids (map rc_id recs) d).
Proof. exact mount_spec. Qed.

Theorem C06_record_contents :
  forall recs d r,
    NoDup (map rc_id recs) -> In r recs ->
    exists r', In r' (fst (mount_danglings recs d)) /\ core r' = core r /\
      rc_props r' = rc_props r ++ add_props_of (match alookup (rc_id r) d with Some i => i | None => [] end) /\
      rc_events r' = rc_events r ++ add_events_of (match alookup (rc_id r) d with Some i => i | None => [] end).
Proof. exact mount_record_contents. Qed.

(* one local-span set: every span's record carries its own properties, then what was parked for
   it before, then the set's own local-parent properties / events recorded while it was the
   innermost open span, in recording order -- and nothing addressed to another span *)
Theorem C06_local_set_attachments :
  forall conv rs end_time trace parent d,
    NoDup (map r_id (filter is_kspan rs)) ->
    fst (postprocess conv [mkColl (SLocal rs end_time) trace parent] d) =
    map (fun sp =>
           let items := match alookup (r_id sp) d with Some v => v | None => [] end ++
                        mine (r_id sp) (flat_map (dang_of conv parent) rs) in
           fold_left apply_ditem items (base_record conv trace parent end_time sp))
        (filter is_kspan rs).
Proof. exact local_set_attachments. Qed.

(* K2 (known finding): two records with one span id in one trace -- a multi-parent span whose
   parents share the trace -- the first copy takes the whole bucket, the second gets nothing *)
Example C06_same_trace_copies_refuted :
  let r := mkRec 1 5 2 0 0 9 [] [] in
  let r' := mkRec 1 5 3 0 0 9 [] [] in
  fst (mount_danglings [r; r'] [(5, [DProps [(7, 8)]; DProps [(7, 8)]])]) =
  [mkRec 1 5 2 0 0 9 [(7, 8); (7, 8)] []; r'].
Proof. vm_compute. reflexivity. Qed.

Print Assumptions C06_attachment_parked.
Print Assumptions C06_parked_in_order.
Print Assumptions C06_other_buckets_untouched.
Print Assumptions C06_span_takes_bucket.
Print Assumptions C06_no_bucket_no_change.
Print Assumptions C06_mount_preserves_core.
Print Assumptions C06_every_record_takes_exactly_its_bucket.
Print Assumptions C06_record_contents.
Print Assumptions C06_local_set_attachments.
