(* C16 -- Disabled tracing is inert and lazy (the enabled build's not-recording spans).
   Only pinned statements, closed by [exact lemma], with Print Assumptions.
   The build without the `enable` feature is the constant model (every call is the identity);
   it is decided by running the same histories against that build (harness/disabled). *)
From Coq Require Import List NArith Bool.
From FT Require Import Model.Base Model.Local Model.Records Model.Collector Model.System Proofs.ApiProofs.
Import ListNotations.
Open Scope N_scope.

(* calls on a no-op span change nothing, push nothing and invoke no closure *)
Theorem C16_noop_span_inert :
  forall s th e h,
    get_span s h = Some None ->
    (forall ps, exec_call s th e (KSWithProps h ps) = COk s th e [] (RBool false)) /\
    (forall ps, exec_call s th e (KSAddProps h ps) = COk s th e [] (RBool false)) /\
    (forall name ps, exec_call s th e (KSAddEvent h name ps) = COk s th e [] RUnit) /\
    exec_call s th e (KCancel h) = COk s th e [] RUnit /\
    exec_call s th e (KElapsed h) = COk s th e [] (RBool false) /\
    exec_call s th e (KFromSpan h) = COk s th e [] (RCtx None) /\
    (forall ls v, alookup ls (s_lsets s) = Some v -> exec_call s th e (KPushChild h ls) = COk s th e [] RUnit).
Proof. exact noop_span_inert. Qed.

Theorem C16_child_of_noop :
  forall s th e h name p,
    amem h (s_spans s) = false -> get_span s p = Some None ->
    exec_call s th e (KChild h name p) = COk (s_set_spans s ((h, None) :: s_spans s)) th e [] RUnit.
Proof. exact child_of_noop. Qed.

Theorem C16_drop_noop :
  forall s th e h, get_span s h = Some None ->
    exec_call s th e (KDropSpan h) = COk (s_set_spans s (aremove h (s_spans s))) th e [] RUnit.
Proof. exact drop_noop. Qed.

(* before a reporter is installed every root is a no-op span *)
Theorem C16_root_before_reporter :
  forall s th e h name tr spn sa,
    s_ready s = false -> amem h (s_spans s) = false ->
    exec_call s th e (KRoot h name tr spn sa) = COk (s_set_spans s ((h, None) :: s_spans s)) th e [] RUnit.
Proof. exact root_before_reporter. Qed.

(* local operations with no local parent *)
Theorem C16_no_local_parent_inert :
  forall s th e,
    st_lines (th_stack th) = [] ->
    (forall ps, exec_call s th e (KLAddProps ps) = COk s th e [] (RBool false)) /\
    (forall name ps, exists th', exec_call s th e (KLAddEvent name ps) = COk s th' e [] RUnit /\
                                 th_stack th' = th_stack th) /\
    (forall l name, scoped_id_free l (th_scoped th) = true ->
                    exec_call s th e (KLEnter l name) =
                    COk s (th_set_scoped th (ScLocal l None :: th_scoped th)) e [] RUnit) /\
    (forall h name, amem h (s_spans s) = false ->
                    exec_call s th e (KChildLocal h name) =
                    COk (s_set_spans s ((h, None) :: s_spans s)) th e [] RUnit) /\
    exec_call s th e KCurLocal = COk s th e [] (RCtx None).
Proof. exact no_local_parent_inert. Qed.

Theorem C16_local_span_not_recording_is_lazy :
  forall s th e l ps, find_local l (th_scoped th) = Some None ->
    exec_call s th e (KLWithProps l ps) = COk s th e [] (RBool false).
Proof. exact lwith_not_recording. Qed.

Print Assumptions C16_noop_span_inert.
Print Assumptions C16_child_of_noop.
Print Assumptions C16_drop_noop.
Print Assumptions C16_root_before_reporter.
Print Assumptions C16_no_local_parent_inert.
Print Assumptions C16_local_span_not_recording_is_lazy.
