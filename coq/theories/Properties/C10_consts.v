(* C10: obligations over what is translated from fastrace/src/local/local_span_stack.rs and
   local_span_line.rs on every run (Generated/SrcConstants.v): the scope stamp ("span line
   epoch") has the same width in the per-thread counter, in the scope, in the handle of a
   local span and in the handle of a scope, and is never cast.  With that, the machine
   comparison of stamps is the model's comparison (Proofs/EpochProofs.v). *)
From Coq Require Import NArith List.
From FT Require Import Generated.SrcConstants Proofs.EpochProofs.
Open Scope N_scope.

Theorem C10_src_epoch_widths_agree :
  src_epoch_bits_stamp = src_epoch_bits_counter /\
  src_epoch_bits_handle = src_epoch_bits_counter /\
  src_epoch_bits_line_handle = src_epoch_bits_counter /\
  src_epoch_casts = 0.
Proof. vm_compute. repeat split; reflexivity. Qed.

(* hence: a local-span handle is honoured by exactly the scope it was created in, for any two
   scopes opened fewer than 2^width openings apart on a thread *)
Theorem C10_src_handles_exact :
  forall a b, a <= b -> b - a < 2 ^ src_epoch_bits_counter ->
    honoured src_epoch_bits_counter src_epoch_bits_handle b a = (a =? b).
Proof.
  intros a b. destruct C10_src_epoch_widths_agree as (_ & -> & _). apply same_width_exact.
Qed.

(* what a narrower handle would do (for any widths) *)
Theorem C10_narrow_handle_refuted :
  forall wc wh, wh < wc -> exists e, e < 2 ^ wc /\ honoured wc wh e e = false.
Proof. exact narrow_handle_refuted. Qed.

Print Assumptions C10_src_epoch_widths_agree.
Print Assumptions C10_src_handles_exact.
Print Assumptions C10_narrow_handle_refuted.
