(* C07 -- Tracing calls never panic, block or deadlock the host.
   Only pinned statements, closed by [exact lemma], with Print Assumptions. *)
From Coq Require Import List NArith Bool.
From FT Require Import Model.Base Model.Local Model.LocalProg Model.Spsc Proofs.LocalProofs Proofs.SpscProofs.
Import ListNotations.
Open Scope N_scope.

(* The thread-local layer carries every panic site of the recording path as an explicit
   [Panic] result (out-of-bounds index, the debug assertions of span_queue / local_span_stack,
   unwrap on an empty stack).  For every well-nested program -- scopes and local spans released
   in reverse order of creation, the one precondition C07 allows -- of any depth, on any stack,
   with any capacities (openings refused by a limit included), in the dev profile and in
   release, none of them is reached, provided ids are non-zero (K3 boundary). *)
Theorem C07_well_nested_never_panics :
  forall dbg p st e, nz st -> e_prefix e <> 0 -> exists st' e', exec dbg p st e = Ok (st', e').
Proof. exact no_panic. Qed.

(* send never blocks: a call performs at most |overflow list| + 1 ring operations *)
Theorem C07_send_bounded :
  forall (A : Type) (c : chan A) (f : bool) (v : A) (c' : chan A),
    push_step c f v = (c', false) -> (length (ch_pending c') < length (ch_pending c))%nat.
Proof. exact @push_step_progress. Qed.

Print Assumptions C07_well_nested_never_panics.
Print Assumptions C07_send_bounded.
