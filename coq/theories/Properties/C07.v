(* C07 -- Tracing calls never panic, block or deadlock the host.
   Only pinned statements, closed by [exact lemma], with Print Assumptions. *)
From Coq Require Import List NArith Bool.
From FT Require Import Model.Base Model.Local Model.LocalProg Model.Records Model.Spsc Model.Collector Model.System
     Proofs.LocalProofs Proofs.SpscProofs Proofs.WfProofs Proofs.NoPanicProofs.
Import ListNotations.
Open Scope N_scope.

(* The thread-local layer carries every panic site of the recording path as an explicit
   [Panic] result (out-of-bounds index, the debug assertions of span_queue / local_span_stack,
   unwrap on an empty stack).  For every well-nested program -- scopes and local spans released
   in reverse order of creation, the one precondition C07 allows -- of any depth, on any stack,
   with any capacities (openings refused by a limit included), in the dev profile and in
   release, none of them is reached, provided ids are non-zero (K3 boundary). *)
Theorem C07_well_nested_never_panics :
  forall dbg p st e, nz st -> e_prefix e <> 0 -> exists st' e', exec dbg p st e = Ok (st', e').
Proof. exact no_panic. Qed.

(* send never blocks: a call performs at most |overflow list| + 1 ring operations *)
Theorem C07_send_bounded :
  forall (A : Type) (c : chan A) (f : bool) (v : A) (c' : chan A),
    push_step c f v = (c', false) -> (length (ch_pending c') < length (ch_pending c))%nat.
Proof. exact @push_step_progress. Qed.

(* THE WHOLE API, system level.  [sys_inv] (Proofs/WfProofs.v, NoPanicProofs.v): the objects
   every thread holds (guards, local collectors, local spans, in creation order) match its
   span stack -- each local span with a handle sits on the line current when it was opened,
   the open spans of a line form its parent chain, line epochs strictly decrease down the
   stack -- tokens are never empty, id prefixes are non-zero.  [action_ok]: the K3 boundary
   (non-zero prefix at spawn), fewer than 2^64 steps, and the property's one precondition in
   the only place the model can violate it: a local collector is not collected while local
   spans opened after it are still open.  Every one of the 31 API calls (roots, children,
   guards, local spans, collectors, properties and events by every route, closures returning,
   cancel, drop, contexts, adapter polls), issued on a well-formed thread in either profile,
   returns without reaching any panic site and leaves the system well-formed. *)
Theorem C07_no_call_panics :
  forall s th e c b,
    tabs_inv s -> th_inv b th -> b + 1 < two64 -> e_prefix e = th_prefix th -> strict_call th c ->
    call_post b th e (exec_call s th e c).
Proof. exact exec_call_safe. Qed.

(* hence no history -- any threads, any programs (closures that re-enter, guards moved out of
   closures, refused openings, full queues), any schedule of pushes, exits and collector
   micro-steps, any capacities, dev or release profile -- whose actions meet [action_ok]
   ever shows a panic *)
Theorem C07_no_history_panics :
  forall dbg ringcap stackcap qcap h,
    run_ok (sys_init dbg ringcap stackcap qcap) h ->
    Forall (fun o => forall site, o <> OPanic site) (snd (run (sys_init dbg ringcap stackcap qcap) h)).
Proof. exact no_panic_from_init. Qed.

Theorem C07_step_keeps_well_formed :
  forall s a, sys_inv s -> action_ok (s_tick s) a ->
    sys_inv (fst (step s a)) /\ forall site, snd (step s a) <> OPanic site.
Proof. exact step_no_panic. Qed.

(* non-vacuity: a history with a scope, a local span with a properties closure that opens
   another scope and leaves it open (F13), and a collector meets the hypothesis *)
Example C07_run_ok_example :
  run_ok (sys_init true 4 8 8)
    [ASpawn 0 1 0; AInstall false; ACall 0 (KRoot 1 1 1001 0 true); APush 0;
     ACall 0 (KSetLocal 2 1); ACall 0 (KLEnter 4 5); ACall 0 (KLWithProps 4 [(7, 8)]);
     ACall 0 (KSetLocal 5 1); ACall 0 KClosureRet; ACall 0 (KDropGuard 5); APush 0; ACall 0 (KLExit 4);
     ACall 0 (KLcStart 6); ACall 0 (KLcCollect 6 9); ACall 0 (KDropGuard 2); APush 0; ACall 0 (KDropSpan 1); APush 0; APush 0].
Proof. apply run_okb_sound. vm_compute. reflexivity. Qed.

(* and the model does execute it without a refused action *)
Example C07_run_ok_example_runs :
  forallb (fun o => match o with OBad _ | OPanic _ => false | _ => true end)
    (snd (run (sys_init true 4 8 8)
    [ASpawn 0 1 0; AInstall false; ACall 0 (KRoot 1 1 1001 0 true); APush 0;
     ACall 0 (KSetLocal 2 1); ACall 0 (KLEnter 4 5); ACall 0 (KLWithProps 4 [(7, 8)]);
     ACall 0 (KSetLocal 5 1); ACall 0 KClosureRet; ACall 0 (KDropGuard 5); APush 0; ACall 0 (KLExit 4);
     ACall 0 (KLcStart 6); ACall 0 (KLcCollect 6 9); ACall 0 (KDropGuard 2); APush 0; ACall 0 (KDropSpan 1); APush 0; APush 0])) = true.
Proof. vm_compute. reflexivity. Qed.

Print Assumptions C07_well_nested_never_panics.
Print Assumptions C07_send_bounded.
Print Assumptions C07_no_call_panics.
Print Assumptions C07_no_history_panics.
Print Assumptions C07_step_keeps_well_formed.
