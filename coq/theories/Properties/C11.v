(* C11 -- Extracted span contexts identify the right span.
   Only pinned statements, closed by [exact lemma], with Print Assumptions. *)
From Coq Require Import List NArith Bool.
From FT Require Import Model.Base Model.Local Model.Records Model.Collector Model.System
     Model.Codec Proofs.CodecProofs Proofs.ApiProofs Proofs.RecordsProofs Proofs.SystemProofs.
Import ListNotations.
Open Scope N_scope.

(* from_span: trace id and sampling flag of the first token item, the span's own id *)
Theorem C11_from_span :
  forall s th e h sp, get_span s h = Some (Some sp) ->
    exec_call s th e (KFromSpan h) = COk s th e [] (RCtx (ctx_of_span sp)).
Proof. exact from_span_spec. Qed.

Theorem C11_from_span_noop :
  forall s th e h, get_span s h = Some None -> exec_call s th e (KFromSpan h) = COk s th e [] (RCtx None).
Proof. exact from_span_noop. Qed.

(* current_local_parent: the innermost scope's first token item with the innermost open
   local span (else the scope's span) as span id *)
Theorem C11_current_local_parent :
  forall s th e l ls it rest,
    st_lines (th_stack th) = l :: ls -> l_token l = Some (it :: rest) ->
    exec_call s th e KCurLocal =
    COk s th e [] (RCtx (Some (ti_trace it, odefault (ti_parent it) (q_next (l_q l)), ti_sampled it))).
Proof. exact cur_local_spec. Qed.

Theorem C11_current_local_parent_none :
  forall s th e, st_lines (th_stack th) = [] -> exec_call s th e KCurLocal = COk s th e [] (RCtx None).
Proof. exact cur_local_none_no_scope. Qed.

(* a root created from a context is delivered in that trace with that span as its parent *)
Theorem C11_remote_child :
  forall conv name tr spn id b e d,
    exists r d', postprocess conv [mkColl (SSpan (mkRaw id 0 b name None KSpan e)) tr spn] d = ([r], d') /\
                 rc_trace r = tr /\ rc_parent r = spn /\ rc_id r = id /\ rc_name r = name.
Proof. exact root_record_fields. Qed.

(* ... also after a traceparent encode / decode round trip (C12) *)
Theorem C11_roundtrip : forall c, wf_ctx c -> decode_traceparent (encode_traceparent c) = Some c.
Proof. exact decode_encode. Qed.

(* every context the API hands out (from_span, current_local_parent), in every history and
   under every schedule, carries the trace id and the sampling decision of a root the program
   created: sampled = true only for a trace with a sampled root; the contexts of a trace whose
   roots are all unsampled carry sampled = false *)
Theorem C11_extracted_contexts_from_roots :
  forall dbg rc sc qc h,
    Forall (fun o => match o with
                     | OCall (RCtx (Some c)) => In (fst (fst c), snd c) (roots_of h)
                     | _ => True
                     end) (snd (run (sys_init dbg rc sc qc) h)).
Proof. exact extracted_contexts_from_roots. Qed.

Print Assumptions C11_from_span.
Print Assumptions C11_from_span_noop.
Print Assumptions C11_current_local_parent.
Print Assumptions C11_current_local_parent_none.
Print Assumptions C11_remote_child.
Print Assumptions C11_roundtrip.
Print Assumptions C11_extracted_contexts_from_roots.
