(* C19 -- Bundled reporters transmit records faithfully: conversions of the three reporters,
   the number encodings of the Thrift compact protocol (Jaeger) and the msgpack primitives of
   the Datadog body.
   Only pinned statements, closed by [exact lemma], with Print Assumptions. *)
From Coq Require Import List NArith Bool.
From FT Require Import Model.Jaeger Model.Reporters Model.Thrift Proofs.JaegerProofs Proofs.ThriftProofs Proofs.ReportersProofs Proofs.DatadogProofs.
Import ListNotations.
Open Scope N_scope.

(* JaegerReporter::convert: the 128-bit trace id travels as two halves that recombine
   exactly; span and parent ids, name, tags unchanged and in order; start and duration in
   whole microseconds; every event becomes a log whose fields are ("name", event name)
   followed by the event's properties in order *)
Theorem C19_jaeger_convert_faithful :
  forall r,
    let s := convert r in
    j_trace_high s * two64j + j_trace_low s = jr_trace r /\
    j_span s = jr_id r /\ j_parent s = jr_parent r /\ j_name s = jr_name r /\
    j_start s = jr_begin r / 1000 /\ j_dur s = jr_dur r / 1000 /\
    j_tags s = jr_props r /\
    map (fun l => (jl_ts l, jl_fields l)) (j_logs s) =
    map (fun ev => (je_ts ev / 1000, (name_key, je_name ev) :: je_props ev)) (jr_events r).
Proof. exact convert_faithful. Qed.

Theorem C19_jaeger_microseconds : forall t, 1000 * (t / 1000) <= t /\ t < 1000 * (t / 1000) + 1000.
Proof. exact convert_microseconds. Qed.

(* every 64-bit id (top bit set included) survives `as i64` + zig-zag + varint, whatever
   follows it in the datagram *)
Theorem C19_i64_field_roundtrip :
  forall v rest, v < two64j ->
    match unvarint_fuel 10 (enc_i64 v ++ rest) with
    | Some (z, rest') => unzigzag64 z = v /\ rest' = rest
    | None => False
    end.
Proof. exact i64_field_roundtrip. Qed.

Theorem C19_varint_roundtrip :
  forall n rest, n < two64j -> unvarint_fuel 10 (varint n ++ rest) = Some (n, rest).
Proof. exact varint64_roundtrip. Qed.

(* Datadog: every field kept (low 64 bits of the trace id), the property set as a map *)
Theorem C19_datadog_convert_faithful :
  forall service resource ty r m,
    let s := dd_convert service resource ty r m in
    dd_name s = jr_name r /\ dd_service s = service /\ dd_resource s = resource /\ dd_type s = ty /\
    dd_start s = jr_begin r /\ dd_duration s = jr_dur r /\
    dd_span_id s = jr_id r /\ dd_parent_id s = jr_parent r /\ dd_trace_id s = jr_trace r mod two64j /\
    (jr_props r = [] -> dd_meta s = None) /\ (jr_props r <> [] -> dd_meta s = Some m).
Proof. exact dd_convert_faithful. Qed.

(* msgpack: unsigned integers and strings of every size class read back to what was written,
   whatever follows them (ids with the top bit set take the 8-byte form) *)
Theorem C19_msgpack_uint_roundtrip :
  forall n rest, n < two64j -> rd_int (mp_uint n ++ rest) = Some (n, rest).
Proof. exact rd_uint_roundtrip. Qed.

Theorem C19_msgpack_str_roundtrip :
  forall s rest, N.of_nat (length s) < 4294967296 -> rd_str (mp_str s ++ rest) = Some (s, rest).
Proof. exact rd_str_roundtrip. Qed.

(* OpenTelemetry: identity on every listed field, end = start + duration *)
Theorem C19_otel_convert_faithful :
  forall r,
    let s := otel_convert r in
    os_trace s = jr_trace r /\ os_span s = jr_id r /\ os_parent s = jr_parent r /\ os_name s = jr_name r /\
    os_start s = jr_begin r /\ os_end s = jr_begin r + jr_dur r /\ os_attrs s = jr_props r /\
    map (fun e => (oe_name e, oe_time e, oe_attrs e)) (os_events s) =
    map (fun e => (je_name e, je_ts e, je_props e)) (jr_events r).
Proof. exact otel_convert_faithful. Qed.

(* msgpack: signed integers (start, duration as i64) of every size class and both signs *)
Theorem C19_msgpack_sint_roundtrip :
  forall v rest, v < two64j -> rd_int (mp_sint v ++ rest) = Some (v, rest).
Proof. exact rd_sint_roundtrip. Qed.

(* Datadog: the WHOLE request body reads back to exactly the spans it was made from (every
   field of every span, the optional meta map with its pairs in order, nothing left over),
   for every batch whose strings are shorter than 2^32 bytes and whose integers fit 64 bits;
   hence two different batches never produce the same body *)
Theorem C19_datadog_body_roundtrip :
  forall spans, N.of_nat (length spans) < two32 -> Forall dd_ok spans ->
    rd_dd_body (enc_dd_body spans) = Some spans.
Proof. exact rd_dd_body_roundtrip. Qed.

Theorem C19_datadog_body_injective :
  forall a b, N.of_nat (length a) < two32 -> Forall dd_ok a ->
              N.of_nat (length b) < two32 -> Forall dd_ok b ->
              enc_dd_body a = enc_dd_body b -> a = b.
Proof. exact enc_dd_body_injective. Qed.

Theorem C19_datadog_convert_wellformed :
  forall service resource ty r m,
    str_ok service -> str_ok resource -> str_ok ty -> str_ok (jr_name r) ->
    jr_begin r < two64j -> jr_dur r < two64j -> jr_id r < two64j -> jr_parent r < two64j ->
    N.of_nat (length m) < two32 -> Forall pair_ok m ->
    dd_ok (dd_convert service resource ty r m).
Proof. exact dd_convert_ok. Qed.

(* the hypotheses are met by a span with a negative-looking start, a top-bit id and a meta map *)
Example C19_datadog_body_roundtrip_nonvacuous :
  let s := mkDD [104;105] [] [119] [240;159] 18446744073709551615 300
                (Some [([107], [118]); ([], [0])]) 9223372036854775808 1 0 in
  rd_dd_body (enc_dd_body [s; s]) = Some [s; s].
Proof. vm_compute. reflexivity. Qed.

(* Jaeger: the WHOLE Thrift compact emitBatch message reads back, with a reader written
   independently of the encoder (it dispatches on the field headers it meets), to the service
   name and exactly the spans it was made from -- ids, name, flags, times, the optional tag
   and log lists with their fields in order, nothing left over -- for every batch whose
   integers fit 64 bits and whose strings / lists are shorter than 2^64; hence two different
   batches never produce the same datagram *)
Theorem C19_jaeger_message_roundtrip :
  forall service spans,
    len_ok service -> len_ok spans -> Forall span_ok spans ->
    tr_message (enc_message service spans) = Some (service, spans).
Proof. exact tr_message_rt. Qed.

Theorem C19_jaeger_message_injective :
  forall s1 l1 s2 l2,
    len_ok s1 -> len_ok l1 -> Forall span_ok l1 -> len_ok s2 -> len_ok l2 -> Forall span_ok l2 ->
    enc_message s1 l1 = enc_message s2 l2 -> s1 = s2 /\ l1 = l2.
Proof. exact enc_message_injective. Qed.

Theorem C19_jaeger_convert_wellformed :
  forall r,
    jr_trace r < two64j * two64j -> jr_id r < two64j -> jr_parent r < two64j ->
    jr_begin r < two64j -> jr_dur r < two64j -> len_ok (jr_name r) ->
    len_ok (jr_props r) -> Forall tag_ok (jr_props r) -> len_ok (jr_events r) ->
    Forall (fun ev => je_ts ev < two64j /\ len_ok (je_name ev) /\ N.of_nat (S (length (je_props ev))) < two64j /\
                      Forall tag_ok (je_props ev)) (jr_events r) ->
    span_ok (convert r).
Proof. exact convert_ok. Qed.

Example C19_jaeger_message_roundtrip_example :
  let sp1 := mkJSpan 18446744073709551615 0 9223372036854775808 7 [104;105] 1 1700000000000000 250
                     [([107],[118]);([],[])] [mkJLog 5 [([110],[120])]; mkJLog 6 []] in
  let sp2 := mkJSpan 1 2 3 4 [] 1 0 0 [] [mkJLog 5 []] in
  match tr_message (enc_message [115] [sp1; sp2; sp2]) with
  | Some (svc, l) => svc = [115] /\ length l = 3%nat
  | None => False
  end.
Proof. vm_compute. split; reflexivity. Qed.

Print Assumptions C19_datadog_convert_faithful.
Print Assumptions C19_msgpack_uint_roundtrip.
Print Assumptions C19_msgpack_str_roundtrip.
Print Assumptions C19_otel_convert_faithful.
Print Assumptions C19_jaeger_convert_faithful.
Print Assumptions C19_jaeger_microseconds.
Print Assumptions C19_i64_field_roundtrip.
Print Assumptions C19_varint_roundtrip.
Print Assumptions C19_msgpack_sint_roundtrip.
Print Assumptions C19_datadog_body_roundtrip.
Print Assumptions C19_datadog_body_injective.
Print Assumptions C19_datadog_convert_wellformed.
Print Assumptions C19_jaeger_message_roundtrip.
Print Assumptions C19_jaeger_message_injective.
Print Assumptions C19_jaeger_convert_wellformed.
