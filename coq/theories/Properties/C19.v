(* C19 -- Bundled reporters transmit records faithfully (Jaeger part: conversion and the
   number encodings of the Thrift compact protocol).
   Only pinned statements, closed by [exact lemma], with Print Assumptions. *)
From Coq Require Import List NArith Bool.
From FT Require Import Model.Jaeger Proofs.JaegerProofs.
Import ListNotations.
Open Scope N_scope.

(* JaegerReporter::convert: the 128-bit trace id travels as two halves that recombine
   exactly; span and parent ids, name, tags unchanged and in order; start and duration in
   whole microseconds; every event becomes a log whose fields are ("name", event name)
   followed by the event's properties in order *)
Theorem C19_jaeger_convert_faithful :
  forall r,
    let s := convert r in
    j_trace_high s * two64j + j_trace_low s = jr_trace r /\
    j_span s = jr_id r /\ j_parent s = jr_parent r /\ j_name s = jr_name r /\
    j_start s = jr_begin r / 1000 /\ j_dur s = jr_dur r / 1000 /\
    j_tags s = jr_props r /\
    map (fun l => (jl_ts l, jl_fields l)) (j_logs s) =
    map (fun ev => (je_ts ev / 1000, (name_key, je_name ev) :: je_props ev)) (jr_events r).
Proof. exact convert_faithful. Qed.

Theorem C19_jaeger_microseconds : forall t, 1000 * (t / 1000) <= t /\ t < 1000 * (t / 1000) + 1000.
Proof. exact convert_microseconds. Qed.

(* every 64-bit id (top bit set included) survives `as i64` + zig-zag + varint, whatever
   follows it in the datagram *)
Theorem C19_i64_field_roundtrip :
  forall v rest, v < two64j ->
    match unvarint_fuel 10 (enc_i64 v ++ rest) with
    | Some (z, rest') => unzigzag64 z = v /\ rest' = rest
    | None => False
    end.
Proof. exact i64_field_roundtrip. Qed.

Theorem C19_varint_roundtrip :
  forall n rest, n < two64j -> unvarint_fuel 10 (varint n ++ rest) = Some (n, rest).
Proof. exact varint64_roundtrip. Qed.

Print Assumptions C19_jaeger_convert_faithful.
Print Assumptions C19_jaeger_microseconds.
Print Assumptions C19_i64_field_roundtrip.
Print Assumptions C19_varint_roundtrip.
