(* C18 -- Recorded times are consistent with execution.
   Only pinned statements, closed by [exact lemma], with Print Assumptions. *)
From Coq Require Import List NArith Bool.
From FT Require Import Model.Base Model.Records Proofs.RecordsProofs.
Import ListNotations.
Open Scope N_scope.

(* the duration of every delivered record is the converted finish instant minus the
   converted start instant (finish = collection time for spans still open) *)
Theorem C18_duration_formula :
  forall conv rs end_time trace parent d,
    map (fun r => (rc_id r, rc_begin r, rc_dur r))
        (fst (postprocess conv [mkColl (SShared rs end_time) trace parent] d)) =
    map (fun sp => (r_id sp, conv (r_begin sp),
                    conv (if r_end sp =? 0 then end_time else r_end sp) - conv (r_begin sp)))
        (filter is_kspan rs).
Proof. exact duration_formula. Qed.

Theorem C18_span_duration :
  forall conv sp trace parent d,
    r_kind sp = KSpan ->
    exists r d', postprocess conv [mkColl (SSpan sp) trace parent] d = ([r], d') /\
      core r = (trace, r_id sp, parent, conv (r_begin sp), conv (r_end sp) - conv (r_begin sp), r_name sp).
Proof. exact span_record. Qed.

(* one anchor converts instants monotonically, so begin + duration is the converted finish:
   intervals nest and order in unix time exactly as the instants do *)
Theorem C18_monotone_conversion_exact :
  forall (conv : N -> N) b e,
    (forall x y, x <= y -> conv x <= conv y) -> b <= e -> conv b + (conv e - conv b) = conv e.
Proof. exact conv_monotone_dur. Qed.

Print Assumptions C18_duration_formula.
Print Assumptions C18_span_duration.
Print Assumptions C18_monotone_conversion_exact.
