(* C18 -- Recorded times are consistent with execution.
   Only pinned statements, closed by [exact lemma], with Print Assumptions. *)
From Coq Require Import List NArith Bool.
From FT Require Import Model.Base Model.Local Model.LocalProg Model.Records Proofs.RecordsProofs Proofs.TimeProofs.
Import ListNotations.
Open Scope N_scope.

(* the duration of every delivered record is the converted finish instant minus the
   converted start instant (finish = collection time for spans still open) *)
Theorem C18_duration_formula :
  forall conv rs end_time trace parent d,
    map (fun r => (rc_id r, rc_begin r, rc_dur r))
        (fst (postprocess conv [mkColl (SShared rs end_time) trace parent] d)) =
    map (fun sp => (r_id sp, conv (r_begin sp),
                    conv (if r_end sp =? 0 then end_time else r_end sp) - conv (r_begin sp)))
        (filter is_kspan rs).
Proof. exact duration_formula. Qed.

Theorem C18_span_duration :
  forall conv sp trace parent d,
    r_kind sp = KSpan ->
    exists r d', postprocess conv [mkColl (SSpan sp) trace parent] d = ([r], d') /\
      core r = (trace, r_id sp, parent, conv (r_begin sp), conv (r_end sp) - conv (r_begin sp), r_name sp).
Proof. exact span_record. Qed.

(* one anchor converts instants monotonically, so begin + duration is the converted finish:
   intervals nest and order in unix time exactly as the instants do *)
Theorem C18_monotone_conversion_exact :
  forall (conv : N -> N) b e,
    (forall x y, x <= y -> conv x <= conv y) -> b <= e -> conv b + (conv e - conv b) = conv e.
Proof. exact conv_monotone_dur. Qed.

(* the instants of a local-span set nest.  [nested par lo hi l] (Proofs/TimeProofs.v, an
   inductive predicate with four constructors): the entries of the set, in queue order, are
   the pre-order listing of a forest whose roots have parent id [par]; an event lies after
   everything before it; a span's children and events carry the span's id as parent and lie
   strictly between its begin and its end; whatever follows a span at its own level begins
   after the span's end.  For EVERY well-nested program (any depth, refused openings, ids of
   any kind), every stack and every clock value: the entries a program adds to the line it
   runs on form such a forest within the program's own time window, and the rest of the
   line, and every line below, is untouched. *)
Theorem C18_local_set_is_nested_in_time :
  forall dbg p st e st' e',
    exec dbg p st e = Ok (st', e') ->
    e_clock e <= e_clock e' /\ tx (e_clock e) (e_clock e') st st'.
Proof. exact exec_timed. Qed.

(* what a local-parent scope / LocalCollector collects is such a forest, its roots with
   parent id 0 (= to be attached under the scope's span), inside the scope's window *)
Theorem C18_collected_set_is_nested :
  forall dbg body st e st2 e2 tk,
    (st_cap st <=? lenN (st_lines st)) = false ->
    exec dbg body (mkStack (l_new (st_qcap st) (st_next_epoch st) tk :: st_lines st) (st_cap st)
                           ((st_next_epoch st + 1) mod two64) (st_qcap st)) e = Ok (st2, e2) ->
    exists l2, st_lines st2 = l2 :: st_lines st /\
      l_collect l2 (st_next_epoch st) = Some (q_spans (l_q l2), tk) /\
      nested 0 (e_clock e) (e_clock e2) (q_spans (l_q l2)).
Proof. exact scope_set_nested. Qed.

(* the clauses of the property read off the forest: begin < end for every span, every entry
   inside the window; entries inside a span strictly inside its interval; later siblings
   after its end *)
Theorem C18_forest_entries_in_window :
  forall par lo hi l, nested par lo hi l -> Forall (in_window lo hi) l.
Proof. exact nested_window. Qed.

Theorem C18_span_contains_children_and_events :
  forall par hi sp inner hin rest,
    r_kind sp = KSpan -> nested (r_id sp) (r_begin sp) hin inner -> hin < r_end sp ->
    nested par (r_end sp) hi rest ->
    Forall (in_window (r_begin sp) (r_end sp - 1)) inner /\ Forall (in_window (r_end sp) hi) rest.
Proof. exact span_contains_inner. Qed.

(* a concrete program: span a { event; span b { } ; span c { event } } under a scope *)
Example C18_nested_example :
  let st := mkStack [] 8 0 16 in
  match exec true (PScope None PSkip) st (mkEnv 7 0 100) with Ok _ => True | Panic _ => False end /\
  match s_register st None with
  | (Some _, st1) =>
      match exec true (PSpan 1 None (PSeq (PEvent 2 None) (PSeq (PSpan 3 None PSkip) (PSpan 4 None (PEvent 5 None))))) st1 (mkEnv 7 0 100) with
      | Ok (st2, e2) =>
          map (fun r => (r_name r, r_begin r, r_end r)) (match st_lines st2 with l :: _ => q_spans (l_q l) | [] => [] end)
          = [(1, 101, 108); (2, 102, 0); (3, 103, 104); (4, 105, 107); (5, 106, 0)]
      | Panic _ => False
      end
  | _ => False
  end.
Proof. vm_compute. split; [exact I | reflexivity]. Qed.

Print Assumptions C18_duration_formula.
Print Assumptions C18_span_duration.
Print Assumptions C18_monotone_conversion_exact.
Print Assumptions C18_local_set_is_nested_in_time.
Print Assumptions C18_collected_set_is_nested.
Print Assumptions C18_forest_entries_in_window.
Print Assumptions C18_span_contains_children_and_events.
