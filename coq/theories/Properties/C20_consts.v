(* C20: obligations over the literals translated from fastrace-jaeger/src/lib.rs on every run
   (Generated/SrcConstants.v): the limit is at most 8000 and compared with >=, a window of
   one span is the skip case, the window is halved. *)
From Coq Require Import NArith List.
From FT Require Import Generated.SrcConstants.
Open Scope N_scope.
Theorem C20_src_limit : (src_max_udp <=? 8000) = true /\ src_size_cmp_ge = true /\ src_single_le = 1 /\ src_halving = 2.
Proof. vm_compute. repeat split; reflexivity. Qed.
Print Assumptions C20_src_limit.
