(* C04 -- cancel() suppresses the whole trace and nothing else.
   Only pinned statements, closed by [exact lemma], with Print Assumptions. *)
From Coq Require Import List NArith Bool.
From FT Require Import Model.Base Model.Records Model.Collector Proofs.CollectorProofs.
Import ListNotations.
Open Scope N_scope.

(* a batch that contains the DropCollect of c reports nothing of c, whatever else it contains
   (start, span sets and the commit of c included) and whatever was buffered before *)
Theorem C04_cancel_suppresses :
  forall conv am b c r, In c (b_drop b) -> ~ In (c, r) (snd (process_owned conv true am b)).
Proof. exact cancel_suppresses. Qed.

(* afterwards the trace is not active, so later span sets are discarded and later batches
   report nothing of it *)
Theorem C04_cancel_deactivates :
  forall conv am b c, In c (b_drop b) -> amem c (fst (process_owned conv true am b)) = false.
Proof. exact drop_removes. Qed.

Theorem C04_cancelled_stays_silent :
  forall conv am b c r,
    amem c am = false -> ~ In c (b_start b) ->
    ~ In (c, r) (snd (process_owned conv true am b)).
Proof. exact inactive_stays_silent. Qed.

(* in the default configuration DropCollect commands change nothing at all *)
Theorem C04_default_cancel_noop :
  forall conv am b,
    process_owned conv false am b =
    process_owned conv false am (mkBatch (b_start b) [] (b_commit b) (b_submit b)).
Proof. exact default_cancel_noop. Qed.

Print Assumptions C04_cancel_suppresses.
Print Assumptions C04_cancel_deactivates.
Print Assumptions C04_cancelled_stays_silent.
Print Assumptions C04_default_cancel_noop.
