(* C04 -- cancel() suppresses the whole trace and nothing else.
   Only pinned statements, closed by [exact lemma], with Print Assumptions. *)
From Coq Require Import List NArith Bool.
From FT Require Import Model.Base Model.Local Model.Records Model.Spsc Model.Collector Model.System
     Proofs.CollectorProofs Proofs.CancelProofs Proofs.DrainProofs Proofs.EndToEndProofs Proofs.WholeProofs.
Import ListNotations.
Open Scope N_scope.

(* a batch that contains the DropCollect of c reports nothing of c, whatever else it contains
   (start, span sets and the commit of c included) and whatever was buffered before *)
Theorem C04_cancel_suppresses :
  forall conv am b c r, In c (b_drop b) -> ~ In (c, r) (snd (process_owned conv true am b)).
Proof. exact cancel_suppresses. Qed.

(* afterwards the trace is not active, so later span sets are discarded and later batches
   report nothing of it *)
Theorem C04_cancel_deactivates :
  forall conv am b c, In c (b_drop b) -> amem c (fst (process_owned conv true am b)) = false.
Proof. exact drop_removes. Qed.

Theorem C04_cancelled_stays_silent :
  forall conv am b c r,
    amem c am = false -> ~ In c (b_start b) ->
    ~ In (c, r) (snd (process_owned conv true am b)).
Proof. exact inactive_stays_silent. Qed.

(* in the default configuration DropCollect commands change nothing at all *)
Theorem C04_default_cancel_noop :
  forall conv am b,
    process_owned conv false am b =
    process_owned conv false am (mkBatch (b_start b) [] (b_commit b) (b_submit b)).
Proof. exact default_cancel_noop. Qed.

(* the call: cancel() on a root span yields exactly one command, the DropCollect of its own
   collect id, sent with force_send (so it is queued, never dropped, when the thread's queue is
   full: C09); on a no-op span or on any span that is not a root it yields no command and
   changes no state; spans created from parents never carry a collect id *)
Theorem C04_cancel_root_is_one_forced_drop :
  forall s th e h sp c,
    get_span s h = Some (Some sp) -> sp_cid sp = Some c ->
    exec_call s th e (KCancel h) = COk s th e [(true, CDrop c)] RUnit.
Proof. exact cancel_root_is_one_forced_drop. Qed.

Theorem C04_cancel_non_root_changes_nothing :
  forall s th e h,
    (get_span s h = Some None \/ exists sp, get_span s h = Some (Some sp) /\ sp_cid sp = None) ->
    exec_call s th e (KCancel h) = COk s th e [] RUnit.
Proof. exact cancel_non_root_changes_nothing. Qed.

Theorem C04_children_carry_no_collect_id :
  forall s th e c s' th' e' out r h sp,
    (exists name p, c = KChild h name p) \/ (exists name ps, c = KChildMany h name ps) \/ (exists name, c = KChildLocal h name) ->
    exec_call s th e c = COk s' th' e' out r ->
    alookup h (s_spans s') = Some (Some sp) -> sp_cid sp = None.
Proof. exact child_calls_use_no_collect_id. Qed.

(* OVER THE SCHEDULER: in any reachable state, cancelable configuration, a cancel of c that is
   in a registered thread's ring when a cycle begins (its drain interleaved in any way with any
   threads): whatever else that cycle drains -- the start, span sets, even the commit of the
   same trace -- its report carries no record produced for c (records are tagged with the
   collect id they were produced for; the tag is ghost, the report is [map snd]) and c is
   inactive afterwards, so later span sets of the trace are discarded (C04_cancelled_stays_silent) *)
Theorem C04_cancel_in_rings_silences_the_trace :
  forall dbg ringcap stackcap qcap h0 h c,
    let s := fst (run (sys_init dbg ringcap stackcap qcap) h0) in
    let s1 := fst (run s (ACBegin :: h)) in
    s_pc s = PIdle -> s_installed s = true -> no_process h ->
    s_pc s1 = PDrained -> s_cancelable s1 = true ->
    (exists t, In (t, CDrop c) (ring_commands s)) ->
    exists tagged_recs st n,
      snd (step s1 ACProcess) = OReport (map snd tagged_recs) st n /\
      (forall r, ~ In (c, r) tagged_recs) /\
      amem c (s_active (fst (step s1 ACProcess))) = false.
Proof. exact cancel_in_rings_silences_the_trace. Qed.

Print Assumptions C04_cancel_suppresses.
Print Assumptions C04_cancel_deactivates.
Print Assumptions C04_cancelled_stays_silent.
Print Assumptions C04_default_cancel_noop.
Print Assumptions C04_cancel_root_is_one_forced_drop.
Print Assumptions C04_cancel_non_root_changes_nothing.
Print Assumptions C04_children_carry_no_collect_id.
Print Assumptions C04_cancel_in_rings_silences_the_trace.
