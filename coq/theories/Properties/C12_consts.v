(* Obligation tying the codec theorems to the literals of /repo/fastrace/src/collector/id.rs
   (regenerated into Generated/SrcConstants.v on every run). Kept apart from C12.v so that
   model, extraction and oracle still build when it fails. *)
From FT Require Import Model.Codec Generated.SrcConstants.
Theorem C12_src_consts : src_codec_consts = std_consts.
Proof. reflexivity. Qed.
Print Assumptions C12_src_consts.
