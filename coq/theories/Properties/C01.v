(* C01 -- Every finished span of a sampled trace is delivered exactly once (default
   configuration).  Only pinned statements, closed by [exact lemma], with Print Assumptions. *)
From Coq Require Import List NArith Bool.
From FT Require Import Model.Base Model.Local Model.Records Model.Spsc Model.Collector Model.System
     Proofs.SpscProofs Proofs.CollectorProofs Proofs.RecordsProofs Proofs.ApiProofs Proofs.DeliveryProofs Proofs.SystemDeliveryProofs Proofs.DrainProofs.
From Coq Require Import Permutation.
Import ListNotations.
Open Scope N_scope.

(* finishing a span: one SubmitSpans carrying exactly the sampled token items (none when
   there is none), then the commit of a root -- in that order *)
Theorem C01_finish_submits_once :
  forall sp e,
    drop_span (Some sp) e =
    (submit (SSpan (raw_set_end (fst (now e)) (sp_raw sp))) (sp_token sp)
     ++ match sp_cid sp with Some c => [(true, CCommit c)] | None => [] end, snd (now e)).
Proof. exact drop_span_spec. Qed.

Theorem C01_submit_is_one_command :
  forall s tk, filter ti_sampled tk <> [] -> submit s tk = [(false, CSubmit s (filter ti_sampled tk))].
Proof. exact submit_one. Qed.

(* the channel neither duplicates nor invents nor reorders: whatever the consumer has seen or
   will see is what was sent, in order, minus span sets dropped at a push (any capacity, any
   interleaving of pushes and pops) *)
Theorem C01_channel_thins_only :
  forall (A : Type) (forced : A -> bool) (c : chan A) (out : list A) (ms : list mstep),
    ch_ring c = [] -> ch_pending c = [] ->
    let s := run_micro forced (mkP c out []) ms in
    thinned (unforced forced) out
            (p_popped s ++ ch_ring (p_chan s) ++ ch_pending (p_chan s) ++ p_out s).
Proof. exact @popped_thinned. Qed.

(* a receiver is given up only on a pop that found the ring empty (after the producer is
   gone: nothing can be lost with it) *)
Theorem C01_no_loss_at_removal :
  forall (A : Type) (c c' : chan A), pop_step c = (None, c') -> ch_ring c = [].
Proof. exact @pop_none_empty. Qed.

(* default configuration: whatever a cycle has popped is handed over in that very cycle --
   nothing stays buffered for a later one *)
Theorem C01_default_nothing_buffered :
  forall conv am b c a, In (c, a) (fst (process_owned conv false am b)) -> a_colls a = [].
Proof. exact default_nothing_buffered. Qed.

(* a record is produced for a span set's spans with exactly the ids recorded *)
Theorem C01_records_of_a_set :
  forall conv rs end_time trace parent d,
    map (fun r => (rc_trace r, rc_id r, rc_parent r))
        (fst (postprocess conv [mkColl (SShared rs end_time) trace parent] d)) =
    map (fun sp => (trace, r_id sp, eff_parent parent sp)) (filter is_kspan rs).
Proof. exact copy_trace_and_parents. Qed.

(* EXACTLY ONCE at the collector, default configuration.  [coll_cores cl] lists one (trace,
   span id, parent) per raw span of kind Span of a collection (the roots of a local set under
   the collection's parent, the others under their recorded parent); [submitted_colls] turns
   the SubmitSpans commands of a batch into one collection per token item.  For EVERY batch
   (any starts, drops, commits and submits, in any order and number, for live, finished or
   unknown collect ids) and every active map satisfying the cycle invariant (collect ids
   unique, nothing buffered): what report() receives is, as a multiset, exactly one record
   per span per token item of what was submitted -- nothing lost, nothing twice, nothing
   else -- and the invariant holds again afterwards. *)
Theorem C01_default_batch_delivers_exactly :
  forall conv am b,
    cycle_inv am ->
    Permutation (map core3 (snd (process conv false am b)))
                (flat_map coll_cores (submitted_colls (b_submit b))) /\
    cycle_inv (fst (process conv false am b)).
Proof. exact default_batch_delivers_exactly. Qed.

(* hence over any number of collector cycles, wherever the cuts between them fall: the
   reports add up to exactly what was submitted *)
Theorem C01_default_cycles_deliver_exactly :
  forall conv am bs,
    cycle_inv am ->
    Permutation (map core3 (snd (run_batches conv am bs)))
                (flat_map coll_cores (flat_map (fun b => submitted_colls (b_submit b)) bs)) /\
    cycle_inv (fst (run_batches conv am bs)).
Proof. exact default_cycles_deliver_exactly. Qed.

Theorem C01_initial_state_meets_the_invariant : cycle_inv [].
Proof. exact cycle_inv_empty. Qed.

(* and from the drains: whatever commands successive cycles popped (from any number of
   threads, cut into cycles anywhere), the reports carry exactly the spans of the popped
   SubmitSpans commands.  With [C01_channel_thins_only] (popped = sent minus sets refused at a
   full ring, in order) and [C01_finish_submits_once] this is the chain
   finish -> command -> ring -> batch -> report, each link for all inputs. *)
Theorem C01_default_popped_commands_delivered_exactly :
  forall conv (cycles : list (list command)),
    Permutation (map core3 (snd (run_batches conv [] (map batch_of cycles))))
                (flat_map coll_cores (submitted_colls (submits_of (concat cycles)))).
Proof. exact default_popped_commands_delivered_exactly. Qed.

(* the same at the system level: in the state reached by ANY history (any threads, programs,
   schedules and capacities) from the initial state, if the default configuration is
   installed, a process step reports exactly the spans of the SubmitSpans commands the drain
   has collected into the batch -- each once per token item, nothing else *)
Theorem C01_every_reachable_default_report_is_exact :
  forall dbg ringcap stackcap qcap h recs st n,
    let s := fst (run (sys_init dbg ringcap stackcap qcap) h) in
    s_cancelable s = false ->
    snd (step s ACProcess) = OReport recs st n ->
    Permutation (map core3 recs) (flat_map coll_cores (submitted_colls (b_submit (s_batch s)))).
Proof. exact reachable_default_report_exact. Qed.

(* THE DRAIN.  In any state reached by any history, when a collector cycle begins (pc idle,
   reporter installed) and runs to the end of its drain -- its pops and abandonment checks
   interleaved in any way with calls, further pushes and exits of any threads -- every command
   that was in the ring of a registered thread when the cycle began is in the batch the cycle
   is about to process.  With [C01_every_reachable_default_report_is_exact] the spans of
   those commands are reported by that very cycle, each exactly once: a span set pushed
   before a cycle begins is delivered by that cycle. *)
Theorem C01_cycle_drains_every_ring :
  forall dbg ringcap stackcap qcap h0 h,
    let s := fst (run (sys_init dbg ringcap stackcap qcap) h0) in
    s_pc s = PIdle -> s_installed s = true -> no_process h ->
    s_pc (fst (run s (ACBegin :: h))) = PDrained ->
    forall t c, In (t, c) (ring_commands s) -> in_batch c (s_batch (fst (run s (ACBegin :: h)))).
Proof. exact reachable_cycle_drains_every_ring. Qed.

(* the registry never lists a thread twice and lists only existing threads, in every
   reachable state (used above) *)
Theorem C01_registry_invariant :
  forall dbg ringcap stackcap qcap h, reg_inv (fst (run (sys_init dbg ringcap stackcap qcap) h)).
Proof. exact reachable_reg_inv. Qed.

(* non-vacuity: a child span submitted in one cycle and its root (with the commit) in the
   next are both reported, each once *)
Example C01_two_cycles_example :
  let tk := [mkTok 7 100 0 false true] in
  let child := mkRaw 5 0 10 1 None KSpan 20 in
  let root := mkRaw 4 0 5 2 None KSpan 30 in
  let b1 := mkBatch [0] [] [] [(SSpan child, [mkTok 7 4 0 false true])] in
  let b2 := mkBatch [] [] [0] [(SSpan root, tk)] in
  map core3 (snd (run_batches (fun x => x) [] [b1; b2])) = [(7, 5, 4); (7, 4, 100)].
Proof. vm_compute. reflexivity. Qed.

Print Assumptions C01_finish_submits_once.
Print Assumptions C01_submit_is_one_command.
Print Assumptions C01_channel_thins_only.
Print Assumptions C01_no_loss_at_removal.
Print Assumptions C01_default_nothing_buffered.
Print Assumptions C01_records_of_a_set.
Print Assumptions C01_default_batch_delivers_exactly.
Print Assumptions C01_default_cycles_deliver_exactly.
Print Assumptions C01_initial_state_meets_the_invariant.
Print Assumptions C01_default_popped_commands_delivered_exactly.
Print Assumptions C01_every_reachable_default_report_is_exact.
Print Assumptions C01_cycle_drains_every_ring.
Print Assumptions C01_registry_invariant.
