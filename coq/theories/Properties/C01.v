(* C01 -- Every finished span of a sampled trace is delivered exactly once (default
   configuration).  Only pinned statements, closed by [exact lemma], with Print Assumptions. *)
From Coq Require Import List NArith Bool.
From FT Require Import Model.Base Model.Local Model.Records Model.Spsc Model.Collector Model.System
     Proofs.SpscProofs Proofs.CollectorProofs Proofs.RecordsProofs Proofs.ApiProofs Proofs.DeliveryProofs Proofs.SystemDeliveryProofs Proofs.DrainProofs Proofs.EndToEndProofs Proofs.HistoryProofs Proofs.WholeProofs Proofs.HoldProofs.
From Coq Require Import Permutation.
Import ListNotations.
Open Scope N_scope.

(* finishing a span: one SubmitSpans carrying exactly the sampled token items (none when
   there is none), then the commit of a root -- in that order *)
Theorem C01_finish_submits_once :
  forall sp e,
    drop_span (Some sp) e =
    (submit (SSpan (raw_set_end (fst (now e)) (sp_raw sp))) (sp_token sp)
     ++ match sp_cid sp with Some c => [(true, CCommit c)] | None => [] end, snd (now e)).
Proof. exact drop_span_spec. Qed.

Theorem C01_submit_is_one_command :
  forall s tk, filter ti_sampled tk <> [] -> submit s tk = [(false, CSubmit s (filter ti_sampled tk))].
Proof. exact submit_one. Qed.

(* the channel neither duplicates nor invents nor reorders: whatever the consumer has seen or
   will see is what was sent, in order, minus span sets dropped at a push (any capacity, any
   interleaving of pushes and pops) *)
Theorem C01_channel_thins_only :
  forall (A : Type) (forced : A -> bool) (c : chan A) (out : list A) (ms : list mstep),
    ch_ring c = [] -> ch_pending c = [] ->
    let s := run_micro forced (mkP c out []) ms in
    thinned (unforced forced) out
            (p_popped s ++ ch_ring (p_chan s) ++ ch_pending (p_chan s) ++ p_out s).
Proof. exact @popped_thinned. Qed.

(* a receiver is given up only on a pop that found the ring empty (after the producer is
   gone: nothing can be lost with it) *)
Theorem C01_no_loss_at_removal :
  forall (A : Type) (c c' : chan A), pop_step c = (None, c') -> ch_ring c = [].
Proof. exact @pop_none_empty. Qed.

(* default configuration: whatever a cycle has popped is handed over in that very cycle --
   nothing stays buffered for a later one *)
Theorem C01_default_nothing_buffered :
  forall conv am b c a, In (c, a) (fst (process_owned conv false am b)) -> a_colls a = [].
Proof. exact default_nothing_buffered. Qed.

(* a record is produced for a span set's spans with exactly the ids recorded *)
Theorem C01_records_of_a_set :
  forall conv rs end_time trace parent d,
    map (fun r => (rc_trace r, rc_id r, rc_parent r))
        (fst (postprocess conv [mkColl (SShared rs end_time) trace parent] d)) =
    map (fun sp => (trace, r_id sp, eff_parent parent sp)) (filter is_kspan rs).
Proof. exact copy_trace_and_parents. Qed.

(* EXACTLY ONCE at the collector, default configuration.  [coll_cores cl] lists one (trace,
   span id, parent) per raw span of kind Span of a collection (the roots of a local set under
   the collection's parent, the others under their recorded parent); [submitted_colls] turns
   the SubmitSpans commands of a batch into one collection per token item.  For EVERY batch
   (any starts, drops, commits and submits, in any order and number, for live, finished or
   unknown collect ids) and every active map satisfying the cycle invariant (collect ids
   unique, nothing buffered): what report() receives is, as a multiset, exactly one record
   per span per token item of what was submitted -- nothing lost, nothing twice, nothing
   else -- and the invariant holds again afterwards. *)
Theorem C01_default_batch_delivers_exactly :
  forall conv am b,
    cycle_inv am ->
    Permutation (map core3 (snd (process conv false am b)))
                (flat_map coll_cores (submitted_colls (b_submit b))) /\
    cycle_inv (fst (process conv false am b)).
Proof. exact default_batch_delivers_exactly. Qed.

(* hence over any number of collector cycles, wherever the cuts between them fall: the
   reports add up to exactly what was submitted *)
Theorem C01_default_cycles_deliver_exactly :
  forall conv am bs,
    cycle_inv am ->
    Permutation (map core3 (snd (run_batches conv am bs)))
                (flat_map coll_cores (flat_map (fun b => submitted_colls (b_submit b)) bs)) /\
    cycle_inv (fst (run_batches conv am bs)).
Proof. exact default_cycles_deliver_exactly. Qed.

Theorem C01_initial_state_meets_the_invariant : cycle_inv [].
Proof. exact cycle_inv_empty. Qed.

(* and from the drains: whatever commands successive cycles popped (from any number of
   threads, cut into cycles anywhere), the reports carry exactly the spans of the popped
   SubmitSpans commands.  With [C01_channel_thins_only] (popped = sent minus sets refused at a
   full ring, in order) and [C01_finish_submits_once] this is the chain
   finish -> command -> ring -> batch -> report, each link for all inputs. *)
Theorem C01_default_popped_commands_delivered_exactly :
  forall conv (cycles : list (list command)),
    Permutation (map core3 (snd (run_batches conv [] (map batch_of cycles))))
                (flat_map coll_cores (submitted_colls (submits_of (concat cycles)))).
Proof. exact default_popped_commands_delivered_exactly. Qed.

(* the same at the system level: in the state reached by ANY history (any threads, programs,
   schedules and capacities) from the initial state, if the default configuration is
   installed, a process step reports exactly the spans of the SubmitSpans commands the drain
   has collected into the batch -- each once per token item, nothing else *)
Theorem C01_every_reachable_default_report_is_exact :
  forall dbg ringcap stackcap qcap h recs st n,
    let s := fst (run (sys_init dbg ringcap stackcap qcap) h) in
    s_cancelable s = false ->
    snd (step s ACProcess) = OReport recs st n ->
    Permutation (map core3 recs) (flat_map coll_cores (submitted_colls (b_submit (s_batch s)))).
Proof. exact reachable_default_report_exact. Qed.

(* THE DRAIN.  In any state reached by any history, when a collector cycle begins (pc idle,
   reporter installed) and runs to the end of its drain -- its pops and abandonment checks
   interleaved in any way with calls, further pushes and exits of any threads -- every command
   that was in the ring of a registered thread when the cycle began is in the batch the cycle
   is about to process.  With [C01_every_reachable_default_report_is_exact] the spans of
   those commands are reported by that very cycle, each exactly once: a span set pushed
   before a cycle begins is delivered by that cycle. *)
Theorem C01_cycle_drains_every_ring :
  forall dbg ringcap stackcap qcap h0 h,
    let s := fst (run (sys_init dbg ringcap stackcap qcap) h0) in
    s_pc s = PIdle -> s_installed s = true -> no_process h ->
    s_pc (fst (run s (ACBegin :: h))) = PDrained ->
    forall t c, In (t, c) (ring_commands s) -> in_batch c (s_batch (fst (run s (ACBegin :: h)))).
Proof. exact reachable_cycle_drains_every_ring. Qed.

(* the registry never lists a thread twice and lists only existing threads, in every
   reachable state (used above) *)
Theorem C01_registry_invariant :
  forall dbg ringcap stackcap qcap h, reg_inv (fst (run (sys_init dbg ringcap stackcap qcap) h)).
Proof. exact reachable_reg_inv. Qed.

(* END TO END, the collector's side.  [landed t c s]: the command c is in the ring of thread t,
   or already in the batch the collector is putting together.  In any reachable state a landed
   SubmitSpans is reported -- one record per span per token item -- by the process step of
   the cycle in progress or, at the latest, by that of the next complete cycle: whatever any
   threads do meanwhile (calls, pushes, exits, spawns), however both drains are interleaved
   with them, and even if the thread has exited in between (a thread leaves the collector's
   view only with an empty ring).  Default configuration at both process steps. *)
Theorem C01_landed_command_is_reported_within_two_cycles :
  forall dbg ringcap stackcap qcap h0 h1 h2 t sp tk it,
    let s := fst (run (sys_init dbg ringcap stackcap qcap) h0) in
    landed t (CSubmit sp tk) s -> In it tk ->
    no_process h1 ->
    let s1 := fst (run s h1) in
    s_pc s1 = PDrained -> s_cancelable s1 = false ->
    no_process h2 ->
    let s2 := fst (run s1 (ACProcess :: ACBegin :: h2)) in
    s_pc s2 = PDrained -> s_cancelable s2 = false ->
    exists recs st n,
      (snd (step s1 ACProcess) = OReport recs st n \/ snd (step s2 ACProcess) = OReport recs st n) /\
      incl (coll_cores (mkColl sp (ti_trace it) (ti_parent it))) (map core3 recs).
Proof. exact reachable_landed_is_reported_within_two_cycles. Qed.

(* END TO END, the thread's side.  A call made while the thread's sender is idle (nothing
   waiting to be sent, nothing parked behind a full ring) and the ring has room for what the
   call sends; then ANY history in which that thread only pushes -- all other threads and the
   collector do whatever they like, short of the process step; once the thread's outbox is
   empty, every command of the call has landed. *)
Theorem C01_commands_of_a_call_land :
  forall s t c th s1 th1 e1 out r h,
    tracked s ->
    get_thread s t = Some th -> th_outbox th = [] ->
    ch_pending (th_chan th) = [] -> ch_dropping (th_chan th) = false ->
    exec_call (s_tick s) th (mkEnv (th_prefix th) (th_suffix th) (clock_of_step (s_nstep (s_tick s)))) c
      = COk s1 th1 e1 out r ->
    lenN (ch_ring (th_chan th)) + lenN out <= ch_cap (th_chan th) ->
    all_quiet t h ->
    let s' := fst (run s (ACall t c :: h)) in
    (forall th', get_thread s' t = Some th' -> th_outbox th' = []) ->
    forall cmd, In cmd (map snd out) -> landed t cmd s'.
Proof. exact call_commands_land. Qed.

Theorem C01_tracked_in_every_reachable_state :
  forall dbg ringcap stackcap qcap h, tracked (fst (run (sys_init dbg ringcap stackcap qcap) h)).
Proof. intros. apply run_tracked. apply tracked_init. Qed.

(* BOTH SIDES: in any reachable state, dropping a span of a sampled trace (thread's sender
   idle, room for two commands in its ring), letting the thread push while everything else
   runs arbitrarily, and then letting at most two collector cycles complete -- in any
   interleaving with any threads -- yields a report that contains the span's record under every
   sampled parent item: (trace, span id, parent). *)
Theorem C01_finished_span_is_reported :
  forall dbg ringcap stackcap qcap h0 t hd th sp h h1 h2 it,
    let s := fst (run (sys_init dbg ringcap stackcap qcap) h0) in
    get_thread s t = Some th -> th_outbox th = [] ->
    ch_pending (th_chan th) = [] -> ch_dropping (th_chan th) = false ->
    get_span (s_tick s) hd = Some (Some sp) ->
    In it (filter ti_sampled (sp_token sp)) ->
    lenN (ch_ring (th_chan th)) + 2 <= ch_cap (th_chan th) ->
    all_quiet t h ->
    let s' := fst (run s (ACall t (KDropSpan hd) :: h)) in
    (forall th', get_thread s' t = Some th' -> th_outbox th' = []) ->
    no_process h1 ->
    let s1 := fst (run s' h1) in
    s_pc s1 = PDrained -> s_cancelable s1 = false ->
    no_process h2 ->
    let s2 := fst (run s1 (ACProcess :: ACBegin :: h2)) in
    s_pc s2 = PDrained -> s_cancelable s2 = false ->
    exists recs st n,
      (snd (step s1 ACProcess) = OReport recs st n \/ snd (step s2 ACProcess) = OReport recs st n) /\
      In (ti_trace it, r_id (sp_raw sp), ti_parent it) (map core3 recs).
Proof. exact finished_span_is_reported. Qed.

(* OVER WHOLE HISTORIES, default configuration.  [popped_submits s h]: the SubmitSpans commands
   the collector pops out of the rings along the history h (by its pops and by the pops of its
   abandonment checks); [reported]: the records of all reports along h.  For EVERY history from
   the initial state in which only the default configuration is installed: what has been
   reported so far, plus what the batch being put together still holds, is -- as a multiset of
   (trace, span id, parent) -- exactly one record per span per token item of what has been
   popped so far.  Nothing is reported twice, nothing that was not submitted, and nothing
   popped is lost (a ring is a list: a command is popped once). *)
Theorem C01_history_reports_exactly_what_was_popped :
  forall dbg ringcap stackcap qcap h,
    default_only h ->
    let r := run (sys_init dbg ringcap stackcap qcap) h in
    Permutation (reported (snd r) ++ cores_of (b_submit (s_batch (fst r))))
                (cores_of (popped_submits (sys_init dbg ringcap stackcap qcap) h)).
Proof. exact reachable_history_accounts. Qed.

Example C01_history_example :
  let h := [AInstall false; ASpawn 1 1 0; ACall 1 (KRoot 1 2 77 5 true); APush 1; ACall 1 (KDropSpan 1); APush 1; APush 1;
            ACBegin; ACPop; ACPop; ACPop; ACPop; ACCheck; ACProcess; ACBegin; ACPop; ACCheck; ACProcess] in
  let r := run (sys_init false 8 16 16) h in
  reported (snd r) = [(77, 4294967297, 5)] /\
  cores_of (popped_submits (sys_init false 8 16 16) h) = [(77, 4294967297, 5)] /\
  b_submit (s_batch (fst r)) = [].
Proof. vm_compute. repeat split; reflexivity. Qed.

(* non-vacuity of the end-to-end theorem: a history that meets every hypothesis (root created
   and finished on thread 1, two pushes, a cycle), and what the theorem then promises *)
Example C01_finished_span_example :
  let h0 := [AInstall false; ASpawn 1 1 0; ACall 1 (KRoot 1 2 77 5 true); APush 1] in
  let s := fst (run (sys_init false 8 16 16) h0) in
  let s' := fst (run s (ACall 1 (KDropSpan 1) :: [APush 1; APush 1])) in
  let s1 := fst (run s' [ACBegin; ACPop; ACPop; ACPop; ACPop; ACCheck]) in
  let s2 := fst (run s1 [ACProcess; ACBegin; ACPop; ACCheck]) in
  (option_map (fun th => (th_outbox th, ch_pending (th_chan th), ch_dropping (th_chan th),
                          lenN (ch_ring (th_chan th)) + 2 <=? ch_cap (th_chan th))) (get_thread s 1)
     = Some ([], [], false, true)) /\
  option_map (fun th => th_outbox th) (get_thread s' 1) = Some [] /\
  option_map (option_map (fun sp => (r_kind (sp_raw sp), map ti_trace (filter ti_sampled (sp_token sp))))) (get_span (s_tick s) 1)
     = Some (Some (KSpan, [77])) /\
  (s_pc s1, s_cancelable s1, s_pc s2, s_cancelable s2) = (PDrained, false, PDrained, false) /\
  match snd (step s1 ACProcess) with OReport recs _ _ => map core3 recs | _ => [] end = [(77, 4294967297, 5)].
Proof. vm_compute. repeat split; reflexivity. Qed.

(* non-vacuity: a child span submitted in one cycle and its root (with the commit) in the
   next are both reported, each once *)
Example C01_two_cycles_example :
  let tk := [mkTok 7 100 0 false true] in
  let child := mkRaw 5 0 10 1 None KSpan 20 in
  let root := mkRaw 4 0 5 2 None KSpan 30 in
  let b1 := mkBatch [0] [] [] [(SSpan child, [mkTok 7 4 0 false true])] in
  let b2 := mkBatch [] [] [0] [(SSpan root, tk)] in
  map core3 (snd (run_batches (fun x => x) [] [b1; b2])) = [(7, 5, 4); (7, 4, 100)].
Proof. vm_compute. reflexivity. Qed.

(* THE BATCH IS WHAT WAS POPPED.  Through any history of calls, pushes, exits, spawns and
   drain steps of any threads (no process step, no new reporter) the collector's batch is the
   batch it held before with the commands POPPED from command channels along the history
   added in pop order: nothing enters a batch except by a pop, nothing popped is left out of
   it, nothing is reordered.  From a reachable idle state the batch handed to the process step
   is built from the empty batch by exactly the commands that cycle popped. *)
Theorem C01_batch_is_the_popped_commands :
  forall h s, no_process_no_install h ->
    s_batch (fst (run s h)) = fold_left batch_add (popped_cmds s h) (s_batch s).
Proof. exact run_batch. Qed.

Theorem C01_cycle_batch_is_the_popped_commands :
  forall dbg ringcap stackcap qcap h0 h,
    let s := fst (run (sys_init dbg ringcap stackcap qcap) h0) in
    s_pc s = PIdle -> no_process_no_install h ->
    s_batch (fst (run s h)) = fold_left batch_add (popped_cmds s h) batch_empty.
Proof. exact cycle_batch_is_the_popped_commands. Qed.

Example C01_batch_is_the_popped_commands_example :
  let pre := [AInstall false; ASpawn 1 1 0; ACall 1 (KRoot 1 2 77 5 true); APush 1; ACall 1 (KChild 2 3 1);
              ACall 1 (KDropSpan 2); APush 1; ACall 1 (KDropSpan 1); APush 1; APush 1] in
  let s := fst (run (sys_init false 8 16 16) pre) in
  let h := [ACBegin; ACPop; ACPop; ACPop; ACPop; ACPop; ACCheck] in
  (s_pc s, lenN (popped_cmds s h), b_start (s_batch (fst (run s h))), b_commit (s_batch (fst (run s h))),
   lenN (b_submit (s_batch (fst (run s h))))) = (PIdle, 4, [0], [0], 2).
Proof. vm_compute. reflexivity. Qed.

Print Assumptions C01_finish_submits_once.
Print Assumptions C01_submit_is_one_command.
Print Assumptions C01_channel_thins_only.
Print Assumptions C01_no_loss_at_removal.
Print Assumptions C01_default_nothing_buffered.
Print Assumptions C01_records_of_a_set.
Print Assumptions C01_default_batch_delivers_exactly.
Print Assumptions C01_default_cycles_deliver_exactly.
Print Assumptions C01_initial_state_meets_the_invariant.
Print Assumptions C01_default_popped_commands_delivered_exactly.
Print Assumptions C01_every_reachable_default_report_is_exact.
Print Assumptions C01_cycle_drains_every_ring.
Print Assumptions C01_registry_invariant.
Print Assumptions C01_landed_command_is_reported_within_two_cycles.
Print Assumptions C01_commands_of_a_call_land.
Print Assumptions C01_tracked_in_every_reachable_state.
Print Assumptions C01_finished_span_is_reported.
Print Assumptions C01_history_reports_exactly_what_was_popped.
Print Assumptions C01_batch_is_the_popped_commands.
Print Assumptions C01_cycle_batch_is_the_popped_commands.
