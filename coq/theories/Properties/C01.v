(* C01 -- Every finished span of a sampled trace is delivered exactly once (default
   configuration).  Only pinned statements, closed by [exact lemma], with Print Assumptions. *)
From Coq Require Import List NArith Bool.
From FT Require Import Model.Base Model.Local Model.Records Model.Spsc Model.Collector Model.System
     Proofs.SpscProofs Proofs.CollectorProofs Proofs.RecordsProofs Proofs.ApiProofs.
Import ListNotations.
Open Scope N_scope.

(* finishing a span: one SubmitSpans carrying exactly the sampled token items (none when
   there is none), then the commit of a root -- in that order *)
Theorem C01_finish_submits_once :
  forall sp e,
    drop_span (Some sp) e =
    (submit (SSpan (raw_set_end (fst (now e)) (sp_raw sp))) (sp_token sp)
     ++ match sp_cid sp with Some c => [(true, CCommit c)] | None => [] end, snd (now e)).
Proof. exact drop_span_spec. Qed.

Theorem C01_submit_is_one_command :
  forall s tk, filter ti_sampled tk <> [] -> submit s tk = [(false, CSubmit s (filter ti_sampled tk))].
Proof. exact submit_one. Qed.

(* the channel neither duplicates nor invents nor reorders: whatever the consumer has seen or
   will see is what was sent, in order, minus span sets dropped at a push (any capacity, any
   interleaving of pushes and pops) *)
Theorem C01_channel_thins_only :
  forall (A : Type) (forced : A -> bool) (c : chan A) (out : list A) (ms : list mstep),
    ch_ring c = [] -> ch_pending c = [] ->
    let s := run_micro forced (mkP c out []) ms in
    thinned (unforced forced) out
            (p_popped s ++ ch_ring (p_chan s) ++ ch_pending (p_chan s) ++ p_out s).
Proof. exact @popped_thinned. Qed.

(* a receiver is given up only on a pop that found the ring empty (after the producer is
   gone: nothing can be lost with it) *)
Theorem C01_no_loss_at_removal :
  forall (A : Type) (c c' : chan A), pop_step c = (None, c') -> ch_ring c = [].
Proof. exact @pop_none_empty. Qed.

(* default configuration: whatever a cycle has popped is handed over in that very cycle --
   nothing stays buffered for a later one *)
Theorem C01_default_nothing_buffered :
  forall conv am b c a, In (c, a) (fst (process_owned conv false am b)) -> a_colls a = [].
Proof. exact default_nothing_buffered. Qed.

(* a record is produced for a span set's spans with exactly the ids recorded *)
Theorem C01_records_of_a_set :
  forall conv rs end_time trace parent d,
    map (fun r => (rc_trace r, rc_id r, rc_parent r))
        (fst (postprocess conv [mkColl (SShared rs end_time) trace parent] d)) =
    map (fun sp => (trace, r_id sp, eff_parent parent sp)) (filter is_kspan rs).
Proof. exact copy_trace_and_parents. Qed.

Print Assumptions C01_finish_submits_once.
Print Assumptions C01_submit_is_one_command.
Print Assumptions C01_channel_thins_only.
Print Assumptions C01_no_loss_at_removal.
Print Assumptions C01_default_nothing_buffered.
Print Assumptions C01_records_of_a_set.
