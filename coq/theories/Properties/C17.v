(* C17 -- Detached local spans attach identically wherever they are pushed.
   Only pinned statements, closed by [exact lemma], with Print Assumptions. *)
From Coq Require Import List NArith Bool.
From FT Require Import Model.Base Model.Records Proofs.RecordsProofs.
Import ListNotations.
Open Scope N_scope.

(* to_span_records(context) is exactly what pushing the same set under a span with that
   context delivers (for the same clock anchor [conv]) *)
Theorem C17_to_span_records_eq_push :
  forall conv rs end_time trace parent,
    to_span_records conv rs end_time trace parent =
    fst (postprocess conv [mkColl (SShared rs end_time) trace parent] []).
Proof. exact to_span_records_eq_push. Qed.

(* a set pushed to any two parents -- any traces, any parent ids, whatever is parked in the two
   collectors -- yields the same spans in the same order with the same ids, begin times,
   durations and names (same anchor: copies delivered in one cycle) *)
Theorem C17_copies_identical :
  forall conv rs end_time tr1 p1 d1 tr2 p2 d2,
    map core_nt (fst (postprocess conv [mkColl (SShared rs end_time) tr1 p1] d1)) =
    map core_nt (fst (postprocess conv [mkColl (SShared rs end_time) tr2 p2] d2)).
Proof. exact copies_identical. Qed.

(* each copy is in its parent's trace, its roots under that parent, the rest as recorded *)
Theorem C17_copy_trace_and_parents :
  forall conv rs end_time trace parent d,
    map (fun r => (rc_trace r, rc_id r, rc_parent r))
        (fst (postprocess conv [mkColl (SShared rs end_time) trace parent] d)) =
    map (fun sp => (trace, r_id sp, eff_parent parent sp)) (filter is_kspan rs).
Proof. exact copy_trace_and_parents. Qed.

(* spans still open when the set was collected are closed at the collection time *)
Theorem C17_open_spans_closed_at_collect :
  forall conv rs end_time trace parent d,
    map (fun r => (rc_id r, rc_begin r, rc_dur r))
        (fst (postprocess conv [mkColl (SShared rs end_time) trace parent] d)) =
    map (fun sp => (r_id sp, conv (r_begin sp),
                    conv (if r_end sp =? 0 then end_time else r_end sp) - conv (r_begin sp)))
        (filter is_kspan rs).
Proof. exact duration_formula. Qed.

(* non-vacuity: a forest with a closed span, an open span, an event and a property *)
Example C17_example :
  let rs := [mkRaw 11 0 1 100 None KSpan 6; mkRaw 12 11 2 101 None KSpan 0;
             mkRaw 13 12 3 102 (Some [(1, 2)]) KEvent 0; mkRaw 14 11 0 0 (Some [(3, 4)]) KProps 0] in
  to_span_records (fun x => x) rs 9 77 5 =
  [mkRec 77 11 5 1 5 100 [(3, 4)] []; mkRec 77 12 11 2 7 101 [] [mkEv 102 3 [(1, 2)]]].
Proof. vm_compute. reflexivity. Qed.

Print Assumptions C17_to_span_records_eq_push.
Print Assumptions C17_copies_identical.
Print Assumptions C17_copy_trace_and_parents.
Print Assumptions C17_open_spans_closed_at_collect.
