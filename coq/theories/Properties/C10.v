(* C10 -- Local parent scopes nest and restore exactly.
   Only pinned statements, closed by [exact lemma], with Print Assumptions. *)
From Coq Require Import List NArith Bool.
From FT Require Import Model.Base Model.Local Model.LocalProg Proofs.LocalProofs.
Import ListNotations.
Open Scope N_scope.

(* For every well-nested program (local-parent scopes, local collectors, local spans with or
   without properties, events and properties anywhere, to any depth, including openings
   refused by a capacity limit), every stack and every clock/id state with a non-zero id
   prefix: the local context afterwards -- per open scope its token, the innermost open
   local span, its epoch and its sampling flag -- is exactly the context before.  This is
   what current_local_parent(), the parents of later spans and the attachment point of
   later local properties/events are computed from.
   [nz] says no open span has id 0; ids are non-zero whenever the thread's id prefix is
   non-zero (prefix 0, 1 thread in 2^32, is the boundary of known finding K3). *)
Theorem C10_frame :
  forall dbg p st e st' e',
    nz st -> e_prefix e <> 0 -> exec dbg p st e = Ok (st', e') -> lctx st' = lctx st.
Proof. exact frame. Qed.

(* the same programs never panic, in the dev profile (debug assertions) and in release *)
Theorem C10_well_nested_returns :
  forall dbg p st e, nz st -> e_prefix e <> 0 -> exists st' e', exec dbg p st e = Ok (st', e').
Proof. exact no_panic. Qed.

(* with no local parent in scope, local-span operations are inert: no state change, no id
   drawn, no clock read *)
Theorem C10_inert_without_parent :
  forall dbg name wp cap ne qc e,
    exec dbg (PSpan name wp PSkip) (mkStack [] cap ne qc) e = Ok (mkStack [] cap ne qc, e) /\
    exec dbg (PEvent name None) (mkStack [] cap ne qc) e = Ok (mkStack [] cap ne qc, e) /\
    exec dbg (PProps []) (mkStack [] cap ne qc) e = Ok (mkStack [] cap ne qc, e).
Proof. exact inert_without_parent. Qed.

(* non-vacuity: a scope holding a span with a nested scope, a span refused by a full queue
   (capacity 2) and an event; the context is restored and three raw spans were recorded *)
Definition ex_tok : token := [mkTok 7 8 1 false true].
Definition ex_prog : prog :=
  PScope (Some ex_tok)
    (PSeq (PSpan 1 (Some [(2, 3)]) (PSeq (PEvent 4 None) (PScope None (PSpan 5 None PSkip))))
          (PSpan 6 None PSkip)).
Example C10_example :
  let st0 := mkStack [l_new 2 0 (Some ex_tok)] 4 1 2 in
  nz st0 /\
  match exec true (PSeq (PSpan 9 None ex_prog) (PEvent 4 None)) st0 (mkEnv 1 0 0) with
  | Ok (st', _) => lctx st' = lctx st0 /\ length (q_spans (l_q (hd (l_new 0 0 None) (st_lines st')))) = 2%nat
  | Panic _ => False
  end.
Proof.
  cbv zeta. split.
  - constructor; [unfold line_nz; simpl; discriminate | constructor].
  - vm_compute. split; reflexivity.
Qed.

(* K3 boundary: with prefix 0 the 2^32-th id of a thread is 0, and then the restore is not
   exact: the enclosing span is forgotten (release profile; the dev profile panics) *)
Example C10_id_zero_breaks_frame :
  let st0 := mkStack [l_new 8 0 (Some ex_tok)] 4 1 8 in
  match exec false (PSpan 1 None (PSpan 2 None PSkip)) st0 (mkEnv 0 4294967295 0) with
  | Ok (st', _) => True
  | Panic _ => False
  end /\
  match exec true (PSpan 1 None (PSpan 2 None PSkip)) st0 (mkEnv 0 4294967295 0) with
  | Ok _ => False
  | Panic site => site = P_FINISH_ORDER
  end.
Proof. vm_compute. split; [exact I | reflexivity]. Qed.

Check (C10_frame : forall dbg p st e st' e',
    nz st -> e_prefix e <> 0 -> exec dbg p st e = Ok (st', e') -> lctx st' = lctx st).

Print Assumptions C10_frame.
Print Assumptions C10_well_nested_returns.
Print Assumptions C10_inert_without_parent.
