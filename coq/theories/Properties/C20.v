(* C20 -- Jaeger reporter sends every span once in packets below the UDP limit.
   Only pinned statements, closed by [exact lemma], with Print Assumptions. *)
From Coq Require Import List NArith Bool Arith.
From FT Require Import Model.Jaeger Proofs.SpscProofs Proofs.JaegerProofs.
Import ListNotations.

(* For every batch and EVERY size function (nothing is assumed about how sizes combine): the
   loop of try_report terminates within 2*len+1 iterations; every emitted batch is non-empty
   and below the limit; the emitted batches, concatenated, are the input in order with
   exactly some spans removed, each of which was too large ALONE. *)
Theorem C20_splitter_spec :
  forall (A : Type) (size : list A -> nat) (MAX : nat) (spans : list A),
    exists out, try_report size MAX spans = Some out /\
      Forall (fun b => (size b < MAX)%nat /\ b <> []) out /\
      thinned (too_big size MAX) spans (concat out).
Proof. exact @splitter_spec. Qed.

(* a span whose own encoding fits is never dropped, whatever surrounds it *)
Theorem C20_fitting_span_is_sent :
  forall (A : Type) (size : list A -> nat) (MAX : nat) (spans : list A) out x,
    try_report size MAX spans = Some out -> In x spans -> (size [x] < MAX)%nat -> In x (concat out).
Proof. exact @fitting_span_is_sent. Qed.

(* non-vacuity: size = 1 + sum, limit 8, one oversize span in the middle *)
Example C20_example :
  let size := fun b : list nat => fold_left Nat.add b 1%nat in
  try_report size 8%nat [3; 3; 9; 3; 3; 3]%nat =
  Some [[3]; [3]; [3]; [3]; [3]]%nat.
Proof. vm_compute. reflexivity. Qed.

Print Assumptions C20_splitter_spec.
Print Assumptions C20_fitting_span_is_sent.
