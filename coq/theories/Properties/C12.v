(* C12 — traceparent and id text codecs round-trip and never panic.
   Only pinned statements, closed by [exact lemma], with Print Assumptions. *)
From Coq Require Import List NArith.
From FT Require Import Model.Codec Proofs.CodecProofs Oracles.OC12 Proofs.OC12Proofs.
Import ListNotations.
Open Scope N_scope.

Theorem C12_decode_encode :
  forall c, wf_ctx c -> decode_traceparent (encode_traceparent c) = Some c.
Proof. exact decode_encode. Qed.

Theorem C12_encode_shape : forall c, wf_ctx c ->
  exists a b f,
    encode_traceparent c = [48; 48] ++ [45] ++ a ++ [45] ++ b ++ [45] ++ f /\
    length a = 32%nat /\ length b = 16%nat /\ length f = 2%nat /\
    Forall lower_hex a /\ Forall lower_hex b /\ Forall lower_hex f.
Proof. exact encode_shape. Qed.

Theorem C12_encode_length : forall c, wf_ctx c -> length (encode_traceparent c) = 55%nat.
Proof. exact encode_length. Qed.

(* exact characterisation of the accepted language: four dash-separated fields, version 00,
   each other field a non-empty string of hex digits whose value fits its width *)
Theorem C12_decode_some_iff : forall s c,
  decode_traceparent s = Some c <->
  exists a b f fl,
    s = [48; 48] ++ [45] ++ a ++ [45] ++ b ++ [45] ++ f /\
    nodash a /\ nodash b /\ nodash f /\
    hexnum 128 a (c_trace c) /\ hexnum 64 b (c_span c) /\ hexnum 8 f fl /\
    c_sampled c = N.odd fl.
Proof. exact decode_some_iff. Qed.

Theorem C12_decode_none_fields : forall s,
  length (split_dash s) <> 4%nat -> decode_traceparent s = None.
Proof. exact decode_none_fields. Qed.

Theorem C12_decode_none_version : forall s v rest,
  split_dash s = v :: rest -> v <> [48; 48] -> decode_traceparent s = None.
Proof. exact decode_none_version. Qed.

Theorem C12_decode_none_field_not_hexnum : forall s v a b f,
  split_dash s = [v; a; b; f] ->
  (~ exists x, hexnum 128 a x) \/ (~ exists x, hexnum 64 b x) \/ (~ exists x, hexnum 8 f x) ->
  decode_traceparent s = None.
Proof. exact decode_none_field_not_hexnum. Qed.

Theorem C12_fromstr_display_trace : forall t, t < 2 ^ 128 -> from_str_trace (display_trace t) = Some t.
Proof. exact fromstr_display_trace. Qed.
Theorem C12_fromstr_display_span : forall s, s < 2 ^ 64 -> from_str_span (display_span s) = Some s.
Proof. exact fromstr_display_span. Qed.
Theorem C12_display_trace_shape : forall t, t < 2 ^ 128 ->
  length (display_trace t) = 32%nat /\ Forall lower_hex (display_trace t).
Proof. exact display_trace_shape. Qed.
Theorem C12_display_span_shape : forall s, s < 2 ^ 64 ->
  length (display_span s) = 16%nat /\ Forall lower_hex (display_span s).
Proof. exact display_span_shape. Qed.
(* serde uses the same string forms *)
Theorem C12_serde_trace : forall t, t < 2 ^ 128 -> serde_de_trace (serde_ser_trace t) = Some t.
Proof. exact fromstr_display_trace. Qed.
Theorem C12_serde_span : forall s, s < 2 ^ 64 -> serde_de_span (serde_ser_span s) = Some s.
Proof. exact fromstr_display_span. Qed.

(* the executable oracle P_C12 (the term the correspondence check evaluates on what the code
   returned) holds of the model on every input *)
Theorem C12_oracle_rt : forall c,
  P_C12 (O_rt c (encode_traceparent c) (decode_traceparent (encode_traceparent c))) = true.
Proof. exact P_C12_model_rt. Qed.
Theorem C12_oracle_dec : forall s, P_C12 (O_dec s (Some (decode_traceparent s))) = true.
Proof. exact P_C12_model_dec. Qed.
Theorem C12_oracle_idt : forall t, t < 2 ^ 128 ->
  P_C12 (O_id 32 t (display_trace t) (from_str_trace (display_trace t))
              ([34] ++ serde_ser_trace t ++ [34]) (serde_de_trace (serde_ser_trace t))) = true.
Proof. exact P_C12_model_idt. Qed.
Theorem C12_oracle_ids : forall s, s < 2 ^ 64 ->
  P_C12 (O_id 16 s (display_span s) (from_str_span (display_span s))
              ([34] ++ serde_ser_span s ++ [34]) (serde_de_span (serde_ser_span s))) = true.
Proof. exact P_C12_model_ids. Qed.
(* the oracle's "valid" is exactly the accepted language *)
Theorem C12_decode_some_valid : forall s c, decode_traceparent s = Some c -> valid_tp s = true.
Proof. exact decode_some_valid. Qed.

(* F9 (repaired): what the pinned decode accepted and the repaired one rejects *)
Theorem C12_F9_witness :
  decode_traceparent_lenient [48;48;45;43;49;45;43;50;45;43;49]
  = Some {| c_trace := 1; c_span := 2; c_sampled := true |}
  /\ decode_traceparent [48;48;45;43;49;45;43;50;45;43;49] = None.
Proof. exact lenient_accepts_plus. Qed.

(* non-vacuity: a context with the top bits set meets the hypotheses *)
Example C12_nonvacuous :
  wf_ctx {| c_trace := 2 ^ 128 - 1; c_span := 2 ^ 63 + 5; c_sampled := true |}
  /\ decode_traceparent (encode_traceparent
        {| c_trace := 2 ^ 128 - 1; c_span := 2 ^ 63 + 5; c_sampled := true |})
     = Some {| c_trace := 2 ^ 128 - 1; c_span := 2 ^ 63 + 5; c_sampled := true |}.
Proof. split; [split; reflexivity|vm_compute; reflexivity]. Qed.

Print Assumptions C12_decode_encode.
Print Assumptions C12_encode_shape.
Print Assumptions C12_encode_length.
Print Assumptions C12_decode_some_iff.
Print Assumptions C12_decode_none_fields.
Print Assumptions C12_decode_none_version.
Print Assumptions C12_decode_none_field_not_hexnum.
Print Assumptions C12_fromstr_display_trace.
Print Assumptions C12_fromstr_display_span.
Print Assumptions C12_display_trace_shape.
Print Assumptions C12_display_span_shape.
Print Assumptions C12_serde_trace.
Print Assumptions C12_serde_span.
Print Assumptions C12_F9_witness.
Print Assumptions C12_oracle_rt.
Print Assumptions C12_oracle_dec.
Print Assumptions C12_oracle_idt.
Print Assumptions C12_oracle_ids.
Print Assumptions C12_decode_some_valid.
