(* C15 -- #[trace] changes nothing but adds exactly one span per call.
   The generated code is, by the macro's definition, one of three brackets around the
   unchanged body; each bracket is a sequence of API calls of the system model, so the
   theorems about those calls are the theorems about annotated functions:
     sync:           LocalSpan::enter_with_local_parent(name)[.with_properties(..)]; body; drop
     async (in_span): Span::enter_with_local_parent(name)[.with_properties(..)]; in_span(body)
     enter_on_poll:  per poll: LocalSpan::enter_with_local_parent(name); poll body; drop
   Only pinned statements, closed by [exact lemma], with Print Assumptions. *)
From Coq Require Import List NArith Bool.
From FT Require Import Model.Base Model.Local Model.LocalProg Model.Records Model.Collector Model.System
     Proofs.LocalProofs Proofs.ApiProofs Model.FormatStr Proofs.FormatStrProofs.
Import ListNotations.
Open Scope N_scope.

(* the sync bracket (and the enter_on_poll bracket around one poll) is the program
   [PSpan name props body]: for every body that is itself well nested it returns normally,
   in both profiles, and leaves the caller's local context exactly as it was *)
Theorem C15_bracket_transparent :
  forall dbg name wp body st e st' e',
    nz st -> e_prefix e <> 0 ->
    exec dbg (PSpan name wp body) st e = Ok (st', e') -> lctx st' = lctx st.
Proof. intros dbg name wp body. exact (frame dbg (PSpan name wp body)). Qed.

Theorem C15_bracket_returns :
  forall dbg name wp body st e,
    nz st -> e_prefix e <> 0 -> exists st' e', exec dbg (PSpan name wp body) st e = Ok (st', e').
Proof. intros dbg name wp body. exact (no_panic dbg (PSpan name wp body)). Qed.

(* without a local parent nothing is recorded and the property closure is not invoked *)
Theorem C15_no_local_parent_nothing_recorded :
  forall s th e,
    st_lines (th_stack th) = [] ->
    (forall ps, exec_call s th e (KLAddProps ps) = COk s th e [] (RBool false)) /\
    (forall name ps, exists th', exec_call s th e (KLAddEvent name ps) = COk s th' e [] RUnit /\
                                 th_stack th' = th_stack th) /\
    (forall l name, scoped_id_free l (th_scoped th) = true ->
                    exec_call s th e (KLEnter l name) =
                    COk s (th_set_scoped th (ScLocal l None :: th_scoped th)) e [] RUnit) /\
    (forall h name, amem h (s_spans s) = false ->
                    exec_call s th e (KChildLocal h name) =
                    COk (s_set_spans s ((h, None) :: s_spans s)) th e [] RUnit) /\
    exec_call s th e KCurLocal = COk s th e [] (RCtx None).
Proof. exact no_local_parent_inert. Qed.

(* the async bracket: each poll of in_span restores the poller's local context *)
Theorem C15_async_poll_restores_context :
  forall dbg osp st e p inner st1 st2 e2 out st3 e3,
    nz st -> e_prefix e <> 0 ->
    set_local osp st = (inner, st1) ->
    exec dbg p st1 e = Ok (st2, e2) ->
    drop_guard dbg inner st2 e2 = Ok (out, st3, e3) ->
    lctx st3 = lctx st.
Proof. exact poll_restores_context. Qed.

(* PROPERTY VALUES ("format strings evaluated against the arguments").  The macro's
   unescape_format_string (Model/FormatStr.v: two passes of str::replace, str::contains)
   decides for every value whether it goes to format!() and what is recorded otherwise.
   [scan] reads a string the way format!() does -- "{{" and "}}" are the literal braces, a
   single '{' opens an argument, a single '}' outside one is rejected.  For EVERY string:
   a value without arguments is recorded as exactly the text format!() would print; a value
   whose first unescaped brace opens an argument is handed to format!() verbatim. *)
Theorem C15_literal_value_is_what_format_prints :
  forall s u, scan s = Lit u -> unescape s = (u, false).
Proof. exact unescape_literal. Qed.

Theorem C15_value_with_argument_goes_to_format_verbatim :
  forall s, scan s = Open -> unescape s = (s, true).
Proof. exact unescape_argument. Qed.

Theorem C15_flagged_value_is_verbatim :
  forall s, snd (unescape s) = true -> fst (unescape s) = s.
Proof. exact unescape_flagged_is_verbatim. Qed.

(* non-vacuity, and the one case nothing is claimed about: "}{{}" is rejected by format!() (a
   lone '}' comes first) but accepted by the macro as the literal "}{}" *)
Example C15_format_examples :
  scan [97; 125; 125] = Lit [97; 125] /\ unescape [97; 125; 125] = ([97; 125], false) /\
  scan [123; 123; 123; 97; 125; 125; 125] = Open /\
  unescape [123; 123; 123; 97; 125; 125; 125] = ([123; 123; 123; 97; 125; 125; 125], true) /\
  scan [125; 123; 123; 125] = Close /\ unescape [125; 123; 123; 125] = ([125; 123; 125], false).
Proof. vm_compute. repeat split; reflexivity. Qed.

Print Assumptions C15_bracket_transparent.
Print Assumptions C15_bracket_returns.
Print Assumptions C15_no_local_parent_nothing_recorded.
Print Assumptions C15_async_poll_restores_context.
Print Assumptions C15_literal_value_is_what_format_prints.
Print Assumptions C15_value_with_argument_goes_to_format_verbatim.
Print Assumptions C15_flagged_value_is_verbatim.
