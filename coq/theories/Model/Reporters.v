(* fastrace-datadog (convert + the msgpack v0.4 body as rmp-serde with_struct_map emits it)
   and fastrace-opentelemetry (convert into SpanData).  Strings are UTF-8 byte lists.
   Definitions only. *)
From Coq Require Import List NArith Bool Arith.
From FT Require Import Model.Jaeger.
Import ListNotations.
Open Scope N_scope.

(* ---------------------------------------------------------------- msgpack (the emitted subset) *)
Fixpoint be_bytes (k : nat) (n : N) : bytes :=   (* k bytes, big endian *)
  match k with
  | O => []
  | S k' => be_bytes k' (n / 256) ++ [n mod 256]
  end.

(* rmp::encode::write_uint / the non-negative half of write_sint *)
Definition mp_uint (n : N) : bytes :=
  if n <? 128 then [n]
  else if n <? 256 then 204 :: be_bytes 1 n
  else if n <? 65536 then 205 :: be_bytes 2 n
  else if n <? 4294967296 then 206 :: be_bytes 4 n
  else 207 :: be_bytes 8 n.

(* write_sint on the i64 whose two's complement bits are v (v < 2^64) *)
Definition mp_sint (v : N) : bytes :=
  if v <? two63 then mp_uint v
  else
    let m := two64j - v in                         (* magnitude of the negative value *)
    if m <=? 32 then [256 - m]
    else if m <=? 128 then 208 :: be_bytes 1 (256 - m)
    else if m <=? 32768 then 209 :: be_bytes 2 (65536 - m)
    else if m <=? 2147483648 then 210 :: be_bytes 4 (4294967296 - m)
    else 211 :: be_bytes 8 v.

Definition mp_str (s : bytes) : bytes :=
  let n := N.of_nat (length s) in
  (if n <? 32 then [160 + n]
   else if n <? 256 then 217 :: be_bytes 1 n
   else if n <? 65536 then 218 :: be_bytes 2 n
   else 219 :: be_bytes 4 n) ++ s.

Definition mp_array_hdr (n : N) : bytes :=
  if n <? 16 then [144 + n] else if n <? 65536 then 220 :: be_bytes 2 n else 221 :: be_bytes 4 n.
Definition mp_map_hdr (n : N) : bytes :=
  if n <? 16 then [128 + n] else if n <? 65536 then 222 :: be_bytes 2 n else 223 :: be_bytes 4 n.

Definition ascii (l : list N) : bytes := l.
Definition k_name := ascii [110;97;109;101].
Definition k_service := ascii [115;101;114;118;105;99;101].
Definition k_type := ascii [116;121;112;101].
Definition k_resource := ascii [114;101;115;111;117;114;99;101].
Definition k_start := ascii [115;116;97;114;116].
Definition k_duration := ascii [100;117;114;97;116;105;111;110].
Definition k_meta := ascii [109;101;116;97].
Definition k_error_code := ascii [101;114;114;111;114;95;99;111;100;101].
Definition k_span_id := ascii [115;112;97;110;95;105;100].
Definition k_trace_id := ascii [116;114;97;99;101;95;105;100].
Definition k_parent_id := ascii [112;97;114;101;110;116;95;105;100].

(* DatadogSpan after convert *)
Record ddspan := mkDD {
  dd_name : bytes; dd_service : bytes; dd_type : bytes; dd_resource : bytes;
  dd_start : N; dd_duration : N;            (* bits of the i64 *)
  dd_meta : option (list (bytes * bytes));  (* in the order the HashMap iterated *)
  dd_span_id : N; dd_trace_id : N; dd_parent_id : N }.

Definition enc_ddspan (s : ddspan) : bytes :=
  mp_map_hdr (match dd_meta s with Some _ => 11 | None => 10 end) ++
  mp_str k_name ++ mp_str (dd_name s) ++
  mp_str k_service ++ mp_str (dd_service s) ++
  mp_str k_type ++ mp_str (dd_type s) ++
  mp_str k_resource ++ mp_str (dd_resource s) ++
  mp_str k_start ++ mp_sint (dd_start s) ++
  mp_str k_duration ++ mp_sint (dd_duration s) ++
  (match dd_meta s with
   | Some m => mp_str k_meta ++ mp_map_hdr (N.of_nat (length m)) ++
               flat_map (fun kv => mp_str (fst kv) ++ mp_str (snd kv)) m
   | None => []
   end) ++
  mp_str k_error_code ++ mp_sint 0 ++
  mp_str k_span_id ++ mp_uint (dd_span_id s) ++
  mp_str k_trace_id ++ mp_uint (dd_trace_id s) ++
  mp_str k_parent_id ++ mp_uint (dd_parent_id s).

(* the request body: 0x91 (one trace) then the array of spans *)
Definition enc_dd_body (spans : list ddspan) : bytes :=
  [145] ++ mp_array_hdr (N.of_nat (length spans)) ++ flat_map enc_ddspan spans.

Fixpoint beqb (a b : bytes) : bool :=
  match a, b with
  | [], [] => true
  | x :: a', y :: b' => (x =? y) && beqb a' b'
  | _, _ => false
  end.

(* HashMap<&str,&str> built by collect(): a later pair with the same key replaces the earlier;
   the set of entries (the iteration order is the HashMap's own) *)
Fixpoint last_wins (m : list (bytes * bytes)) : list (bytes * bytes) :=
  match m with
  | [] => []
  | (k, v) :: rest =>
      if existsb (fun kv => beqb k (fst kv)) rest then last_wins rest else (k, v) :: last_wins rest
  end.

(* DatadogReporter::convert: low 64 bits of the trace id, nanosecond times as i64, no events *)
Definition dd_convert (service resource ty : bytes) (r : jrecord) (meta_order : list (bytes * bytes)) : ddspan :=
  mkDD (jr_name r) service ty resource (jr_begin r) (jr_dur r)
       (match jr_props r with [] => None | _ => Some meta_order end)
       (jr_id r) (jr_trace r mod two64j) (jr_parent r).

(* ---------------------------------------------------------------- reading the body back *)
Definition be_val (l : bytes) : N := fold_left (fun acc b => acc * 256 + b) l 0.

Fixpoint take_n (k : nat) (l : bytes) : option (bytes * bytes) :=
  match k with
  | O => Some ([], l)
  | S k' => match l with
            | [] => None
            | x :: r => match take_n k' r with
                        | Some (a, b) => Some (x :: a, b)
                        | None => None
                        end
            end
  end.

Definition rd_str (l : bytes) : option (bytes * bytes) :=
  match l with
  | m :: rest =>
      if (160 <=? m) && (m <? 192) then take_n (N.to_nat (m - 160)) rest
      else if m =? 217 then match take_n 1 rest with Some (n, r) => take_n (N.to_nat (be_val n)) r | None => None end
      else if m =? 218 then match take_n 2 rest with Some (n, r) => take_n (N.to_nat (be_val n)) r | None => None end
      else if m =? 219 then match take_n 4 rest with Some (n, r) => take_n (N.to_nat (be_val n)) r | None => None end
      else None
  | [] => None
  end.

(* an integer as the 64 bits of its i64 / u64 value *)
Definition rd_int (l : bytes) : option (N * bytes) :=
  match l with
  | m :: rest =>
      if m <? 128 then Some (m, rest)
      else if 224 <=? m then Some (two64j - (256 - m), rest)
      else if m =? 204 then match take_n 1 rest with Some (n, r) => Some (be_val n, r) | None => None end
      else if m =? 205 then match take_n 2 rest with Some (n, r) => Some (be_val n, r) | None => None end
      else if m =? 206 then match take_n 4 rest with Some (n, r) => Some (be_val n, r) | None => None end
      else if m =? 207 then match take_n 8 rest with Some (n, r) => Some (be_val n, r) | None => None end
      else if m =? 208 then match take_n 1 rest with Some (n, r) => Some (two64j - (256 - be_val n), r) | None => None end
      else if m =? 209 then match take_n 2 rest with Some (n, r) => Some (two64j - (65536 - be_val n), r) | None => None end
      else if m =? 210 then match take_n 4 rest with Some (n, r) => Some (two64j - (4294967296 - be_val n), r) | None => None end
      else if m =? 211 then match take_n 8 rest with Some (n, r) => Some (be_val n, r) | None => None end
      else None
  | [] => None
  end.

Definition rd_hdr (fix16 m16 m32 : N) (l : bytes) : option (N * bytes) :=
  match l with
  | m :: rest =>
      if (fix16 <=? m) && (m <? fix16 + 16) then Some (m - fix16, rest)
      else if m =? m16 then match take_n 2 rest with Some (n, r) => Some (be_val n, r) | None => None end
      else if m =? m32 then match take_n 4 rest with Some (n, r) => Some (be_val n, r) | None => None end
      else None
  | [] => None
  end.
Definition rd_array_hdr := rd_hdr 144 220 221.
Definition rd_map_hdr := rd_hdr 128 222 223.

Definition rd_key (k : bytes) (l : bytes) : option bytes :=
  match rd_str l with Some (s, r) => if beqb s k then Some r else None | None => None end.

Fixpoint rd_pairs (n : nat) (l : bytes) : option (list (bytes * bytes) * bytes) :=
  match n with
  | O => Some ([], l)
  | S n' => match rd_str l with
            | Some (k, r1) => match rd_str r1 with
                              | Some (v, r2) => match rd_pairs n' r2 with
                                                | Some (ps, r3) => Some ((k, v) :: ps, r3)
                                                | None => None
                                                end
                              | None => None
                              end
            | None => None
            end
  end.

Definition obind {A B} (o : option A) (f : A -> option B) : option B :=
  match o with Some a => f a | None => None end.

Definition rd_kv_str (k : bytes) (l : bytes) : option (bytes * bytes) := obind (rd_key k l) rd_str.
Definition rd_kv_int (k : bytes) (l : bytes) : option (N * bytes) := obind (rd_key k l) rd_int.

Definition rd_meta (n : N) (l : bytes) : option (option (list (bytes * bytes)) * bytes) :=
  if n =? 11 then
    match rd_key k_meta l with
    | Some l1 => match rd_map_hdr l1 with
                 | Some (m, l2) => match rd_pairs (N.to_nat m) l2 with
                                   | Some (ps, l3) => Some (Some ps, l3)
                                   | None => None
                                   end
                 | None => None
                 end
    | None => None
    end
  else if n =? 10 then Some (None, l) else None.

Definition rd_ddspan (l0 : bytes) : option (ddspan * bytes) :=
  match rd_map_hdr l0 with None => None | Some (n, l) =>
  match rd_kv_str k_name l with None => None | Some (name, l) =>
  match rd_kv_str k_service l with None => None | Some (service, l) =>
  match rd_kv_str k_type l with None => None | Some (ty, l) =>
  match rd_kv_str k_resource l with None => None | Some (resource, l) =>
  match rd_kv_int k_start l with None => None | Some (start, l) =>
  match rd_kv_int k_duration l with None => None | Some (dur, l) =>
  match rd_meta n l with None => None | Some (meta, l) =>
  match rd_kv_int k_error_code l with None => None | Some (ec, l) =>
  if negb (ec =? 0) then None else
  match rd_kv_int k_span_id l with None => None | Some (sid, l) =>
  match rd_kv_int k_trace_id l with None => None | Some (tid, l) =>
  match rd_kv_int k_parent_id l with None => None | Some (pid, l) =>
  Some (mkDD name service ty resource start dur meta sid tid pid, l)
  end end end end end end end end end end end end .

Fixpoint rd_ddspans (n : nat) (l : bytes) : option (list ddspan * bytes) :=
  match n with
  | O => Some ([], l)
  | S n' => match rd_ddspan l with
            | Some (s, l1) => match rd_ddspans n' l1 with
                              | Some (ss, l2) => Some (s :: ss, l2)
                              | None => None
                              end
            | None => None
            end
  end.

Definition rd_dd_body (l : bytes) : option (list ddspan) :=
  match l with
  | 145 :: rest =>
      match rd_array_hdr rest with
      | Some (n, l1) => match rd_ddspans (N.to_nat n) l1 with
                        | Some (ss, []) => Some ss
                        | _ => None
                        end
      | None => None
      end
  | _ => None
  end.

(* ---------------------------------------------------------------- OpenTelemetry *)
Record otel_event := mkOE { oe_name : bytes; oe_time : N; oe_attrs : list (bytes * bytes) }.
Record otel_span := mkOS {
  os_trace : N; os_span : N; os_parent : N; os_name : bytes; os_start : N; os_end : N;
  os_attrs : list (bytes * bytes); os_events : list otel_event }.

Definition otel_convert (r : jrecord) : otel_span :=
  mkOS (jr_trace r) (jr_id r) (jr_parent r) (jr_name r) (jr_begin r) (jr_begin r + jr_dur r)
       (jr_props r) (map (fun e => mkOE (je_name e) (je_ts e) (je_props e)) (jr_events r)).
