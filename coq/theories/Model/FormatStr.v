(* fastrace-macro: unescape_format_string, the function that decides for every value of
   `properties = { "k": "v" }` whether it is handed to format!() or recorded as a literal, and
   what the literal is.  Strings are lists of UTF-8 bytes; '{' and '}' are ASCII, so str::replace
   and str::contains on them act bytewise.  [rep p w s] is s.replace("pp", w) (non-overlapping
   matches, left to right). *)
From Coq Require Import List NArith Bool.
Import ListNotations.
Open Scope N_scope.

Definition LB : N := 123.   (* '{' *)
Definition RB : N := 125.   (* '}' *)

Fixpoint rep (p : N) (w : list N) (s : list N) : list N :=
  match s with
  | [] => []
  | x :: r =>
      match r with
      | [] => [x]
      | y :: t => if (x =? p) && (y =? p) then w ++ rep p w t else x :: rep p w r
      end
  end.

Definition has (c : N) (s : list N) : bool := existsb (N.eqb c) s.

(* fn unescape_format_string(s: &str) -> (String, bool) *)
Definition unescape (s : list N) : list N * bool :=
  let d := rep RB [] (rep LB [] s) in
  if has LB d || has RB d then (s, true)
  else (rep RB [RB] (rep LB [LB] s), false).

(* what format!() does with a string, read left to right: "{{" and "}}" are the literal
   braces; a single '{' opens an argument; a single '}' outside an argument is rejected *)
Inductive scanned :=
| Lit (text : list N)      (* no argument: format!(s) prints text *)
| Open                     (* an argument (or a malformed one) comes first *)
| Close.                   (* a lone '}' comes first: format!() rejects the string *)

Fixpoint scan_fuel (n : nat) (s : list N) : scanned :=
  match n with
  | O => Lit []
  | S n' =>
      match s with
      | [] => Lit []
      | x :: r =>
          if x =? LB then
            match r with
            | y :: t => if y =? LB then match scan_fuel n' t with Lit u => Lit (LB :: u) | o => o end else Open
            | [] => Open
            end
          else if x =? RB then
            match r with
            | y :: t => if y =? RB then match scan_fuel n' t with Lit u => Lit (RB :: u) | o => o end else Close
            | [] => Close
            end
          else match scan_fuel n' r with Lit u => Lit (x :: u) | o => o end
      end
  end.

Definition scan (s : list N) : scanned := scan_fuel (S (length s)) s.
