(* Well-nested programs over the thread-local layer (for C10 / C07): scopes and local spans
   are opened and closed in LIFO order by construction; any non-scope operation may occur
   anywhere.  [exec] runs such a program on the model of Model/Local.v.
   Definitions only. *)
From Coq Require Import List NArith Bool.
From FT Require Import Model.Base Model.Local.
Import ListNotations.
Open Scope N_scope.

Inductive prog :=
| PSkip
| PSeq (p q : prog)
| PEvent (name : sym) (ps : option props)            (* LocalSpan::add_event *)
| PProps (ps : props)                                (* LocalSpan::add_properties *)
| PSpan (name : sym) (wp : option props) (body : prog)
    (* let g = LocalSpan::enter_with_local_parent(name)[.with_properties(..)]; body; drop(g) *)
| PScope (tk : option token) (body : prog).
    (* let g = span.set_local_parent() / LocalCollector::start(); body; drop(g) / collect *)

Fixpoint exec (dbg : bool) (p : prog) (st : stack) (e : env) : res (stack * env) :=
  match p with
  | PSkip => Ok (st, e)
  | PSeq p q => bind (exec dbg p st e) (fun se => exec dbg q (fst se) (snd se))
  | PEvent name ps => Ok (s_add_event st name ps e)
  | PProps ps => if s_is_current_recording st then Ok (s_add_props st ps e) else Ok (st, e)
  | PSpan name wp body =>
      match s_enter st name e with
      | (Some (h, st1), e1) =>
          bind (match wp with
                | Some ps => if s_is_recording st1 h then s_with_props dbg st1 h ps else Ok st1
                | None => Ok st1
                end) (fun st2 =>
          bind (exec dbg body st2 e1) (fun se => s_exit dbg (fst se) h (snd se)))
      | (None, e1) => exec dbg body st e1
      end
  | PScope tk body =>
      match s_register st tk with
      | (Some ep, st1) =>
          bind (exec dbg body st1 e) (fun se =>
          bind (s_unregister dbg (fst se) ep) (fun r => Ok (snd r, snd se)))
      | (None, _) => exec dbg body st e
      end
  end.

(* the thread's local context: what current_local_parent(), the parents of later spans and
   the attachment point of later local properties/events depend on *)
Definition lctx (st : stack) : list (option token * option N * N * bool) :=
  map (fun l => (l_token l, q_next (l_q l), l_epoch l, l_sampled l)) (st_lines st).
