(* fastrace-jaeger: JaegerReporter::convert, the Thrift compact encoding of the emitBatch
   message as thrift_codec produces it, and the datagram splitter of try_report.
   Strings are lists of UTF-8 bytes.  Definitions only. *)
From Coq Require Import List NArith Bool Arith.
Import ListNotations.
Open Scope N_scope.

Definition bytes := list N.

(* ---------------------------------------------------------------- numbers *)
Definition two63 : N := 9223372036854775808.
Definition two64j : N := 18446744073709551616.

(* u64 reinterpreted as i64 (`as i64`), then zig-zag encoded: (n << 1) ^ (n >> 63) *)
Definition zigzag64 (v : N) : N :=
  if v <? two63 then 2 * v else 2 * (two64j - v) - 1.

(* i32 zig-zag for the small non-negative constants that occur (flags = 1, tag kind = 0) *)
Definition zigzag32 (v : N) : N := 2 * v.

(* LEB128: at most 10 groups for a 64-bit value *)
Fixpoint varint_fuel (fuel : nat) (n : N) : bytes :=
  match fuel with
  | O => [n mod 128]
  | S fuel' => if n <? 128 then [n] else (n mod 128 + 128) :: varint_fuel fuel' (n / 128)
  end.
Definition varint (n : N) : bytes := varint_fuel 10 n.

(* ---------------------------------------------------------------- Thrift compact protocol *)
(* element / field types *)
Definition T_I32 : N := 5.
Definition T_I64 : N := 6.
Definition T_BINARY : N := 8.
Definition T_LIST : N := 9.
Definition T_STRUCT : N := 12.

(* field header: the ids used here always advance by 1..15, so the short form applies *)
Definition field_hdr (delta ty : N) : bytes := [delta * 16 + ty].

Definition enc_i64 (v : N) : bytes := varint (zigzag64 v).
Definition enc_str (s : bytes) : bytes := varint (N.of_nat (length s)) ++ s.
Definition list_hdr (n : nat) (ty : N) : bytes :=
  if Nat.ltb n 15 then [N.of_nat n * 16 + ty] else [240 + ty] ++ varint (N.of_nat n).

(* Tag::String { key, value }: field 1 key, field 2 kind = 0 (i32), field 3 value *)
Definition enc_tag (kv : bytes * bytes) : bytes :=
  field_hdr 1 T_BINARY ++ enc_str (fst kv) ++
  field_hdr 1 T_I32 ++ varint (zigzag32 0) ++
  field_hdr 1 T_BINARY ++ enc_str (snd kv) ++ [0].

(* Log { timestamp, fields } *)
Record jlog := mkJLog { jl_ts : N; jl_fields : list (bytes * bytes) }.
Definition enc_log (l : jlog) : bytes :=
  field_hdr 1 T_I64 ++ enc_i64 (jl_ts l) ++
  field_hdr 1 T_LIST ++ list_hdr (length (jl_fields l)) T_STRUCT ++ flat_map enc_tag (jl_fields l) ++ [0].

Record jspan := mkJSpan {
  j_trace_low : N; j_trace_high : N; j_span : N; j_parent : N; j_name : bytes;
  j_flags : N; j_start : N; j_dur : N; j_tags : list (bytes * bytes); j_logs : list jlog }.

(* fields 1..5, (6 references: always empty, omitted), 7, 8, 9, 10 if non-empty, 11 if non-empty *)
Definition enc_span (s : jspan) : bytes :=
  field_hdr 1 T_I64 ++ enc_i64 (j_trace_low s) ++
  field_hdr 1 T_I64 ++ enc_i64 (j_trace_high s) ++
  field_hdr 1 T_I64 ++ enc_i64 (j_span s) ++
  field_hdr 1 T_I64 ++ enc_i64 (j_parent s) ++
  field_hdr 1 T_BINARY ++ enc_str (j_name s) ++
  field_hdr 2 T_I32 ++ varint (zigzag32 (j_flags s)) ++
  field_hdr 1 T_I64 ++ enc_i64 (j_start s) ++
  field_hdr 1 T_I64 ++ enc_i64 (j_dur s) ++
  (match j_tags s with
   | [] => []
   | tags => field_hdr 1 T_LIST ++ list_hdr (length tags) T_STRUCT ++ flat_map enc_tag tags
   end) ++
  (match j_logs s with
   | [] => []
   | logs => field_hdr (match j_tags s with [] => 2 | _ => 1 end) T_LIST ++
             list_hdr (length logs) T_STRUCT ++ flat_map enc_log logs
   end) ++ [0].

(* Message::oneway("emitBatch", 0, Struct((Struct(batch),))): protocol id 0x82, version 1 with
   message type oneway (4), sequence id 0, method name, then the argument struct *)
Definition emit_batch_name : bytes := [101; 109; 105; 116; 66; 97; 116; 99; 104].

Definition enc_message (service : bytes) (spans : list jspan) : bytes :=
  [130; 129] ++ varint 0 ++ enc_str emit_batch_name ++
  (* args: field 1 = Batch struct *)
  field_hdr 1 T_STRUCT ++
    (* Batch: field 1 = Process struct { field 1 service name }, field 2 = list of spans *)
    field_hdr 1 T_STRUCT ++ field_hdr 1 T_BINARY ++ enc_str service ++ [0] ++
    field_hdr 1 T_LIST ++ list_hdr (length spans) T_STRUCT ++ flat_map enc_span spans ++ [0] ++
  [0].

(* ---------------------------------------------------------------- convert *)
Record jevent := mkJEv { je_name : bytes; je_ts : N; je_props : list (bytes * bytes) }.
Record jrecord := mkJRec {
  jr_trace : N; jr_id : N; jr_parent : N; jr_begin : N; jr_dur : N; jr_name : bytes;
  jr_props : list (bytes * bytes); jr_events : list jevent }.

Definition name_key : bytes := [110; 97; 109; 101].   (* "name" *)

Definition convert (r : jrecord) : jspan :=
  mkJSpan (jr_trace r mod two64j) (jr_trace r / two64j) (jr_id r) (jr_parent r) (jr_name r) 1
          (jr_begin r / 1000) (jr_dur r / 1000) (jr_props r)
          (map (fun ev => mkJLog (je_ts ev / 1000) ((name_key, je_name ev) :: je_props ev)) (jr_events r)).

Definition encode_records (service : bytes) (rs : list jrecord) : bytes :=
  enc_message service (map convert rs).

(* ---------------------------------------------------------------- try_report *)
Section Split.
Context {A : Type}.
Variable size : list A -> nat.      (* byte length of the encoding of a batch *)
Variable MAX : nat.                 (* MAX_UDP_PACKAGE_SIZE *)

(* the while loop; each iteration either shortens [rem] or halves [spb] (>= 2 then), so
   fuel = length rem + spb + 1 always suffices (proved in Proofs/JaegerProofs.v) *)
Fixpoint split_loop (fuel spb : nat) (rem : list A) (out : list (list A)) : option (list (list A)) :=
  match fuel with
  | O => None
  | S fuel' =>
      match rem with
      | [] => Some out
      | _ :: _ =>
          let bs := Nat.min spb (length rem) in
          let batch := firstn bs rem in
          if Nat.leb MAX (size batch) then
            if Nat.leb bs 1 then split_loop fuel' spb (skipn 1 rem) out
            else split_loop fuel' (Nat.div spb 2) rem out
          else split_loop fuel' spb (skipn bs rem) (out ++ [batch])
      end
  end.

Definition try_report (spans : list A) : option (list (list A)) :=
  split_loop (2 * length spans + 1) (length spans) spans [].

End Split.

(* the datagrams of one report() call *)
Definition report_datagrams (service : bytes) (rs : list jrecord) : option (list bytes) :=
  match rs with
  | [] => Some []
  | _ =>
      option_map (map (encode_records service))
                 (try_report (fun b => length (encode_records service b)) (N.to_nat 8000) rs)
  end.
