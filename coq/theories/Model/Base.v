(* Data of the tracing core: tokens, raw spans, span sets, commands, records.
   Strings are interned symbols (N): the model never inspects them (sym 0 is ""). *)
From Coq Require Import List NArith Bool.
Import ListNotations.
Open Scope N_scope.

Definition sym := N.
Definition props := list (sym * sym).

(* collector/mod.rs: CollectTokenItem *)
Record tok_item := mkTok {
  ti_trace : N; ti_parent : N; ti_collect : N; ti_root : bool; ti_sampled : bool }.
Definition token := list tok_item.

Definition NOT_SAMPLED_COLLECT_ID : N := 18446744073709551615. (* usize::MAX *)

(* local/raw_span.rs *)
Inductive rkind := KSpan | KEvent | KProps.
Record raw := mkRaw {
  r_id : N; r_parent : N; r_begin : N; r_name : sym;
  r_props : option props; r_kind : rkind; r_end : N }.   (* r_end = 0 is Instant::ZERO *)

(* collector/mod.rs: SpanSet *)
Inductive span_set :=
| SSpan (r : raw)
| SLocal (rs : list raw) (end_time : N)
| SShared (rs : list raw) (end_time : N).

(* collector/command.rs *)
Inductive command :=
| CStart (c : N) | CDrop (c : N) | CCommit (c : N) | CSubmit (s : span_set) (tk : token).

(* commit/drop/start go through force_send (start since the F8 repair), submits through send *)
Definition is_forced (c : command) : bool :=
  match c with CSubmit _ _ => false | _ => true end.

Record event_rec := mkEv { e_name : sym; e_ts : N; e_props : props }.
Record record := mkRec {
  rc_trace : N; rc_id : N; rc_parent : N; rc_begin : N; rc_dur : N;
  rc_name : sym; rc_props : props; rc_events : list event_rec }.

Definition set_raws (s : span_set) : list raw :=
  match s with SSpan r => [r] | SLocal rs _ => rs | SShared rs _ => rs end.

(* association lists *)
Fixpoint alookup {A} (k : N) (l : list (N * A)) : option A :=
  match l with
  | [] => None
  | (k', v) :: l' => if k =? k' then Some v else alookup k l'
  end.
Fixpoint aremove {A} (k : N) (l : list (N * A)) : list (N * A) :=
  match l with
  | [] => []
  | (k', v) :: l' => if k =? k' then aremove k l' else (k', v) :: aremove k l'
  end.
Definition aset {A} (k : N) (v : A) (l : list (N * A)) : list (N * A) := (k, v) :: aremove k l.
Fixpoint aupdate {A} (k : N) (f : A -> A) (l : list (N * A)) : list (N * A) :=
  match l with
  | [] => []
  | (k', v) :: l' => if k =? k' then (k', f v) :: l' else (k', v) :: aupdate k f l'
  end.
Definition amem {A} (k : N) (l : list (N * A)) : bool :=
  match alookup k l with Some _ => true | None => false end.

Fixpoint list_update {A} (i : nat) (f : A -> A) (l : list A) : list A :=
  match l, i with
  | [], _ => []
  | x :: l', O => f x :: l'
  | x :: l', S i' => x :: list_update i' f l'
  end.

Definition lenN {A} (l : list A) : N := N.of_nat (length l).
