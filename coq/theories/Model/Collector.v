(* GlobalCollector::handle_commands after the drain: what is done with one batch of
   commands (start, drop, submit, commit in that order; default-mode flush; stale sets;
   one report).  HashMap<usize, ActiveCollector> is an association list; the order in
   which the default-mode flush visits it is not modelled (reports are compared as
   multisets).
   Definitions only. *)
From Coq Require Import List NArith Bool.
From FT Require Import Model.Base Model.Records.
Import ListNotations.
Open Scope N_scope.

Record active := mkActive { a_colls : list collection; a_dang : danglings }.
Definition active_map := list (N * active).

Record batch := mkBatch {
  b_start : list N; b_drop : list N; b_commit : list N; b_submit : list (span_set * token) }.
Definition batch_empty : batch := mkBatch [] [] [] [].

Definition batch_add (b : batch) (c : command) : batch :=
  match c with
  | CStart i => mkBatch (b_start b ++ [i]) (b_drop b) (b_commit b) (b_submit b)
  | CDrop i => mkBatch (b_start b) (b_drop b ++ [i]) (b_commit b) (b_submit b)
  | CCommit i => mkBatch (b_start b) (b_drop b) (b_commit b ++ [i]) (b_submit b)
  | CSubmit s tk => mkBatch (b_start b) (b_drop b) (b_commit b) (b_submit b ++ [(s, tk)])
  end.

Section Conv.
Variable conv : N -> N.

Definition do_starts (am : active_map) (l : list N) : active_map :=
  fold_left (fun m c => aset c (mkActive [] []) m) l am.

Definition do_drops (cancelable : bool) (am : active_map) (l : list N) : active_map :=
  if cancelable then fold_left (fun m c => aremove c m) l am else am.

(* one token item of one SubmitSpans; stale collections remember the collect id they were
   meant for (a ghost tag: the code does not need it) *)
Definition submit_item (cancelable : bool) (s : span_set) (st : active_map * list (N * collection))
           (it : tok_item) : active_map * list (N * collection) :=
  let (am, stale) := st in
  let cl := mkColl s (ti_trace it) (ti_parent it) in
  if amem (ti_collect it) am
  then (aupdate (ti_collect it) (fun a => mkActive (a_colls a ++ [cl]) (a_dang a)) am, stale)
  else if cancelable then (am, stale) else (am, stale ++ [(ti_collect it, cl)]).

Definition do_submits (cancelable : bool) (am : active_map) (l : list (span_set * token))
  : active_map * list (N * collection) :=
  fold_left (fun st sub => fold_left (submit_item cancelable (fst sub)) (snd sub) st) l (am, []).

Definition tag (c : N) (l : list record) : list (N * record) := map (fun r => (c, r)) l.

(* commits: remove the entry and post-process what it holds.  Every produced record is
   tagged with the collect id of the entry it came from (ghost; erased by [process]). *)
Definition do_commits (am : active_map) (l : list N) : active_map * list (N * record) :=
  fold_left (fun st c =>
               match alookup c (fst st) with
               | Some a => (aremove c (fst st),
                            snd st ++ tag c (fst (postprocess conv (a_colls a) (a_dang a))))
               | None => st
               end) l (am, []).

(* default mode: every active collector hands over what it has buffered, keeps its danglings *)
Definition flush_active (am : active_map) : active_map * list (N * record) :=
  fold_left (fun st ka =>
               let (recs, d) := postprocess conv (a_colls (snd ka)) (a_dang (snd ka)) in
               (fst st ++ [(fst ka, mkActive [] d)], snd st ++ tag (fst ka) recs)) am ([], []).

Definition do_stale (stale : list (N * collection)) : list (N * record) :=
  flat_map (fun ccl => tag (fst ccl) (fst (postprocess conv [snd ccl] []))) stale.

(* the whole processing of one batch: new active map and the argument of report(), each
   record tagged with the collect id it was delivered for *)
Definition process_owned (cancelable : bool) (am : active_map) (b : batch)
  : active_map * list (N * record) :=
  let am1 := do_starts am (b_start b) in
  let am2 := do_drops cancelable am1 (b_drop b) in
  let (am3, stale) := do_submits cancelable am2 (b_submit b) in
  let (am4, committed) := do_commits am3 (b_commit b) in
  let (am5, flushed) := if cancelable then (am4, []) else flush_active am4 in
  (am5, committed ++ flushed ++ do_stale stale).

Definition process (cancelable : bool) (am : active_map) (b : batch) : active_map * list record :=
  let (am', recs) := process_owned cancelable am b in (am', map snd recs).

End Conv.
