(* The whole system: threads (local stack, id generator, command channel, outbox of pushes
   still to perform), thread-safe spans, adapters, the collector and its drain as
   micro-steps.  A history is a list of scheduled actions; [step] executes one.
   An API call is executed atomically on thread-local state and yields an ordered outbox
   of (forced?, command); the thread needs one [APush] per ring push and cannot start its
   next call before the outbox is empty.
   Definitions only. *)
From Coq Require Import List NArith Bool.
From FT Require Import Model.Base Model.Local Model.Records Model.Spsc Model.Collector.
Import ListNotations.
Open Scope N_scope.

(* ------------------------------------------------------------------ state *)
Record span_inner := mkSpan { sp_raw : raw; sp_token : token; sp_cid : option N }.

(* objects that must be released in reverse order of creation on their own thread *)
Inductive scoped :=
| ScGuard (g : N) (inner : option (option N))   (* LocalParentGuard: noop | collector (epoch?) *)
| ScLocal (l : N) (h : option lhandle)          (* LocalSpan *)
| ScColl (lc : N) (h : option N).               (* LocalCollector *)

(* a user closure or an adapter poll in progress on this thread *)
Inductive frame :=
| FSWith (h : N) (ps : props)
| FSAdd (r : raw) (tk : token) (ps : props)
| FLWith (l : N) (ps : props)
| FLAdd (ps : props)
| FPoll (a : N).

Record thread := mkThread {
  th_stack : stack; th_scoped : list scoped; th_frames : list frame;
  th_prefix : N; th_suffix : N;
  th_chan : chan command; th_outbox : list (bool * command) }.

Inductive cpc :=
| PIdle
| PDrain (todo kept : list N) (cur : N)     (* about to pop from cur's ring *)
| PEmpty (todo kept : list N) (cur : N)     (* cur's ring was seen empty; about to check abandonment *)
| PDrained.                                 (* registry released; about to process *)

Record sys := mkSys {
  s_threads : list (N * thread);
  s_spans : list (N * option span_inner);           (* handle -> None = no-op span *)
  s_lsets : list (N * (list raw * N));              (* LocalSpans values *)
  s_adapters : list (N * option (option span_inner)); (* adapter -> span still held *)
  s_nstep : N; s_next_collect : N; s_ready : bool; s_dbg : bool;
  s_cancelable : bool; s_installed : bool;
  s_registry : list N; s_pc : cpc; s_batch : batch; s_active : active_map;
  s_ringcap : N; s_stackcap : N; s_qcap : N }.

Definition sys_init (dbg : bool) (ringcap stackcap qcap : N) : sys :=
  mkSys [] [] [] [] 0 0 false dbg false false [] PIdle batch_empty [] ringcap stackcap qcap.

(* ------------------------------------------------------------------ actions *)
Inductive pmeth := MFut | MNext | MReady | MStart | MFlush | MClose.
Inductive pres := RPending | RFinal | RItem.

Inductive call :=
| KRoot (h name trace span : N) (sampled : bool)
| KNoop (h : N)
| KChild (h name p : N)
| KChildMany (h name : N) (ps : list N)
| KChildLocal (h name : N)
| KSetLocal (g h : N)
| KDropGuard (g : N)
| KLEnter (l name : N)
| KLExit (l : N)
| KLWithProps (l : N) (ps : props)
| KLAddProps (ps : props)
| KLAddEvent (name : N) (ps : option props)
| KLcStart (lc : N)
| KLcCollect (lc ls : N)
| KLcDrop (lc : N)
| KPushChild (h ls : N)
| KToRecords (ls trace span : N)
| KSWithProps (h : N) (ps : props)
| KSAddProps (h : N) (ps : props)
| KSAddEvent (h name : N) (ps : option props)
| KCancel (h : N)
| KDropSpan (h : N)
| KElapsed (h : N)
| KFromSpan (h : N)
| KCurLocal
| KClosureRet
| KAdNew (a h : N)
| KPollBegin (a g : N)
| KPollEnd (a : N) (m : pmeth) (r : pres)
| KAdDrop (a : N).

Inductive action :=
| AInstall (cancelable : bool)
| ASpawn (t prefix suffix : N)
| ACall (t : N) (c : call)
| APush (t : N)
| AExit (t : N)
| ACBegin | ACPop | ACCheck | ACProcess.

Definition ctx := (N * N * bool)%type.

Inductive cres :=
| RUnit
| RCtx (c : option ctx)
| RBool (b : bool)
| RRecords (l : list record).

(* what one action shows *)
Inductive obs :=
| ONone
| OCall (r : cres)
| OPanic (site : N)
| OReport (recs : list record) (act : list (N * N * N)) (receivers : N)
| OBad (code : N).                (* the action is not enabled in this state *)

(* ------------------------------------------------------------------ helpers *)
Definition issue_token (sp : span_inner) : token :=
  map (fun it => mkTok (ti_trace it) (r_id (sp_raw sp)) (ti_collect it) false (ti_sampled it))
      (sp_token sp).

(* GlobalCollect::submit_spans *)
Definition submit (s : span_set) (tk : token) : list (bool * command) :=
  match filter ti_sampled tk with
  | [] => []
  | tk' => [(false, CSubmit s tk')]
  end.

Definition new_span (name : sym) (tk : token) (cid : option N) (e : env) : span_inner * env :=
  let (id, e1) := next_id e in
  let (t0, e2) := now e1 in
  (mkSpan (mkRaw id 0 t0 name None KSpan 0) tk cid, e2).

(* Drop for Span *)
Definition drop_span (osp : option span_inner) (e : env) : list (bool * command) * env :=
  match osp with
  | None => ([], e)
  | Some sp =>
      let (t1, e1) := now e in
      (submit (SSpan (raw_set_end t1 (sp_raw sp))) (sp_token sp)
       ++ match sp_cid sp with Some c => [(true, CCommit c)] | None => [] end, e1)
  end.

(* Span::set_local_parent *)
Definition set_local (osp : option span_inner) (st : stack) : option (option N) * stack :=
  match osp with
  | None => (None, st)
  | Some sp => let (oep, st') := lc_new st (Some (issue_token sp)) in (Some oep, st')
  end.

(* Drop for LocalParentGuard *)
Definition drop_guard (dbg : bool) (inner : option (option N)) (st : stack) (e : env)
  : res (list (bool * command) * stack * env) :=
  match inner with
  | None => Ok ([], st, e)
  | Some oep =>
      bind (lc_collect dbg st oep e) (fun r =>
        match r with
        | ((spans, endt, otk), st', e') =>
            match otk with
            | Some tk => Ok (submit (SLocal spans endt) tk, st', e')
            | None => Ok ([], st', e')
            end
        end)
  end.

Fixpoint find_local (l : N) (sc : list scoped) : option (option lhandle) :=
  match sc with
  | [] => None
  | ScLocal l' h :: rest => if l =? l' then Some h else find_local l rest
  | _ :: rest => find_local l rest
  end.

Definition scoped_id_free (n : N) (sc : list scoped) : bool :=
  forallb (fun x => match x with
                    | ScGuard g _ => negb (g =? n)
                    | ScLocal l _ => negb (l =? n)
                    | ScColl c _ => negb (c =? n)
                    end) sc.

(* local spans still open above a local collector that is collected / dropped now (the one
   non-LIFO release the API documents: "spans still open are closed at the collection
   time"); their handles go stale *)
Fixpoint split_locals (sc : list scoped) : list scoped * list scoped :=
  match sc with
  | ScLocal l h :: rest => let (ls, r) := split_locals rest in (ScLocal l h :: ls, r)
  | _ => ([], sc)
  end.

Definition takes (m : pmeth) (r : pres) : bool :=
  match m, r with
  | MFut, RPending => false
  | MFut, _ => true
  | MNext, RFinal => true
  | MClose, RPending => false
  | MClose, _ => true
  | _, _ => false
  end.

(* result of executing a call on thread [th] *)
Inductive cout :=
| COk (s : sys) (th : thread) (e : env) (out : list (bool * command)) (r : cres)
| CBad (code : N)
| CPanic (site : N).

Definition th_set_stack (th : thread) (st : stack) : thread :=
  mkThread st (th_scoped th) (th_frames th) (th_prefix th) (th_suffix th) (th_chan th) (th_outbox th).
Definition th_set_scoped (th : thread) (sc : list scoped) : thread :=
  mkThread (th_stack th) sc (th_frames th) (th_prefix th) (th_suffix th) (th_chan th) (th_outbox th).
Definition th_set_frames (th : thread) (fr : list frame) : thread :=
  mkThread (th_stack th) (th_scoped th) fr (th_prefix th) (th_suffix th) (th_chan th) (th_outbox th).
Definition th_set_chan (th : thread) (c : chan command) : thread :=
  mkThread (th_stack th) (th_scoped th) (th_frames th) (th_prefix th) (th_suffix th) c (th_outbox th).
Definition th_set_outbox (th : thread) (o : list (bool * command)) : thread :=
  mkThread (th_stack th) (th_scoped th) (th_frames th) (th_prefix th) (th_suffix th) (th_chan th) o.
Definition th_set_suffix (th : thread) (sfx : N) : thread :=
  mkThread (th_stack th) (th_scoped th) (th_frames th) (th_prefix th) sfx (th_chan th) (th_outbox th).

Definition s_set_spans (s : sys) (sp : list (N * option span_inner)) : sys :=
  mkSys (s_threads s) sp (s_lsets s) (s_adapters s) (s_nstep s) (s_next_collect s) (s_ready s)
        (s_dbg s) (s_cancelable s) (s_installed s) (s_registry s) (s_pc s) (s_batch s) (s_active s)
        (s_ringcap s) (s_stackcap s) (s_qcap s).
Definition s_set_lsets (s : sys) (l : list (N * (list raw * N))) : sys :=
  mkSys (s_threads s) (s_spans s) l (s_adapters s) (s_nstep s) (s_next_collect s) (s_ready s)
        (s_dbg s) (s_cancelable s) (s_installed s) (s_registry s) (s_pc s) (s_batch s) (s_active s)
        (s_ringcap s) (s_stackcap s) (s_qcap s).
Definition s_set_adapters (s : sys) (a : list (N * option (option span_inner))) : sys :=
  mkSys (s_threads s) (s_spans s) (s_lsets s) a (s_nstep s) (s_next_collect s) (s_ready s)
        (s_dbg s) (s_cancelable s) (s_installed s) (s_registry s) (s_pc s) (s_batch s) (s_active s)
        (s_ringcap s) (s_stackcap s) (s_qcap s).
Definition s_set_next_collect (s : sys) (n : N) : sys :=
  mkSys (s_threads s) (s_spans s) (s_lsets s) (s_adapters s) (s_nstep s) n (s_ready s)
        (s_dbg s) (s_cancelable s) (s_installed s) (s_registry s) (s_pc s) (s_batch s) (s_active s)
        (s_ringcap s) (s_stackcap s) (s_qcap s).
Definition s_set_threads (s : sys) (ths : list (N * thread)) : sys :=
  mkSys ths (s_spans s) (s_lsets s) (s_adapters s) (s_nstep s) (s_next_collect s) (s_ready s)
        (s_dbg s) (s_cancelable s) (s_installed s) (s_registry s) (s_pc s) (s_batch s) (s_active s)
        (s_ringcap s) (s_stackcap s) (s_qcap s).
Definition s_set_collector (s : sys) (reg : list N) (pc : cpc) (b : batch) (am : active_map) : sys :=
  mkSys (s_threads s) (s_spans s) (s_lsets s) (s_adapters s) (s_nstep s) (s_next_collect s) (s_ready s)
        (s_dbg s) (s_cancelable s) (s_installed s) reg pc b am
        (s_ringcap s) (s_stackcap s) (s_qcap s).
Definition s_tick (s : sys) : sys :=
  mkSys (s_threads s) (s_spans s) (s_lsets s) (s_adapters s) (s_nstep s + 1) (s_next_collect s) (s_ready s)
        (s_dbg s) (s_cancelable s) (s_installed s) (s_registry s) (s_pc s) (s_batch s) (s_active s)
        (s_ringcap s) (s_stackcap s) (s_qcap s).

Definition ctx_of_item (it : tok_item) : ctx := (ti_trace it, ti_parent it, ti_sampled it).

(* a span handle that names a span in the table *)
Definition get_span (s : sys) (h : N) : option (option span_inner) := alookup h (s_spans s).

Definition clock_of_step (n : N) : N := n * 1024.

(* One clock anchor per collector cycle (and per to_span_records call): instants converted
   in different cycles are not comparable to the nanosecond, so the model keeps them apart:
   conversion number k maps tick x to x + k * 2^44 (a monotone map for fixed k). *)
Definition anchor_unit : N := 17592186044416.
Definition anchor_conv (k : N) (x : N) : N := x + k * anchor_unit.


(* ------------------------------------------------------------------ one API call *)
Definition exec_call (s : sys) (th : thread) (e : env) (c : call) : cout :=
  let dbg := s_dbg s in
  let st := th_stack th in
  match c with
  | KRoot h name trace span sampled =>
      if amem h (s_spans s) then CBad 1 else
      if negb (s_ready s) then COk (s_set_spans s ((h, None) :: s_spans s)) th e [] RUnit
      else
        let cid := if sampled then s_next_collect s else NOT_SAMPLED_COLLECT_ID in
        let s1 := if sampled then s_set_next_collect s (s_next_collect s + 1) else s in
        let out := if sampled then [(true, CStart cid)] else [] in
        let (sp, e') := new_span name [mkTok trace span cid true sampled] (Some cid) e in
        COk (s_set_spans s1 ((h, Some sp) :: s_spans s1)) th e' out RUnit
  | KNoop h =>
      if amem h (s_spans s) then CBad 1 else
      COk (s_set_spans s ((h, None) :: s_spans s)) th e [] RUnit
  | KChild h name p =>
      if amem h (s_spans s) then CBad 1 else
      match get_span s p with
      | None => CBad 2
      | Some None => COk (s_set_spans s ((h, None) :: s_spans s)) th e [] RUnit
      | Some (Some psp) =>
          match issue_token psp with
          | [] => COk (s_set_spans s ((h, None) :: s_spans s)) th e [] RUnit
          | tk => let (sp, e') := new_span name tk None e in
                  COk (s_set_spans s ((h, Some sp) :: s_spans s)) th e' [] RUnit
          end
      end
  | KChildMany h name ps =>
      if amem h (s_spans s) then CBad 1 else
      if negb (forallb (fun p => amem p (s_spans s)) ps) then CBad 2 else
      let tk := flat_map (fun p => match get_span s p with
                                   | Some (Some psp) => issue_token psp
                                   | _ => []
                                   end) ps in
      match tk with
      | [] => COk (s_set_spans s ((h, None) :: s_spans s)) th e [] RUnit
      | _ => let (sp, e') := new_span name tk None e in
             COk (s_set_spans s ((h, Some sp) :: s_spans s)) th e' [] RUnit
      end
  | KChildLocal h name =>
      if amem h (s_spans s) then CBad 1 else
      match s_cur_token st with
      | Some tk => let (sp, e') := new_span name tk None e in
                   COk (s_set_spans s ((h, Some sp) :: s_spans s)) th e' [] RUnit
      | None => COk (s_set_spans s ((h, None) :: s_spans s)) th e [] RUnit
      end
  | KSetLocal g h =>
      if negb (scoped_id_free g (th_scoped th)) then CBad 3 else
      match get_span s h with
      | None => CBad 2
      | Some osp =>
          let (inner, st') := set_local osp st in
          COk s (th_set_scoped (th_set_stack th st') (ScGuard g inner :: th_scoped th)) e [] RUnit
      end
  | KDropGuard g =>
      match th_scoped th with
      | ScGuard g' inner :: rest =>
          if negb (g =? g') then CBad 4 else
          match drop_guard dbg inner st e with
          | Panic site => CPanic site
          | Ok (out, st', e') => COk s (th_set_scoped (th_set_stack th st') rest) e' out RUnit
          end
      | _ => CBad 4
      end
  | KLEnter l name =>
      if negb (scoped_id_free l (th_scoped th)) then CBad 3 else
      match s_enter st name e with
      | (Some (h, st'), e') =>
          COk s (th_set_scoped (th_set_stack th st') (ScLocal l (Some h) :: th_scoped th)) e' [] RUnit
      | (None, e') => COk s (th_set_scoped th (ScLocal l None :: th_scoped th)) e' [] RUnit
      end
  | KLExit l =>
      match th_scoped th with
      | ScLocal l' oh :: rest =>
          if negb (l =? l') then CBad 4 else
          match oh with
          | None => COk s (th_set_scoped th rest) e [] RUnit
          | Some h =>
              match s_exit dbg st h e with
              | Panic site => CPanic site
              | Ok (st', e') => COk s (th_set_scoped (th_set_stack th st') rest) e' [] RUnit
              end
          end
      | _ => CBad 4
      end
  | KLWithProps l ps =>
      match find_local l (th_scoped th) with
      | None => CBad 5
      | Some None => COk s th e [] (RBool false)
      | Some (Some h) =>
          if s_is_recording st h
          then COk s (th_set_frames th (FLWith l ps :: th_frames th)) e [] (RBool true)
          else COk s th e [] (RBool false)
      end
  | KLAddProps ps =>
      if s_is_current_recording st
      then COk s (th_set_frames th (FLAdd ps :: th_frames th)) e [] (RBool true)
      else COk s th e [] (RBool false)
  | KLAddEvent name ps =>
      let (st', e') := s_add_event st name ps e in COk s (th_set_stack th st') e' [] RUnit
  | KLcStart lc =>
      if negb (scoped_id_free lc (th_scoped th)) then CBad 3 else
      let (oep, st') := lc_new st None in
      COk s (th_set_scoped (th_set_stack th st') (ScColl lc oep :: th_scoped th)) e [] RUnit
  | KLcCollect lc ls =>
      if amem ls (s_lsets s) then CBad 1 else
      match split_locals (th_scoped th) with
      | (open_locals, ScColl lc' oep :: rest) =>
          if negb (lc =? lc') then CBad 4 else
          match lc_collect dbg st oep e with
          | Panic site => CPanic site
          | Ok ((spans, endt, _), st', e') =>
              COk (s_set_lsets s ((ls, (spans, endt)) :: s_lsets s))
                  (th_set_scoped (th_set_stack th st') (open_locals ++ rest)) e' [] RUnit
          end
      | _ => CBad 4
      end
  | KLcDrop lc =>
      match th_scoped th with
      | ScColl lc' oep :: rest =>
          if negb (lc =? lc') then CBad 4 else
          match lc_drop dbg st oep with
          | Panic site => CPanic site
          | Ok st' => COk s (th_set_scoped (th_set_stack th st') rest) e [] RUnit
          end
      | _ => CBad 4
      end
  | KPushChild h ls =>
      match get_span s h, alookup ls (s_lsets s) with
      | Some osp, Some (rs, endt) =>
          match osp with
          | None => COk s th e [] RUnit
          | Some sp =>
              match rs with
              | [] => COk s th e [] RUnit
              | _ => COk s th e (submit (SShared rs endt) (issue_token sp)) RUnit
              end
          end
      | _, _ => CBad 2
      end
  | KToRecords ls trace span =>
      match alookup ls (s_lsets s) with
      | Some (rs, endt) => COk s th e [] (RRecords (to_span_records (anchor_conv (s_nstep s)) rs endt trace span))
      | None => CBad 2
      end
  | KSWithProps h ps =>
      match get_span s h with
      | None => CBad 2
      | Some None => COk s th e [] (RBool false)
      | Some (Some _) => COk s (th_set_frames th (FSWith h ps :: th_frames th)) e [] (RBool true)
      end
  | KSAddProps h ps =>
      match get_span s h with
      | None => CBad 2
      | Some None => COk s th e [] (RBool false)
      | Some (Some sp) =>
          match issue_token sp with
          | [] => COk s th e [] (RBool false)
          | tk =>
              let (nsp, e') := new_span 0 tk None e in
              COk s (th_set_frames th (FSAdd (sp_raw nsp) tk ps :: th_frames th)) e' [] (RBool true)
          end
      end
  | KSAddEvent h name ps =>
      match get_span s h with
      | None => CBad 2
      | Some None => COk s th e [] RUnit
      | Some (Some sp) =>
          match issue_token sp with
          | [] => COk s th e [] RUnit
          | tk =>
              let (nsp, e') := new_span name tk None e in
              let r := sp_raw nsp in
              let r' := mkRaw (r_id r) (r_parent r) (r_begin r) (r_name r) ps KEvent (r_end r) in
              COk s th e' (submit (SSpan r') tk) RUnit
          end
      end
  | KCancel h =>
      match get_span s h with
      | None => CBad 2
      | Some None => COk s th e [] RUnit
      | Some (Some sp) =>
          COk s th e (match sp_cid sp with Some c => [(true, CDrop c)] | None => [] end) RUnit
      end
  | KDropSpan h =>
      match get_span s h with
      | None => CBad 2
      | Some osp =>
          let (out, e') := drop_span osp e in
          COk (s_set_spans s (aremove h (s_spans s))) th e' out RUnit
      end
  | KElapsed h =>
      match get_span s h with
      | None => CBad 2
      | Some osp => COk s th e [] (RBool (match osp with Some _ => true | None => false end))
      end
  | KFromSpan h =>
      match get_span s h with
      | None => CBad 2
      | Some None => COk s th e [] (RCtx None)
      | Some (Some sp) =>
          COk s th e [] (RCtx (match issue_token sp with
                               | [] => None
                               | it :: _ => Some (ctx_of_item it)
                               end))
      end
  | KCurLocal =>
      match s_cur_token st with
      | None => COk s th e [] (RCtx None)
      | Some [] => CPanic P_TOKEN_INDEX
      | Some (it :: _) => COk s th e [] (RCtx (Some (ctx_of_item it)))
      end
  | KClosureRet =>
      match th_frames th with
      | FSWith h ps :: fr =>
          match get_span s h with
          | Some (Some sp) =>
              let sp' := mkSpan (raw_add_props ps (sp_raw sp)) (sp_token sp) (sp_cid sp) in
              COk (s_set_spans s (aset h (Some sp') (s_spans s))) (th_set_frames th fr) e [] RUnit
          | _ => CBad 6
          end
      | FSAdd r tk ps :: fr =>
          let r' := mkRaw (r_id r) (r_parent r) (r_begin r) (r_name r)
                          (Some (odefault [] (r_props r) ++ ps)) KProps (r_end r) in
          COk s (th_set_frames th fr) e (submit (SSpan r') tk) RUnit
      | FLWith l ps :: fr =>
          match find_local l (th_scoped th) with
          | Some (Some h) =>
              (* LocalSpan::with_properties checks is_recording again after the closure ran *)
              if s_is_recording st h then
                match s_with_props dbg st h ps with
                | Panic site => CPanic site
                | Ok st' => COk s (th_set_frames (th_set_stack th st') fr) e [] RUnit
                end
              else COk s (th_set_frames th fr) e [] RUnit
          | _ => CBad 6
          end
      | FLAdd ps :: fr =>
          let (st', e') := s_add_props st ps e in
          COk s (th_set_frames (th_set_stack th st') fr) e' [] RUnit
      | _ => CBad 6
      end
  | KAdNew a h =>
      if amem a (s_adapters s) then CBad 1 else
      match get_span s h with
      | None => CBad 2
      | Some osp =>
          COk (s_set_adapters (s_set_spans s (aremove h (s_spans s))) ((a, Some osp) :: s_adapters s))
              th e [] RUnit
      end
  | KPollBegin a g =>
      if negb (scoped_id_free g (th_scoped th)) then CBad 3 else
      match alookup a (s_adapters s) with
      | None => CBad 2
      | Some held =>
          let (inner, st') := match held with
                              | Some osp => set_local osp st
                              | None => (None, st)
                              end in
          COk s (th_set_frames (th_set_scoped (th_set_stack th st') (ScGuard g inner :: th_scoped th))
                               (FPoll a :: th_frames th)) e [] RUnit
      end
  | KPollEnd a m r =>
      match th_frames th, th_scoped th, alookup a (s_adapters s) with
      | FPoll a' :: fr, ScGuard _ inner :: rest, Some held =>
          if negb (a =? a') then CBad 6 else
          match drop_guard dbg inner st e with
          | Panic site => CPanic site
          | Ok (out1, st', e1) =>
              let th' := th_set_frames (th_set_scoped (th_set_stack th st') rest) fr in
              match held, takes m r with
              | Some osp, true =>
                  let (out2, e2) := drop_span osp e1 in
                  COk (s_set_adapters s (aset a None (s_adapters s))) th' e2 (out1 ++ out2) RUnit
              | _, _ => COk s th' e1 out1 RUnit
              end
          end
      | _, _, _ => CBad 6
      end
  | KAdDrop a =>
      match alookup a (s_adapters s) with
      | None => CBad 2
      | Some held =>
          let (out, e') := match held with Some osp => drop_span osp e | None => ([], e) end in
          COk (s_set_adapters s (aremove a (s_adapters s))) th e' out RUnit
      end
  end.

(* ------------------------------------------------------------------ scheduling *)
Definition get_thread (s : sys) (t : N) : option thread := alookup t (s_threads s).
Definition put_thread (s : sys) (t : N) (th : thread) : sys :=
  s_set_threads s (aupdate t (fun _ => th) (s_threads s)).

Definition in_drain (pc : cpc) : bool :=
  match pc with PDrain _ _ _ | PEmpty _ _ _ => true | _ => false end.

Definition advance (todo kept : list N) : cpc * option (list N) :=
  match todo with
  | [] => (PDrained, Some kept)
  | n :: todo' => (PDrain todo' kept n, None)
  end.

Definition stats_of (am : active_map) : list (N * N * N) :=
  map (fun ka => (fst ka, lenN (a_colls (snd ka)), lenN (a_dang (snd ka)))) am.

Definition step (s0 : sys) (a : action) : sys * obs :=
  let s := s_tick s0 in
  match a with
  | AInstall cancelable =>
      match s_pc s with
      | PIdle =>
          (mkSys (s_threads s) (s_spans s) (s_lsets s) (s_adapters s) (s_nstep s) (s_next_collect s)
                 true (s_dbg s) cancelable true (s_registry s) PIdle batch_empty []
                 (s_ringcap s) (s_stackcap s) (s_qcap s), ONone)
      | _ => (s, OBad 10)
      end
  | ASpawn t prefix suffix =>
      if amem t (s_threads s) || in_drain (s_pc s) then (s, OBad 11)
      else
        let th := mkThread (st_new (s_stackcap s) (s_qcap s)) [] [] prefix suffix
                           (ch_new (s_ringcap s)) [] in
        let s1 := s_set_threads s (s_threads s ++ [(t, th)]) in
        (s_set_collector s1 (s_registry s ++ [t]) (s_pc s) (s_batch s) (s_active s), ONone)
  | ACall t c =>
      match get_thread s t with
      | None => (s, OBad 12)
      | Some th =>
          match th_outbox th with
          | _ :: _ => (s, OBad 13)
          | [] =>
              if ch_dropping (th_chan th) then (s, OBad 14) else
              let e := mkEnv (th_prefix th) (th_suffix th) (clock_of_step (s_nstep s)) in
              match exec_call s th e c with
              | CBad code => (s, OBad code)
              | CPanic site => (s, OPanic site)
              | COk s' th' e' out r =>
                  (put_thread s' t (th_set_outbox (th_set_suffix th' (e_suffix e')) out), OCall r)
              end
          end
      end
  | APush t =>
      match get_thread s t with
      | None => (s, OBad 12)
      | Some th =>
          if ch_dropping (th_chan th) then
            if ch_abandoned (th_chan th) then (s, OBad 15)
            else (put_thread s t (th_set_chan th (drop_step (th_chan th))), ONone)
          else
            match th_outbox th with
            | [] => (s, OBad 16)
            | (f, cmd) :: rest =>
                let (ch', fin) := push_step (th_chan th) f cmd in
                (put_thread s t (th_set_outbox (th_set_chan th ch') (if fin then rest else (f, cmd) :: rest)),
                 ONone)
            end
      end
  | AExit t =>
      match get_thread s t with
      | None => (s, OBad 12)
      | Some th =>
          match th_outbox th, th_scoped th, th_frames th with
          | [], [], [] =>
              if ch_dropping (th_chan th) then (s, OBad 14) else
              let c := th_chan th in
              (put_thread s t (th_set_chan th (mkChan (ch_ring c) (ch_cap c) (ch_pending c) true false)), ONone)
          | _, _, _ => (s, OBad 17)
          end
      end
  | ACBegin =>
      match s_pc s, s_installed s with
      | PIdle, true =>
          match s_registry s with
          | [] => (s_set_collector s [] PDrained (s_batch s) (s_active s), ONone)
          | t :: todo => (s_set_collector s (s_registry s) (PDrain todo [] t) (s_batch s) (s_active s), ONone)
          end
      | _, _ => (s, OBad 20)
      end
  | ACPop =>
      match s_pc s with
      | PDrain todo kept cur =>
          match get_thread s cur with
          | None => (s, OBad 21)
          | Some th =>
              match pop_step (th_chan th) with
              | (Some c, ch') =>
                  (s_set_collector (put_thread s cur (th_set_chan th ch')) (s_registry s)
                                   (PDrain todo kept cur) (batch_add (s_batch s) c) (s_active s), ONone)
              | (None, _) =>
                  (s_set_collector s (s_registry s) (PEmpty todo kept cur) (s_batch s) (s_active s), ONone)
              end
          end
      | _ => (s, OBad 22)
      end
  | ACCheck =>
      match s_pc s with
      | PEmpty todo kept cur =>
          match get_thread s cur with
          | None => (s, OBad 21)
          | Some th =>
              if ch_abandoned (th_chan th) then
                match pop_step (th_chan th) with
                | (Some c, ch') =>
                    (s_set_collector (put_thread s cur (th_set_chan th ch')) (s_registry s)
                                     (PDrain todo kept cur) (batch_add (s_batch s) c) (s_active s), ONone)
                | (None, _) =>
                    match advance todo kept with
                    | (pc, Some reg) => (s_set_collector s reg pc (s_batch s) (s_active s), ONone)
                    | (pc, None) => (s_set_collector s (s_registry s) pc (s_batch s) (s_active s), ONone)
                    end
                end
              else
                match advance todo (kept ++ [cur]) with
                | (pc, Some reg) => (s_set_collector s reg pc (s_batch s) (s_active s), ONone)
                | (pc, None) => (s_set_collector s (s_registry s) pc (s_batch s) (s_active s), ONone)
                end
          end
      | _ => (s, OBad 23)
      end
  | ACProcess =>
      match s_pc s with
      | PDrained =>
          let (am, recs) := process (anchor_conv (s_nstep s)) (s_cancelable s) (s_active s) (s_batch s) in
          (s_set_collector s (s_registry s) PIdle batch_empty am,
           OReport recs (stats_of am) (lenN (s_registry s)))
      | _ => (s, OBad 24)
      end
  end.

Fixpoint run (s : sys) (h : list action) : sys * list obs :=
  match h with
  | [] => (s, [])
  | a :: h' => let (s1, o) := step s a in
               let (s2, os) := run s1 h' in (s2, o :: os)
  end.
