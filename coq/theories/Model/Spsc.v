(* util/spsc.rs: the per-thread command channel.  Each tx.push / rx.pop is one atomic
   micro-step (the rtrb ring is assumed linearizable: FIFO, push fails iff full,
   is_abandoned = producer dropped).  Sender::{send,force_send,drop} are NOT atomic: the
   collector may pop between two pushes of one call.
   Definitions only. *)
From Coq Require Import List NArith Bool.
From FT Require Import Model.Base.
Import ListNotations.
Open Scope N_scope.

Section Chan.
Context {A : Type}.

Record chan := mkChan {
  ch_ring : list A;        (* head = oldest *)
  ch_cap : N;
  ch_pending : list A;     (* Sender::pending_messages, head = front *)
  ch_dropping : bool;      (* the owning thread is running Sender::drop *)
  ch_abandoned : bool }.   (* the producer side is gone *)

Definition ch_new (cap : N) : chan := mkChan [] cap [] false false.

Definition ch_room (c : chan) : bool := lenN (ch_ring c) <? ch_cap c.

(* One tx.push attempt of Sender::send (forced = false) or Sender::force_send (forced =
   true) for the message [v].  Returns the channel and whether the call has returned. *)
Definition push_step (c : chan) (forced : bool) (v : A) : chan * bool :=
  match ch_pending c with
  | p :: ps =>
      if ch_room c
      then (mkChan (ch_ring c ++ [p]) (ch_cap c) ps (ch_dropping c) (ch_abandoned c), false)
      else if forced
           then (mkChan (ch_ring c) (ch_cap c) (p :: ps ++ [v]) (ch_dropping c) (ch_abandoned c), true)
           else (c, true)
  | [] =>
      if ch_room c
      then (mkChan (ch_ring c ++ [v]) (ch_cap c) [] (ch_dropping c) (ch_abandoned c), true)
      else if forced
           then (mkChan (ch_ring c) (ch_cap c) [v] (ch_dropping c) (ch_abandoned c), true)
           else (c, true)
  end.

(* Sender::drop: one step = one push of a pending message (dropped when the ring is full),
   or, when none is left, the release of the producer *)
Definition drop_step (c : chan) : chan :=
  match ch_pending c with
  | p :: ps =>
      if ch_room c
      then mkChan (ch_ring c ++ [p]) (ch_cap c) ps true (ch_abandoned c)
      else mkChan (ch_ring c) (ch_cap c) ps true (ch_abandoned c)
  | [] => mkChan (ch_ring c) (ch_cap c) [] true true
  end.

(* rx.pop() *)
Definition pop_step (c : chan) : option A * chan :=
  match ch_ring c with
  | [] => (None, c)
  | x :: r => (Some x, mkChan r (ch_cap c) (ch_pending c) (ch_dropping c) (ch_abandoned c))
  end.

End Chan.
Arguments chan A : clear implicits.
