(* A reader for the Thrift compact message the Jaeger reporter emits (Model/Jaeger.v):
   the inverse direction, written independently of the encoder's structure (it dispatches on
   the field headers it meets).  Definitions only. *)
From Coq Require Import List NArith Bool Arith.
From FT Require Import Model.Jaeger.
Import ListNotations.
Open Scope N_scope.

Fixpoint tr_take (k : nat) (l : bytes) : option (bytes * bytes) :=
  match k with
  | O => Some ([], l)
  | S k' => match l with
            | [] => None
            | x :: r => match tr_take k' r with
                        | Some (a, b) => Some (x :: a, b)
                        | None => None
                        end
            end
  end.

Fixpoint tr_varint (fuel : nat) (l : bytes) : option (N * bytes) :=
  match fuel, l with
  | _, [] => None
  | O, b :: rest => Some (b, rest)
  | S fuel', b :: rest =>
      if b <? 128 then Some (b, rest)
      else match tr_varint fuel' rest with
           | Some (hi, rest') => Some (b - 128 + 128 * hi, rest')
           | None => None
           end
  end.

Definition tr_unzigzag (z : N) : N := if N.even z then z / 2 else two64j - (z + 1) / 2.

Definition tr_i64 (l : bytes) : option (N * bytes) :=
  match tr_varint 10 l with Some (z, r) => Some (tr_unzigzag z, r) | None => None end.

Definition tr_str (l : bytes) : option (bytes * bytes) :=
  match tr_varint 10 l with Some (n, r) => tr_take (N.to_nat n) r | None => None end.

Definition tr_byte (b : N) (l : bytes) : option bytes :=
  match l with x :: r => if x =? b then Some r else None | [] => None end.

(* list header of elements of type ty: (count, rest) *)
Definition tr_list_hdr (ty : N) (l : bytes) : option (N * bytes) :=
  match l with
  | b :: r =>
      if b <? 240 then (if b mod 16 =? ty then Some (b / 16, r) else None)
      else if b =? 240 + ty then tr_varint 10 r else None
  | [] => None
  end.

Section Elems.
Context {A : Type}.
Variable rd : bytes -> option (A * bytes).
Fixpoint tr_elems (n : nat) (l : bytes) : option (list A * bytes) :=
  match n with
  | O => Some ([], l)
  | S n' => match rd l with
            | Some (x, r) => match tr_elems n' r with
                             | Some (xs, r') => Some (x :: xs, r')
                             | None => None
                             end
            | None => None
            end
  end.
End Elems.

Definition obnd {A B} (o : option A) (f : A -> option B) : option B :=
  match o with Some a => f a | None => None end.

(* Tag::String *)
Definition tr_tag (l : bytes) : option ((bytes * bytes) * bytes) :=
  obnd (tr_byte 24 l) (fun l =>
  obnd (tr_str l) (fun kr => let (k, l) := kr in
  obnd (tr_byte 21 l) (fun l =>
  obnd (tr_varint 10 l) (fun zr => let (z, l) := zr in
  if negb (z =? 0) then None else
  obnd (tr_byte 24 l) (fun l =>
  obnd (tr_str l) (fun vr => let (v, l) := vr in
  obnd (tr_byte 0 l) (fun l => Some ((k, v), l)))))))).

Definition tr_list {A} (rd : bytes -> option (A * bytes)) (l : bytes) : option (list A * bytes) :=
  obnd (tr_list_hdr T_STRUCT l) (fun nr => let (n, l) := nr in tr_elems rd (N.to_nat n) l).

Definition tr_log (l : bytes) : option (jlog * bytes) :=
  obnd (tr_byte 22 l) (fun l =>
  obnd (tr_i64 l) (fun tr => let (ts, l) := tr in
  obnd (tr_byte 25 l) (fun l =>
  obnd (tr_list tr_tag l) (fun fr => let (fs, l) := fr in
  obnd (tr_byte 0 l) (fun l => Some (mkJLog ts fs, l)))))).

(* the optional fields 10 (tags) and 11 (logs) after field 9, then the stop byte *)
Definition tr_span_tail (l : bytes) : option ((list (bytes * bytes) * list jlog) * bytes) :=
  match l with
  | 0 :: r => Some (([], []), r)
  | 25 :: r =>            (* field 10: tags *)
      obnd (tr_list tr_tag r) (fun tr => let (tags, l) := tr in
      match l with
      | 0 :: r2 => Some ((tags, []), r2)
      | 25 :: r2 =>       (* field 11: logs *)
          obnd (tr_list tr_log r2) (fun lr => let (logs, l2) := lr in
          obnd (tr_byte 0 l2) (fun l3 => Some ((tags, logs), l3)))
      | _ => None
      end)
  | 41 :: r =>            (* field 9 + 2 = 11: logs without tags *)
      obnd (tr_list tr_log r) (fun lr => let (logs, l2) := lr in
      obnd (tr_byte 0 l2) (fun l3 => Some (([], logs), l3)))
  | _ => None
  end.

Definition tr_fi64 (l : bytes) : option (N * bytes) := obnd (tr_byte 22 l) tr_i64.

Definition tr_span (l0 : bytes) : option (jspan * bytes) :=
  match tr_fi64 l0 with None => None | Some (tlow, l) =>
  match tr_fi64 l with None => None | Some (thigh, l) =>
  match tr_fi64 l with None => None | Some (sid, l) =>
  match tr_fi64 l with None => None | Some (pid, l) =>
  match obnd (tr_byte 24 l) tr_str with None => None | Some (name, l) =>
  match obnd (tr_byte 37 l) (tr_varint 10) with None => None | Some (zf, l) =>
  match tr_fi64 l with None => None | Some (start, l) =>
  match tr_fi64 l with None => None | Some (dur, l) =>
  match tr_span_tail l with None => None | Some (tl, l) =>
  Some (mkJSpan tlow thigh sid pid name (zf / 2) start dur (fst tl) (snd tl), l)
  end end end end end end end end end.

Definition tr_message (l : bytes) : option (bytes * list jspan) :=
  match l with
  | 130 :: 129 :: 0 :: r =>
      match tr_str r with None => None | Some (name, l) =>
      if negb (if list_eq_dec N.eq_dec name emit_batch_name then true else false) then None else
      match obnd (obnd (obnd (tr_byte 28 l) (tr_byte 28)) (tr_byte 24)) tr_str with None => None | Some (service, l) =>
      match obnd (obnd (tr_byte 0 l) (tr_byte 25)) (tr_list tr_span) with None => None | Some (spans, l) =>
      match l with
      | [0; 0] => Some (service, spans)
      | _ => None
      end end end end
  | _ => None
  end.
