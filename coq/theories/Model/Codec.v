(* Model of fastrace/src/collector/id.rs: the text codecs.
   Strings are lists of UTF-8 bytes (N, each < 256).  '-' , '+' and the hex digits are
   ASCII, and no byte of a multi-byte UTF-8 sequence is < 0x80, so splitting and digit
   tests on bytes are exact for arbitrary &str input.
   Definitions only; proofs are in Proofs/CodecProofs.v. *)
From Coq Require Import List NArith Bool.
Import ListNotations.
Open Scope N_scope.

Definition str := list N.

Fixpoint str_eqb (a b : str) : bool :=
  match a, b with
  | [], [] => true
  | x :: a', y :: b' => (x =? y) && str_eqb a' b'
  | _, _ => false
  end.

(* char::to_digit(16) on a byte *)
Definition hexval (c : N) : option N :=
  if (48 <=? c) && (c <=? 57) then Some (c - 48)
  else if (97 <=? c) && (c <=? 102) then Some (c - 87)
  else if (65 <=? c) && (c <=? 70) then Some (c - 55)
  else None.

Definition is_hexdigit (c : N) : bool :=
  match hexval c with Some _ => true | None => false end.

(* lowercase digit of {:x} *)
Definition hexdigit (d : N) : N := if d <? 10 then 48 + d else 87 + d.

(* exactly w digits of n, most significant first (n mod 16^w) *)
Fixpoint to_hex_fixed (w : nat) (n : N) : str :=
  match w with
  | O => []
  | S w' => to_hex_fixed w' (n / 16) ++ [hexdigit (n mod 16)]
  end.

(* number of hex digits Rust prints for n without padding *)
Definition hexlen (n : N) : nat :=
  match n with
  | 0 => 1%nat
  | _ => Nat.div (N.to_nat (N.size n) + 3) 4
  end.

(* format!("{:0Wx}", n): minimal digits, left-padded with '0' to width W *)
Definition fmt_hex (w : nat) (n : N) : str := to_hex_fixed (Nat.max w (hexlen n)) n.

(* the digit loop of uN::from_str_radix(_, 16) with checked arithmetic *)
Fixpoint parse_digits (bound acc : N) (s : str) : option N :=
  match s with
  | [] => Some acc
  | c :: s' =>
      match hexval c with
      | None => None
      | Some d =>
          let acc' := acc * 16 + d in
          if acc' <? bound then parse_digits bound acc' s' else None
      end
  end.

(* uN::from_str_radix(s, 16) for an unsigned type of [bits] bits:
   empty -> Err; a lone sign -> Err; one leading '+' is accepted; '-' is not a digit *)
Definition from_str_radix16 (bits : N) (s : str) : option N :=
  match s with
  | [] => None
  | c :: rest =>
      if c =? 43 then
        match rest with [] => None | _ => parse_digits (2 ^ bits) 0 rest end
      else parse_digits (2 ^ bits) 0 s
  end.

(* str::split('-') collected *)
Fixpoint split_dash (s : str) : list str :=
  match s with
  | [] => [[]]
  | c :: s' =>
      if c =? 45 then [] :: split_dash s'
      else match split_dash s' with
           | f :: fs => (c :: f) :: fs
           | [] => [[c]]
           end
  end.

(* The literals of id.rs the codec depends on; regenerated from /repo in
   Generated/SrcConstants.v and compared with [std_consts] in Properties/C12_consts.v *)
Record codec_consts := {
  cc_version_enc : str;   (* literal prefix of the encode format string before the first '-' *)
  cc_version_dec : str;   (* the Some("..") pattern of decode *)
  cc_w_trace : nat; cc_w_span : nat; cc_w_flags : nat;
  cc_radix_trace : N; cc_radix_span : N; cc_radix_flags : N;
  cc_bits_trace : N; cc_bits_span : N; cc_bits_flags : N;
  cc_flag_mask : N;
  cc_w_display_trace : nat; cc_w_display_span : nat;
  cc_w_serde_trace : nat; cc_w_serde_span : nat
}.

Definition std_consts : codec_consts := {|
  cc_version_enc := [48; 48]; cc_version_dec := [48; 48];
  cc_w_trace := 32; cc_w_span := 16; cc_w_flags := 2;
  cc_radix_trace := 16; cc_radix_span := 16; cc_radix_flags := 16;
  cc_bits_trace := 128; cc_bits_span := 64; cc_bits_flags := 8;
  cc_flag_mask := 1;
  cc_w_display_trace := 32; cc_w_display_span := 16;
  cc_w_serde_trace := 32; cc_w_serde_span := 16 |}.

Record span_ctx := { c_trace : N; c_span : N; c_sampled : bool }.

Definition wf_ctx (c : span_ctx) : Prop := c_trace c < 2 ^ 128 /\ c_span c < 2 ^ 64.
Definition wf_ctxb (c : span_ctx) : bool := (c_trace c <? 2 ^ 128) && (c_span c <? 2 ^ 64).

Definition dash : N := 45.

(* SpanContext::encode_w3c_traceparent *)
Definition encode_traceparent (c : span_ctx) : str :=
  [48; 48] ++ [dash] ++ fmt_hex 32 (c_trace c) ++ [dash] ++ fmt_hex 16 (c_span c)
  ++ [dash] ++ fmt_hex 2 (if c_sampled c then 1 else 0).

(* SpanContext::decode_w3c_traceparent (with the all-hex-digits guard of the F9 repair) *)
Definition decode_traceparent (s : str) : option span_ctx :=
  match split_dash s with
  | [v; a; b; f] =>
      if str_eqb v [48; 48] && forallb is_hexdigit a && forallb is_hexdigit b
         && forallb is_hexdigit f then
        match from_str_radix16 128 a, from_str_radix16 64 b, from_str_radix16 8 f with
        | Some t, Some sp, Some fl =>
            Some {| c_trace := t; c_span := sp; c_sampled := N.odd fl |}
        | _, _, _ => None
        end
      else None
  | _ => None
  end.

(* the pinned tree's decode, without the guard: kept to state what F9 was *)
Definition decode_traceparent_lenient (s : str) : option span_ctx :=
  match split_dash s with
  | [v; a; b; f] =>
      if str_eqb v [48; 48] then
        match from_str_radix16 128 a, from_str_radix16 64 b, from_str_radix16 8 f with
        | Some t, Some sp, Some fl =>
            Some {| c_trace := t; c_span := sp; c_sampled := N.odd fl |}
        | _, _, _ => None
        end
      else None
  | _ => None
  end.

(* Display / FromStr / serde string forms *)
Definition display_trace (t : N) : str := fmt_hex 32 t.
Definition display_span (s : N) : str := fmt_hex 16 s.
Definition from_str_trace (s : str) : option N := from_str_radix16 128 s.
Definition from_str_span (s : str) : option N := from_str_radix16 64 s.
Definition serde_ser_trace (t : N) : str := fmt_hex 32 t.
Definition serde_ser_span (s : N) : str := fmt_hex 16 s.
Definition serde_de_trace (s : str) : option N := from_str_radix16 128 s.
Definition serde_de_span (s : str) : option N := from_str_radix16 64 s.
