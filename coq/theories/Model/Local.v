(* Thread-local layer: span_queue.rs, local_span_line.rs, local_span_stack.rs,
   local_collector.rs -- written function by function after the Rust code.
   Every Rust panic site of the modelled code is an explicit [Panic]; sites that are
   debug_assert!s fire only when the [dbg] flag is set (dev profile).
   Definitions only. *)
From Coq Require Import List NArith Bool.
From FT Require Import Model.Base.
Import ListNotations.
Open Scope N_scope.

Inductive res (A : Type) := Ok (a : A) | Panic (site : N).
Arguments Ok {A} a.
Arguments Panic {A} site.
Definition bind {A B} (r : res A) (f : A -> res B) : res B :=
  match r with Ok a => f a | Panic s => Panic s end.

(* panic sites *)
Definition P_FINISH_INDEX : N := 1.     (* span_queue[handle.index] out of bounds *)
Definition P_FINISH_ORDER : N := 2.     (* debug_assert_eq!(next_parent_id, Some(span.id)) *)
Definition P_EXIT_EPOCH : N := 3.       (* debug_assert_eq! of epochs in exit_span *)
Definition P_UNREG_EMPTY : N := 4.      (* current_span_line().unwrap() in a debug_assert_eq! *)
Definition P_UNREG_EPOCH : N := 5.      (* debug_assert_eq! of epochs in unregister_and_collect *)
Definition P_WITH_INDEX : N := 6.       (* span_queue[handle.index] in with_properties *)
Definition P_WITH_NOLINE : N := 7.      (* debug_assert!(current_span_line().is_some()) *)
Definition P_WITH_EPOCH : N := 8.       (* debug_assert_eq! of epochs in with_properties *)
Definition P_TOKEN_INDEX : N := 9.      (* current_collect_token()?[0] on an empty token *)

(* per-thread id generator + the clock: every SpanId::next_id() and Instant::now() of a
   call goes through this environment *)
Record env := mkEnv { e_prefix : N; e_suffix : N; e_clock : N }.

Definition two32 : N := 4294967296.

(* id.rs: suffix.wrapping_add(1); (prefix << 32) | suffix *)
Definition next_id (e : env) : N * env :=
  let s := (e_suffix e + 1) mod two32 in
  (e_prefix e * two32 + s, mkEnv (e_prefix e) s (e_clock e)).

(* Instant::now(): a logical clock; 0 is Instant::ZERO and is never returned *)
Definition now (e : env) : N * env :=
  let c := e_clock e + 1 in (c, mkEnv (e_prefix e) (e_suffix e) c).

Definition odefault {A} (d : A) (o : option A) : A := match o with Some a => a | None => d end.

(* ---------------------------------------------------------------- span_queue.rs *)
Record squeue := mkQ { q_spans : list raw; q_cap : N; q_next : option N }.

Definition q_new (cap : N) : squeue := mkQ [] cap None.

Definition q_full (q : squeue) : bool := q_cap q <=? lenN (q_spans q).

Definition q_start (q : squeue) (name : sym) (e : env) : option (N * squeue) * env :=
  if q_full q then (None, e)
  else
    let (id, e1) := next_id e in
    let (t, e2) := now e1 in
    let sp := mkRaw id (odefault 0 (q_next q)) t name None KSpan 0 in
    (Some (lenN (q_spans q), mkQ (q_spans q ++ [sp]) (q_cap q) (Some id)), e2).

Definition raw_set_end (t : N) (r : raw) : raw :=
  mkRaw (r_id r) (r_parent r) (r_begin r) (r_name r) (r_props r) (r_kind r) t.

Definition raw_add_props (ps : props) (r : raw) : raw :=
  mkRaw (r_id r) (r_parent r) (r_begin r) (r_name r)
        (Some (odefault [] (r_props r) ++ ps)) (r_kind r) (r_end r).

Definition q_finish (dbg : bool) (q : squeue) (idx : N) (e : env) : res (squeue * env) :=
  match nth_error (q_spans q) (N.to_nat idx) with
  | None => Panic P_FINISH_INDEX
  | Some sp =>
      if dbg && negb (match q_next q with Some n => n =? r_id sp | None => false end)
      then Panic P_FINISH_ORDER
      else
        let (t, e1) := now e in
        let nxt := if r_parent sp =? 0 then None else Some (r_parent sp) in
        Ok (mkQ (list_update (N.to_nat idx) (raw_set_end t) (q_spans q)) (q_cap q) nxt, e1)
  end.

Definition q_add_event (q : squeue) (name : sym) (ps : option props) (e : env) : squeue * env :=
  if q_full q then (q, e)
  else
    let (id, e1) := next_id e in
    let (t, e2) := now e1 in
    let sp := mkRaw id (odefault 0 (q_next q)) t name ps KEvent 0 in
    (mkQ (q_spans q ++ [sp]) (q_cap q) (q_next q), e2).

Definition q_add_props (q : squeue) (ps : props) (e : env) : squeue * env :=
  if q_full q then (q, e)
  else
    let (id, e1) := next_id e in
    let sp := mkRaw id (odefault 0 (q_next q)) 0 0 (Some ps) KProps 0 in
    (mkQ (q_spans q ++ [sp]) (q_cap q) (q_next q), e1).

Definition q_with_props (q : squeue) (idx : N) (ps : props) : res squeue :=
  match nth_error (q_spans q) (N.to_nat idx) with
  | None => Panic P_WITH_INDEX
  | Some _ => Ok (mkQ (list_update (N.to_nat idx) (raw_add_props ps) (q_spans q)) (q_cap q) (q_next q))
  end.

(* ---------------------------------------------------------------- local_span_line.rs *)
Record sline := mkLine { l_q : squeue; l_epoch : N; l_token : option token; l_sampled : bool }.

Definition l_new (cap epoch : N) (tk : option token) : sline :=
  mkLine (q_new cap) epoch tk
         (match tk with Some t => existsb ti_sampled t | None => true end).

Definition l_set_q (l : sline) (q : squeue) : sline :=
  mkLine q (l_epoch l) (l_token l) (l_sampled l).

(* a LocalSpanHandle: (span_line_epoch, index) *)
Definition lhandle := (N * N)%type.

Definition l_start (l : sline) (name : sym) (e : env) : option (lhandle * sline) * env :=
  if negb (l_sampled l) then (None, e)
  else match q_start (l_q l) name e with
       | (Some (idx, q'), e') => (Some ((l_epoch l, idx), l_set_q l q'), e')
       | (None, e') => (None, e')
       end.

Definition l_finish (dbg : bool) (l : sline) (h : lhandle) (e : env) : res (sline * env) :=
  if l_epoch l =? fst h then
    bind (q_finish dbg (l_q l) (snd h) e) (fun qe => Ok (l_set_q l (fst qe), snd qe))
  else Ok (l, e).

Definition l_add_event (l : sline) (name : sym) (ps : option props) (e : env) : sline * env :=
  if negb (l_sampled l) then (l, e)
  else let (q', e') := q_add_event (l_q l) name ps e in (l_set_q l q', e').

Definition l_add_props (l : sline) (ps : props) (e : env) : sline * env :=
  if negb (l_sampled l) then (l, e)
  else let (q', e') := q_add_props (l_q l) ps e in (l_set_q l q', e').

Definition l_is_recording (l : sline) (h : lhandle) : bool :=
  l_sampled l && (l_epoch l =? fst h).

Definition l_with_props (l : sline) (h : lhandle) (ps : props) : res sline :=
  if negb (l_sampled l) then Ok l
  else if l_epoch l =? fst h then
    bind (q_with_props (l_q l) (snd h) ps) (fun q' => Ok (l_set_q l q'))
  else Ok l.

Definition tok_set_parent (p : N) (it : tok_item) : tok_item :=
  mkTok (ti_trace it) p (ti_collect it) (ti_root it) (ti_sampled it).

Definition l_cur_token (l : sline) : option token :=
  match l_token l with
  | None => None
  | Some tk =>
      Some (map (fun it => tok_set_parent (odefault (ti_parent it) (q_next (l_q l))) it) tk)
  end.

Definition l_collect (l : sline) (epoch : N) : option (list raw * option token) :=
  if l_epoch l =? epoch then Some (q_spans (l_q l), l_token l) else None.

(* ---------------------------------------------------------------- local_span_stack.rs *)
(* st_lines: head = top of the stack (Vec::last) *)
Record stack := mkStack { st_lines : list sline; st_cap : N; st_next_epoch : N; st_qcap : N }.

Definition two64 : N := 18446744073709551616.

Definition st_new (cap qcap : N) : stack := mkStack [] cap 0 qcap.

Definition st_set_lines (s : stack) (ls : list sline) : stack :=
  mkStack ls (st_cap s) (st_next_epoch s) (st_qcap s).

Definition s_enter (s : stack) (name : sym) (e : env) : option (lhandle * stack) * env :=
  match st_lines s with
  | [] => (None, e)
  | l :: ls =>
      match l_start l name e with
      | (Some (h, l'), e') => (Some (h, st_set_lines s (l' :: ls)), e')
      | (None, e') => (None, e')
      end
  end.

Definition s_exit (dbg : bool) (s : stack) (h : lhandle) (e : env) : res (stack * env) :=
  match st_lines s with
  | [] => Ok (s, e)
  | l :: ls =>
      if dbg && negb (l_epoch l =? fst h) then Panic P_EXIT_EPOCH
      else bind (l_finish dbg l h e) (fun le => Ok (st_set_lines s (fst le :: ls), snd le))
  end.

Definition s_add_event (s : stack) (name : sym) (ps : option props) (e : env) : stack * env :=
  match st_lines s with
  | [] => (s, e)
  | l :: ls => let (l', e') := l_add_event l name ps e in (st_set_lines s (l' :: ls), e')
  end.

Definition s_add_props (s : stack) (ps : props) (e : env) : stack * env :=
  match st_lines s with
  | [] => (s, e)
  | l :: ls => let (l', e') := l_add_props l ps e in (st_set_lines s (l' :: ls), e')
  end.

Definition s_is_recording (s : stack) (h : lhandle) : bool :=
  match st_lines s with [] => false | l :: _ => l_is_recording l h end.

Definition s_is_current_recording (s : stack) : bool :=
  match st_lines s with [] => false | l :: _ => l_sampled l end.

Definition s_with_props (dbg : bool) (s : stack) (h : lhandle) (ps : props) : res stack :=
  match st_lines s with
  | [] => if dbg then Panic P_WITH_NOLINE else Ok s
  | l :: ls =>
      if dbg && negb (l_epoch l =? fst h) then Panic P_WITH_EPOCH
      else bind (l_with_props l h ps) (fun l' => Ok (st_set_lines s (l' :: ls)))
  end.

(* register_span_line: None when the stack is at capacity *)
Definition s_register (s : stack) (tk : option token) : option N * stack :=
  if st_cap s <=? lenN (st_lines s) then (None, s)
  else
    let ep := st_next_epoch s in
    (Some ep, mkStack (l_new (st_qcap s) ep tk :: st_lines s) (st_cap s)
                      ((ep + 1) mod two64) (st_qcap s)).

(* unregister_and_collect: pops the top line whatever its epoch *)
Definition s_unregister (dbg : bool) (s : stack) (epoch : N)
  : res (option (list raw * option token) * stack) :=
  match st_lines s with
  | [] => if dbg then Panic P_UNREG_EMPTY else Ok (None, s)
  | l :: ls =>
      if dbg && negb (l_epoch l =? epoch) then Panic P_UNREG_EPOCH
      else Ok (l_collect l epoch, st_set_lines s ls)
  end.

Definition s_cur_token (s : stack) : option token :=
  match st_lines s with [] => None | l :: _ => l_cur_token l end.

(* ---------------------------------------------------------------- local_collector.rs *)
(* LocalCollector { inner: Option<handle> }: the model keeps only the optional epoch *)
Definition lc_new (s : stack) (tk : option token) : option N * stack := s_register s tk.

(* collect_spans_and_token: (spans, end_time, token) *)
Definition lc_collect (dbg : bool) (s : stack) (inner : option N) (e : env)
  : res ((list raw * N * option token) * stack * env) :=
  match inner with
  | None => let (t, e') := now e in Ok (([], t, None), s, e')
  | Some ep =>
      bind (s_unregister dbg s ep) (fun rs =>
        let (t, e') := now e in
        match fst rs with
        | Some (spans, tk) => Ok ((spans, t, tk), snd rs, e')
        | None => Ok (([], t, None), snd rs, e')
        end)
  end.

(* Drop for LocalCollector *)
Definition lc_drop (dbg : bool) (s : stack) (inner : option N) : res stack :=
  match inner with
  | None => Ok s
  | Some ep => bind (s_unregister dbg s ep) (fun rs => Ok (snd rs))
  end.
