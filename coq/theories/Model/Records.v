(* Record construction: amend_span, amend_local_span, mount_danglings,
   postprocess_span_collection, to_span_records (global_collector.rs).
   Time conversion: the model's clock is logical, Instant::as_unix_nanos(anchor) is a
   monotone map of the instant for a fixed anchor; [conv] is that map (the runs use the
   identity).  duration = end - begin, saturating (N subtraction saturates).
   Definitions only. *)
From Coq Require Import List NArith Bool.
From FT Require Import Model.Base.
Import ListNotations.
Open Scope N_scope.

Inductive ditem := DEvent (ev : event_rec) | DProps (ps : props).
Definition danglings := list (N * list ditem).     (* HashMap<SpanId, Vec<DanglingItem>> *)

(* danglings.entry(k).or_default().push(item) *)
Fixpoint dang_push (k : N) (it : ditem) (d : danglings) : danglings :=
  match d with
  | [] => [(k, [it])]
  | (k', v) :: d' => if k =? k' then (k', v ++ [it]) :: d' else (k', v) :: dang_push k it d'
  end.

Definition oprops (o : option props) : props := match o with Some p => p | None => [] end.

Section Conv.
Variable conv : N -> N.

(* one raw span of a set, already given its effective parent and end instant *)
Definition amend_one (trace parent : N) (endi : N) (sp : raw)
           (acc : list record * danglings) : list record * danglings :=
  let (recs, dang) := acc in
  match r_kind sp with
  | KSpan =>
      let b := conv (r_begin sp) in
      let en := conv endi in
      (recs ++ [mkRec trace (r_id sp) parent b (en - b) (r_name sp) (oprops (r_props sp)) []], dang)
  | KEvent =>
      (recs, dang_push parent (DEvent (mkEv (r_name sp) (conv (r_begin sp)) (oprops (r_props sp)))) dang)
  | KProps =>
      (recs, dang_push parent (DProps (oprops (r_props sp))) dang)
  end.

Definition amend_span (sp : raw) (trace parent : N) (acc : list record * danglings) :=
  amend_one trace parent (r_end sp) sp acc.

Definition amend_local (rs : list raw) (end_time : N) (trace parent : N)
           (acc : list record * danglings) : list record * danglings :=
  fold_left (fun a sp =>
               let p := if r_parent sp =? 0 then parent else r_parent sp in
               let en := if r_end sp =? 0 then end_time else r_end sp in
               amend_one trace p en sp a) rs acc.

Definition apply_ditem (r : record) (it : ditem) : record :=
  match it with
  | DEvent ev => mkRec (rc_trace r) (rc_id r) (rc_parent r) (rc_begin r) (rc_dur r) (rc_name r)
                       (rc_props r) (rc_events r ++ [ev])
  | DProps ps => mkRec (rc_trace r) (rc_id r) (rc_parent r) (rc_begin r) (rc_dur r) (rc_name r)
                       (rc_props r ++ ps) (rc_events r)
  end.

(* for record in records { if let Some(ds) = danglings.remove(&record.span_id) {..} } *)
Fixpoint mount_danglings (recs : list record) (d : danglings) : list record * danglings :=
  match recs with
  | [] => ([], d)
  | r :: rest =>
      match alookup (rc_id r) d with
      | Some items =>
          let (rest', d') := mount_danglings rest (aremove (rc_id r) d) in
          (fold_left apply_ditem items r :: rest', d')
      | None =>
          let (rest', d') := mount_danglings rest d in (r :: rest', d')
      end
  end.

(* SpanCollection::{Owned,Shared} { spans, trace_id, parent_id } *)
Record collection := mkColl { cl_set : span_set; cl_trace : N; cl_parent : N }.

Definition amend_collection (c : collection) (acc : list record * danglings) :=
  match cl_set c with
  | SSpan r => amend_span r (cl_trace c) (cl_parent c) acc
  | SLocal rs en => amend_local rs en (cl_trace c) (cl_parent c) acc
  | SShared rs en => amend_local rs en (cl_trace c) (cl_parent c) acc
  end.

(* postprocess_span_collection: returns the new records (to be appended to
   committed_records) and the remaining danglings *)
Definition postprocess (cs : list collection) (d : danglings) : list record * danglings :=
  let (recs, d1) := fold_left (fun a c => amend_collection c a) cs ([], d) in
  mount_danglings recs d1.

(* LocalSpansInner::to_span_records *)
Definition to_span_records (rs : list raw) (end_time : N) (trace parent : N) : list record :=
  let (recs, d) := amend_local rs end_time trace parent ([], []) in
  fst (mount_danglings recs d).

End Conv.
