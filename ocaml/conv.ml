(* conversions between OCaml values and the extracted inductive numbers *)
open Model

let rec pos_of_int (i : int) : positive =
  if i = 1 then XH else if i land 1 = 0 then XO (pos_of_int (i lsr 1)) else XI (pos_of_int (i lsr 1))
let n_of_int (i : int) : n = if i = 0 then N0 else Npos (pos_of_int i)
let rec int_of_pos = function XH -> 1 | XO p -> 2 * int_of_pos p | XI p -> 2 * int_of_pos p + 1
let int_of_n = function N0 -> 0 | Npos p -> int_of_pos p
let rec nat_of_int (i : int) : nat = if i <= 0 then O else S (nat_of_int (i - 1))
let rec int_of_nat = function O -> 0 | S n -> 1 + int_of_nat n

let n16 = n_of_int 16
let hexval c = match c with
  | '0'..'9' -> Char.code c - 48 | 'a'..'f' -> Char.code c - 87 | 'A'..'F' -> Char.code c - 55
  | _ -> failwith "hexval"

(* big numbers travel as hex strings *)
let n_of_hex (s : string) : n =
  let acc = ref N0 in
  String.iter (fun c -> acc := N.add (N.mul !acc n16) (n_of_int (hexval c))) s;
  !acc

let rec bits_of_pos = function XH -> [true] | XO p -> false :: bits_of_pos p | XI p -> true :: bits_of_pos p
let hex_of_n (x : n) : string =
  match x with
  | N0 -> "0"
  | Npos p ->
    let bits = bits_of_pos p in
    let rec nibbles bs = match bs with
      | [] -> []
      | _ ->
        let take k l = let rec go k l acc = if k = 0 then (List.rev acc, l) else match l with [] -> (List.rev acc, []) | x :: r -> go (k-1) r (x :: acc) in go k l [] in
        let (nb, rest) = take 4 bs in
        let v = List.fold_right (fun b acc -> 2 * acc + (if b then 1 else 0)) nb 0 in
        v :: nibbles rest in
    let ns = List.rev (nibbles bits) in
    String.concat "" (List.map (fun v -> Printf.sprintf "%x" v) ns)

(* byte strings travel hex-encoded, "-" is the empty string *)
let str_of_hexbytes (s : string) : n list =
  if s = "-" then [] else
  List.init (String.length s / 2) (fun i -> n_of_int (int_of_string ("0x" ^ String.sub s (2*i) 2)))
let hexbytes_of_str (l : n list) : string =
  if l = [] then "-" else String.concat "" (List.map (fun b -> Printf.sprintf "%02x" (int_of_n b)) l)

(* arbitrary-size decimal numbers (u64 times do not fit OCaml's int) *)
let n10 = n_of_int 10
let n_of_dec (s : string) : n =
  let acc = ref N0 in
  String.iter (fun c -> acc := N.add (N.mul !acc n10) (n_of_int (Char.code c - 48))) s;
  !acc
