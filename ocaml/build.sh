#!/bin/sh
# builds the extracted model + driver; run from /verif/ocaml
set -e
cd "$(dirname "$0")"
mkdir -p gen _build
(cd gen && coqc -Q ../../coq/theories FT ../../coq/theories/Extract.v >/dev/null)
cp gen/model.ml gen/model.mli _build/
cp conv.ml *_driver.ml driver.ml _build/
cd _build
SRC="model.mli model.ml conv.ml $(ls *_driver.ml | tr '\n' ' ') driver.ml"
ocamlfind ocamlopt -package str -linkpkg -w -a $SRC -o driver
