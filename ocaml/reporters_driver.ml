(* C19, Datadog and OpenTelemetry parts: the oracle decides; a failing oracle is also the
   disagreement (the HashMap order of the Datadog meta map is read off the real body) *)
open Model
open Conv

let split_ws s = List.filter (fun x -> x <> "") (String.split_on_char ' ' s)

let rec take_kvs k toks acc =
  if k = 0 then (List.rev acc, toks)
  else match toks with
    | a :: b :: rest -> take_kvs (k - 1) rest ((str_of_hexbytes a, str_of_hexbytes b) :: acc)
    | _ -> failwith "kvs"
let parse_kvs toks = match toks with k :: rest -> take_kvs (int_of_string k) rest [] | [] -> failwith "kvs-n"

let rec take_oevents k toks acc =
  if k = 0 then (List.rev acc, toks)
  else match toks with
    | name :: ts :: rest ->
      let (kv, rest) = parse_kvs rest in
      take_oevents (k - 1) rest ({ oe_name = str_of_hexbytes name; oe_time = n_of_dec ts; oe_attrs = kv } :: acc)
    | _ -> failwith "oevent"

(* trace span parent name start end <kvs> dropped links kind nevents events... *)
let parse_ospan toks = match toks with
  | tr :: sp :: par :: name :: st :: en :: rest ->
    let (attrs, rest) = parse_kvs rest in
    (match rest with
     | dropped :: links :: kind :: ne :: rest ->
       let (evs, rest) = take_oevents (int_of_string ne) rest [] in
       let ok = (dropped = "0" && links = "0" && kind = "Server") in
       (({ os_trace = n_of_hex tr; os_span = n_of_hex sp; os_parent = n_of_hex par; os_name = str_of_hexbytes name;
           os_start = n_of_dec st; os_end = n_of_dec en; os_attrs = attrs; os_events = evs }, ok), rest)
     | _ -> failwith "ospan-tail")
  | _ -> failwith "ospan"

let rec take_ospans k toks acc okacc =
  if k = 0 then (List.rev acc, okacc, toks)
  else let ((s, ok), rest) = parse_ospan toks in take_ospans (k - 1) rest (s :: acc) (okacc && ok)

let rec take_exports k toks acc okacc =
  if k = 0 then (List.rev acc, okacc)
  else match toks with
    | n :: rest -> let (ss, ok, rest) = take_ospans (int_of_string n) rest [] true in take_exports (k - 1) rest (ss :: acc) (okacc && ok)
    | [] -> failwith "exports"

let main file =
  let ic = open_in file in
  let cases = ref 0 and ofail = ref 0 and nontriv = ref 0 in
  let lineno = ref 0 in
  (try
     while true do
       let line = input_line ic in
       incr lineno;
       if String.length line > 2 && (line.[0] = 'D' || line.[0] = 'O') && line.[1] = ' ' then begin
         match Str.bounded_split_delim (Str.regexp_string " => ") line 2 with
         | [lhs; rhs] ->
           incr cases;
           let ok = (try
                       let ltoks = split_ws lhs and rtoks = split_ws rhs in
                       if line.[0] = 'D' then begin
                         match ltoks with
                         | _ :: svc :: res :: ty :: n :: rest ->
                           let (recs, _) = Jaeger_driver.take_records (int_of_string n) rest [] in
                           if recs <> [] then incr nontriv;
                           (match rtoks with
                            | "panic" :: _ | "hang" :: _ -> false
                            | k :: rest ->
                              let rec bodies k toks acc = if k = 0 then List.rev acc else
                                  (match toks with
                                   | first :: ct :: body :: tl ->
                                     if first <> "POST_/v0.4/traces_HTTP/1.1" || ct <> "application/msgpack" then failwith "request line / content type";
                                     bodies (k - 1) tl (str_of_hexbytes body :: acc)
                                   | _ -> failwith "bodies") in
                              p_C19_datadog (str_of_hexbytes svc) (str_of_hexbytes res) (str_of_hexbytes ty) recs (bodies (int_of_string k) rest [])
                            | [] -> false)
                         | _ -> false
                       end else begin
                         match ltoks with
                         | _ :: n :: rest ->
                           let (recs, _) = Jaeger_driver.take_records (int_of_string n) rest [] in
                           if recs <> [] then incr nontriv;
                           (match rtoks with
                            | "panic" :: _ | "hang" :: _ -> false
                            | k :: rest -> let (exports, ok) = take_exports (int_of_string k) rest [] true in ok && p_C19_otel recs exports
                            | [] -> false)
                         | _ -> false
                       end
                     with _ -> false) in
           if not ok then begin
             incr ofail;
             Printf.printf "DISAGREE %d %s\n" !lineno (String.sub lhs 0 (min 300 (String.length lhs)));
             Printf.printf "ORACLEFAIL %d %s\n" !lineno (String.sub lhs 0 (min 400 (String.length lhs)))
           end
         | _ -> ()
       end
     done
   with End_of_file -> ());
  Printf.printf "SUMMARY cases=%d disagreements=%d oracle_fail=%d nontrivial=%d\n" !cases !ofail !ofail !nontriv
