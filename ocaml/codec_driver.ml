(* C12: replays the harness' codec cases on the extracted model, compares, and evaluates
   the oracle P_C12 on what the code returned. *)
open Model
open Conv

let ctx_line = function
  | None -> "none"
  | Some c -> Printf.sprintf "some %s %s %d" (hex_of_n c.c_trace) (hex_of_n c.c_span) (if c.c_sampled then 1 else 0)
let optn_line = function None -> "none" | Some v -> "some " ^ hex_of_n v

let parse_ctx toks = match toks with
  | "none" :: rest -> (None, rest)
  | "some" :: t :: s :: b :: rest -> (Some { c_trace = n_of_hex t; c_span = n_of_hex s; c_sampled = (b = "1") }, rest)
  | _ -> failwith "parse_ctx"
let parse_optn toks = match toks with
  | "none" :: rest -> (None, rest)
  | "some" :: v :: rest -> (Some (n_of_hex v), rest)
  | _ -> failwith "parse_optn"

let quote l = n_of_int 34 :: (l @ [n_of_int 34])

(* returns (model result string, oracle verdict, nontrivial?) *)
let run_case kind args (res : string list) : string * bool * bool =
  match kind, args with
  | "rt", [t; s; b] ->
    let c = { c_trace = n_of_hex t; c_span = n_of_hex s; c_sampled = (b = "1") } in
    let e = encode_traceparent c in
    let d = decode_traceparent e in
    let m = hexbytes_of_str e ^ " " ^ ctx_line d in
    let ok = (match res with
        | ["panic"] -> p_C12 (O_rt_panic c)
        | enc :: rest -> let (dc, _) = parse_ctx rest in p_C12 (O_rt (c, str_of_hexbytes enc, dc))
        | [] -> false) in
    (m, ok, true)
  | "dec", [h] ->
    let s = str_of_hexbytes h in
    let d = decode_traceparent s in
    let ok = (match res with
        | ["panic"] -> p_C12 (O_dec (s, None))
        | toks -> let (dc, _) = parse_ctx toks in p_C12 (O_dec (s, Some dc))) in
    (ctx_line d, ok, List.length s > 3)
  | ("idt" | "ids"), [v] ->
    let x = n_of_hex v in
    let (w, disp, fs, ser, de) =
      if kind = "idt" then (32, display_trace x, from_str_trace, serde_ser_trace x, serde_de_trace)
      else (16, display_span x, from_str_span, serde_ser_span x, serde_de_span) in
    let m = Printf.sprintf "%s %s %s %s" (hexbytes_of_str disp) (optn_line (fs disp))
        (hexbytes_of_str (quote ser)) (optn_line (de ser)) in
    let ok = (match res with
        | ["panic"] -> p_C12 O_id_panic
        | d :: rest ->
          let (p, rest) = parse_optn rest in
          (match rest with
           | js :: rest -> let (bk, _) = parse_optn rest in
             p_C12 (O_id (nat_of_int w, x, str_of_hexbytes d, p, str_of_hexbytes js, bk))
           | [] -> false)
        | [] -> false) in
    (m, ok, true)
  | ("fst" | "fss"), [h] ->
    let s = str_of_hexbytes h in
    let r = if kind = "fst" then from_str_trace s else from_str_span s in
    let ok = (match res with
        | ["panic"] -> p_C12 (O_fromstr (s, None))
        | toks -> let (p, _) = parse_optn toks in p_C12 (O_fromstr (s, Some p))) in
    (optn_line r, ok, s <> [])
  | "U", [h] ->
    (* fastrace-macro unescape_format_string: model result, and the scan specification *)
    let s = str_of_hexbytes h in
    let (t, f) = unescape s in
    let m = hexbytes_of_str t ^ " " ^ (if f then "1" else "0") in
    let ok = (match res, scan s with
        | ["panic"], _ -> false
        | [t'; f'], Lit u -> str_of_hexbytes t' = u && f' = "0"
        | [t'; f'], Open -> str_of_hexbytes t' = s && f' = "1"
        | [_; _], Close -> true      (* format!() rejects the string: nothing is claimed *)
        | _ -> false) in
    (m, ok, List.length s > 1)
  | "X", _ -> ("function-present", false, false)
  | _ -> ("unknown-case", false, false)

let split_ws s = List.filter (fun x -> x <> "") (String.split_on_char ' ' s)

let main file =
  let ic = open_in file in
  let cases = ref 0 and dis = ref 0 and ofail = ref 0 and nontriv = ref 0 in
  let seen = Hashtbl.create 1024 in
  let lineno = ref 0 in
  (try
     while true do
       let line = input_line ic in
       incr lineno;
       if String.length line > 0 && line.[0] <> '#' then begin
         match Str.bounded_split_delim (Str.regexp_string " => ") line 2 with
         | [lhs; rhs] ->
           incr cases;
           let ltoks = split_ws lhs in
           let kind = List.hd ltoks and args = List.tl ltoks in
           let res = split_ws rhs in
           let (m, ok, nt) = (try run_case kind args res with e -> ("driver-error:" ^ Printexc.to_string e, false, false)) in
           if nt && not (Hashtbl.mem seen lhs) then (Hashtbl.add seen lhs (); incr nontriv);
           if m <> String.concat " " res then begin
             incr dis;
             Printf.printf "DISAGREE %d %s => code=[%s] model=[%s] oracle=%s\n" !lineno lhs rhs m (if ok then "pass" else "FAIL")
           end;
           if not ok then begin
             incr ofail;
             Printf.printf "ORACLEFAIL %d %s => %s\n" !lineno lhs rhs
           end
         | _ -> ()
       end
     done
   with End_of_file -> ());
  Printf.printf "SUMMARY cases=%d disagreements=%d oracle_fail=%d nontrivial=%d\n" !cases !dis !ofail !nontriv
