let () =
  match Array.to_list Sys.argv with
  | _ :: "codec" :: file :: _ -> Codec_driver.main file
  | _ :: "sys" :: file :: props -> Sys_driver.main file props
  | _ :: "reporters" :: file :: _ -> Reporters_driver.main file
  | _ :: "jaeger" :: file :: prop :: _ -> Jaeger_driver.main file prop
  | _ :: "jaeger" :: file :: _ -> Jaeger_driver.main file "C19"
  | _ -> prerr_endline "usage: driver codec <cases> | sys <log> [props...]"; exit 2
