let () =
  match Array.to_list Sys.argv with
  | _ :: "codec" :: file :: _ -> Codec_driver.main file
  | _ -> prerr_endline "usage: driver codec <cases>"; exit 2
