(* C19 (Jaeger) / C20: replays the harness' Jaeger cases on the extracted model: the model's
   datagrams are compared byte for byte with what the real reporter sent, and the oracles are
   evaluated on what the CODE sent. *)
open Model
open Conv

let ni s = n_of_dec s

let rec take_props k toks acc =
  if k = 0 then (List.rev acc, toks)
  else match toks with
    | a :: b :: rest -> take_props (k - 1) rest ((str_of_hexbytes a, str_of_hexbytes b) :: acc)
    | _ -> failwith "props"
let parse_props toks = match toks with
  | k :: rest -> take_props (int_of_string k) rest []
  | [] -> failwith "props-n"

let rec take_events k toks acc =
  if k = 0 then (List.rev acc, toks)
  else match toks with
    | name :: ts :: rest ->
      let (ps, rest) = parse_props rest in
      take_events (k - 1) rest ({ je_name = str_of_hexbytes name; je_ts = ni ts; je_props = ps } :: acc)
    | _ -> failwith "event"

let parse_record toks = match toks with
  | tr :: id :: par :: bg :: dur :: name :: rest ->
    let (ps, rest) = parse_props rest in
    (match rest with
     | ne :: rest ->
       let (evs, rest) = take_events (int_of_string ne) rest [] in
       ({ jr_trace = n_of_hex tr; jr_id = n_of_hex id; jr_parent = n_of_hex par; jr_begin = ni bg; jr_dur = ni dur;
          jr_name = str_of_hexbytes name; jr_props = ps; jr_events = evs }, rest)
     | [] -> failwith "record-ne")
  | _ -> failwith "record"

let rec take_records k toks acc =
  if k = 0 then (List.rev acc, toks)
  else let (r, rest) = parse_record toks in take_records (k - 1) rest (r :: acc)

let split_ws s = List.filter (fun x -> x <> "") (String.split_on_char ' ' s)

let main file prop =
  let ic = open_in file in
  let cases = ref 0 and dis = ref 0 and ofail = ref 0 and nontriv = ref 0 in
  let seen = Hashtbl.create 256 in
  let lineno = ref 0 in
  (try
     while true do
       let line = input_line ic in
       incr lineno;
       if String.length line > 2 && line.[0] = 'J' then begin
         match Str.bounded_split_delim (Str.regexp_string " => ") line 2 with
         | [lhs; rhs] ->
           incr cases;
           (try
              let ltoks = split_ws lhs in
              (match ltoks with
               | _ :: svc :: n :: rest ->
                 let service = str_of_hexbytes svc in
                 let (recs, _) = take_records (int_of_string n) rest [] in
                 let model = (match report_datagrams service recs with
                     | Some dgs -> String.concat " " (string_of_int (List.length dgs) :: List.map hexbytes_of_str dgs)
                     | None -> "model-out-of-fuel") in
                 let rtoks = split_ws rhs in
                 let code_dgs = (match rtoks with
                     | "panic" :: _ | "hang" :: _ -> None
                     | _ :: ds -> Some (List.map str_of_hexbytes ds)
                     | [] -> None) in
                 let key = Digest.string lhs in
                 if List.length recs >= 1 && not (Hashtbl.mem seen key) then (Hashtbl.add seen key (); incr nontriv);
                 let proj s = if prop = "C20" then
                     (* boundaries only: number of datagrams and their lengths *)
                     String.concat " " (List.map (fun d -> string_of_int (String.length d / 2)) (List.tl (split_ws s)))
                   else s in
                 let agree = (proj model = proj (String.concat " " rtoks)) in
                 let ok = (match code_dgs with
                     | None -> false
                     | Some ds -> if prop = "C20" then p_C20 service recs ds else p_C19_jaeger service recs ds) in
                 if not agree then begin
                   incr dis;
                   Printf.printf "DISAGREE %d records=%d code=[%s] model=[%s] oracle=%s\n" !lineno (List.length recs)
                     (String.sub rhs 0 (min 300 (String.length rhs))) (String.sub model 0 (min 300 (String.length model)))
                     (if ok then "pass" else "FAIL")
                 end;
                 if not ok then begin
                   incr ofail;
                   Printf.printf "ORACLEFAIL %d %s\n" !lineno (String.sub lhs 0 (min 400 (String.length lhs)))
                 end
               | _ -> ())
            with e ->
              incr dis;
              Printf.printf "DISAGREE %d driver-error %s\n" !lineno (Printexc.to_string e))
         | _ -> ()
       end
     done
   with End_of_file -> ());
  Printf.printf "SUMMARY cases=%d disagreements=%d oracle_fail=%d nontrivial=%d\n" !cases !dis !ofail !nontriv
