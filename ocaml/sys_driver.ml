(* System histories: replays what the harness logged (scheduled actions + what the real
   crates showed) on the extracted model, compares every observable, and evaluates the
   property oracles on what the CODE showed.

   Log format (one file = many histories):
     H <id> <dbg> <ringcap> <stackcap> <qcap>
     A <tb> <ta> <action tokens> => <observation tokens>
     E
*)
open Model
open Conv

exception Parse of string

let ni s = n_of_int (int_of_string s)
let nh s = n_of_hex s

let rec take_props k toks acc =
  if k = 0 then (List.rev acc, toks)
  else match toks with
    | a :: b :: rest -> take_props (k - 1) rest ((ni a, ni b) :: acc)
    | _ -> raise (Parse "props")

let parse_props toks = match toks with
  | k :: rest -> take_props (int_of_string k) rest []
  | [] -> raise (Parse "props-n")

let parse_optprops toks = match toks with
  | "-" :: rest -> (None, rest)
  | _ -> let (p, rest) = parse_props toks in (Some p, rest)

let rec take_n k toks acc =
  if k = 0 then (List.rev acc, toks)
  else match toks with a :: rest -> take_n (k - 1) rest (ni a :: acc) | [] -> raise (Parse "list")

let parse_meth = function
  | "fut" -> MFut | "next" -> MNext | "ready" -> MReady | "start" -> MStart
  | "flush" -> MFlush | "close" -> MClose | s -> raise (Parse ("meth " ^ s))
let parse_pres = function
  | "pending" -> RPending | "final" -> RFinal | "item" -> RItem
  | "err" -> RFinal (* the inner sink returned Ready(Err): a completed call for the adapter *)
  | "lastitem" -> RItem (* an item after which the inner stream's size_hint is exactly 0 *) | s -> raise (Parse ("pres " ^ s))

let parse_call toks : call =
  match toks with
  | ["root"; h; name; tr; sp; b] -> KRoot (ni h, ni name, nh tr, nh sp, b = "1")
  | ["noop"; h] -> KNoop (ni h)
  | ["child"; h; name; p] -> KChild (ni h, ni name, ni p)
  | "childn" :: h :: name :: k :: rest -> let (ps, _) = take_n (int_of_string k) rest [] in KChildMany (ni h, ni name, ps)
  | ["childl"; h; name] -> KChildLocal (ni h, ni name)
  | ["setl"; g; h] -> KSetLocal (ni g, ni h)
  | ["dropg"; g] -> KDropGuard (ni g)
  | ["lenter"; l; name] -> KLEnter (ni l, ni name)
  | ["lexit"; l] -> KLExit (ni l)
  | "lwith" :: l :: rest -> KLWithProps (ni l, fst (parse_props rest))
  | "laddp" :: rest -> KLAddProps (fst (parse_props rest))
  | "laddev" :: name :: rest -> KLAddEvent (ni name, fst (parse_optprops rest))
  | ["lcstart"; lc] -> KLcStart (ni lc)
  | ["lccollect"; lc; ls] -> KLcCollect (ni lc, ni ls)
  | ["lcdrop"; lc] -> KLcDrop (ni lc)
  | ["pushc"; h; ls] | ["pushc"; h; ls; "last"] -> KPushChild (ni h, ni ls)
  | ["torec"; ls; tr; sp] -> KToRecords (ni ls, nh tr, nh sp)
  | "swith" :: h :: rest -> KSWithProps (ni h, fst (parse_props rest))
  | "saddp" :: h :: rest -> KSAddProps (ni h, fst (parse_props rest))
  | "saddev" :: h :: name :: rest -> KSAddEvent (ni h, ni name, fst (parse_optprops rest))
  | ["cancel"; h] -> KCancel (ni h)
  | ["drops"; h] -> KDropSpan (ni h)
  | ["elapsed"; h] -> KElapsed (ni h)
  | ["froms"; h] -> KFromSpan (ni h)
  | ["curl"] -> KCurLocal
  | ["cret"] -> KClosureRet
  | "adnew" :: a :: h :: _ -> KAdNew (ni a, ni h)
  | "pollb" :: a :: g :: _ -> KPollBegin (ni a, ni g)
  | ["polle"; a; m; r] -> KPollEnd (ni a, parse_meth m, parse_pres r)
  | ["addrop"; a] -> KAdDrop (ni a)
  | _ -> raise (Parse ("call: " ^ String.concat " " toks))

let parse_action toks : action =
  match toks with
  | ["I"; c] -> AInstall (c = "1")
  | ["S"; t; p; s] -> ASpawn (ni t, ni p, ni s)
  | "C" :: t :: rest -> ACall (ni t, parse_call rest)
  | ["P"; t] -> APush (ni t)
  | ["X"; t] -> AExit (ni t)
  | ["CB"] -> ACBegin | ["CP"] -> ACPop | ["CC"] -> ACCheck | ["CX"] -> ACProcess
  | _ -> raise (Parse ("action: " ^ String.concat " " toks))

(* ---- records *)
let parse_event toks =
  match toks with
  | name :: ts :: rest ->
    let (ps, rest) = parse_props rest in
    ({ e_name = ni name; e_ts = ni ts; e_props = ps }, rest)
  | _ -> raise (Parse "event")

let rec take_events k toks acc =
  if k = 0 then (List.rev acc, toks)
  else let (e, rest) = parse_event toks in take_events (k - 1) rest (e :: acc)

let parse_record toks =
  match toks with
  | tr :: id :: par :: bg :: dur :: name :: rest ->
    let (ps, rest) = parse_props rest in
    (match rest with
     | ne :: rest ->
       let (evs, rest) = take_events (int_of_string ne) rest [] in
       ({ rc_trace = nh tr; rc_id = nh id; rc_parent = nh par; rc_begin = ni bg; rc_dur = ni dur;
          rc_name = ni name; rc_props = ps; rc_events = evs }, rest)
     | [] -> raise (Parse "record-ne"))
  | _ -> raise (Parse "record")

let rec take_records k toks acc =
  if k = 0 then (List.rev acc, toks)
  else let (r, rest) = parse_record toks in take_records (k - 1) rest (r :: acc)

let rec take_stats k toks acc =
  if k = 0 then (List.rev acc, toks)
  else match toks with
    | c :: n :: d :: rest -> take_stats (k - 1) rest (((ni c, ni n), ni d) :: acc)
    | _ -> raise (Parse "stats")

let parse_obs toks : obs =
  match toks with
  | ["-"] -> ONone
  | ["u"] -> OCall RUnit
  | ["b0"] -> OCall (RBool false)
  | ["b1"] -> OCall (RBool true)
  | ["c"; "none"] -> OCall (RCtx None)
  | ["c"; t; s; b] -> OCall (RCtx (Some ((nh t, nh s), b = "1")))
  | ["panic"] -> OPanic N0
  | ["not-enabled"] -> OBad (n_of_int 99)
  | "recs" :: k :: rest -> let (rs, _) = take_records (int_of_string k) rest [] in OCall (RRecords rs)
  | "rep" :: k :: rest ->
    let (rs, rest) = take_records (int_of_string k) rest [] in
    (match rest with
     | "st" :: k :: rest ->
       let (st, rest) = take_stats (int_of_string k) rest [] in
       (match rest with [rv] -> OReport (rs, st, ni rv) | _ -> raise (Parse "rep-recv"))
     | _ -> raise (Parse "rep-st"))
  | _ -> raise (Parse ("obs: " ^ String.concat " " toks))

(* ---- canonical printing (times excluded: the model's clock is logical).
   Each property compares only the projection of the observations it talks about. *)
type rlevel = RFull | RCore | RIds | RNone
type proj = { reports : rlevel; stats : bool; ctxs : bool; bools : bool; recs : bool }

let proj_of = function
  | "C04" -> { reports = RFull; stats = false; ctxs = false; bools = false; recs = false }
  | "C09" -> { reports = RFull; stats = false; ctxs = false; bools = false; recs = false }
  | "C01" | "C03" -> { reports = RCore; stats = false; ctxs = false; bools = false; recs = false }
  | "C02" -> { reports = RIds; stats = false; ctxs = false; bools = false; recs = false }
  | "C05" -> { reports = RCore; stats = false; ctxs = true; bools = false; recs = false }
  | "C06" | "C10" | "C13" | "C14" | "C15" -> { reports = RFull; stats = false; ctxs = true; bools = true; recs = false }
  | "C07" -> { reports = RNone; stats = false; ctxs = false; bools = false; recs = false }
  | "C08" -> { reports = RNone; stats = true; ctxs = false; bools = false; recs = false }
  | "C11" -> { reports = RIds; stats = false; ctxs = true; bools = false; recs = false }
  | "C16" -> { reports = RCore; stats = false; ctxs = true; bools = true; recs = false }
  | "C17" -> { reports = RFull; stats = false; ctxs = false; bools = false; recs = true }
  | "C18" -> { reports = RIds; stats = false; ctxs = false; bools = true; recs = false }
  | _ -> { reports = RFull; stats = true; ctxs = true; bools = true; recs = true }

let props_str ps = String.concat "," (List.map (fun (k, v) -> Printf.sprintf "%d=%d" (int_of_n k) (int_of_n v)) ps)
let event_str e = Printf.sprintf "%d[%s]" (int_of_n e.e_name) (props_str e.e_props)
let record_str lvl r =
  match lvl with
  | RFull -> Printf.sprintf "%s/%s/%s/%d{%s}(%s)" (hex_of_n r.rc_trace) (hex_of_n r.rc_id) (hex_of_n r.rc_parent)
               (int_of_n r.rc_name) (props_str r.rc_props) (String.concat ";" (List.map event_str r.rc_events))
  | RCore -> Printf.sprintf "%s/%s/%s/%d" (hex_of_n r.rc_trace) (hex_of_n r.rc_id) (hex_of_n r.rc_parent) (int_of_n r.rc_name)
  | RIds -> Printf.sprintf "%s/%s/%s" (hex_of_n r.rc_trace) (hex_of_n r.rc_id) (hex_of_n r.rc_parent)
  | RNone -> ""
let records_sorted lvl rs = if lvl = RNone then [] else List.sort compare (List.map (record_str lvl) rs)
let stats_str st =
  String.concat " " (List.sort compare (List.map (fun ((c, n), d) -> Printf.sprintf "%d:%d:%d" (int_of_n c) (int_of_n n) (int_of_n d)) st))

let obs_str (pj : proj) (o : obs) : string =
  match o with
  | ONone -> "-"
  | OCall RUnit -> "u"
  | OCall (RBool b) -> if pj.bools then (if b then "b1" else "b0") else "b"
  | OCall (RCtx None) -> if pj.ctxs then "c none" else "c"
  | OCall (RCtx (Some ((t, s), b))) -> if pj.ctxs then Printf.sprintf "c %s %s %d" (hex_of_n t) (hex_of_n s) (if b then 1 else 0) else "c"
  | OCall (RRecords rs) -> if pj.recs then "recs " ^ String.concat " " (List.map (record_str RFull) rs) else "recs"
  | OPanic _ -> "panic"
  | OReport (rs, st, rv) ->
    Printf.sprintf "rep %s%s" (String.concat " " (records_sorted pj.reports rs))
      (if pj.stats then Printf.sprintf " | st %s | recv %d" (stats_str st) (int_of_n rv) else "")
  | OBad c -> Printf.sprintf "model-disabled(%d)" (int_of_n c)

let split_ws s = List.filter (fun x -> x <> "") (String.split_on_char ' ' s)

type hist = {
  hid : string; dbg : bool; ringcap : int; stackcap : int; qcap : int; mutable wall0 : n;
  mutable acts : (action * obs * int * int * string) list; (* action, observed, tb, ta, raw line *)
  mutable raws : (string list * string * int * int) list; (* tokens, observation text, tb, ta (reverse order) *)
}

(* oracles are registered by Oracle_glue (name, function over the history with the code's
   observations, returns the list of failing clause names) *)
let oracles : (string * (sys -> (action * obs) list -> string list)) list ref = ref []



(* PA t = all pending pushes of thread t; CY = a whole collector cycle (the rest of it when one
   is in flight): pseudo-actions of hand-written witnesses and of the non-orchestrated streams,
   expanded against the model state into the primitive scheduled actions *)
let expand_raws (h : hist) : unit =
  let s = ref (sys_init h.dbg (n_of_int h.ringcap) (n_of_int h.stackcap) (n_of_int h.qcap)) in
  let out = ref [] in
  let emit a o tb ta raw = (let (s', _) = step !s a in s := s'); out := (a, o, tb, ta, raw) :: !out in
  List.iter (fun (atoks, rhs, tb, ta) ->
      match atoks with
      | ["PA"; t] ->
        let tn = ni t in
        let guard = ref 0 in
        let continue = ref true in
        while !continue && !guard < 100000 do
          incr guard;
          (match get_thread !s tn with
           | Some th when th.th_outbox <> [] || (th.th_chan.ch_dropping && not th.th_chan.ch_abandoned) ->
             emit (APush tn) ONone tb ta ("P " ^ t)
           | _ -> continue := false)
        done
      | ["CY"] ->
        let obs = (try parse_obs (split_ws rhs) with Parse _ -> ONone) in
        let guard = ref 0 in
        let fin = ref false in
        if !s.s_pc = PIdle then emit ACBegin ONone tb ta "CB";
        while not !fin && !guard < 100000 do
          incr guard;
          (match !s.s_pc with
           | PDrain (_, _, _) -> emit ACPop ONone tb ta "CP"
           | PEmpty (_, _, _) -> emit ACCheck ONone tb ta "CC"
           | PDrained -> emit ACProcess obs tb ta "CX"; fin := true
           | PIdle -> fin := true)
        done
      | _ ->
        (try
           let a = parse_action atoks in
           let o = parse_obs (split_ws rhs) in
           emit a o tb ta (String.concat " " atoks)
         with Parse m ->
           Printf.printf "DISAGREE %s step=0 action=[%s] code=[parse-error %s] model=[]\n" h.hid (String.concat " " atoks) m))
    (List.rev h.raws);
  h.acts <- !out

(* ---- C18: times.  Pairs the model's records (logical ticks) with the code's records (unix
   nanoseconds) of the same report and builds the inputs of the Gallina oracle P_C18. *)
let time_checks (h : hist) : string list =
  let acts = Array.of_list (List.rev h.acts) in
  let nacts = Array.length acts in
  let tb = Array.make (nacts + 2) 0 and ta = Array.make (nacts + 2) 0 in
  let done_of = Array.make (nacts + 2) 0 in
  let start_of : (int, int) Hashtbl.t = Hashtbl.create 8 in
  Array.iteri (fun i (a, _, b, e, _) ->
      let idx = i + 1 in
      tb.(idx) <- b; ta.(idx) <- e; done_of.(idx) <- idx;
      (match a with
       | ACall (t, _) -> Hashtbl.replace start_of (int_of_n t) idx
       | APush t -> (match Hashtbl.find_opt start_of (int_of_n t) with
           | Some st when st > 0 -> done_of.(st) <- idx
           | _ -> ())
       | AExit t -> Hashtbl.replace start_of (int_of_n t) 0
       | _ -> ())) acts;
  let s0 = sys_init h.dbg (n_of_int h.ringcap) (n_of_int h.stackcap) (n_of_int h.qcap) in
  let s = ref s0 in
  let groups : (int, tpoint list ref) Hashtbl.t = Hashtbl.create 16 in
  let durs = ref [] and walls = ref [] in
  let stop = ref false in
  let au = 17592186044416 in
  let tick_of v = int_of_n v mod au and anchor_of v = int_of_n v / au in
  let callidx t = let c = t / 1024 in if c >= 1 && c <= nacts then c else 0 in
  let add_point v real =
    let t = tick_of v in
    let c = callidx t in
    if c > 0 then begin
      let p = { tp_tick = n_of_int t; tp_real = real; tp_call = n_of_int c; tp_done = n_of_int done_of.(c) } in
      let g = (match Hashtbl.find_opt groups (anchor_of v) with Some g -> g | None -> let g = ref [] in Hashtbl.add groups (anchor_of v) g; g) in
      g := p :: !g
    end in
  let pair_records (mrs : record list) (crs : record list) =
    let key r = record_str RFull r in
    let ms = List.sort (fun a b -> compare (key a) (key b)) mrs
    and cs = List.sort (fun a b -> compare (key a) (key b)) crs in
    if List.map key ms <> List.map key cs then None else Some (List.combine ms cs) in
  Array.iter (fun (a, o, _, _, _) ->
      if not !stop then begin
        let (s', mo) = step !s a in
        s := s';
        let handle mrs crs =
          (match pair_records mrs crs with
           | None -> stop := true
           | Some pairs ->
             List.iter (fun (m, c) ->
                 let bt = tick_of m.rc_begin in
                 let bi = callidx bt in
                 let mend = N.add m.rc_begin m.rc_dur in
                 let ei = callidx (tick_of mend) in
                 if bi > 0 then begin
                   add_point m.rc_begin c.rc_begin;
                   if ei > 0 then begin
                     add_point mend (N.add c.rc_begin c.rc_dur);
                     let lo = Stdlib.max 0 (tb.(ei) - ta.(done_of.(bi))) and hi = ta.(done_of.(ei)) - tb.(bi) in
                     let lo' = Stdlib.max 0 (lo - 3000 - lo / 50) and hi' = hi + 20000 + hi / 50 in
                     if Sys.getenv_opt "VDEBUG" <> None then Printf.printf "  DUR id=%s dur=%d lo=%d hi=%d bi=%d ei=%d\n" (hex_of_n c.rc_id) (int_of_n c.rc_dur) lo' hi' bi ei;
                     durs := { dc_dur = c.rc_dur; dc_lo = n_of_int lo'; dc_hi = n_of_int hi' } :: !durs
                   end;
                   let w0 = h.wall0 in
                   if w0 <> N0 then
                     walls := { wc_begin = c.rc_begin;
                                wc_lo = N.sub (N.add w0 (n_of_int tb.(bi))) (n_of_int 50000000);
                                wc_hi = N.add (N.add w0 (n_of_int ta.(done_of.(bi)))) (n_of_int 50000000) } :: !walls
                 end;
                 (try List.iter2 (fun me ce -> add_point me.e_ts ce.e_ts) m.rc_events c.rc_events
                  with Invalid_argument _ -> stop := true)) pairs) in
        (match mo, o with
         | OReport (mrs, _, _), OReport (crs, _, _) -> handle mrs crs
         | OCall (RRecords mrs), OCall (RRecords crs) -> handle mrs crs
         | _ -> ())
      end) acts;
  let batches = ref (Hashtbl.fold (fun _ g acc -> !g :: acc) groups []) in
  let fails = ref [] in
  if not (List.for_all order_ok !batches) then begin
    fails := "time-order" :: !fails;
    if Sys.getenv_opt "VDEBUG" <> None then
      List.iter (fun pts ->
          List.iter (fun p -> List.iter (fun q ->
              let bef = (p.tp_call = q.tp_call && N.leb p.tp_tick q.tp_tick) || N.ltb p.tp_done q.tp_call in
              if bef && not (N.leb p.tp_real q.tp_real) then
                Printf.printf "  ORDER p(tick=%d real=%s call=%d done=%d) q(tick=%d real=%s call=%d done=%d)\n"
                  (int_of_n p.tp_tick) (hex_of_n p.tp_real) (int_of_n p.tp_call) (int_of_n p.tp_done)
                  (int_of_n q.tp_tick) (hex_of_n q.tp_real) (int_of_n q.tp_call) (int_of_n q.tp_done)) pts) pts) !batches
  end;
  if not (dur_ok !durs) then fails := "duration-outside-execution-bracket" :: !fails;
  if not (wall_ok !walls) then fails := "begin-outside-wall-clock-window" :: !fails;
  !fails


(* ---- C17: copies of one span (same span id) must agree on their duration.  Within one
   report (one clock anchor) exactly; across reports each copy is converted with its own
   anchor and the two floors may move the difference by 1 ns: known finding K6. *)
let copy_checks (h : hist) : (string * string) list =
  let acts = List.rev h.acts in
  let seen : (string, (int * n)) Hashtbl.t = Hashtbl.create 64 in
  let out = ref [] in
  let k = ref 0 in
  List.iter (fun (_, o, _, _, _) ->
      match o with
      | OReport (recs, _, _) ->
        incr k;
        List.iter (fun r ->
            let id = hex_of_n r.rc_id ^ "/" ^ string_of_int (int_of_n r.rc_name) in
            (match Hashtbl.find_opt seen id with
             | Some (k0, d0) ->
               if d0 <> r.rc_dur then begin
                 let diff = if N.leb d0 r.rc_dur then N.sub r.rc_dur d0 else N.sub d0 r.rc_dur in
                 if k0 = !k then out := ("ORACLEFAIL", "copies-differ-in-one-report") :: !out
                 else if N.leb diff (n_of_int 1) then out := ("KNOWNHIT", "K6") :: !out
                 else out := ("ORACLEFAIL", "copies-differ-by-more-than-1ns") :: !out
               end
             | None -> Hashtbl.add seen id (!k, r.rc_dur))) recs
      | _ -> ()) acts;
  List.sort_uniq compare !out

let run_history (h : hist) (props : string list) stats =
  let pj = proj_of (match props with p :: _ -> p | [] -> "") in
  let s0 = sys_init h.dbg (n_of_int h.ringcap) (n_of_int h.stackcap) (n_of_int h.qcap) in
  let acts = List.rev h.acts in
  let s = ref s0 in
  let idx = ref 0 in
  let disagreed = ref false in
  List.iter (fun (a, o, _, _, raw) ->
      incr idx;
      if not !disagreed then begin
        let (s', mo) = step !s a in
        s := s';
        let ms = obs_str pj mo and cs = obs_str pj o in
        if ms <> cs then begin
          disagreed := true;
          Printf.printf "DISAGREE %s step=%d action=[%s] code=[%s] model=[%s]\n" h.hid !idx raw cs ms
        end
      end) acts;
  let ao = List.map (fun (a, o, _, _, _) -> (a, o)) acts in
  let propnum = (match props with
      | p :: _ when String.length p >= 3 && p.[0] = 'C' -> (try int_of_string (String.sub p 1 (String.length p - 1)) with _ -> 0)
      | _ -> 0) in
  if propnum > 0 && propnum <> 18 then begin
    let vs = (try oracle (n_of_int propnum) s0 ao with e -> []) in
    let seen = Hashtbl.create 8 in
    List.iter (fun v ->
        let key = (int_of_n v.v_clause, int_of_n v.v_known) in
        if not (Hashtbl.mem seen key) then begin
          Hashtbl.add seen key ();
          if int_of_n v.v_known = 0 then
            Printf.printf "ORACLEFAIL %s C%02d clause=%d step=%d\n" h.hid propnum (int_of_n v.v_clause) (int_of_n v.v_step)
          else
            Printf.printf "KNOWNHIT %s C%02d K%d clause=%d step=%d\n" h.hid propnum (int_of_n v.v_known) (int_of_n v.v_clause) (int_of_n v.v_step)
        end) vs
  end;
  if props = ["C17"] then
    List.iter (fun (kind, what) ->
        if kind = "KNOWNHIT" then Printf.printf "KNOWNHIT %s C17 %s clause=171 step=0\n" h.hid what
        else Printf.printf "ORACLEFAIL %s C17 %s\n" h.hid what) (copy_checks h);
  (* C17: "spans still open when the set was collected are closed at the collection time",
     "the same durations": the duration clause of the time oracle applies to C17 as well *)
  if props = ["C17"] then
    List.iter (fun cl -> if cl = "duration-outside-execution-bracket" then Printf.printf "ORACLEFAIL %s C17 %s\n" h.hid cl)
      (try time_checks h with e -> ["time-check-exception:" ^ Printexc.to_string e]);
  if props = ["C18"] then
    List.iter (fun cl -> Printf.printf "ORACLEFAIL %s C18 %s\n" h.hid cl) (try time_checks h with e -> ["time-check-exception:" ^ Printexc.to_string e]);
  Hashtbl.replace stats "actions" ((try Hashtbl.find stats "actions" with Not_found -> 0) + List.length acts);
  !disagreed

let main file props =
  let ic = open_in file in
  let cur = ref None in
  let cases = ref 0 and dis = ref 0 and nontriv = ref 0 in
  let twin_cases = ref 0 and twin_diff = ref 0 in
  let stats = Hashtbl.create 16 in
  let seen = Hashtbl.create 1024 in
  (try
     while true do
       let line = input_line ic in
       if String.length line > 0 then begin
         match line.[0] with
         | 'H' ->
           (match split_ws line with
            | [_; id; dbg; rc; sc; qc] ->
              cur := Some { hid = id; dbg = (dbg = "1"); ringcap = int_of_string rc; stackcap = int_of_string sc;
                            qcap = int_of_string qc; wall0 = N0; acts = []; raws = [] }
            | _ -> ())
         | 'T' ->
           (* C15: plain vs traced outcome of one twin *)
           incr twin_cases;
           if not (Str.string_match (Str.regexp ".* => same$") line 0) then begin
             incr twin_diff;
             Printf.printf "ORACLEFAIL twin C15 %s\n" (String.sub line 0 (min 500 (String.length line)))
           end
         | 'W' ->
           (match !cur, split_ws line with
            | Some h, [_; w] -> h.wall0 <- n_of_dec w
            | _ -> ())
         | 'A' ->
           (match !cur with
            | Some h ->
              (match Str.bounded_split_delim (Str.regexp_string " => ") line 2 with
               | [lhs; rhs] ->
                 (match split_ws lhs with
                  | _ :: tb :: ta :: atoks ->
                    h.raws <- (atoks, rhs, int_of_string tb, int_of_string ta) :: h.raws
                  | _ -> ())
               | _ -> ())
            | None -> ())
         | 'E' ->
           (match !cur with
            | Some h ->
              incr cases;
              expand_raws h;
              let d = run_history h props stats in
              if d then incr dis;
              let key = String.concat "|" (List.map (fun (_, _, _, _, r) -> r) h.acts) in
              if List.length h.acts >= 6 && not (Hashtbl.mem seen key) then (Hashtbl.add seen key (); incr nontriv);
              cur := None
            | None -> ())
         | _ -> ()
       end
     done
   with End_of_file -> ());
  if !twin_cases > 0 then Printf.printf "TWINS cases=%d different=%d\n" !twin_cases !twin_diff;
  Printf.printf "SUMMARY cases=%d disagreements=%d nontrivial=%d actions=%d\n" (!cases + !twin_cases) !dis (!nontriv + !twin_cases)
    (try Hashtbl.find stats "actions" with Not_found -> 0)
