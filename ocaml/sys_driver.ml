(* System histories: replays what the harness logged (scheduled actions + what the real
   crates showed) on the extracted model, compares every observable, and evaluates the
   property oracles on what the CODE showed.

   Log format (one file = many histories):
     H <id> <dbg> <ringcap> <stackcap> <qcap>
     A <tb> <ta> <action tokens> => <observation tokens>
     E
*)
open Model
open Conv

exception Parse of string

let ni s = n_of_int (int_of_string s)
let nh s = n_of_hex s

let rec take_props k toks acc =
  if k = 0 then (List.rev acc, toks)
  else match toks with
    | a :: b :: rest -> take_props (k - 1) rest ((ni a, ni b) :: acc)
    | _ -> raise (Parse "props")

let parse_props toks = match toks with
  | k :: rest -> take_props (int_of_string k) rest []
  | [] -> raise (Parse "props-n")

let parse_optprops toks = match toks with
  | "-" :: rest -> (None, rest)
  | _ -> let (p, rest) = parse_props toks in (Some p, rest)

let rec take_n k toks acc =
  if k = 0 then (List.rev acc, toks)
  else match toks with a :: rest -> take_n (k - 1) rest (ni a :: acc) | [] -> raise (Parse "list")

let parse_meth = function
  | "fut" -> MFut | "next" -> MNext | "ready" -> MReady | "start" -> MStart
  | "flush" -> MFlush | "close" -> MClose | s -> raise (Parse ("meth " ^ s))
let parse_pres = function
  | "pending" -> RPending | "final" -> RFinal | "item" -> RItem | s -> raise (Parse ("pres " ^ s))

let parse_call toks : call =
  match toks with
  | ["root"; h; name; tr; sp; b] -> KRoot (ni h, ni name, nh tr, nh sp, b = "1")
  | ["noop"; h] -> KNoop (ni h)
  | ["child"; h; name; p] -> KChild (ni h, ni name, ni p)
  | "childn" :: h :: name :: k :: rest -> let (ps, _) = take_n (int_of_string k) rest [] in KChildMany (ni h, ni name, ps)
  | ["childl"; h; name] -> KChildLocal (ni h, ni name)
  | ["setl"; g; h] -> KSetLocal (ni g, ni h)
  | ["dropg"; g] -> KDropGuard (ni g)
  | ["lenter"; l; name] -> KLEnter (ni l, ni name)
  | ["lexit"; l] -> KLExit (ni l)
  | "lwith" :: l :: rest -> KLWithProps (ni l, fst (parse_props rest))
  | "laddp" :: rest -> KLAddProps (fst (parse_props rest))
  | "laddev" :: name :: rest -> KLAddEvent (ni name, fst (parse_optprops rest))
  | ["lcstart"; lc] -> KLcStart (ni lc)
  | ["lccollect"; lc; ls] -> KLcCollect (ni lc, ni ls)
  | ["lcdrop"; lc] -> KLcDrop (ni lc)
  | ["pushc"; h; ls] -> KPushChild (ni h, ni ls)
  | ["torec"; ls; tr; sp] -> KToRecords (ni ls, nh tr, nh sp)
  | "swith" :: h :: rest -> KSWithProps (ni h, fst (parse_props rest))
  | "saddp" :: h :: rest -> KSAddProps (ni h, fst (parse_props rest))
  | "saddev" :: h :: name :: rest -> KSAddEvent (ni h, ni name, fst (parse_optprops rest))
  | ["cancel"; h] -> KCancel (ni h)
  | ["drops"; h] -> KDropSpan (ni h)
  | ["elapsed"; h] -> KElapsed (ni h)
  | ["froms"; h] -> KFromSpan (ni h)
  | ["curl"] -> KCurLocal
  | ["cret"] -> KClosureRet
  | "adnew" :: a :: h :: _ -> KAdNew (ni a, ni h)
  | "pollb" :: a :: g :: _ -> KPollBegin (ni a, ni g)
  | ["polle"; a; m; r] -> KPollEnd (ni a, parse_meth m, parse_pres r)
  | ["addrop"; a] -> KAdDrop (ni a)
  | _ -> raise (Parse ("call: " ^ String.concat " " toks))

let parse_action toks : action =
  match toks with
  | ["I"; c] -> AInstall (c = "1")
  | ["S"; t; p; s] -> ASpawn (ni t, ni p, ni s)
  | "C" :: t :: rest -> ACall (ni t, parse_call rest)
  | ["P"; t] -> APush (ni t)
  | ["X"; t] -> AExit (ni t)
  | ["CB"] -> ACBegin | ["CP"] -> ACPop | ["CC"] -> ACCheck | ["CX"] -> ACProcess
  | _ -> raise (Parse ("action: " ^ String.concat " " toks))

(* ---- records *)
let parse_event toks =
  match toks with
  | name :: ts :: rest ->
    let (ps, rest) = parse_props rest in
    ({ e_name = ni name; e_ts = ni ts; e_props = ps }, rest)
  | _ -> raise (Parse "event")

let rec take_events k toks acc =
  if k = 0 then (List.rev acc, toks)
  else let (e, rest) = parse_event toks in take_events (k - 1) rest (e :: acc)

let parse_record toks =
  match toks with
  | tr :: id :: par :: bg :: dur :: name :: rest ->
    let (ps, rest) = parse_props rest in
    (match rest with
     | ne :: rest ->
       let (evs, rest) = take_events (int_of_string ne) rest [] in
       ({ rc_trace = nh tr; rc_id = nh id; rc_parent = nh par; rc_begin = ni bg; rc_dur = ni dur;
          rc_name = ni name; rc_props = ps; rc_events = evs }, rest)
     | [] -> raise (Parse "record-ne"))
  | _ -> raise (Parse "record")

let rec take_records k toks acc =
  if k = 0 then (List.rev acc, toks)
  else let (r, rest) = parse_record toks in take_records (k - 1) rest (r :: acc)

let rec take_stats k toks acc =
  if k = 0 then (List.rev acc, toks)
  else match toks with
    | c :: n :: d :: rest -> take_stats (k - 1) rest (((ni c, ni n), ni d) :: acc)
    | _ -> raise (Parse "stats")

let parse_obs toks : obs =
  match toks with
  | ["-"] -> ONone
  | ["u"] -> OCall RUnit
  | ["b0"] -> OCall (RBool false)
  | ["b1"] -> OCall (RBool true)
  | ["c"; "none"] -> OCall (RCtx None)
  | ["c"; t; s; b] -> OCall (RCtx (Some ((nh t, nh s), b = "1")))
  | ["panic"] -> OPanic N0
  | "recs" :: k :: rest -> let (rs, _) = take_records (int_of_string k) rest [] in OCall (RRecords rs)
  | "rep" :: k :: rest ->
    let (rs, rest) = take_records (int_of_string k) rest [] in
    (match rest with
     | "st" :: k :: rest ->
       let (st, rest) = take_stats (int_of_string k) rest [] in
       (match rest with [rv] -> OReport (rs, st, ni rv) | _ -> raise (Parse "rep-recv"))
     | _ -> raise (Parse "rep-st"))
  | _ -> raise (Parse ("obs: " ^ String.concat " " toks))

(* ---- canonical printing (times excluded: the model's clock is logical).
   Each property compares only the projection of the observations it talks about. *)
type rlevel = RFull | RCore | RIds | RNone
type proj = { reports : rlevel; stats : bool; ctxs : bool; bools : bool; recs : bool }

let proj_of = function
  | "C01" | "C03" | "C04" | "C09" -> { reports = RCore; stats = false; ctxs = false; bools = false; recs = false }
  | "C02" -> { reports = RIds; stats = false; ctxs = false; bools = false; recs = false }
  | "C05" -> { reports = RCore; stats = false; ctxs = true; bools = false; recs = false }
  | "C06" | "C10" | "C13" | "C14" | "C15" -> { reports = RFull; stats = false; ctxs = true; bools = true; recs = false }
  | "C07" -> { reports = RNone; stats = false; ctxs = false; bools = false; recs = false }
  | "C08" -> { reports = RNone; stats = true; ctxs = false; bools = false; recs = false }
  | "C11" -> { reports = RIds; stats = false; ctxs = true; bools = false; recs = false }
  | "C16" -> { reports = RCore; stats = false; ctxs = true; bools = true; recs = false }
  | "C17" -> { reports = RFull; stats = false; ctxs = false; bools = false; recs = true }
  | "C18" -> { reports = RIds; stats = false; ctxs = false; bools = true; recs = false }
  | _ -> { reports = RFull; stats = true; ctxs = true; bools = true; recs = true }

let props_str ps = String.concat "," (List.map (fun (k, v) -> Printf.sprintf "%d=%d" (int_of_n k) (int_of_n v)) ps)
let event_str e = Printf.sprintf "%d[%s]" (int_of_n e.e_name) (props_str e.e_props)
let record_str lvl r =
  match lvl with
  | RFull -> Printf.sprintf "%s/%s/%s/%d{%s}(%s)" (hex_of_n r.rc_trace) (hex_of_n r.rc_id) (hex_of_n r.rc_parent)
               (int_of_n r.rc_name) (props_str r.rc_props) (String.concat ";" (List.map event_str r.rc_events))
  | RCore -> Printf.sprintf "%s/%s/%s/%d" (hex_of_n r.rc_trace) (hex_of_n r.rc_id) (hex_of_n r.rc_parent) (int_of_n r.rc_name)
  | RIds -> Printf.sprintf "%s/%s/%s" (hex_of_n r.rc_trace) (hex_of_n r.rc_id) (hex_of_n r.rc_parent)
  | RNone -> ""
let records_sorted lvl rs = if lvl = RNone then [] else List.sort compare (List.map (record_str lvl) rs)
let stats_str st =
  String.concat " " (List.sort compare (List.map (fun ((c, n), d) -> Printf.sprintf "%d:%d:%d" (int_of_n c) (int_of_n n) (int_of_n d)) st))

let obs_str (pj : proj) (o : obs) : string =
  match o with
  | ONone -> "-"
  | OCall RUnit -> "u"
  | OCall (RBool b) -> if pj.bools then (if b then "b1" else "b0") else "b"
  | OCall (RCtx None) -> if pj.ctxs then "c none" else "c"
  | OCall (RCtx (Some ((t, s), b))) -> if pj.ctxs then Printf.sprintf "c %s %s %d" (hex_of_n t) (hex_of_n s) (if b then 1 else 0) else "c"
  | OCall (RRecords rs) -> if pj.recs then "recs " ^ String.concat " " (List.map (record_str RFull) rs) else "recs"
  | OPanic _ -> "panic"
  | OReport (rs, st, rv) ->
    Printf.sprintf "rep %s%s" (String.concat " " (records_sorted pj.reports rs))
      (if pj.stats then Printf.sprintf " | st %s | recv %d" (stats_str st) (int_of_n rv) else "")
  | OBad c -> Printf.sprintf "model-disabled(%d)" (int_of_n c)

let split_ws s = List.filter (fun x -> x <> "") (String.split_on_char ' ' s)

type hist = {
  hid : string; dbg : bool; ringcap : int; stackcap : int; qcap : int;
  mutable acts : (action * obs * int * int * string) list; (* action, observed, tb, ta, raw line *)
}

(* oracles are registered by Oracle_glue (name, function over the history with the code's
   observations, returns the list of failing clause names) *)
let oracles : (string * (sys -> (action * obs) list -> string list)) list ref = ref []

let run_history (h : hist) (props : string list) stats =
  let pj = proj_of (match props with p :: _ -> p | [] -> "") in
  let s0 = sys_init h.dbg (n_of_int h.ringcap) (n_of_int h.stackcap) (n_of_int h.qcap) in
  let acts = List.rev h.acts in
  let s = ref s0 in
  let idx = ref 0 in
  let disagreed = ref false in
  List.iter (fun (a, o, _, _, raw) ->
      incr idx;
      if not !disagreed then begin
        let (s', mo) = step !s a in
        s := s';
        let ms = obs_str pj mo and cs = obs_str pj o in
        if ms <> cs then begin
          disagreed := true;
          Printf.printf "DISAGREE %s step=%d action=[%s] code=[%s] model=[%s]\n" h.hid !idx raw cs ms
        end
      end) acts;
  let ao = List.map (fun (a, o, _, _, _) -> (a, o)) acts in
  List.iter (fun (name, f) ->
      if props = [] || List.mem name props then begin
        let fails = (try f s0 ao with e -> ["oracle-exception:" ^ Printexc.to_string e]) in
        List.iter (fun cl -> Printf.printf "ORACLEFAIL %s %s %s\n" h.hid name cl) fails
      end) !oracles;
  Hashtbl.replace stats "actions" ((try Hashtbl.find stats "actions" with Not_found -> 0) + List.length acts);
  !disagreed

let main file props =
  let ic = open_in file in
  let cur = ref None in
  let cases = ref 0 and dis = ref 0 and nontriv = ref 0 in
  let stats = Hashtbl.create 16 in
  let seen = Hashtbl.create 1024 in
  (try
     while true do
       let line = input_line ic in
       if String.length line > 0 then begin
         match line.[0] with
         | 'H' ->
           (match split_ws line with
            | [_; id; dbg; rc; sc; qc] ->
              cur := Some { hid = id; dbg = (dbg = "1"); ringcap = int_of_string rc; stackcap = int_of_string sc;
                            qcap = int_of_string qc; acts = [] }
            | _ -> ())
         | 'A' ->
           (match !cur with
            | Some h ->
              (match Str.bounded_split_delim (Str.regexp_string " => ") line 2 with
               | [lhs; rhs] ->
                 (match split_ws lhs with
                  | _ :: tb :: ta :: atoks ->
                    (try
                       let a = parse_action atoks in
                       let o = parse_obs (split_ws rhs) in
                       h.acts <- (a, o, int_of_string tb, int_of_string ta, String.concat " " atoks) :: h.acts
                     with Parse m -> Printf.printf "DISAGREE %s step=0 action=[%s] code=[parse-error %s] model=[]\n" h.hid lhs m)
                  | _ -> ())
               | _ -> ())
            | None -> ())
         | 'E' ->
           (match !cur with
            | Some h ->
              incr cases;
              let d = run_history h props stats in
              if d then incr dis;
              let key = String.concat "|" (List.map (fun (_, _, _, _, r) -> r) h.acts) in
              if List.length h.acts >= 6 && not (Hashtbl.mem seen key) then (Hashtbl.add seen key (); incr nontriv);
              cur := None
            | None -> ())
         | _ -> ()
       end
     done
   with End_of_file -> ());
  Printf.printf "SUMMARY cases=%d disagreements=%d nontrivial=%d actions=%d\n" !cases !dis !nontriv
    (try Hashtbl.find stats "actions" with Not_found -> 0)
