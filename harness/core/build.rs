// Extracts the text of `fn unescape_format_string` from /repo/fastrace-macro/src/lib.rs (a
// proc-macro crate cannot be linked into a program) so that the function the macro uses is
// the one the harness runs: the text is compiled into the harness on every build.
use std::io::Write;

fn main() {
    let path = "/repo/fastrace-macro/src/lib.rs";
    println!("cargo:rerun-if-changed={}", path);
    let src = std::fs::read_to_string(path).expect("fastrace-macro source");
    let out = std::path::Path::new(&std::env::var("OUT_DIR").unwrap()).join("unescape_fn.rs");
    let mut f = std::fs::File::create(out).unwrap();
    match extract(&src, "fn unescape_format_string") {
        Some(text) => {
            writeln!(f, "pub const EXTRACTED: bool = true;").unwrap();
            writeln!(f, "{}", text).unwrap();
        }
        None => {
            // the function is gone or renamed: the stream reports it
            writeln!(f, "pub const EXTRACTED: bool = false;").unwrap();
            writeln!(f, "fn unescape_format_string(s: &str) -> (String, bool) {{ (s.to_string(), false) }}").unwrap();
        }
    }
}

/// the item starting at `head`, up to the brace that closes its body (string and char literals
/// are skipped so that the braces the function talks about do not count)
fn extract(src: &str, head: &str) -> Option<String> {
    let start = src.find(head)?;
    let b = src.as_bytes();
    let mut i = start;
    let mut depth = 0i32;
    let mut seen = false;
    while i < b.len() {
        match b[i] {
            b'"' => {
                i += 1;
                while i < b.len() && b[i] != b'"' {
                    if b[i] == b'\\' {
                        i += 1;
                    }
                    i += 1;
                }
            }
            b'\'' => {
                // char literal ('{', '\'', '\\') or a lifetime
                if i + 2 < b.len() && b[i + 1] == b'\\' {
                    i += 3;
                    while i < b.len() && b[i] != b'\'' {
                        i += 1;
                    }
                } else if i + 2 < b.len() && b[i + 2] == b'\'' {
                    i += 2;
                }
            }
            b'/' if i + 1 < b.len() && b[i + 1] == b'/' => {
                while i < b.len() && b[i] != b'\n' {
                    i += 1;
                }
            }
            b'{' => {
                depth += 1;
                seen = true;
            }
            b'}' => {
                depth -= 1;
                if seen && depth == 0 {
                    return Some(src[start..=i].to_string());
                }
            }
            _ => {}
        }
        i += 1;
    }
    None
}
