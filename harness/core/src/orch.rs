//! Deterministic orchestration of the real crates: every model thread is a real OS thread
//! that executes one commanded call at a time and parks at every verification yield point
//! (before each ring push / pop, between an empty pop and the abandoned-check, at the
//! phase boundaries of a collector cycle).  The orchestrator releases exactly one parked
//! thread at a time, so an execution is a single total order of scheduled actions.
use std::cell::{Cell, RefCell};
use std::collections::HashMap;
use std::future::Future;
use std::panic::{catch_unwind, AssertUnwindSafe};
use std::pin::Pin;
use std::rc::Rc;
use std::sync::mpsc;
use std::sync::{Arc, Condvar, Mutex};
use std::task::{Context, Poll, Wake, Waker};

use fastrace::collector::{Config, Reporter, SpanRecord};
use fastrace::local::{LocalCollector, LocalSpans};
use fastrace::prelude::*;
use fastrace::verif::{self, Point};

pub const COLLECTOR: usize = 1_000_000;

/// Which real-API route realises a model call is a function of the handle number in the log
/// line (so that a logged history replays identically):
///  * a local span whose handle is 2 mod 4 is recorded by polling a persistent
///    `enter_on_poll` future (slot (l/4) mod 2 of the thread) instead of
///    `LocalSpan::enter_with_local_parent`; the poll ends at the matching `lexit`;
///  * an object whose handle is 3 mod 5 is released by unwinding (a panic that is caught
///    right outside) instead of a plain drop.
pub fn eop_route(l: u64) -> Option<usize> {
    if l % 4 == 2 { Some(((l / 4) % 2) as usize) } else { None }
}
pub fn unwind_route(id: u64) -> bool {
    id % 5 == 3
}

/// releases x inside a destructor that runs during unwinding; a panic of x's own destructor is
/// caught there (it must not meet the unwinding in flight) and re-raised afterwards, so that it
/// is observed exactly like a panic of the plain drop
struct Rel<T> {
    x: Option<T>,
    panicked: Rc<Cell<bool>>,
}
impl<T> Drop for Rel<T> {
    fn drop(&mut self) {
        let x = self.x.take();
        if catch_unwind(AssertUnwindSafe(move || drop(x))).is_err() {
            self.panicked.set(true);
        }
    }
}

fn release<T>(id: u64, x: T) {
    if unwind_route(id) {
        // dropped while the thread is panicking (std::thread::panicking() is true in the
        // destructor); resume_unwind does not run the panic hook
        let flag = Rc::new(Cell::new(false));
        let r = Rel { x: Some(x), panicked: flag.clone() };
        let _ = catch_unwind(AssertUnwindSafe(move || {
            let _r = r;
            std::panic::resume_unwind(Box::new(0u8));
        }));
        if flag.get() {
            panic!("harness: the destructor panicked (released during unwinding)");
        }
    } else {
        drop(x);
    }
}

thread_local! {
    static WID: Cell<usize> = const { Cell::new(usize::MAX) };
    static WCTX: RefCell<Option<Rc<WCtx>>> = const { RefCell::new(None) };
}

#[derive(Clone, Debug, PartialEq)]
pub enum St {
    Running,
    Idle,
    Nested,
    Parked(Point),
    Gone,
    /// the collector cycle panicked (the collector thread is gone)
    Panicked,
}

struct Slot {
    st: St,
    release: bool,
    reply: Option<String>,
}

pub struct Shared {
    m: Mutex<HashMap<usize, Slot>>,
    cv: Condvar,
}

impl Shared {
    pub fn new() -> Arc<Shared> {
        Arc::new(Shared { m: Mutex::new(HashMap::new()), cv: Condvar::new() })
    }
    fn add(&self, id: usize) {
        self.m.lock().unwrap().insert(id, Slot { st: St::Running, release: false, reply: None });
    }
    fn post(&self, id: usize, st: St, reply: Option<String>) {
        let mut g = self.m.lock().unwrap();
        if let Some(s) = g.get_mut(&id) {
            s.st = st;
            if reply.is_some() {
                s.reply = reply;
            }
        }
        self.cv.notify_all();
    }
    /// called from the yield-point callback on the parked thread itself
    fn park(&self, id: usize, p: Point) {
        let mut g = self.m.lock().unwrap();
        match g.get_mut(&id) {
            Some(s) => s.st = St::Parked(p),
            None => return,
        }
        self.cv.notify_all();
        loop {
            if g.get(&id).map(|s| s.release).unwrap_or(true) {
                break;
            }
            g = self.cv.wait(g).unwrap();
        }
        if let Some(s) = g.get_mut(&id) {
            s.release = false;
            s.st = St::Running;
        }
    }
    /// orchestrator: wait until the thread is parked, idle, nested or gone
    pub fn settle(&self, id: usize) -> (St, Option<String>) {
        let mut g = self.m.lock().unwrap();
        let deadline = std::time::Instant::now() + std::time::Duration::from_secs(15);
        loop {
            let s = g.get_mut(&id).expect("slot");
            if s.st != St::Running {
                return (s.st.clone(), s.reply.take());
            }
            let (ng, to) = self.cv.wait_timeout(g, std::time::Duration::from_millis(500)).unwrap();
            g = ng;
            if to.timed_out() && std::time::Instant::now() > deadline {
                return (St::Running, Some("timeout".to_string()));
            }
        }
    }
    pub fn mark_running(&self, id: usize) {
        if let Some(s) = self.m.lock().unwrap().get_mut(&id) {
            s.st = St::Running;
        }
    }
    pub fn release(&self, id: usize) {
        let mut g = self.m.lock().unwrap();
        if let Some(s) = g.get_mut(&id) {
            s.release = true;
            s.st = St::Running;
        }
        self.cv.notify_all();
    }
}

pub fn install_callback(shared: &Arc<Shared>) {
    let sh = shared.clone();
    verif::set_callback(Some(Arc::new(move |p: Point| {
        let id = WID.with(|w| w.get());
        if id != usize::MAX {
            sh.park(id, p);
        }
    })));
}

// ---------------------------------------------------------------- strings
pub fn sym_str(n: u64) -> String {
    if n == 0 {
        return String::new();
    }
    match n % 13 {
        3 => format!("ключ-{}-值", n),
        5 => format!("L{}-{}", n, "x".repeat(300 + (n as usize % 7) * 400)),
        7 => format!("s {} \"q\" \\ \n\t{}", n, n),
        _ => format!("s{}", n),
    }
}

pub struct Interner {
    map: Mutex<HashMap<String, u64>>,
}
impl Interner {
    pub fn new() -> Self {
        Interner { map: Mutex::new(HashMap::new()) }
    }
    pub fn s(&self, n: u64) -> String {
        let st = sym_str(n);
        self.map.lock().unwrap().insert(st.clone(), n);
        st
    }
    pub fn back(&self, s: &str) -> u64 {
        if s.is_empty() {
            return 0;
        }
        self.map.lock().unwrap().get(s).copied().unwrap_or(999_999_999)
    }
}

// ---------------------------------------------------------------- reporter
#[derive(Clone)]
pub struct CapReporter(pub Arc<Mutex<Vec<Vec<SpanRecord>>>>);
impl Reporter for CapReporter {
    fn report(&mut self, spans: Vec<SpanRecord>) {
        self.0.lock().unwrap().push(spans);
    }
}

pub fn fmt_props(i: &Interner, ps: &[(std::borrow::Cow<'static, str>, std::borrow::Cow<'static, str>)]) -> String {
    let mut s = format!("{}", ps.len());
    for (k, v) in ps {
        s.push_str(&format!(" {} {}", i.back(k), i.back(v)));
    }
    s
}

pub fn fmt_record(i: &Interner, r: &SpanRecord) -> String {
    let mut s = format!(
        "{:x} {:x} {:x} {} {} {} {}",
        r.trace_id.0,
        r.span_id.0,
        r.parent_id.0,
        r.begin_time_unix_ns,
        r.duration_ns,
        i.back(&r.name),
        fmt_props(i, &r.properties)
    );
    s.push_str(&format!(" {}", r.events.len()));
    for e in &r.events {
        s.push_str(&format!(" {} {} {}", i.back(&e.name), e.timestamp_unix_ns, fmt_props(i, &e.properties)));
    }
    s
}

pub fn fmt_records(i: &Interner, rs: &[SpanRecord]) -> String {
    let mut s = format!("{}", rs.len());
    for r in rs {
        s.push(' ');
        s.push_str(&fmt_record(i, r));
    }
    s
}

// ---------------------------------------------------------------- scripted adapters
struct NoopWake;
impl Wake for NoopWake {
    fn wake(self: Arc<Self>) {}
}

/// hands control back to the orchestrator from inside a poll; returns the tokens of the
/// `polle` command that ends the poll
fn nested_from_poll() -> Vec<String> {
    let ctx = WCTX.with(|c| c.borrow().clone()).expect("poll outside a worker");
    ctx.nested("u")
}

fn res_of(toks: &[String]) -> &str {
    toks.last().map(|s| s.as_str()).unwrap_or("final")
}

pub struct ScriptFut;
impl Future for ScriptFut {
    type Output = ();
    fn poll(self: Pin<&mut Self>, _cx: &mut Context<'_>) -> Poll<()> {
        let t = nested_from_poll();
        if res_of(&t) == "pending" || t.first().map(|h| h == "lexit").unwrap_or(false) { Poll::Pending } else { Poll::Ready(()) }
    }
}

/// `exact` is raised by a "lastitem" result: from then on size_hint() is exactly (0, Some(0)),
/// as for a stream that knows it has nothing left but has not yet been polled for its `None`
pub struct ScriptStream {
    exact: Cell<bool>,
}
impl ScriptStream {
    pub fn new() -> Self {
        ScriptStream { exact: Cell::new(false) }
    }
}
impl futures_core::Stream for ScriptStream {
    type Item = ();
    fn poll_next(self: Pin<&mut Self>, _cx: &mut Context<'_>) -> Poll<Option<()>> {
        let t = nested_from_poll();
        match res_of(&t) {
            "pending" => Poll::Pending,
            "item" => Poll::Ready(Some(())),
            "lastitem" => {
                self.exact.set(true);
                Poll::Ready(Some(()))
            }
            _ => Poll::Ready(None),
        }
    }
    fn size_hint(&self) -> (usize, Option<usize>) {
        if self.exact.get() { (0, Some(0)) } else { (0, None) }
    }
}

/// "pending" / "err" (the inner sink fails: Ready(Err)) / anything else: Ready(Ok)
fn sink_res(t: &[String]) -> Poll<Result<(), ()>> {
    match res_of(t) {
        "pending" => Poll::Pending,
        "err" => Poll::Ready(Err(())),
        _ => Poll::Ready(Ok(())),
    }
}

pub struct ScriptSink;
impl futures_sink::Sink<()> for ScriptSink {
    type Error = ();
    fn poll_ready(self: Pin<&mut Self>, _cx: &mut Context<'_>) -> Poll<Result<(), ()>> {
        sink_res(&nested_from_poll())
    }
    fn start_send(self: Pin<&mut Self>, _item: ()) -> Result<(), ()> {
        let t = nested_from_poll();
        if res_of(&t) == "err" { Err(()) } else { Ok(()) }
    }
    fn poll_flush(self: Pin<&mut Self>, _cx: &mut Context<'_>) -> Poll<Result<(), ()>> {
        sink_res(&nested_from_poll())
    }
    fn poll_close(self: Pin<&mut Self>, _cx: &mut Context<'_>) -> Poll<Result<(), ()>> {
        sink_res(&nested_from_poll())
    }
}

pub enum Adapter {
    Fut(Pin<Box<fastrace::future::InSpan<ScriptFut>>>),
    Stream(Pin<Box<fastrace_futures::InSpan<ScriptStream>>>),
    Sink(Pin<Box<fastrace_futures::InSpan<ScriptSink>>>),
}
unsafe impl Send for Adapter {}

// ---------------------------------------------------------------- tables shared by all workers
pub struct Tables {
    pub spans: Mutex<HashMap<u64, Arc<Span>>>,
    pub lsets: Mutex<HashMap<u64, LocalSpans>>,
    pub adapters: Mutex<HashMap<u64, Adapter>>,
    /// events built ahead of their use (Event::new at an earlier call), by name symbol
    pub ev_stash: Mutex<HashMap<u64, Event>>,
    pub interner: Interner,
}
impl Tables {
    pub fn new() -> Arc<Tables> {
        Arc::new(Tables {
            spans: Mutex::new(HashMap::new()),
            lsets: Mutex::new(HashMap::new()),
            adapters: Mutex::new(HashMap::new()),
            ev_stash: Mutex::new(HashMap::new()),
            interner: Interner::new(),
        })
    }
}

enum Scoped {
    Guard(u64, Option<fastrace::local::LocalParentGuard>),
    Local(u64, Option<LocalSpan>),
    Coll(u64, Option<LocalCollector>),
}

pub struct WCtx {
    id: usize,
    shared: Arc<Shared>,
    tables: Arc<Tables>,
    rx: mpsc::Receiver<Vec<String>>,
    scoped: RefCell<Vec<Scoped>>,
    depth: Cell<usize>,
    eops: RefCell<Vec<Option<(String, Pin<Box<fastrace::future::EnterOnPoll<ScriptFut>>>)>>>,
    eop_open: RefCell<Vec<u64>>,
}

fn pu(s: &str) -> u64 {
    s.parse().unwrap_or(0)
}
fn ph128(s: &str) -> u128 {
    u128::from_str_radix(s, 16).unwrap_or(0)
}
fn ph64(s: &str) -> u64 {
    u64::from_str_radix(s, 16).unwrap_or(0)
}

impl WCtx {
    fn status(&self) -> St {
        if self.depth.get() > 0 { St::Nested } else { St::Idle }
    }

    /// inside a user closure or an inner poll: report, then serve nested commands until the
    /// command that ends the closure / poll arrives
    fn nested(&self, reply: &str) -> Vec<String> {
        self.depth.set(self.depth.get() + 1);
        self.shared.post(self.id, St::Nested, Some(reply.to_string()));
        let t = self.serve(true);
        self.depth.set(self.depth.get() - 1);
        t
    }

    fn serve(&self, nested: bool) -> Vec<String> {
        loop {
            let toks = match self.rx.recv() {
                Ok(t) => t,
                Err(_) => return vec!["exit".to_string()],
            };
            let head = toks[0].as_str();
            if head == "exit" {
                return toks;
            }
            if nested && (head == "cret" || head == "polle") {
                return toks;
            }
            if nested && head == "lexit" && self.eop_open.borrow().last().copied() == Some(pu(&toks[1])) {
                return toks;
            }
            let r = catch_unwind(AssertUnwindSafe(|| self.exec(&toks)));
            let reply = match r {
                Ok(s) => s,
                Err(_) => "panic".to_string(),
            };
            self.shared.post(self.id, self.status(), Some(reply));
        }
    }

    fn sym(&self, s: &str) -> String {
        self.tables.interner.s(pu(s))
    }

    fn props(&self, toks: &[String]) -> Vec<(String, String)> {
        let n = pu(&toks[0]) as usize;
        (0..n).map(|k| (self.sym(&toks[1 + 2 * k]), self.sym(&toks[2 + 2 * k]))).collect()
    }

    fn span(&self, h: &str) -> Arc<Span> {
        self.tables.spans.lock().unwrap().get(&pu(h)).expect("span handle").clone()
    }
    fn take_span(&self, h: &str) -> Span {
        let a = self.tables.spans.lock().unwrap().remove(&pu(h)).expect("span handle");
        match Arc::try_unwrap(a) {
            Ok(s) => s,
            Err(_) => panic!("harness: span {} still shared", h),
        }
    }
    fn put_span(&self, h: &str, s: Span) {
        self.tables.spans.lock().unwrap().insert(pu(h), Arc::new(s));
    }

    fn ctx_str(c: Option<SpanContext>) -> String {
        match c {
            None => "c none".to_string(),
            Some(c) => {
                // C11: the context must survive the traceparent text round trip unchanged
                let back = SpanContext::decode_w3c_traceparent(&c.encode_w3c_traceparent());
                let same = back.map(|b| b.trace_id == c.trace_id && b.span_id == c.span_id && b.sampled == c.sampled).unwrap_or(false);
                format!("c {:x} {:x} {}{}", c.trace_id.0, c.span_id.0, c.sampled as u8, if same { "" } else { " traceparent-round-trip-differs" })
            }
        }
    }

    /// the event named by symbol n: taken from the stash when it was built ahead (at an earlier
    /// event call), built now otherwise; then events for the next symbols are built ahead
    fn event(&self, n: u64) -> Event {
        let mut st = self.tables.ev_stash.lock().unwrap();
        let ev = st.remove(&n).unwrap_or_else(|| Event::new(self.tables.interner.s(n)));
        if n > 0 {
            for k in n + 1..n + 24 {
                st.entry(k).or_insert_with(|| Event::new(self.tables.interner.s(k)));
            }
        }
        ev
    }

    fn pop_scoped(&self) -> Scoped {
        self.scoped.borrow_mut().pop().expect("harness: scoped stack empty")
    }

    fn exec(&self, t: &[String]) -> String {
        let u = || "u".to_string();
        match t[0].as_str() {
            "root" => {
                let ctx = SpanContext::new(TraceId(ph128(&t[3])), SpanId(ph64(&t[4]))).sampled(t[5] == "1");
                let s = Span::root(self.sym(&t[2]), ctx);
                self.put_span(&t[1], s);
                u()
            }
            "noop" => {
                self.put_span(&t[1], Span::noop());
                u()
            }
            "child" => {
                let p = self.span(&t[3]);
                let s = Span::enter_with_parent(self.sym(&t[2]), &p);
                drop(p);
                self.put_span(&t[1], s);
                u()
            }
            "childn" => {
                let k = pu(&t[3]) as usize;
                let ps: Vec<Arc<Span>> = (0..k).map(|i| self.span(&t[4 + i])).collect();
                let s = Span::enter_with_parents(self.sym(&t[2]), ps.iter().map(|a| &**a));
                drop(ps);
                self.put_span(&t[1], s);
                u()
            }
            "childl" => {
                let s = Span::enter_with_local_parent(self.sym(&t[2]));
                self.put_span(&t[1], s);
                u()
            }
            "setl" => {
                let p = self.span(&t[2]);
                let g = p.set_local_parent();
                drop(p);
                self.scoped.borrow_mut().push(Scoped::Guard(pu(&t[1]), Some(g)));
                u()
            }
            "dropg" => {
                match self.pop_scoped() {
                    Scoped::Guard(g, x) if g == pu(&t[1]) => release(g, x),
                    _ => panic!("harness: dropg out of order"),
                }
                u()
            }
            "lenter" => {
                let id = pu(&t[1]);
                if let Some(slot) = eop_route(id) {
                    // one poll of a persistent enter_on_poll future; ScriptFut::poll serves the
                    // nested commands until the matching lexit arrives
                    let name = self.sym(&t[2]);
                    let taken = self.eops.borrow_mut()[slot].take();
                    let mut fut = match taken {
                        Some((n, f)) if n == name => f,
                        _ => Box::pin(fastrace::future::FutureExt::enter_on_poll(ScriptFut, name.clone())),
                    };
                    self.eop_open.borrow_mut().push(id);
                    let waker = Waker::from(Arc::new(NoopWake));
                    let mut cx = Context::from_waker(&waker);
                    let _ = fut.as_mut().poll(&mut cx);
                    self.eop_open.borrow_mut().pop();
                    self.eops.borrow_mut()[slot] = Some((name, fut));
                    return u();
                }
                let l = LocalSpan::enter_with_local_parent(self.sym(&t[2]));
                self.scoped.borrow_mut().push(Scoped::Local(id, Some(l)));
                u()
            }
            "lexit" => {
                match self.pop_scoped() {
                    Scoped::Local(l, x) if l == pu(&t[1]) => release(l, x),
                    _ => panic!("harness: lexit out of order"),
                }
                u()
            }
            "lwith" => {
                let id = pu(&t[1]);
                let (idx, ls) = {
                    let mut sc = self.scoped.borrow_mut();
                    let idx = sc.iter().position(|x| matches!(x, Scoped::Local(l, _) if *l == id)).expect("lwith handle");
                    let ls = match &mut sc[idx] {
                        Scoped::Local(_, x) => x.take().expect("local span in use"),
                        _ => unreachable!(),
                    };
                    (idx, ls)
                };
                let ps = self.props(&t[2..]);
                let mut inv = false;
                // one property: the singular entry point
                let ls = if ps.len() == 1 {
                    ls.with_property(|| {
                        inv = true;
                        self.nested("b1");
                        ps[0].clone()
                    })
                } else {
                    ls.with_properties(|| {
                        inv = true;
                        self.nested("b1");
                        ps
                    })
                };
                if let Scoped::Local(_, x) = &mut self.scoped.borrow_mut()[idx] {
                    *x = Some(ls);
                }
                if inv { u() } else { "b0".to_string() }
            }
            "laddp" => {
                let ps = self.props(&t[1..]);
                let mut inv = false;
                if ps.len() == 1 {
                    LocalSpan::add_property(|| {
                        inv = true;
                        self.nested("b1");
                        ps[0].clone()
                    });
                } else {
                    LocalSpan::add_properties(|| {
                        inv = true;
                        self.nested("b1");
                        ps
                    });
                }
                if inv { u() } else { "b0".to_string() }
            }
            "laddev" => {
                let n = pu(&t[1]);
                if t[2] != "-" && n % 3 == 1 {
                    // the deprecated shim builds the event itself
                    let ps = self.props(&t[2..]);
                    #[allow(deprecated)]
                    Event::add_to_local_parent(self.tables.interner.s(n), || ps.into_iter().map(|(k, v)| (std::borrow::Cow::from(k), std::borrow::Cow::from(v))).collect::<Vec<_>>());
                    return u();
                }
                let mut ev = self.event(n);
                if t[2] != "-" {
                    let ps = self.props(&t[2..]);
                    ev = if ps.len() == 1 { ev.with_property(|| ps[0].clone()) } else { ev.with_properties(|| ps) };
                }
                LocalSpan::add_event(ev);
                u()
            }
            "lcstart" => {
                let c = LocalCollector::start();
                self.scoped.borrow_mut().push(Scoped::Coll(pu(&t[1]), Some(c)));
                u()
            }
            "lccollect" => {
                // the collector may have open local spans above it (they are closed at the
                // collection time); it is taken out of the scoped stack wherever it is
                let id = pu(&t[1]);
                let entry = {
                    let mut sc = self.scoped.borrow_mut();
                    let idx = sc.iter().rposition(|x| matches!(x, Scoped::Coll(c, _) if *c == id)).expect("lccollect handle");
                    sc.remove(idx)
                };
                match entry {
                    Scoped::Coll(_, Some(x)) => {
                        let ls = x.collect();
                        self.tables.lsets.lock().unwrap().insert(pu(&t[2]), ls);
                    }
                    _ => panic!("harness: lccollect on a collector in use"),
                }
                u()
            }
            "lcdrop" => {
                match self.pop_scoped() {
                    Scoped::Coll(c, x) if c == pu(&t[1]) => release(c, x),
                    _ => panic!("harness: lcdrop out of order"),
                }
                u()
            }
            "pushc" => {
                let p = self.span(&t[1]);
                let ls = if t.len() > 3 {
                    // the only handle: nothing else keeps the set alive
                    self.tables.lsets.lock().unwrap().remove(&pu(&t[2])).expect("lset")
                } else {
                    self.tables.lsets.lock().unwrap().get(&pu(&t[2])).expect("lset").clone()
                };
                p.push_child_spans(ls);
                u()
            }
            "torec" => {
                let ls = self.tables.lsets.lock().unwrap().get(&pu(&t[1])).expect("lset").clone();
                let recs = ls.to_span_records(SpanContext::new(TraceId(ph128(&t[2])), SpanId(ph64(&t[3]))));
                format!("recs {}", fmt_records(&self.tables.interner, &recs))
            }
            "swith" => {
                let s = self.take_span(&t[1]);
                let ps = self.props(&t[2..]);
                let mut inv = false;
                let s = if ps.len() == 1 {
                    s.with_property(|| {
                        inv = true;
                        self.nested("b1");
                        ps[0].clone()
                    })
                } else {
                    s.with_properties(|| {
                        inv = true;
                        self.nested("b1");
                        ps
                    })
                };
                self.put_span(&t[1], s);
                if inv { u() } else { "b0".to_string() }
            }
            "saddp" => {
                let p = self.span(&t[1]);
                let ps = self.props(&t[2..]);
                let mut inv = false;
                if ps.len() == 1 {
                    p.add_property(|| {
                        inv = true;
                        self.nested("b1");
                        ps[0].clone()
                    });
                } else {
                    p.add_properties(|| {
                        inv = true;
                        self.nested("b1");
                        ps
                    });
                }
                drop(p);
                if inv { u() } else { "b0".to_string() }
            }
            "saddev" => {
                let p = self.span(&t[1]);
                let n = pu(&t[2]);
                if t[3] != "-" && n % 3 == 1 {
                    let ps = self.props(&t[3..]);
                    #[allow(deprecated)]
                    Event::add_to_parent(self.tables.interner.s(n), &p, || ps.into_iter().map(|(k, v)| (std::borrow::Cow::from(k), std::borrow::Cow::from(v))).collect::<Vec<_>>());
                    drop(p);
                    return u();
                }
                let mut ev = self.event(n);
                if t[3] != "-" {
                    let ps = self.props(&t[3..]);
                    ev = if ps.len() == 1 { ev.with_property(|| ps[0].clone()) } else { ev.with_properties(|| ps) };
                }
                p.add_event(ev);
                drop(p);
                u()
            }
            "cancel" => {
                let p = self.span(&t[1]);
                p.cancel();
                drop(p);
                u()
            }
            "drops" => {
                let s = self.take_span(&t[1]);
                release(pu(&t[1]), s);
                u()
            }
            "elapsed" => {
                let p = self.span(&t[1]);
                let r = p.elapsed().is_some();
                drop(p);
                if r { "b1".to_string() } else { "b0".to_string() }
            }
            "froms" => {
                let p = self.span(&t[1]);
                let r = SpanContext::from_span(&p);
                drop(p);
                Self::ctx_str(r)
            }
            "curl" => Self::ctx_str(SpanContext::current_local_parent()),
            "adnew" => {
                let s = self.take_span(&t[2]);
                let ad = match t[3].as_str() {
                    "stream" => Adapter::Stream(Box::pin(fastrace_futures::StreamExt::in_span(ScriptStream::new(), s))),
                    "sink" => Adapter::Sink(Box::pin(fastrace_futures::SinkExt::<()>::in_span(ScriptSink, s))),
                    _ => Adapter::Fut(Box::pin(fastrace::future::FutureExt::in_span(ScriptFut, s))),
                };
                self.tables.adapters.lock().unwrap().insert(pu(&t[1]), ad);
                u()
            }
            "pollb" => {
                let a = pu(&t[1]);
                let mut ad = self.tables.adapters.lock().unwrap().remove(&a).expect("adapter");
                let waker = Waker::from(Arc::new(NoopWake));
                let mut cx = Context::from_waker(&waker);
                match &mut ad {
                    Adapter::Fut(f) => {
                        let _ = f.as_mut().poll(&mut cx);
                    }
                    Adapter::Stream(s) => {
                        let _ = futures_core::Stream::poll_next(s.as_mut(), &mut cx);
                    }
                    Adapter::Sink(s) => match t[3].as_str() {
                        "ready" => {
                            let _ = futures_sink::Sink::<()>::poll_ready(s.as_mut(), &mut cx);
                        }
                        "start" => {
                            let _ = futures_sink::Sink::<()>::start_send(s.as_mut(), ());
                        }
                        "flush" => {
                            let _ = futures_sink::Sink::<()>::poll_flush(s.as_mut(), &mut cx);
                        }
                        _ => {
                            let _ = futures_sink::Sink::<()>::poll_close(s.as_mut(), &mut cx);
                        }
                    },
                }
                self.tables.adapters.lock().unwrap().insert(a, ad);
                u()
            }
            "addrop" => {
                let ad = self.tables.adapters.lock().unwrap().remove(&pu(&t[1])).expect("adapter");
                release(pu(&t[1]), ad);
                u()
            }
            other => panic!("harness: unknown call {}", other),
        }
    }
}

// ---------------------------------------------------------------- orchestrator side
pub struct Worker {
    pub id: usize,
    pub tx: mpsc::Sender<Vec<String>>,
    pub join: Option<std::thread::JoinHandle<()>>,
}

pub struct Orch {
    pub shared: Arc<Shared>,
    pub tables: Arc<Tables>,
    pub workers: HashMap<usize, Worker>,
    pub reports: Arc<Mutex<Vec<Vec<SpanRecord>>>>,
    collector_tx: Option<mpsc::Sender<u8>>,
    collector_join: Option<std::thread::JoinHandle<()>>,
    pub stack_cap: usize,
}

impl Orch {
    pub fn new(ring_cap: usize, stack_cap: usize, queue_cap: usize) -> Orch {
        let shared = Shared::new();
        install_callback(&shared);
        verif::reset();
        verif::set_ring_capacity(ring_cap);
        verif::set_queue_capacity(queue_cap);
        let mut o = Orch {
            shared,
            tables: Tables::new(),
            workers: HashMap::new(),
            reports: Arc::new(Mutex::new(Vec::new())),
            collector_tx: None,
            collector_join: None,
            stack_cap,
        };
        o.start_collector_thread();
        o
    }

    fn start_collector_thread(&mut self) {
        let (tx, rx) = mpsc::channel::<u8>();
        let sh = self.shared.clone();
        sh.add(COLLECTOR);
        let h = std::thread::Builder::new()
            .name("verif-collector".into())
            .spawn(move || {
                WID.with(|w| w.set(COLLECTOR));
                sh.post(COLLECTOR, St::Idle, None);
                while let Ok(_) = rx.recv() {
                    // a panic inside the cycle (what flush() would re-raise in its caller, and what
                    // kills the background thread) is an observation, not a harness failure
                    let r = catch_unwind(AssertUnwindSafe(|| verif::run_collector_cycle()));
                    if r.is_err() {
                        sh.post(COLLECTOR, St::Panicked, None);
                        break;
                    }
                    sh.post(COLLECTOR, St::Idle, None);
                }
                WID.with(|w| w.set(usize::MAX));
            })
            .unwrap();
        self.collector_tx = Some(tx);
        self.collector_join = Some(h);
        self.shared.settle(COLLECTOR);
    }

    pub fn install(&mut self, cancelable: bool) {
        verif::install(CapReporter(self.reports.clone()), Config::default().cancelable(cancelable));
    }

    pub fn spawn(&mut self, t: usize, prefix: u32, suffix: u32) {
        let (tx, rx) = mpsc::channel::<Vec<String>>();
        let sh = self.shared.clone();
        let tables = self.tables.clone();
        let cap = self.stack_cap;
        sh.add(t);
        let h = std::thread::Builder::new()
            .name(format!("verif-worker-{}", t))
            .spawn(move || {
                WID.with(|w| w.set(t));
                verif::set_local_id(prefix, suffix);
                verif::set_stack_capacity(cap);
                // threads of every age: the scope counter of a fresh thread, of one that has
                // opened 2^32 scopes, and of one about to wrap
                verif::set_next_span_line_epoch(match prefix % 4 {
                    0 => 0,
                    1 => (1usize << 32) - 2,
                    2 => (5usize << 32) + 7,
                    _ => usize::MAX - 1,
                });
                verif::register_sender();
                let ctx = Rc::new(WCtx {
                    id: t,
                    shared: sh.clone(),
                    tables,
                    rx,
                    scoped: RefCell::new(Vec::new()),
                    depth: Cell::new(0),
                    eops: RefCell::new(vec![None, None]),
                    eop_open: RefCell::new(Vec::new()),
                });
                WCTX.with(|c| *c.borrow_mut() = Some(ctx.clone()));
                sh.post(t, St::Idle, None);
                let _ = ctx.serve(false);
                WCTX.with(|c| *c.borrow_mut() = None);
                // the remaining scoped objects (none in well-formed histories) go first
                drop(ctx);
                // thread-local destructors run after this closure returns: Sender::drop parks
                // at its yield points
            })
            .unwrap();
        self.workers.insert(t, Worker { id: t, tx, join: Some(h) });
        self.shared.settle(t);
    }

    /// send a call to an idle / nested worker and wait until it is parked or done
    pub fn call(&mut self, t: usize, toks: Vec<String>) -> (St, Option<String>) {
        self.shared.mark_running(t);
        self.workers.get(&t).unwrap().tx.send(toks).unwrap();
        self.shared.settle(t)
    }

    pub fn release(&mut self, id: usize) -> (St, Option<String>) {
        self.shared.release(id);
        self.shared.settle(id)
    }

    /// thread exit: the worker's loop returns; destructors run and park at DropPush/Abandon
    pub fn exit(&mut self, t: usize) -> (St, Option<String>) {
        self.shared.mark_running(t);
        self.workers.get(&t).unwrap().tx.send(vec!["exit".to_string()]).unwrap();
        self.shared.settle(t)
    }

    /// release the last yield point of an exiting thread and wait until the OS thread is gone
    pub fn release_final(&mut self, t: usize) {
        self.shared.release(t);
        if let Some(w) = self.workers.get_mut(&t) {
            if let Some(j) = w.join.take() {
                let _ = j.join();
            }
        }
        self.shared.post(t, St::Gone, None);
    }

    pub fn cycle_begin(&mut self) -> (St, Option<String>) {
        self.shared.mark_running(COLLECTOR);
        self.collector_tx.as_ref().unwrap().send(1).unwrap();
        let (st, r) = self.shared.settle(COLLECTOR);
        if st == St::Panicked {
            return (st, r);
        }
        assert_eq!(st, St::Parked(Point::DrainBegin), "collector did not park at DrainBegin");
        self.release(COLLECTOR)
    }

    pub fn take_report(&mut self) -> Option<Vec<SpanRecord>> {
        let mut g = self.reports.lock().unwrap();
        if g.is_empty() { None } else { Some(g.remove(0)) }
    }

    /// stop every thread still alive (used when a history is abandoned or complete)
    pub fn shutdown(mut self) {
        verif::set_callback(None);
        // release everything that is parked so that threads can finish
        let ids: Vec<usize> = self.workers.keys().copied().collect();
        for _ in 0..3 {
            for id in ids.iter().chain(std::iter::once(&COLLECTOR)) {
                let mut g = self.shared.m.lock().unwrap();
                if let Some(s) = g.get_mut(id) {
                    s.release = true;
                }
                drop(g);
                self.shared.cv.notify_all();
            }
            std::thread::sleep(std::time::Duration::from_millis(1));
        }
        for (_, w) in self.workers.iter_mut() {
            // nested loops return on "exit" as well
            for _ in 0..8 {
                let _ = w.tx.send(vec!["exit".to_string()]);
            }
        }
        for (_, w) in self.workers.iter_mut() {
            if let Some(j) = w.join.take() {
                let _ = j.join();
            }
        }
        self.collector_tx = None;
        if let Some(j) = self.collector_join.take() {
            let _ = j.join();
        }
        self.tables.adapters.lock().unwrap_or_else(|e| e.into_inner()).clear();
        self.tables.spans.lock().unwrap_or_else(|e| e.into_inner()).clear();
        self.tables.lsets.lock().unwrap_or_else(|e| e.into_inner()).clear();
        verif::reset();
    }
}
