//! System-history stream: generates scheduled histories online (structured, mostly valid
//! programs over the span API interleaved with ring pushes and collector micro-steps),
//! executes them on the real crates through the orchestrator, and logs every action with
//! what the code showed.  `--replay` re-executes logged histories.
use std::collections::BTreeMap;
use std::io::Write;

use fastrace::verif::{self, Point};

use crate::orch::{eop_route, fmt_records, Orch, St, COLLECTOR};
use crate::rng::Rng;

#[derive(Clone, Debug, PartialEq)]
enum TSt {
    Ready,
    Push,
    Exiting,
    Gone,
}

#[derive(Clone, Debug)]
enum NestKind {
    Closure,
    Poll { a: u64, meth: &'static str },
    /// one poll of a persistent enter_on_poll future: begun by `lenter l`, ended by `lexit l`
    Eop { l: u64 },
}

#[derive(Clone, Debug)]
struct Nest {
    kind: NestKind,
    base: usize,
    busy: Vec<u64>,
    local: Option<u64>,
}

#[derive(Clone, Debug)]
struct GThread {
    st: TSt,
    scoped: Vec<(char, u64)>,
    nest: Vec<Nest>,
    cur_busy: Vec<u64>,
    pending_nest: Option<Nest>,
    cur_adapter: Option<u64>,
    /// the pushes still to perform belong to a poll that completed its adapter (or to a drop of
    /// an adapter / root): the window in which guard, span and commit are pushed one by one
    final_pushes: bool,
}

#[derive(Clone, Debug, Default)]
struct SpanInfo {
    inuse: u32,
    out: bool,
    /// for roots: the sampling decision
    root_sampled: Option<bool>,
}

#[derive(Clone, Debug)]
struct AdInfo {
    kind: &'static str,
    polling: bool,
}

#[derive(Clone, Debug, PartialEq)]
enum CollSt {
    Idle,
    Pop,
    Check,
    Process,
}

pub struct Profile {
    pub name: &'static str,
    pub max_threads: usize,
    pub small_rings: bool,
    pub small_caps: bool,
    pub len_lo: usize,
    pub len_hi: usize,
    pub w_collector: u32,
    pub adapters: bool,
    pub cancel: bool,
    pub exits: bool,
    pub force_cancelable: Option<bool>,
}

pub fn profile(name: &str) -> Profile {
    match name {
        "overload" => Profile { name: "overload", max_threads: 2, small_rings: true, small_caps: true, len_lo: 30, len_hi: 90, w_collector: 5, adapters: false, cancel: true, exits: true, force_cancelable: None },
        "adapters" => Profile { name: "adapters", max_threads: 2, small_rings: false, small_caps: false, len_lo: 30, len_hi: 80, w_collector: 6, adapters: true, cancel: true, exits: false, force_cancelable: None },
        "collect" => Profile { name: "collect", max_threads: 1, small_rings: false, small_caps: false, len_lo: 30, len_hi: 90, w_collector: 3, adapters: false, cancel: false, exits: false, force_cancelable: None },
        "local" => Profile { name: "local", max_threads: 1, small_rings: false, small_caps: false, len_lo: 30, len_hi: 100, w_collector: 2, adapters: false, cancel: false, exits: false, force_cancelable: None },
        "default" => Profile { name: "default", max_threads: 3, small_rings: false, small_caps: false, len_lo: 20, len_hi: 80, w_collector: 7, adapters: true, cancel: true, exits: true, force_cancelable: Some(false) },
        "cancelable" => Profile { name: "cancelable", max_threads: 3, small_rings: false, small_caps: false, len_lo: 20, len_hi: 80, w_collector: 7, adapters: true, cancel: true, exits: true, force_cancelable: Some(true) },
        "exit" => Profile { name: "exit", max_threads: 3, small_rings: false, small_caps: false, len_lo: 15, len_hi: 50, w_collector: 10, adapters: false, cancel: false, exits: true, force_cancelable: None },
        _ => Profile { name: "mixed", max_threads: 3, small_rings: false, small_caps: false, len_lo: 20, len_hi: 80, w_collector: 6, adapters: true, cancel: true, exits: true, force_cancelable: None },
    }
}

struct Gen<'a> {
    rng: Rng,
    prof: &'a Profile,
    orch: Orch,
    threads: BTreeMap<usize, GThread>,
    spans: BTreeMap<u64, SpanInfo>,
    lsets: Vec<u64>,
    adapters: BTreeMap<u64, AdInfo>,
    next_handle: u64,
    next_trace: u64,
    next_sym: u64,
    coll: CollSt,
    installed: bool,
    base: std::time::Instant,
    out: &'a mut dyn Write,
    dead: bool,
    focus: Option<u64>,
    mute: bool,
    nactions: usize,
    stats: &'a mut BTreeMap<String, u64>,
    /// name of the enter_on_poll future in (thread, slot)
    eop_names: BTreeMap<(usize, usize), u64>,
    zero_prefix_used: bool,
    reinstalls: u32,
    zero_trace_used: bool,
}

#[derive(Clone, Debug)]
enum Act {
    Install(bool),
    Spawn(usize, u32, u32),
    Call(usize, Vec<String>),
    Push(usize),
    Exit(usize),
    CB,
    CP,
    CC,
    CX,
}

fn s(x: impl ToString) -> String {
    x.to_string()
}

impl<'a> Gen<'a> {
    fn now(&self) -> u128 {
        self.base.elapsed().as_nanos()
    }

    fn log(&mut self, tb: u128, act: &str, obs: &str) {
        let ta = self.now();
        if self.mute {
            return;
        }
        let _ = writeln!(self.out, "A {} {} {} => {}", tb, ta, act, obs);
        self.nactions += 1;
        let k = act.split(' ').next().unwrap_or("").to_string();
        let key = if k == "C" { format!("call:{}", act.split(' ').nth(2).unwrap_or("")) } else { format!("act:{}", k) };
        *self.stats.entry(key).or_insert(0) += 1;
        if obs == "panic" {
            *self.stats.entry("obs:panic".into()).or_insert(0) += 1;
        }
        if obs == "timeout" {
            *self.stats.entry("obs:timeout".into()).or_insert(0) += 1;
        }
    }

    fn fresh(&mut self) -> u64 {
        self.next_handle += 1;
        self.next_handle
    }
    fn sym(&mut self) -> u64 {
        if self.rng.chance(1, 12) {
            return 0;
        }
        self.next_sym += 1;
        self.next_sym
    }
    fn props(&mut self) -> String {
        let n = self.rng.below(3);
        let mut st = format!("{}", n);
        for _ in 0..n {
            let k = self.sym();
            let v = self.sym();
            st.push_str(&format!(" {} {}", k, v));
        }
        st
    }
    fn optprops(&mut self) -> String {
        if self.rng.chance(1, 2) { "-".to_string() } else { self.props() }
    }

    // ------------------------------------------------------------ performing actions
    fn after_call_state(&mut self, t: usize, st: St, reply: Option<String>, expect_nested: bool) -> String {
        // returns the observation to log for the call line
        match st {
            St::Parked(Point::Push) => {
                self.threads.get_mut(&t).unwrap().st = TSt::Push;
                "u".to_string()
            }
            St::Idle | St::Nested => {
                let r = reply.unwrap_or_else(|| "?".to_string());
                self.finish_call(t, &r, expect_nested);
                r
            }
            St::Running => {
                self.dead = true;
                "timeout".to_string()
            }
            other => {
                self.dead = true;
                format!("unexpected-state-{:?}", other)
            }
        }
    }

    /// bookkeeping when the call of thread t has completed (or entered its closure / poll)
    fn finish_call(&mut self, t: usize, reply: &str, _expect_nested: bool) {
        let th = self.threads.get_mut(&t).unwrap();
        th.st = TSt::Ready;
        if reply == "panic" {
            self.dead = true;
            return;
        }
        if let Some(a) = th.cur_adapter.take() {
            if let Some(i) = self.adapters.get_mut(&a) {
                i.polling = false;
            }
        }
        if let Some(n) = th.pending_nest.take() {
            // the call carried a closure / poll: entered iff the reply says so
            let entered = match n.kind {
                NestKind::Closure => reply == "b1",
                NestKind::Poll { .. } => reply == "u",
                NestKind::Eop { .. } => reply == "u",
            };
            if entered {
                th.nest.push(n);
                th.cur_busy.clear();
                return;
            } else {
                for h in n.busy {
                    if let Some(si) = self.spans.get_mut(&h) {
                        si.inuse = si.inuse.saturating_sub(1);
                        si.out = false;
                    }
                }
            }
        }
        let busy: Vec<u64> = th.cur_busy.drain(..).collect();
        for h in busy {
            if let Some(si) = self.spans.get_mut(&h) {
                si.inuse = si.inuse.saturating_sub(1);
                si.out = false;
            }
        }
    }

    fn perform(&mut self, a: Act) {
        // a short pause between two actions: time that passes between calls must show in the
        // recorded times (a span closed at the wrong call is then off by more than the slack)
        let t0 = std::time::Instant::now();
        while t0.elapsed() < std::time::Duration::from_micros(25) {
            std::hint::spin_loop();
        }
        let tb = self.now();
        match a {
            Act::Install(c) => {
                self.orch.install(c);
                if self.installed {
                    self.reinstalls += 1;
                }
                self.installed = true;
                self.log(tb, &format!("I {}", c as u8), "-");
            }
            Act::Spawn(t, p, sfx) => {
                if p == 0 {
                    self.zero_prefix_used = true;
                }
                self.orch.spawn(t, p, sfx);
                self.threads.insert(t, GThread { st: TSt::Ready, scoped: vec![], nest: vec![], cur_busy: vec![], pending_nest: None, cur_adapter: None, final_pushes: false });
                self.log(tb, &format!("S {} {} {}", t, p, sfx), "-");
            }
            Act::Call(t, toks) => {
                let line = format!("C {} {}", t, toks.join(" "));
                let (st, reply) = self.orch.call(t, toks);
                let obs = self.after_call_state(t, st, reply, false);
                self.log(tb, &line, &obs);
            }
            Act::Push(t) => {
                let exiting = self.threads[&t].st == TSt::Exiting;
                if exiting {
                    // which yield point is the thread parked at?
                    let (st, _) = self.orch.shared.settle(t);
                    if st == St::Parked(Point::Abandon) {
                        self.orch.release_final(t);
                        self.threads.get_mut(&t).unwrap().st = TSt::Gone;
                        self.log(tb, &format!("P {}", t), "-");
                        return;
                    }
                    let (st2, _) = self.orch.release(t);
                    match st2 {
                        St::Parked(Point::DropPush) | St::Parked(Point::Abandon) => {}
                        _ => self.dead = true,
                    }
                    self.log(tb, &format!("P {}", t), "-");
                    return;
                }
                let (st, reply) = self.orch.release(t);
                let obs = match st {
                    St::Parked(Point::Push) => "-".to_string(),
                    St::Idle | St::Nested => {
                        let r = reply.unwrap_or_else(|| "?".to_string());
                        self.finish_call(t, &r, false);
                        if r == "u" { "-".to_string() } else { r }
                    }
                    St::Running => {
                        self.dead = true;
                        "timeout".to_string()
                    }
                    other => {
                        self.dead = true;
                        format!("unexpected-state-{:?}", other)
                    }
                };
                self.log(tb, &format!("P {}", t), &obs);
            }
            Act::Exit(t) => {
                let (st, _) = self.orch.exit(t);
                match st {
                    St::Parked(Point::DropPush) | St::Parked(Point::Abandon) => {
                        self.threads.get_mut(&t).unwrap().st = TSt::Exiting;
                    }
                    _ => self.dead = true,
                }
                self.log(tb, &format!("X {}", t), "-");
            }
            Act::CB => {
                let (st, _) = self.orch.cycle_begin();
                let obs = if st == St::Panicked { "panic" } else { "-" };
                self.set_coll(st);
                self.log(tb, "CB", obs);
            }
            Act::CP => {
                let (st, _) = self.orch.release(COLLECTOR);
                let obs = if st == St::Panicked { "panic" } else { "-" };
                self.set_coll(st);
                self.log(tb, "CP", obs);
            }
            Act::CC => {
                let (st, _) = self.orch.release(COLLECTOR);
                let obs = if st == St::Panicked { "panic" } else { "-" };
                self.set_coll(st);
                self.log(tb, "CC", obs);
            }
            Act::CX => {
                let (st, _) = self.orch.release(COLLECTOR);
                if st == St::Panicked {
                    self.set_coll(st);
                    self.log(tb, "CX", "panic");
                    return;
                }
                self.set_coll(st);
                let rep = self.orch.take_report();
                let stats = verif::collector_stats();
                let mut obs = match rep {
                    Some(r) => format!("rep {}", fmt_records(&self.orch.tables.interner, &r)),
                    None => "rep-missing".to_string(),
                };
                obs.push_str(&format!(" st {}", stats.active.len()));
                for (c, n, d) in &stats.active {
                    obs.push_str(&format!(" {} {} {}", c, n, d));
                }
                obs.push_str(&format!(" {}", stats.receivers));
                self.log(tb, "CX", &obs);
            }
        }
    }

    fn set_coll(&mut self, st: St) {
        self.coll = match st {
            St::Parked(Point::Pop) => CollSt::Pop,
            St::Parked(Point::Check) => CollSt::Check,
            St::Parked(Point::Process) => CollSt::Process,
            St::Idle => CollSt::Idle,
            _ => {
                self.dead = true;
                CollSt::Idle
            }
        };
    }

    // ------------------------------------------------------------ choosing the next action
    fn free_spans(&self) -> Vec<u64> {
        self.spans.iter().filter(|(_, i)| i.inuse == 0 && !i.out).map(|(h, _)| *h).collect()
    }
    fn all_spans(&self) -> Vec<u64> {
        self.spans.iter().filter(|(_, i)| !i.out).map(|(h, _)| *h).collect()
    }

    /// spans are picked with a bias towards one focus span per history, so that the same span
    /// is attached to, parented under and made local parent repeatedly
    fn pick_span(&mut self, from: &[u64]) -> u64 {
        if let Some(f) = self.focus {
            if from.contains(&f) && self.rng.chance(1, 2) {
                return f;
            }
        }
        let h = *self.rng.pick(from);
        if self.focus.map(|f| !self.spans.contains_key(&f)).unwrap_or(true) || self.rng.chance(1, 12) {
            self.focus = Some(h);
        }
        h
    }

    fn mark_busy(&mut self, t: usize, hs: &[u64]) {
        for h in hs {
            if let Some(si) = self.spans.get_mut(h) {
                si.inuse += 1;
            }
        }
        self.threads.get_mut(&t).unwrap().cur_busy.extend_from_slice(hs);
    }

    fn candidates_for_thread(&mut self, t: usize, cands: &mut Vec<(u32, Act)>) {
        let th = self.threads[&t].clone();
        match th.st {
            TSt::Gone => return,
            TSt::Push | TSt::Exiting => {
                // between the pushes of a completing poll the collector gets more chances
                let w = if self.coll == CollSt::Check && self.prof.name == "exit" { 40 } else if th.final_pushes { 5 } else { 14 };
                cands.push((w, Act::Push(t)));
                return;
            }
            TSt::Ready => {}
        }
        let base = th.nest.last().map(|n| n.base).unwrap_or(0);
        let top = if th.scoped.len() > base { th.scoped.last().cloned() } else { None };
        let all = self.all_spans();
        let free = self.free_spans();
        let c = |toks: Vec<String>| Act::Call(t, toks);
        let nspans = all.len();
        // nested frame endings
        if let Some(n) = th.nest.last() {
            if th.scoped.len() > n.base && matches!(n.kind, NestKind::Closure) {
                // the closure returns while scopes / local spans it opened are still alive (they
                // were moved out of it): legal, and they are still released in reverse order
                cands.push((1, c(vec![s("cret")])));
            }
            if th.scoped.len() == n.base {
                match &n.kind {
                    NestKind::Closure => cands.push((8, c(vec![s("cret")]))),
                    NestKind::Poll { a, meth } => {
                        let res = match *meth {
                            "next" => *self.rng.pick(&["pending", "item", "lastitem", "final"]),
                            "start" => *self.rng.pick(&["final", "final", "err"]),
                            "fut" => *self.rng.pick(&["pending", "final"]),
                            // sink methods: the inner sink may fail (Ready(Err)); only a completed
                            // close (Ok or Err) ends the span
                            _ => *self.rng.pick(&["pending", "final", "final", "err"]),
                        };
                        cands.push((8, c(vec![s("polle"), s(a), s(meth), s(res)])));
                    }
                    NestKind::Eop { l } => cands.push((9, c(vec![s("lexit"), s(l)]))),
                }
            }
        }
        if nspans < 10 {
            let h = self.next_handle + 1;
            let name = self.next_sym + 1;
            let tr = self.next_trace + 1;
            let sampled = if self.rng.chance(1, 3) { 0 } else { 1 };
            let remote: u64 = match self.rng.below(4) { 0 => 0, 1 => self.rng.next(), 2 => 1u64 << 63, _ => self.rng.below(1000) as u64 };
            // trace id 0 is an ordinary id for the library; at most one root per history gets it
            // (roots sharing a trace id would share everything keyed by it in the oracles)
            let trace: u128 = match self.rng.below(if self.zero_trace_used { 5 } else { 6 }) { 0 => (1u128 << 127) | tr as u128, 1 => (tr as u128) << 64, 5 => 0, _ => 0x1000 + tr as u128 };
            cands.push((6, c(vec![s("root"), s(h), s(name), format!("{:x}", trace), format!("{:x}", remote), s(sampled)])));
            if self.rng.chance(1, 6) {
                cands.push((1, c(vec![s("noop"), s(h)])));
            }
            if !all.is_empty() {
                let p = self.pick_span(&all);
                cands.push((6, c(vec![s("child"), s(h), s(name), s(p)])));
                let k = self.rng.below(4);
                let mut toks = vec![s("childn"), s(h), s(name), s(k)];
                let unsampled: Vec<u64> = all.iter().copied().filter(|x| self.spans[x].root_sampled == Some(false)).collect();
                let sampled: Vec<u64> = all.iter().copied().filter(|x| self.spans[x].root_sampled == Some(true)).collect();
                if k >= 2 && !unsampled.is_empty() && !sampled.is_empty() && self.rng.chance(1, 2) {
                    // parents of both kinds, the unsampled one first
                    toks.push(s(*self.rng.pick(&unsampled)));
                    toks.push(s(*self.rng.pick(&sampled)));
                    for _ in 2..k {
                        toks.push(s(self.pick_span(&all)));
                    }
                } else {
                    for _ in 0..k {
                        toks.push(s(self.pick_span(&all)));
                    }
                }
                cands.push((3, c(toks)));
            } else {
                cands.push((1, c(vec![s("childn"), s(h), s(name), s(0)])));
            }
            cands.push((3, c(vec![s("childl"), s(h), s(name)])));
        }
        if th.scoped.len() < 7 {
            if !all.is_empty() {
                let p = self.pick_span(&all);
                cands.push((6, c(vec![s("setl"), s(self.next_handle + 1), s(p)])));
            }
            {
                let l = self.next_handle + 1;
                match eop_route(l) {
                    None => cands.push((8, c(vec![s("lenter"), s(l), s(self.next_sym + 1)]))),
                    Some(slot) => {
                        // the slot's future is being polled right now: it cannot be polled again
                        let open = th.nest.iter().any(|n| matches!(n.kind, NestKind::Eop { l: l2 } if eop_route(l2) == Some(slot)));
                        if !open && th.nest.len() < 3 {
                            let name = self.eop_names.get(&(t, slot)).copied().unwrap_or(self.next_sym + 1);
                            cands.push((8, c(vec![s("lenter"), s(l), s(name)])));
                        }
                    }
                }
            }
            cands.push((if self.prof.name == "collect" { 9 } else { 2 }, c(vec![s("lcstart"), s(self.next_handle + 1)])));
        }
        if let Some((k, id)) = top {
            match k {
                'g' => cands.push((7, c(vec![s("dropg"), s(id)]))),
                'l' => cands.push((9, c(vec![s("lexit"), s(id)]))),
                'c' => {
                    cands.push((4, c(vec![s("lccollect"), s(id), s(self.next_handle + 1)])));
                    cands.push((1, c(vec![s("lcdrop"), s(id)])));
                }
                _ => {}
            }
        }
        // a bottom-most local collector collected while local spans opened under it are still open
        if th.nest.is_empty() {
            let mut i = th.scoped.len();
            while i > 0 && th.scoped[i - 1].0 == 'l' {
                i -= 1;
            }
            if i >= 1 && i < th.scoped.len() && th.scoped[i - 1].0 == 'c' && th.scoped[..i - 1].iter().all(|(k, _)| *k == 'l') {
                cands.push((if self.prof.name == "collect" { 12 } else { 3 }, c(vec![s("lccollect"), s(th.scoped[i - 1].1), s(self.next_handle + 1)])));
            }
        }
        let locals_out: Vec<u64> = th.nest.iter().filter_map(|n| n.local).collect();
        let locals: Vec<u64> = th.scoped.iter().filter(|(k, id)| *k == 'l' && !locals_out.contains(id) && eop_route(*id).is_none()).map(|(_, id)| *id).collect();
        if !locals.is_empty() && th.nest.len() < 2 {
            let l = *self.rng.pick(&locals);
            let ps = self.props();
            let mut toks = vec![s("lwith"), s(l)];
            toks.extend(ps.split(' ').map(s));
            cands.push((3, c(toks)));
        }
        if th.nest.len() < 2 {
            let ps = self.props();
            let mut toks = vec![s("laddp")];
            toks.extend(ps.split(' ').map(s));
            cands.push((3, c(toks)));
        }
        {
            let name = self.next_sym + 1;
            let ps = self.optprops();
            let mut toks = vec![s("laddev"), s(name)];
            toks.extend(ps.split(' ').map(s));
            cands.push((4, c(toks)));
        }
        if !self.lsets.is_empty() {
            let ls = *self.rng.pick(&self.lsets);
            if !all.is_empty() {
                let p = self.pick_span(&all);
                cands.push((if self.prof.name == "collect" { 8 } else { 3 }, c(vec![s("pushc"), s(p), s(ls)])));
                // the caller hands over its only handle to the set (which is not used again)
                cands.push((if self.prof.name == "collect" { 4 } else { 1 }, c(vec![s("pushc"), s(p), s(ls), s("last")])));
            }
            cands.push((if self.prof.name == "collect" { 4 } else { 1 }, c(vec![s("torec"), s(ls), format!("{:x}", 0x77u128 + self.rng.below(5) as u128), format!("{:x}", (self.rng.below(3) as u64).wrapping_mul(0x8000_0000_0000_0001))])));
        }
        if !all.is_empty() {
            let p = self.pick_span(&all);
            if th.nest.len() < 2 {
                let ps = self.props();
                let mut toks = vec![s("saddp"), s(p)];
                toks.extend(ps.split(' ').map(s));
                cands.push((4, c(toks)));
            }
            let name = self.next_sym + 1;
            let ps = self.optprops();
            let mut toks = vec![s("saddev"), s(p), s(name)];
            toks.extend(ps.split(' ').map(s));
            cands.push((4, c(toks)));
            cands.push((1, c(vec![s("elapsed"), s(p)])));
            cands.push((2, c(vec![s("froms"), s(p)])));
            if self.prof.cancel {
                cands.push((2, c(vec![s("cancel"), s(p)])));
            }
        }
        // the context seen through the local parent matters most right under a guard
        cands.push((if matches!(top, Some(('g', _))) { 7 } else { 2 }, c(vec![s("curl")])));
        if !free.is_empty() {
            let p = *self.rng.pick(&free);
            cands.push((7, c(vec![s("drops"), s(p)])));
            if th.nest.len() < 2 {
                let ps = self.props();
                let mut toks = vec![s("swith"), s(p)];
                toks.extend(ps.split(' ').map(s));
                cands.push((2, c(toks)));
            }
            if self.prof.adapters && self.adapters.len() < 3 {
                let kind = *self.rng.pick(&["fut", "fut", "stream", "sink"]);
                cands.push((3, c(vec![s("adnew"), s(self.next_handle + 1), s(p), s(kind)])));
            }
        }
        if th.nest.len() < 2 && th.scoped.len() < 7 {
            let idle: Vec<(u64, &'static str)> = self.adapters.iter().filter(|(_, i)| !i.polling).map(|(a, i)| (*a, i.kind)).collect();
            if !idle.is_empty() {
                let (a, kind) = *self.rng.pick(&idle);
                let meth = match kind {
                    "stream" => "next",
                    "sink" => *self.rng.pick(&["ready", "start", "flush", "close", "close"]),
                    _ => "fut",
                };
                cands.push((6, c(vec![s("pollb"), s(a), s(self.next_handle + 1), s(meth)])));
                cands.push((1, c(vec![s("addrop"), s(a)])));
            }
        }
        if self.prof.exits && th.nest.is_empty() && th.scoped.is_empty() && self.threads.values().filter(|x| x.st != TSt::Gone && x.st != TSt::Exiting).count() > 1 {
            cands.push((if self.coll == CollSt::Check && self.prof.name == "exit" { 14 } else { 2 }, Act::Exit(t)));
        }
    }

    /// bookkeeping before a call is issued (handles, busy spans, nest frames)
    fn pre_call(&mut self, t: usize, toks: &[String]) {
        let pu = |x: &String| x.parse::<u64>().unwrap_or(0);
        let head = toks[0].as_str();
        if let Some(th) = self.threads.get_mut(&t) {
            th.final_pushes = head == "addrop";
        }
        match head {
            "root" | "child" | "childn" | "childl" | "noop" => {
                let h = pu(&toks[1]);
                self.next_handle = self.next_handle.max(h);
                if head != "noop" {
                    self.next_sym = self.next_sym.max(pu(&toks[2]));
                }
                if head == "root" {
                    self.next_trace += 1;
                    if toks[3] == "0" {
                        self.zero_trace_used = true;
                    }
                }
                self.spans.insert(h, SpanInfo { inuse: 0, out: true, root_sampled: if head == "root" { Some(toks[5] == "1") } else { None } });
                if head == "childn" {
                    // a span with both sampled and unsampled parents becomes the focus: it is then
                    // preferentially made local parent, asked for its context, given children
                    let k = pu(&toks[3]) as usize;
                    let kinds: Vec<bool> = (0..k).filter_map(|i| self.spans.get(&pu(&toks[4 + i])).and_then(|x| x.root_sampled)).collect();
                    if kinds.contains(&true) && kinds.contains(&false) {
                        self.focus = Some(h);
                    }
                }
                let mut busy = vec![h];
                if head == "child" {
                    busy.push(pu(&toks[3]));
                }
                if head == "childn" {
                    let k = pu(&toks[3]) as usize;
                    for i in 0..k {
                        busy.push(pu(&toks[4 + i]));
                    }
                }
                self.mark_busy(t, &busy);
            }
            "setl" => {
                let g = pu(&toks[1]);
                self.next_handle = self.next_handle.max(g);
                self.threads.get_mut(&t).unwrap().scoped.push(('g', g));
                self.mark_busy(t, &[pu(&toks[2])]);
            }
            "lenter" => {
                let l = pu(&toks[1]);
                self.next_handle = self.next_handle.max(l);
                self.next_sym = self.next_sym.max(pu(&toks[2]));
                let th = self.threads.get_mut(&t).unwrap();
                th.scoped.push(('l', l));
                if let Some(slot) = eop_route(l) {
                    self.eop_names.insert((t, slot), pu(&toks[2]));
                    th.pending_nest = Some(Nest { kind: NestKind::Eop { l }, base: th.scoped.len(), busy: vec![], local: None });
                }
            }
            "lcstart" => {
                let l = pu(&toks[1]);
                self.next_handle = self.next_handle.max(l);
                self.threads.get_mut(&t).unwrap().scoped.push(('c', l));
            }
            "dropg" | "lexit" | "lcdrop" => {
                let th = self.threads.get_mut(&t).unwrap();
                th.scoped.pop();
                if head == "lexit" {
                    let l = pu(&toks[1]);
                    if matches!(th.nest.last().map(|n| &n.kind), Some(NestKind::Eop { l: l2 }) if *l2 == l) {
                        th.nest.pop();
                    }
                }
            }
            "lccollect" => {
                let id = pu(&toks[1]);
                let sc = &mut self.threads.get_mut(&t).unwrap().scoped;
                if let Some(idx) = sc.iter().rposition(|(k, i)| *k == 'c' && *i == id) {
                    sc.remove(idx);
                }
                let ls = pu(&toks[2]);
                self.next_handle = self.next_handle.max(ls);
                self.lsets.push(ls);
            }
            "laddev" => {
                self.next_sym = self.next_sym.max(pu(&toks[1]));
            }
            "lwith" | "laddp" => {
                let th = self.threads.get_mut(&t).unwrap();
                th.pending_nest = Some(Nest { kind: NestKind::Closure, base: th.scoped.len(), busy: vec![], local: if head == "lwith" { Some(pu(&toks[1])) } else { None } });
            }
            "swith" | "saddp" => {
                let h = pu(&toks[1]);
                if let Some(si) = self.spans.get_mut(&h) {
                    si.inuse += 1;
                    if head == "swith" {
                        si.out = true;
                    }
                }
                let th = self.threads.get_mut(&t).unwrap();
                th.pending_nest = Some(Nest { kind: NestKind::Closure, base: th.scoped.len(), busy: vec![h], local: None });
            }
            "saddev" => {
                self.next_sym = self.next_sym.max(pu(&toks[2]));
                self.mark_busy(t, &[pu(&toks[1])]);
            }
            "pushc" | "cancel" | "elapsed" | "froms" => {
                self.mark_busy(t, &[pu(&toks[1])]);
                if toks[0] == "pushc" && toks.len() > 3 {
                    let ls = pu(&toks[2]);
                    self.lsets.retain(|x| *x != ls);
                }
            }
            "drops" => {
                self.spans.remove(&pu(&toks[1]));
            }
            "adnew" => {
                let a = pu(&toks[1]);
                self.next_handle = self.next_handle.max(a);
                self.spans.remove(&pu(&toks[2]));
                let kind = match toks[3].as_str() { "stream" => "stream", "sink" => "sink", _ => "fut" };
                self.adapters.insert(a, AdInfo { kind, polling: false });
            }
            "pollb" => {
                let a = pu(&toks[1]);
                let g = pu(&toks[2]);
                self.next_handle = self.next_handle.max(g);
                let meth: &'static str = match toks[3].as_str() { "next" => "next", "ready" => "ready", "start" => "start", "flush" => "flush", "close" => "close", _ => "fut" };
                self.adapters.get_mut(&a).unwrap().polling = true;
                let th = self.threads.get_mut(&t).unwrap();
                th.scoped.push(('p', g));
                th.pending_nest = Some(Nest { kind: NestKind::Poll { a, meth }, base: th.scoped.len(), busy: vec![], local: None });
            }
            "polle" => {
                let a = pu(&toks[1]);
                let th = self.threads.get_mut(&t).unwrap();
                th.final_pushes = toks.last().map(|x| x != "pending").unwrap_or(false);
                th.cur_adapter = Some(a);
                th.nest.pop();
                th.scoped.pop();
            }
            "cret" => {
                let th = self.threads.get_mut(&t).unwrap();
                if let Some(n) = th.nest.pop() {
                    th.cur_busy.extend(n.busy);
                }
            }
            "addrop" => {
                self.adapters.remove(&pu(&toks[1]));
            }
            _ => {}
        }
    }

    fn collector_candidates(&mut self, cands: &mut Vec<(u32, Act)>) {
        if !self.installed {
            return;
        }
        let mut w = self.prof.w_collector;
        if self.threads.values().any(|x| x.final_pushes && x.st == TSt::Push) {
            w *= 3;
        }
        match self.coll {
            CollSt::Idle => cands.push((w / 2 + 1, Act::CB)),
            CollSt::Pop => cands.push((w * 2, Act::CP)),
            // the window between an empty pop and the abandoned-check is where a thread's last
            // pushes and its exit must be placed: keep it open longer in the exit profile
            CollSt::Check => cands.push((if self.prof.name == "exit" { w / 3 + 1 } else { w * 2 }, Act::CC)),
            CollSt::Process => cands.push((w * 2, Act::CX)),
        }
    }

    fn step(&mut self) {
        let mut cands: Vec<(u32, Act)> = vec![];
        if !self.installed {
            if self.rng.chance(4, 5) || self.nactions > 6 {
                let c = match self.prof.force_cancelable { Some(b) => b, None => self.rng.chance(1, 2) };
                cands.push((30, Act::Install(c)));
            }
        }
        if self.installed && self.coll == CollSt::Idle && self.reinstalls < 2 && self.nactions > 4 {
            // a reporter installed again in the middle of everything (set_reporter replaces the
            // collector: traces in progress are unknown to the new one)
            let c = match self.prof.force_cancelable { Some(b) => b, None => self.rng.chance(1, 2) };
            cands.push((1, Act::Install(c)));
        }
        let in_drain = self.coll == CollSt::Pop || self.coll == CollSt::Check;
        let alive = self.threads.values().filter(|x| x.st != TSt::Gone).count();
        if !in_drain && self.threads.len() < self.prof.max_threads + 2 && alive < self.prof.max_threads {
            let t = self.threads.len();
            // at most one thread per history gets the id prefix 0 (the K3 boundary): two threads with
            // the same prefix would issue the same span ids, which real threads (random prefixes)
            // do only with probability 2^-32 and which the model's id theorems exclude
            let zero = !self.zero_prefix_used && self.rng.chance(1, 25);
            // some threads have issued almost 2^32 span ids already (the per-thread counter wraps)
            let old_thread = self.rng.chance(1, 8);
            let (p, sfx) = if zero { (0u32, u32::MAX - 1 - self.rng.below(3) as u32) } else { (t as u32 + 1, if old_thread { u32::MAX - 1 - self.rng.below(4) as u32 } else { 0 }) };
            cands.push((if alive == 0 { 50 } else { 2 }, Act::Spawn(t, p, sfx)));
        }
        let tids: Vec<usize> = self.threads.keys().copied().collect();
        for t in tids {
            self.candidates_for_thread(t, &mut cands);
        }
        self.collector_candidates(&mut cands);
        if cands.is_empty() {
            self.dead = true;
            return;
        }
        let ws: Vec<u32> = cands.iter().map(|(w, _)| *w).collect();
        let i = self.rng.weighted(&ws);
        let a = cands[i].1.clone();
        if let Act::Call(t, toks) = &a {
            self.pre_call(*t, toks);
        }
        self.perform(a);
    }

    // ------------------------------------------------------------ winding down
    fn run_cycle(&mut self) {
        if !self.installed || self.dead {
            return;
        }
        let mut guard = 0;
        loop {
            guard += 1;
            if guard > 100_000 || self.dead {
                return;
            }
            match self.coll {
                CollSt::Idle => {
                    if guard > 1 {
                        return;
                    }
                    self.perform(Act::CB)
                }
                CollSt::Pop => self.perform(Act::CP),
                CollSt::Check => self.perform(Act::CC),
                CollSt::Process => {
                    self.perform(Act::CX);
                    return;
                }
            }
        }
    }

    fn do_call(&mut self, t: usize, toks: Vec<String>) {
        self.pre_call(t, &toks);
        self.perform(Act::Call(t, toks));
        let mut guard = 0;
        while !self.dead && self.threads[&t].st == TSt::Push && guard < 100_000 {
            self.perform(Act::Push(t));
            guard += 1;
        }
    }

    /// profiles with adapters: a scripted opening in which the completing call of an adapter that
    /// owns its trace's root has recorded a local span, and a whole collector cycle runs after the
    /// FIRST push of that call (between what the guard submits and the span's own submit and
    /// commit); the history continues at random
    fn prelude_final_poll(&mut self) {
        let c = match self.prof.force_cancelable { Some(b) => b, None => self.rng.chance(1, 2) };
        self.perform(Act::Install(c));
        self.perform(Act::Spawn(0, 1, 0));
        let plain = |g: &mut Self| loop {
            let h = g.fresh();
            if eop_route(h).is_none() {
                return h;
            }
        };
        let root = plain(self);
        let name = self.next_sym + 1;
        self.do_call(0, vec![s("root"), s(root), s(name), format!("{:x}", 0x1000 + self.next_trace as u128 + 1), s(7), s(1)]);
        if self.rng.chance(1, 2) {
            self.run_cycle();
        }
        let a = plain(self);
        let kind = *self.rng.pick(&["fut", "stream", "sink"]);
        self.do_call(0, vec![s("adnew"), s(a), s(root), s(kind)]);
        let g = plain(self);
        let meth = match kind { "stream" => "next", "sink" => "close", _ => "fut" };
        self.do_call(0, vec![s("pollb"), s(a), s(g), s(meth)]);
        let l = plain(self);
        let nl = self.next_sym + 1;
        self.do_call(0, vec![s("lenter"), s(l), s(nl)]);
        self.do_call(0, vec![s("lexit"), s(l)]);
        if self.dead {
            return;
        }
        // the completing call: its pushes are placed by hand
        let toks = vec![s("polle"), s(a), s(meth), s("final")];
        self.pre_call(0, &toks);
        self.perform(Act::Call(0, toks));
        if !self.dead && self.threads[&0].st == TSt::Push {
            self.perform(Act::Push(0));
        }
        self.run_cycle();
        let mut guard = 0;
        while !self.dead && self.threads[&0].st == TSt::Push && guard < 1000 {
            self.perform(Act::Push(0));
            guard += 1;
        }
        self.run_cycle();
    }

    /// `collect` profile: a scripted opening in which a local collector is collected while a
    /// local span opened under it is still open -- with a finished sibling recorded before or
    /// after it -- and the set is then pushed / converted; the history continues at random
    fn prelude_collect_open(&mut self) {
        let c = match self.prof.force_cancelable { Some(b) => b, None => self.rng.chance(1, 2) };
        self.perform(Act::Install(c));
        self.perform(Act::Spawn(0, 1, 0));
        let mut plain = |g: &mut Self| loop {
            let h = g.fresh();
            if eop_route(h).is_none() {
                return h;
            }
        };
        let root = plain(self);
        let name = self.next_sym + 1;
        self.do_call(0, vec![s("root"), s(root), s(name), format!("{:x}", 0x1000 + self.next_trace as u128 + 1), s(7), s(1)]);
        let lc = plain(self);
        self.do_call(0, vec![s("lcstart"), s(lc)]);
        let (a, b) = (plain(self), plain(self));
        let (na, nb) = (self.next_sym + 1, self.next_sym + 2);
        if self.rng.chance(1, 2) {
            // a stays open, its child b is finished last
            self.do_call(0, vec![s("lenter"), s(a), s(na)]);
            self.do_call(0, vec![s("lenter"), s(b), s(nb)]);
            self.do_call(0, vec![s("lexit"), s(b)]);
        } else {
            // b is finished first, then a is opened and stays open
            self.do_call(0, vec![s("lenter"), s(b), s(nb)]);
            self.do_call(0, vec![s("lexit"), s(b)]);
            self.do_call(0, vec![s("lenter"), s(a), s(na)]);
        }
        if self.dead {
            return;
        }
        // some time passes before the set is collected
        for _ in 0..self.rng.below(3) {
            self.do_call(0, vec![s("curl")]);
        }
        let ls = plain(self);
        self.do_call(0, vec![s("lccollect"), s(lc), s(ls)]);
        self.do_call(0, vec![s("lexit"), s(a)]);
        if self.rng.chance(1, 2) {
            if self.rng.chance(1, 2) {
                self.do_call(0, vec![s("pushc"), s(root), s(ls)]);
            } else {
                self.do_call(0, vec![s("pushc"), s(root), s(ls), s("last")]);
            }
        } else {
            self.do_call(0, vec![s("torec"), s(ls), s("77"), s("5")]);
        }
    }

    fn wind_down(&mut self) {
        // finish the cycle in flight, if any
        if self.coll != CollSt::Idle {
            self.run_cycle_rest();
        }
        let tids: Vec<usize> = self.threads.keys().copied().collect();
        for t in tids.iter().copied() {
            let mut guard = 0;
            loop {
                guard += 1;
                if self.dead || guard > 1000 {
                    break;
                }
                let th = self.threads[&t].clone();
                match th.st {
                    TSt::Gone => break,
                    TSt::Push | TSt::Exiting => {
                        self.perform(Act::Push(t));
                        continue;
                    }
                    TSt::Ready => {}
                }
                let base = th.nest.last().map(|n| n.base).unwrap_or(0);
                if th.scoped.len() > base {
                    let (k, id) = *th.scoped.last().unwrap();
                    let toks = match k {
                        'g' => vec![s("dropg"), s(id)],
                        'l' => vec![s("lexit"), s(id)],
                        _ => vec![s("lcdrop"), s(id)],
                    };
                    self.do_call(t, toks);
                } else if let Some(n) = th.nest.last() {
                    let toks = match &n.kind {
                        NestKind::Closure => vec![s("cret")],
                        NestKind::Poll { a, meth } => vec![s("polle"), s(a), s(meth), s("final")],
                        NestKind::Eop { l } => vec![s("lexit"), s(l)],
                    };
                    self.do_call(t, toks);
                } else {
                    break;
                }
            }
        }
        if self.dead {
            return;
        }
        // somebody alive to release the thread-safe objects
        let mut alive: Vec<usize> = self.threads.iter().filter(|(_, x)| x.st == TSt::Ready).map(|(t, _)| *t).collect();
        if alive.is_empty() {
            let t = self.threads.len();
            self.perform(Act::Spawn(t, t as u32 + 1, 0));
            alive.push(t);
        }
        let t0 = alive[0];
        let ads: Vec<u64> = self.adapters.keys().copied().collect();
        for a in ads {
            if self.dead { return; }
            self.do_call(t0, vec![s("addrop"), s(a)]);
        }
        let mut sp: Vec<u64> = self.spans.keys().copied().collect();
        // children first or roots first, at random
        if self.rng.chance(1, 2) {
            sp.reverse();
        }
        for h in sp {
            if self.dead { return; }
            let t = *self.rng.pick(&alive);
            self.do_call(t, vec![s("drops"), s(h)]);
        }
        if self.prof.exits && self.rng.chance(1, 2) {
            for t in alive.iter().copied() {
                if self.dead { return; }
                self.perform(Act::Exit(t));
                let mut guard = 0;
                while !self.dead && self.threads[&t].st == TSt::Exiting && guard < 100_000 {
                    self.perform(Act::Push(t));
                    guard += 1;
                }
            }
        }
        if !self.installed {
            return;
        }
        self.run_cycle();
        self.run_cycle();
    }

    fn run_cycle_rest(&mut self) {
        let mut guard = 0;
        while self.coll != CollSt::Idle && !self.dead && guard < 100_000 {
            guard += 1;
            match self.coll {
                CollSt::Pop => self.perform(Act::CP),
                CollSt::Check => self.perform(Act::CC),
                CollSt::Process => self.perform(Act::CX),
                CollSt::Idle => {}
            }
        }
    }
}

/// a monotonic instant and the wall-clock time (unix ns) of the same moment: read until the two
/// wall-clock readings around the instant are less than 1 ms apart (the thread may be
/// descheduled between two statements on a loaded machine)
fn clock_anchor() -> (std::time::Instant, u128) {
    let unix = || std::time::SystemTime::now().duration_since(std::time::UNIX_EPOCH).map(|d| d.as_nanos()).unwrap_or(0);
    let mut best = (std::time::Instant::now(), unix());
    for _ in 0..50 {
        let w0 = unix();
        let base = std::time::Instant::now();
        let w1 = unix();
        best = (base, w0);
        if w1.saturating_sub(w0) < 1_000_000 {
            break;
        }
    }
    best
}

fn pick_caps(rng: &mut Rng, prof: &Profile) -> (usize, usize, usize) {
    let ring = if prof.small_rings || rng.chance(1, 6) { *rng.pick(&[1usize, 2, 2, 3, 4, 6]) } else { 10240 };
    let stack = if prof.small_caps && rng.chance(1, 3) { *rng.pick(&[1usize, 2, 3]) } else { 4096 };
    let queue = if prof.small_caps && rng.chance(1, 2) { *rng.pick(&[1usize, 2, 3, 4]) } else { 10240 };
    (ring, stack, queue)
}

pub fn generate(seed: u64, first: usize, n: usize, prof_name: &str, out: &mut dyn Write) {
    let prof = profile(prof_name);
    let dbg = cfg!(debug_assertions);
    let mut stats: BTreeMap<String, u64> = BTreeMap::new();
    for k in first..n {
        let hseed = seed.wrapping_mul(1_000_003).wrapping_add(k as u64);
        let mut rng = Rng::new(hseed);
        let (ring, stack, queue) = pick_caps(&mut rng, &prof);
        let _ = writeln!(out, "H {}-{}-{} {} {} {} {}", prof.name, seed, k, dbg as u8, ring, stack, queue);
        // the wall clock and the monotonic base of the action times are read back to back: the
        // begin-time window of C18 is W + (monotonic offset)
        let (base, wall) = clock_anchor();
        let _ = writeln!(out, "W {}", wall);
        let orch = Orch::new(ring, stack, queue);
        let len = prof.len_lo + rng.below(prof.len_hi - prof.len_lo + 1);
        let wind = rng.chance(9, 10);
        let mut g = Gen {
            rng,
            prof: &prof,
            orch,
            threads: BTreeMap::new(),
            spans: BTreeMap::new(),
            lsets: vec![],
            adapters: BTreeMap::new(),
            next_handle: 0,
            next_trace: 0,
            next_sym: 0,
            coll: CollSt::Idle,
            installed: false,
            base,
            out,
            dead: false,
            focus: None,
            mute: false,
            nactions: 0,
            stats: &mut stats,
            eop_names: BTreeMap::new(),
            zero_prefix_used: false,
            reinstalls: 0,
            zero_trace_used: false,
        };
        if prof.name == "collect" && g.rng.chance(1, 3) {
            g.prelude_collect_open();
        } else if prof.adapters && g.rng.chance(1, if prof.name == "adapters" { 4 } else { 10 }) {
            g.prelude_final_poll();
        }
        while g.nactions < len && !g.dead {
            g.step();
        }
        if !wind {
            // release everything anyway, but off the record
            g.mute = true;
        }
        if !g.dead {
            g.wind_down();
        }
        let dead = g.dead;
        let Gen { orch, .. } = g;
        let _ = writeln!(out, "E");
        if dead {
            // the real system is in an unknown state (panic / stuck thread): start afresh
            for (k, v) in &stats {
                let _ = writeln!(out, "#stat {} {}", k, v);
            }
            let _ = writeln!(out, "#resume {}", k + 1);
            let _ = out.flush();
            // a stuck thread (blocked / deadlocked call): the first one is evidence enough, the
            // rest of the shard would only wait for more timeouts
            let stuck = stats.get("obs:timeout").copied().unwrap_or(0) > 0;
            std::process::exit(if stuck { 4 } else { 3 });
        }
        orch.shutdown();
    }
    for (k, v) in stats {
        let _ = writeln!(out, "#stat {} {}", k, v);
    }
}

/// re-execute logged histories (corpus, replays, shrinking): only the action tokens of the
/// log are used, the observations are produced afresh
pub fn replay(path: &str, out: &mut dyn Write) {
    let text = std::fs::read_to_string(path).expect("read replay file");
    let prof = profile("mixed");
    let mut stats: BTreeMap<String, u64> = BTreeMap::new();
    // the borrow of `out` inside Gen forces a small state machine over lines
    let lines: Vec<&str> = text.lines().collect();
    let mut i = 0;
    while i < lines.len() {
        let line = lines[i];
        i += 1;
        if line.starts_with("H ") {
            let f: Vec<&str> = line.split_whitespace().collect();
            let ring: usize = f[3].parse().unwrap_or(10240);
            let stack: usize = f[4].parse().unwrap_or(4096);
            let queue: usize = f[5].parse().unwrap_or(10240);
            let dbg = cfg!(debug_assertions);
            let _ = writeln!(out, "H {} {} {} {} {}", f[1], dbg as u8, ring, stack, queue);
            let (base, wall) = clock_anchor();
            let _ = writeln!(out, "W {}", wall);
            // collect the actions of this history
            let mut acts: Vec<Vec<String>> = vec![];
            while i < lines.len() && !lines[i].starts_with('E') {
                let l = lines[i];
                i += 1;
                if !l.starts_with("A ") {
                    continue;
                }
                let lhs = l.split(" => ").next().unwrap_or("");
                let toks: Vec<String> = lhs.split_whitespace().skip(3).map(|x| x.to_string()).collect();
                if !toks.is_empty() {
                    acts.push(toks);
                }
            }
            i += 1; // the E line
            let orch = Orch::new(ring, stack, queue);
            let mut g = Gen {
                rng: Rng::new(1),
                prof: &prof,
                orch,
                threads: BTreeMap::new(),
                spans: BTreeMap::new(),
                lsets: vec![],
                adapters: BTreeMap::new(),
                next_handle: 0,
                next_trace: 0,
                next_sym: 0,
                coll: CollSt::Idle,
                installed: false,
                base,
                out,
                dead: false,
                focus: None,
                mute: false,
                nactions: 0,
                stats: &mut stats,
                eop_names: BTreeMap::new(),
                zero_prefix_used: false,
            reinstalls: 0,
            zero_trace_used: false,
            };
            for toks in acts {
                if g.dead {
                    break;
                }
                // macro actions for hand-written witnesses: a whole cycle / all pending pushes
                if toks[0] == "CY" {
                    if g.coll == CollSt::Idle {
                        g.run_cycle();
                    } else {
                        g.run_cycle_rest();
                    }
                    continue;
                }
                if toks[0] == "PA" {
                    let t: usize = toks[1].parse().unwrap();
                    let mut guard = 0;
                    while !g.dead && guard < 100_000 && g.threads.get(&t).map(|x| x.st == TSt::Push || x.st == TSt::Exiting).unwrap_or(false) {
                        g.perform(Act::Push(t));
                        guard += 1;
                    }
                    continue;
                }
                let a = match toks[0].as_str() {
                    "I" => Act::Install(toks[1] == "1"),
                    "S" => Act::Spawn(toks[1].parse().unwrap(), toks[2].parse().unwrap(), toks[3].parse().unwrap()),
                    "C" => Act::Call(toks[1].parse().unwrap(), toks[2..].to_vec()),
                    "P" => Act::Push(toks[1].parse().unwrap()),
                    "X" => Act::Exit(toks[1].parse().unwrap()),
                    "CB" => Act::CB,
                    "CP" => Act::CP,
                    "CC" => Act::CC,
                    "CX" => Act::CX,
                    _ => continue,
                };
                // a replayed action must be enabled in the real system; otherwise stop here
                let ok = match &a {
                    Act::Call(t, _) => g.threads.get(t).map(|x| x.st == TSt::Ready).unwrap_or(false),
                    Act::Push(t) => g.threads.get(t).map(|x| x.st == TSt::Push || x.st == TSt::Exiting).unwrap_or(false),
                    Act::Exit(t) => g.threads.get(t).map(|x| x.st == TSt::Ready && x.nest.is_empty()).unwrap_or(false),
                    Act::Spawn(t, _, _) => !g.threads.contains_key(t) && g.coll != CollSt::Pop && g.coll != CollSt::Check,
                    Act::Install(_) => g.coll == CollSt::Idle,
                    Act::CB => g.installed && g.coll == CollSt::Idle,
                    Act::CP => g.coll == CollSt::Pop,
                    Act::CC => g.coll == CollSt::Check,
                    Act::CX => g.coll == CollSt::Process,
                };
                if !ok {
                    // the logged continuation is not possible in the real system: that is itself
                    // a difference between the code and whatever produced the log
                    let _ = writeln!(g.out, "A 0 0 {} => not-enabled", toks.join(" "));
                    let _ = writeln!(g.out, "#replay-stopped action not enabled in the real system: {}", toks.join(" "));
                    break;
                }
                if let Act::Call(t, toks) = &a {
                    g.pre_call(*t, toks);
                }
                g.perform(a);
            }
            let dead = g.dead;
            if !dead {
                g.mute = true;
                g.wind_down();
            }
            let dead = dead || g.dead;
            let Gen { orch, .. } = g;
            let _ = writeln!(out, "E");
            if dead {
                let _ = writeln!(out, "#replay-dead");
                let _ = out.flush();
                std::process::exit(3);
            }
            orch.shutdown();
        }
    }
}
