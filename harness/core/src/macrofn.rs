//! C15: the macro's `unescape_format_string` (its source text, extracted from
//! /repo/fastrace-macro/src/lib.rs by build.rs) run on generated strings; the Gallina model
//! `unescape` and the `scan` specification are evaluated on the same strings by the driver.
use crate::rng::Rng;
use std::io::Write;

#[allow(dead_code)]
mod extracted {
    include!(concat!(env!("OUT_DIR"), "/unescape_fn.rs"));
    pub fn call(s: &str) -> (String, bool) {
        unescape_format_string(s)
    }
}

fn hex(s: &str) -> String {
    if s.is_empty() {
        return "-".to_string();
    }
    s.bytes().map(|b| format!("{:02x}", b)).collect()
}

fn emit(s: &str, out: &mut dyn Write) {
    let r = std::panic::catch_unwind(|| extracted::call(s));
    match r {
        Ok((t, f)) => {
            let _ = writeln!(out, "U {} => {} {}", hex(s), hex(&t), f as u8);
        }
        Err(_) => {
            let _ = writeln!(out, "U {} => panic", hex(s));
        }
    }
}

pub fn generate(seed: u64, n: usize, out: &mut dyn Write) {
    if !extracted::EXTRACTED {
        let _ = writeln!(out, "X unescape_format_string => not-found-in-fastrace-macro");
    }
    // (1) every string over {'{', '}', 'a'} up to length 7 (shard 0 only)
    if seed % 1000 == 0 {
        let alpha = ['{', '}', 'a'];
        for len in 0..=7usize {
            let total = 3usize.pow(len as u32);
            for k in 0..total {
                let mut s = String::new();
                let mut x = k;
                for _ in 0..len {
                    s.push(alpha[x % 3]);
                    x /= 3;
                }
                emit(&s, out);
            }
        }
    }
    // (2) random strings: runs of braces of every parity, text, multi-byte characters, format specs
    let mut r = Rng::new(seed);
    let pieces = ["{", "}", "{{", "}}", "a", " ", "é", "値", ":", "{x}", "{}", "{0:>5}", "{{}}", "}}{{", "x y", "\"", "\\", "\n"];
    let lit = ["{{", "}}", "a", " ", "é", "}}}}", "{{{{", "b c"];
    for _ in 0..n {
        let k = r.below(9);
        // half of the strings have no argument (escaped braces and text only)
        let literal = r.chance(1, 2);
        let mut s = String::new();
        for _ in 0..k {
            let p = if literal { lit[r.below(lit.len())] } else if r.chance(1, 2) { pieces[r.below(4)] } else { pieces[r.below(pieces.len())] };
            s.push_str(p);
        }
        emit(&s, out);
    }
}
