mod codec;
mod live;
mod macrofn;
mod orch;
mod rng;
mod sys;
mod twins;

use std::io::Write;

fn arg<'a>(args: &'a [String], key: &str) -> Option<&'a str> {
    args.iter().position(|a| a == key).and_then(|i| args.get(i + 1)).map(|s| s.as_str())
}

fn main() {
    let args: Vec<String> = std::env::args().collect();
    let cmd = args.get(1).map(|s| s.as_str()).unwrap_or("");
    let seed: u64 = arg(&args, "--seed").and_then(|s| s.parse().ok()).unwrap_or(1);
    let n: usize = arg(&args, "--n").and_then(|s| s.parse().ok()).unwrap_or(1000);
    let outp = arg(&args, "--out");
    let mut out: Box<dyn Write> = match outp {
        Some(p) => Box::new(std::io::BufWriter::new(std::fs::File::create(p).expect("create out"))),
        None => Box::new(std::io::BufWriter::new(std::io::stdout())),
    };
    // silence panic messages of caught panics
    if std::env::var("VH_PANICS").is_err() { std::panic::set_hook(Box::new(|_| {})); }
    match cmd {
        "codec" => match arg(&args, "--replay") {
            Some(p) => codec::replay(p, &mut *out),
            None => codec::generate(seed, n, &mut *out),
        },
        "twins" => twins::generate(seed, n, &mut *out),
        "unescape" => macrofn::generate(seed, n, &mut *out),
        "live" => live::live(seed, n, &mut *out),
        "teardown" => live::teardown(seed, n, &mut *out),
        "longspan" => live::longspan(seed, n, &mut *out),
        "adrop" => live::adrop(seed, n, &mut *out),
        "aged" => live::aged(seed, n, &mut *out),
        "cflush" => live::cflush(seed, n, &mut *out),
        "unwind" => live::unwind(seed, n, &mut *out),
        "sys" => match arg(&args, "--replay") {
            Some(p) => sys::replay(p, &mut *out),
            None => sys::generate(seed, arg(&args, "--first").and_then(|s| s.parse().ok()).unwrap_or(0), n, arg(&args, "--profile").unwrap_or("mixed"), &mut *out),
        },
        _ => {
            eprintln!("usage: vharness codec|... [--seed N] [--n N] [--out FILE] [--replay FILE]");
            std::process::exit(2);
        }
    }
    out.flush().unwrap();
}
